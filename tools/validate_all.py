#!/usr/bin/env python3-vt
"""Development aid: validate MANIFEST.json and every evidence file against the schemas, and check that the
committed evidence describes clean runs (discharged == obligations, no violations).  Exit 1 on any problem."""
import glob
import json
import os
import sys

import jsonschema

ROOT = os.path.dirname(os.path.dirname(os.path.abspath(__file__)))
bad = []
man = json.load(open(os.path.join(ROOT, "MANIFEST.json")))
try:
    jsonschema.validate(man, json.load(open("/root/.vp/MANIFEST.schema.json")))
except Exception as e:
    bad.append(("MANIFEST.json", str(e)[:200]))
sch = json.load(open("/root/.vp/EVIDENCE.schema.json"))
props = [json.loads(l)["id"] for l in open(os.path.join(ROOT, "properties.jsonl"))]
claimed = [c["property_id"] for c in man["checks"]]
na = [x["property_id"] for x in man.get("not_applicable", [])]
for p in props:
    if p not in claimed and p not in na:
        bad.append((p, "neither claimed nor not_applicable"))
for p in claimed:
    f = os.path.join(ROOT, "evidence", p + ".json")
    if not os.path.exists(f):
        bad.append((p, "no evidence file"))
        continue
    d = json.load(open(f))
    try:
        jsonschema.validate(d, sch)
    except Exception as e:
        bad.append((p, "schema: " + str(e)[:150]))
        continue
    c = d["coverage"]
    if d["level"] == "proof" and c.get("discharged") != c.get("obligations"):
        bad.append((p, "discharged %s != obligations %s" % (c.get("discharged"), c.get("obligations"))))
    if d.get("violations"):
        bad.append((p, "violations = %s" % d["violations"]))
    if d.get("tier") != "quick":
        bad.append((p, "tier is %s (commit evidence of the quick tier)" % d.get("tier")))
for b in bad:
    print("PROBLEM:", b)
print("ok" if not bad else "%d problems" % len(bad))
sys.exit(1 if bad else 0)
