"""C18: Cargo features never change observable behaviour.

The same generated cases are run on the real crate built under every supported feature configuration
(the 18 combinations printed by /repo/run-feature-combinations plus the pinned default) and each real
trace is compared with the single trace of the Coq model (which has no notion of features).  Parts:
  * timers harness (harness/t): timer API histories - results and internal timer state after every op
  * runtime harness (harness/r): generated programs over queues, actors, Ret/Fwd, timers, logging
    (plugged in when layer_r provides cfg hooks)
Coq side (Props/C18.v): the cfg-selected alternatives implement one interface (see docs/layer_cfg.md).
"""
import itertools
import os
import shutil
import subprocess
import time
from concurrent.futures import ThreadPoolExecutor

import vlib
import layer_t

PINS = ["C18_count_roundtrip", "C18_count_interface", "C18_minrc_interface",
        # deferrer variants of the runtime machine (coq/R/Dkind.v, DkindSim.v; see docs/layer_cfg.md)
        "C18_deferrer_prefix", "C18_deferrer_prefix_any", "C18_deferrer_full",
        "C18_deferrer_example", "C18_deferrer_new_first_needed", "C18_deferrer_full_example",
        "C18_deferrer_limbo_flag_insufficient"]


def configurations():
    """[(name, features list, no_default)] : pinned default + the 18 supported combinations."""
    a = [[], ["multi-thread"], ["multi-stakker", "logger"]]
    b = [[], ["no-unsafe-queue"], ["no-unsafe"]]
    c = [[], ["inline-deferrer", "inter-thread"]]
    res = [("default", ["inter-thread"], True)]
    for x, y, z in itertools.product(a, b, c):
        f = x + y + z
        res.append(("+".join(f) if f else "none", f, True))
    return res


def check_config_list():
    """The list above must be what the repository's own script declares supported."""
    try:
        out = subprocess.run(["perl", os.path.join(vlib.REPO, "run-feature-combinations")], stdout=subprocess.PIPE, text=True, timeout=60).stdout
    except Exception as ex:  # pragma: no cover
        return ["cannot run run-feature-combinations: %s" % ex]
    declared = set()
    for line in out.strip().split("\n"):
        m = line.replace("--no-default-features", "").replace("--features", "").strip()
        declared.add(frozenset(x for x in m.split(",") if x))
    ours = set(frozenset(f) for n, f, _ in configurations() if n != "default")
    probs = []
    if declared != ours:
        probs.append("supported feature combinations changed: declared %d, checked %d; missing %s" % (
            len(declared), len(ours), sorted(",".join(sorted(x)) for x in declared - ours)))
    return probs


def build_one(cfg, crate):
    name, feats, nd = cfg
    ok, tdir, log = vlib.harness_build(crate, features=feats, no_default=nd, tag="cfg-" + name.replace("+", "_").replace("-", ""), timeout=900)
    return name, ok, tdir, log


def run(prop, tier, seed):
    t0 = time.time()
    ev = vlib.Evidence(prop, tier, seed, "proof")
    shutil.rmtree(os.path.join(vlib.OUT, "replay", prop), ignore_errors=True)
    problems = []
    ok, tprobs = vlib.translate()
    if not ok:
        problems += ["translator: " + p for p in tprobs]
    audit = vlib.props_audit(prop, PINS)
    if not audit["ok"]:
        problems += ["proof: " + p for p in audit["problems"]]
    problems += check_config_list()
    cfgs = configurations()
    # ---- timers part
    okx, xlog = vlib.coq_build(["T/Extract.vo"])
    if not okx:
        raise RuntimeError("T/Extract.vo does not build")
    driver = vlib.ocaml_driver("t_driver", "t_model.ml", "t_driver.ml")
    layer_t.write_cargo()
    with ThreadPoolExecutor(max_workers=6) as ex:
        built = list(ex.map(lambda c: build_one(c, "t"), cfgs))
    bins = []
    for name, okb, tdir, log in built:
        if not okb:
            vlib.log(log[-2000:])
            raise RuntimeError("harness/t does not build under configuration %s" % name)
        bins.append((name, os.path.join(tdir, "timers_drv")))
    n = 600 if tier == "quick" else 6000
    text, dist = layer_t.gen_cases(seed * 7919 + 18, n, "C18")
    corpus = "".join(open(f).read() for f in layer_t.corpus_files())
    text = corpus + text
    cases = layer_t.parse_cases(text)
    rc_, mout, merr = layer_t.run_bin(driver, ["model"], text)
    model = layer_t.parse_results(mout)

    def run_cfg(b):
        name, binp = b
        rc2, rout, rerr = layer_t.run_bin(binp, [], text)
        return name, rc2, layer_t.parse_results(rout), rerr

    with ThreadPoolExecutor(max_workers=8) as ex:
        reals = list(ex.map(run_cfg, bins))
    diffs = []          # (config, case, op index, real, model)
    total_ops = 0
    # full execution order of every run (deferred calls and timer callbacks with the Core::now they observed):
    # the model has no such line, so configurations are compared with the pinned default configuration
    ref_real = [r for r in reals if r[0] == "default"][0][2]
    for name, rc2, real, rerr in reals:
        if rc2 != 0 or name == "default":
            continue
        for cname, ops in cases:
            xa = layer_t.XLINES.get(id(real.get(cname)), {})
            xb = layer_t.XLINES.get(id(ref_real.get(cname)), {})
            for j in sorted(set(xa) | set(xb)):
                if xa.get(j) != xb.get(j):
                    diffs.append((name, cname, j, "execution order " + str(xa.get(j)), "default configuration: " + str(xb.get(j))))
                    break
    for name, rc2, real, rerr in reals:
        if rc2 != 0:
            diffs.append((name, "<driver>", 0, "exit %d: %s" % (rc2, rerr[-300:]), ""))
            continue
        for cname, ops in cases:
            rr, mm = real.get(cname, []), model.get(cname, [])
            for j in range(len(ops)):
                total_ops += 1
                r = rr[j] if j < len(rr) else ("MISSING", None)
                m = mm[j] if j < len(mm) else ("MISSING", None)
                if r != m:
                    diffs.append((name, cname, j, r, m))
                    break
    # ---- runtime part (optional plug-in)
    rparts = {}
    try:
        import layer_r
        if hasattr(layer_r, "cfg_check"):
            rparts = layer_r.cfg_check(cfgs, tier, seed)      # {"diffs": [...], "programs": n, ...}
            for d in rparts.get("diffs", []):
                diffs.append(d)
    except ImportError:
        pass
    rc = 0
    if diffs:
        name, cname, j, r, m = diffs[0][:5]
        ops = dict(cases).get(cname, [])
        path = vlib.replay_path(prop, "config-%s.txt" % name.replace("+", "_"))
        with open(path, "w") as f:
            f.write("# VIOLATION of C18: configuration `%s` behaves differently from the model (and hence from the other configurations)\n" % name)
            f.write("# case %s op %d: real %r\n#                 model %r\n" % (cname, j, r, m))
            f.write("# %d differing (configuration, case) pairs in total: %s\n" % (len(diffs), sorted(set(d[0] for d in diffs))))
            f.write("# replay: build harness with features of that configuration and run the case below through timers_drv / the runtime interpreter\n")
            if ops:
                f.write(layer_t.case_text(cname, ops[:j + 1]))
            elif len(diffs[0]) > 5 and diffs[0][5]:
                f.write("# runtime-layer program (harness/r format):\n" + str(diffs[0][5]) + "\n")
        vlib.violation(prop, path)
        ev.violations = len(diffs)
        rc = 1
    elif problems:
        path = vlib.replay_path(prop, "tie-broken.txt")
        with open(path, "w") as f:
            f.write("\n".join("# " + p for p in problems) + "\n# searched %d cases x %d configurations: no difference found\n" % (len(cases), len(cfgs)))
        vlib.violation(prop, path, no_input=True)
        ev.violations = 1
        rc = 1
    # scratch target dirs are large: drop the per-configuration ones in the thorough tier only (quick keeps the cache warm)
    if tier == "thorough":
        for name, _, _ in cfgs:
            shutil.rmtree(os.path.join(vlib.CACHE, "target-t-cfg-" + name.replace("+", "_").replace("-", "")), ignore_errors=True)
    tfiles = [f for f in vlib.coq_deps("Props/%s.v" % prop) if not f.startswith("Gen/")]
    nthm = vlib.count_theorems(tfiles) if audit["ok"] else 0
    ev.cov = {
        "obligations": max(nthm, audit["obligations"]), "discharged": max(nthm, audit["obligations"]) if audit["ok"] else 0,
        "checker_cmd": "make -C coq Props/C18.vo && coqc Props/C18.v with Print Assumptions",
        "trusted_base": vlib.TRUSTED_BASE_COMMON + ["axioms: %s" % (", ".join(audit["axioms"]) or "none")],
        "configurations": [c[0] for c in cfgs], "evaluations": len(cases) * len(cfgs) + int(rparts.get("comparisons", 0) or 0),
        "distinct_nontrivial": len(cases) + int(rparts.get("programs", 0) or 0),
        "rule": "every generated case is run under each of the 19 configurations and compared op by op (results + timer state dump) with the single model trace; distinct = distinct cases",
        "traces_validated_against_impl": len(cases) * len(cfgs) + int(rparts.get("equal", 0) or 0), "ops_compared": total_ops, "differences": len(diffs),
        "distribution": dist, "runtime_layer": {k: v for k, v in rparts.items() if k != "diffs"},
        "samples": [{"case": cases[-1][0], "ops": cases[-1][1][:20]}], "proof_problems": problems,
        "explanation": "proof-partial: equality across real builds is sampled (all 19 configurations x generated cases); the theorems cover the model-level statement that cfg-selected alternatives implement one interface",
    }
    ev.assumptions = ["the model has no feature switch: its trace is a function of the program alone",
                      "per-configuration equality is established by running the cases, not by proof (proof-partial)"]
    ev.write()
    return rc


def replay(prop, path):
    print(open(path).read())
    return run(prop, "quick", 1)
