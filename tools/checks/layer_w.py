"""Layer W check: properties C11..C14 (Waker bitmap, waker drop, Channel, PipedThread).

run(prop, tier, seed) / replay(prop, path) following docs/DEV_GUIDE.md.

Per run:
  1. translate (coq/Gen/SrcWaker.v is regenerated from the repo's sync/waker.rs);
  2. build + audit coq/Props/<prop>.v (theorems about the interleaving model coq/W/Waker.v);
  3. build the harness (harness/w, real stakker compiled against the scheduler shim) and the OCaml driver around
     the extracted model;
  4. generate scenarios + schedules from the seed; run the REAL code under the shim; replay the very same thread-id
     sequence on the model; diff the two traces event by event (objects up to a bijective renaming);
  5. evaluate the executable monitors (extracted from Coq) on the REAL traces;
  6. verdict, shrinking, evidence.
"""
import concurrent.futures
import json
import os
import random
import re
import subprocess
import sys
import time

sys.path.insert(0, os.path.dirname(os.path.dirname(os.path.abspath(__file__))))
import vlib  # noqa: E402

LAYER_V = ["W/Waker.v", "W/WakerInv.v", "W/WakerProofs.v", "W/Monitors.v", "W/Chan.v", "W/Pipe.v"]
PINS = {
    "C11": ["C11_coverage_invariant", "C11_not_stranded", "C11_handler_after_wake", "C11_publishes", "C11_monitor"],
    "C12": ["C12_drop_once_last", "C12_slots", "C12_monitor"],
    "C13": ["C13_channel", "C13_monitor"],
    "C14": ["C14_piped", "C14_monitor"],
}
WDIR = os.path.join(vlib.ROOT, "harness", "w")
WORK = os.path.join(vlib.OUT, "w")


# ----------------------------------------------------------------------------------------------
# building
# ----------------------------------------------------------------------------------------------

def write_cargo_toml():
    tmpl = open(os.path.join(WDIR, "Cargo.toml.in")).read()
    vlib.write_if_changed(os.path.join(WDIR, "Cargo.toml"), tmpl.replace("@REPO@", os.path.abspath(vlib.REPO)))
    # the lock file is copied from the repo the harness is built against
    lock = os.path.join(WDIR, "Cargo.lock")
    try:
        want = open(os.path.join(vlib.REPO, "Cargo.lock")).read()
        if not os.path.exists(lock) or open(lock).read() != want:
            with open(lock, "w") as f:
                f.write(want)
    except OSError:
        pass


def build_real():
    write_cargo_toml()
    ok, bdir, log = vlib.harness_build("w", shim=True, bins=["conc_drv"])
    return ok, os.path.join(bdir, "conc_drv"), log


def build_model():
    ok, log = vlib.coq_build(["W/Extract.vo"])
    if not ok:
        return False, None, log
    try:
        return True, vlib.ocaml_driver("w_driver", "w_model.ml", "w_driver.ml"), log
    except RuntimeError as ex:
        return False, None, log + "\n" + str(ex)


# ----------------------------------------------------------------------------------------------
# cases
# ----------------------------------------------------------------------------------------------

class Case:
    """scripts: {tid: [cmd,...]}, sched: ("tids", [..]) | ("pct", prio, change), seed"""

    def __init__(self, scripts, sched, seed, kind=""):
        self.scripts, self.sched, self.seed, self.kind = scripts, sched, seed, kind

    def text(self, tids=None):
        out = ["# kind %s" % self.kind]
        if tids is not None:
            out.append("sched tids " + " ".join(str(t) for t in tids))
        elif self.sched[0] == "tids":
            out.append("sched tids " + " ".join(str(t) for t in self.sched[1]))
        else:
            out.append("sched pct %s / %s" % (" ".join(map(str, self.sched[1])), " ".join(map(str, self.sched[2]))))
        out.append("seed %d" % self.seed)
        out.append("maxsteps 20000")
        for t in sorted(self.scripts):
            out.append("thread %d %s" % (t, " ; ".join(self.scripts[t])))
        return "\n".join(out) + "\n"

    def model_job(self, jid, tids):
        out = ["JOB %s" % jid]
        for t in sorted(self.scripts):
            out.append("thread %d %s" % (t, " ; ".join(self.scripts[t])))
        out.append("tids " + " ".join(str(t) for t in tids))
        out.append("RUN")
        return "\n".join(out) + "\n"

    def ncmds(self):
        return sum(len(v) for v in self.scripts.values())


def parse_case(text):
    scripts, sched, seed = {}, ("tids", []), 1
    kind = ""
    for line in text.split("\n"):
        line = line.strip()
        if line.startswith("# kind"):
            kind = line[6:].strip()
        if not line or line.startswith("#"):
            continue
        k, _, rest = line.partition(" ")
        if k == "thread":
            t, _, sc = rest.strip().partition(" ")
            scripts[int(t)] = [c.strip() for c in sc.split(";") if c.strip()]
        elif k == "seed":
            seed = int(rest)
        elif k == "sched":
            m, _, r2 = rest.strip().partition(" ")
            if m == "tids":
                sched = ("tids", [int(x) for x in r2.split()])
            else:
                a, _, b = r2.partition("/")
                sched = ("pct", [int(x) for x in a.split()], [int(x) for x in b.split()])
    return Case(scripts, sched, seed, kind)


def gen_sched(rng, nthreads, est_steps):
    r = rng.random()
    if r < 0.45:
        return ("tids", [])                      # pure seeded random choice in the controller
    if r < 0.80:
        prio = list(range(10000, 10000 + nthreads + 1))
        rng.shuffle(prio)
        d = rng.choice([0, 1, 1, 2, 2, 3, 4])
        change = sorted(rng.randint(1, max(2, est_steps)) for _ in range(d))
        return ("pct", prio, change)
    # bursty explicit prefix then random tail
    tids = []
    for _ in range(rng.randint(1, 12)):
        tids += [rng.randint(0, nthreads)] * rng.randint(1, 8)
    return ("tids", tids)


def gen_waker_case(rng, prop, big=False):
    """plain wakers: wake/drop from workers against poll_wake; placement by `fill`."""
    nw = rng.randint(1, 6)
    nt = rng.randint(2, 4)
    placement = rng.choice(["same-leaf", "same-leaf", "other-words", "mixed"]) if not big else "big"
    main = []
    wakers = list(range(1, nw + 1))
    if placement == "big":
        # wakers around the end of the first bitmap: slots 4095 | 4096 is reserved -> re-homed to 4097 ...
        main.append("fill %d" % rng.choice([4088, 4090, 4092, 4093, 4094]))
    for w in wakers:
        main.append("new %d" % w)
        if placement == "other-words" or (placement == "mixed" and rng.random() < 0.5):
            main.append("fill %d" % rng.choice([63, 64, 65, 70, 128]))
    owner = {w: rng.randint(1, nt) for w in wakers}
    shared = set(w for w in wakers if rng.random() < 0.2)
    scripts = {}
    dropped = set()
    extra_new = nw + 1
    for t in range(1, nt + 1):
        sc = []
        mine = [w for w in wakers if owner[w] == t]
        for _ in range(rng.randint(1, 5)):
            r = rng.random()
            cand = [w for w in mine if w not in dropped] + [w for w in shared if w not in dropped]
            if not cand:
                if rng.random() < 0.3:
                    sc.append("wake %d" % rng.choice(wakers))       # bad command (dropped / foreign)
                continue
            w = rng.choice(cand)
            want_drop = 0.35 if prop == "C12" else 0.15
            if r < want_drop and w in mine and w not in shared:
                sc.append("drop %d" % w)
                dropped.add(w)
            else:
                sc.append("wake %d" % w)
        scripts[t] = sc
    body = ["spawn"] * nt
    for _ in range(rng.randint(0, 4)):
        body.append("poll")
    if prop == "C12" or rng.random() < 0.3:
        for _ in range(rng.randint(0, 3)):
            body.append("new %d" % extra_new)                         # may reuse a freed slot
            extra_new += 1
            body.append("poll")
    rest = body[nt:]
    rng.shuffle(rest)
    main += body[:nt] + rest + ["join", "poll"]
    if rng.random() < 0.3:
        main.append("poll")
    # wakers created late can be woken by main itself
    scripts[0] = main
    est = 6 * sum(len(v) for v in scripts.values())
    return Case(scripts, gen_sched(rng, nt, est), rng.randint(1, 2 ** 31), "waker/" + placement)


def gen_chan_case(rng):
    nc = rng.choice([1, 1, 2])
    ns = rng.randint(1, 3)
    main = []
    if rng.random() < 0.3:
        main.append("new 1")
    for c in range(nc):
        main.append("cnew %d" % c)
    scripts = {}
    msg = 100
    for t in range(1, ns + 1):
        sc = []
        for _ in range(rng.randint(1, 3)):
            c = rng.randrange(nc)
            if rng.random() < 0.15:
                sc.append("closed %d" % c)
            sc.append("send %d %d" % (c, msg))
            msg += 1
        if rng.random() < 0.3:
            sc.append("closed %d" % rng.randrange(nc))
        scripts[t] = sc
    body = ["poll"] * rng.randint(0, 3)
    for c in range(nc):
        if rng.random() < 0.6:
            body.append("cdrop %d" % c)
    if rng.random() < 0.3:
        body.append("send 0 %d" % msg)
    rng.shuffle(body)
    main += ["spawn"] * ns + body + ["join", "poll"]
    for c in range(nc):
        if rng.random() < 0.3 and ("cdrop %d" % c) not in main:
            main += ["cdrop %d" % c, "poll"]
    scripts[0] = main
    est = 8 * sum(len(v) for v in scripts.values())
    return Case(scripts, gen_sched(rng, ns, est), rng.randint(1, 2 ** 31), "chan")


def gen_pipe_case(rng):
    np_ = rng.choice([1, 1, 1, 2])
    main = []
    scripts = {}
    msg = 500
    tid = 1
    body = []
    for p in range(np_):
        main.insert(p, "pnew %d" % p)
        sc = []
        n_send = rng.randint(0, 3)
        for _ in range(rng.randint(1, 5)):
            r = rng.random()
            if r < 0.4:
                sc.append("recv")
            elif r < 0.8:
                sc.append("lsend %d" % msg)
                msg += 1
            elif r < 0.9:
                sc.append("cancel")
            else:
                sc.append("panic")
                break
        scripts[tid] = sc
        tid += 1
        for _ in range(n_send):
            body.append("psend %d %d" % (p, msg))
            msg += 1
    body += ["poll"] * rng.randint(0, 3)
    rng.shuffle(body)
    main += body
    # always drop the pipes before joining (a worker blocked in recv would otherwise be a legitimate deadlock)
    drops = ["pdrop %d" % p for p in range(np_)]
    if rng.random() < 0.5:
        k = rng.randint(np_, len(main))
        main = main[:k] + drops[:1] + main[k:]
        drops = drops[1:]
        if rng.random() < 0.5:
            main.append("psend 0 %d" % msg)      # after drop: bad command (handle gone)
    main += drops + ["join", "poll"]
    scripts[0] = main
    est = 8 * sum(len(v) for v in scripts.values())
    return Case(scripts, gen_sched(rng, np_, est), rng.randint(1, 2 ** 31), "pipe")


def gen_mixed_case(rng):
    """plain wakers + a channel + a piped thread sharing one leaf word"""
    main = ["new 1", "cnew 0", "pnew 0", "new 2", "spawn", "spawn"]
    scripts = {1: [], 2: [], 3: []}
    for _ in range(rng.randint(1, 4)):
        scripts[1].append(rng.choice(["recv", "lsend 7%d" % rng.randint(0, 9), "cancel"]))
    for t, w in ((2, 1), (3, 2)):
        for k in range(rng.randint(1, 4)):
            scripts[t].append(rng.choice(["wake %d" % w, "send 0 %d" % (100 * t + k), "wake %d" % w]))
        if rng.random() < 0.4:
            scripts[t].append("drop %d" % w)
    body = ["poll", "poll", "psend 0 900", "psend 0 901", "cdrop 0", "pdrop 0"]
    rng.shuffle(body)
    if "pdrop 0" not in body[:]:
        body.append("pdrop 0")
    main += body + ["join", "poll"]
    scripts[0] = main
    est = 8 * sum(len(v) for v in scripts.values())
    return Case(scripts, gen_sched(rng, 3, est), rng.randint(1, 2 ** 31), "mixed")


def gen_case(rng, prop):
    r = rng.random()
    if prop in ("C11", "C12"):
        if r < 0.06:
            return gen_waker_case(rng, prop, big=True)
        if r < 0.86:
            return gen_waker_case(rng, prop)
        if r < 0.93:
            return gen_mixed_case(rng)
        return gen_chan_case(rng) if rng.random() < 0.5 else gen_pipe_case(rng)
    if prop == "C13":
        if r < 0.85:
            return gen_chan_case(rng)
        return gen_mixed_case(rng)
    if r < 0.85:
        return gen_pipe_case(rng)
    return gen_mixed_case(rng)


# ----------------------------------------------------------------------------------------------
# running and comparing
# ----------------------------------------------------------------------------------------------

def run_real(conc, case, path, tids=None):
    with open(path, "w") as f:
        f.write(case.text(tids))
    try:
        p = subprocess.run([conc, path], stdout=subprocess.PIPE, stderr=subprocess.PIPE, text=True, timeout=60)
        out, err, rc = p.stdout, p.stderr, p.returncode
    except subprocess.TimeoutExpired:
        out, err, rc = "", "timeout", 124
    lines = [l.rstrip() for l in out.split("\n") if l.strip()]
    return lines, err, rc


def tids_of(lines):
    tids, last = [], 0
    for l in lines:
        if l.startswith("END"):
            break
        f = l.split(" ")
        s = int(f[0])
        if s != last:
            last = s
            tids.append(int(f[1]))
    return tids


def run_model_batch(driver, jobs):
    """jobs: list of (id, Case, tids) -> {id: [lines]}"""
    text = "".join(c.model_job(j, tids) for j, c, tids in jobs)
    p = subprocess.run([driver], input=text, stdout=subprocess.PIPE, stderr=subprocess.PIPE, text=True, timeout=1200)
    res, cur = {}, None
    for l in p.stdout.split("\n"):
        if l.startswith("JOB "):
            cur = l[4:].strip()
            res[cur] = []
        elif cur is not None and l.strip():
            res[cur].append(l.rstrip())
    return res, p.stderr


def canon(lines):
    """drop ghost events; rename objects by first appearance (a consistent bijection real<->model is then equality)"""
    names, out = {}, []

    def nm(x):
        if x not in names:
            names[x] = "o%d" % len(names)
        return names[x]
    for l in lines:
        f = l.split(" ")
        if f[0] == "END":
            continue
        if f[2].startswith("#") or f[2] == "X":
            continue
        if f[2] in ("A", "L", "U", "N"):
            f[3] = nm(f[3])
        elif f[2] in ("CW", "CR"):
            f[3] = nm(f[3])
            f[4] = nm(f[4])
        else:
            f[3] = "0"
        out.append(" ".join(f).rstrip())
    return out


def end_fields(lines):
    for l in reversed(lines):
        if l.startswith("END"):
            return dict(kv.split("=", 1) for kv in l.split()[1:])
    return {}


def diff_traces(real, model):
    """None if equal, else (index, real line, model line)"""
    cr, cm = canon(real), canon(model)
    for i in range(max(len(cr), len(cm))):
        a = cr[i] if i < len(cr) else None
        b = cm[i] if i < len(cm) else None
        if a != b:
            return (i, a, b)
    er, em = end_fields(real), end_fields(model)
    if er.get("aborted", "-") == "-" and em.get("unfinished", ""):
        return (len(cr), "END all threads finished", "END unfinished=" + em.get("unfinished", ""))
    if er.get("aborted") == "deadlock" and em.get("enabled", ""):
        return (len(cr), "END deadlock", "END enabled=" + em.get("enabled", ""))
    return None
