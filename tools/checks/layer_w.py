"""Layer W check: properties C11..C14 (Waker bitmap, waker drop, Channel, PipedThread).

run(prop, tier, seed) / replay(prop, path) following docs/DEV_GUIDE.md.

Per run:
  1. translate (coq/Gen/SrcWaker.v is regenerated from the repo's sync/waker.rs);
  2. build + audit coq/Props/<prop>.v (theorems about the interleaving model coq/W/Waker.v);
  3. build the harness (harness/w, real stakker compiled against the scheduler shim) and the OCaml driver around
     the extracted model;
  4. generate scenarios + schedules from the seed; run the REAL code under the shim; replay the very same thread-id
     sequence on the model; diff the two traces event by event (objects up to a bijective renaming);
  5. evaluate the executable monitors (extracted from Coq) on the REAL traces;
  6. verdict, shrinking, evidence.
"""
import atexit
import concurrent.futures
import json
import os
import random
import re
import shutil
import subprocess
import sys
import time

sys.path.insert(0, os.path.dirname(os.path.dirname(os.path.abspath(__file__))))
import vlib  # noqa: E402

PINS = {
    "C11": ["C11_coverage_invariant", "C11_not_stranded", "C11_ordering", "C11_handler_after_wake", "C11_publishes"],
    "C12": ["C12_trace", "C12_slots", "C12_del_guard", "C12_del_not_reserved", "C12_add_slots", "C12_drop_list_covered", "C12_drops_not_stranded",
            "C12_live_waker_keeps_slot", "C12_deleted_only_dropped", "C12_dropped_at_most_once"],
    "C13": ["C13_trace", "C13_queue_owed", "C13_not_stranded", "C13_closed_empty", "C13_channel_partial"],
    "C14": ["C14_trace", "C14_replies_partial", "C14_recv_not_lost", "C14_recv_wait_decided", "C14_reply_queue_owed", "C14_replies_not_stranded",
            "C14_reply_wake_hits_handler", "C14_piped_partial"],
}
WDIR = os.path.join(vlib.ROOT, "harness", "w")
# case files of concurrent runs (other properties, scratch-repo runs of other people) must not collide
WORK = os.path.join(vlib.OUT, "w", "run-%d" % os.getpid())
atexit.register(lambda: shutil.rmtree(WORK, ignore_errors=True))


# ----------------------------------------------------------------------------------------------
# building
# ----------------------------------------------------------------------------------------------

def write_cargo_toml():
    tmpl = open(os.path.join(WDIR, "Cargo.toml.in")).read()
    vlib.write_if_changed(os.path.join(WDIR, "Cargo.toml"), tmpl.replace("@REPO@", os.path.abspath(vlib.REPO)))
    # the lock file is copied from the repo the harness is built against
    lock = os.path.join(WDIR, "Cargo.lock")
    try:
        want = open(os.path.join(vlib.REPO, "Cargo.lock")).read()
        if not os.path.exists(lock) or open(lock).read() != want:
            with open(lock, "w") as f:
                f.write(want)
    except OSError:
        pass


def build_real():
    """Build conc_drv against vlib.REPO.  The unchanged repo uses harness/w + the shared target dir; a scratch repo
    (VERIF_REPO) gets its own copy of the crate and its own target dir under .cache, so that concurrent runs against
    different repos never exchange Cargo.toml / binaries."""
    default_repo = os.path.realpath(vlib.REPO) == os.path.realpath("/repo")
    if default_repo:
        write_cargo_toml()
        ok, bdir, log = vlib.harness_build("w", shim=True, bins=["conc_drv"])
        return ok, os.path.join(bdir, "conc_drv"), log
    import hashlib
    import shutil
    tag = hashlib.sha256(os.path.realpath(vlib.REPO).encode()).hexdigest()[:10]
    cdir = os.path.join(vlib.CACHE, "harness-w-" + tag)
    tdir = os.path.join(vlib.CACHE, "target-w-" + tag)
    with vlib.Lock("cargo-w-" + tag):
        os.makedirs(os.path.join(cdir, "src", "bin"), exist_ok=True)
        for root, _dirs, files in os.walk(os.path.join(WDIR, "src")):
            rel = os.path.relpath(root, WDIR)
            os.makedirs(os.path.join(cdir, rel), exist_ok=True)
            for f in files:
                vlib.write_if_changed(os.path.join(cdir, rel, f), open(os.path.join(root, f)).read())
        tmpl = open(os.path.join(WDIR, "Cargo.toml.in")).read()
        vlib.write_if_changed(os.path.join(cdir, "Cargo.toml"), tmpl.replace("@REPO@", os.path.abspath(vlib.REPO)))
        try:
            shutil.copy(os.path.join(vlib.REPO, "Cargo.lock"), os.path.join(cdir, "Cargo.lock"))
        except OSError:
            pass
        env = {"RUSTFLAGS": "--cfg %s" % vlib.GUARD,
               "UAZU_STAKKER_VERIF_STD": os.path.join(vlib.ROOT, "harness", "shim", "verif_std.rs")}
        rc, log = vlib.run(["cargo", "build", "--offline", "--target-dir", tdir, "--bin", "conc_drv"],
                           cwd=cdir, env=env, timeout=1500)
    return rc == 0, os.path.join(tdir, "debug", "conc_drv"), log


def translate():
    ok, probs = vlib.translate()
    # scratch-repo runs build in a mirror of the Coq tree whose compiled files are copied from the main tree:
    # make sure everything that depends on the regenerated Gen/SrcWaker.v is rebuilt against it
    if vlib.COQ != vlib.COQ_SRC:
        try:
            os.utime(os.path.join(vlib.COQ, "Gen", "SrcWaker.v"), None)
        except OSError:
            pass
    return ok, probs


def build_model():
    ok, log = vlib.coq_build(["W/Extract.vo"])
    if not ok:
        return False, None, log
    try:
        return True, vlib.ocaml_driver("w_driver", "w_model.ml", "w_driver.ml"), log
    except RuntimeError as ex:
        return False, None, log + "\n" + str(ex)


# ----------------------------------------------------------------------------------------------
# cases
# ----------------------------------------------------------------------------------------------

class Case:
    """scripts: {tid: [cmd,...]}, sched: ("tids", [..]) | ("pct", prio, change), seed"""

    def __init__(self, scripts, sched, seed, kind=""):
        self.scripts, self.sched, self.seed, self.kind = scripts, sched, seed, kind

    def text(self, tids=None):
        out = ["# kind %s" % self.kind]
        if tids is not None:
            out.append("sched tids " + " ".join(str(t) for t in tids))
        elif self.sched[0] == "tids":
            out.append("sched tids " + " ".join(str(t) for t in self.sched[1]))
        else:
            out.append("sched pct %s / %s" % (" ".join(map(str, self.sched[1])), " ".join(map(str, self.sched[2]))))
        out.append("seed %d" % self.seed)
        out.append("maxsteps 20000")
        for t in sorted(self.scripts):
            out.append("thread %d %s" % (t, " ; ".join(self.scripts[t])))
        return "\n".join(out) + "\n"

    def model_job(self, jid, tids):
        out = ["JOB %s" % jid]
        for t in sorted(self.scripts):
            out.append("thread %d %s" % (t, " ; ".join(self.scripts[t])))
        out.append("tids " + " ".join(str(t) for t in tids))
        out.append("RUN")
        return "\n".join(out) + "\n"

    def ncmds(self):
        return sum(len(v) for v in self.scripts.values())


def parse_case(text):
    scripts, sched, seed = {}, ("tids", []), 1
    kind = ""
    for line in text.split("\n"):
        line = line.strip()
        if line.startswith("# kind"):
            kind = line[6:].strip()
        if not line or line.startswith("#"):
            continue
        k, _, rest = line.partition(" ")
        if k == "thread":
            t, _, sc = rest.strip().partition(" ")
            scripts[int(t)] = [c.strip() for c in sc.split(";") if c.strip()]
        elif k == "seed":
            seed = int(rest)
        elif k == "sched":
            m, _, r2 = rest.strip().partition(" ")
            if m == "tids":
                sched = ("tids", [int(x) for x in r2.split()])
            else:
                a, _, b = r2.partition("/")
                sched = ("pct", [int(x) for x in a.split()], [int(x) for x in b.split()])
    return Case(scripts, sched, seed, kind)


def gen_sched(rng, nthreads, est_steps):
    r = rng.random()
    if r < 0.45:
        return ("tids", [])                      # pure seeded random choice in the controller
    if r < 0.80:
        prio = list(range(10000, 10000 + nthreads + 1))
        rng.shuffle(prio)
        d = rng.choice([0, 1, 1, 2, 2, 3, 4])
        change = sorted(rng.randint(1, max(2, est_steps)) for _ in range(d))
        return ("pct", prio, change)
    # bursty explicit prefix then random tail
    tids = []
    for _ in range(rng.randint(1, 12)):
        tids += [rng.randint(0, nthreads)] * rng.randint(1, 8)
    return ("tids", tids)


BIG_FILLS = [4090, 4093, 4094, 4095, 4096, 4100, 8189, 8190]     # other live wakers created first


def gen_waker_case(rng, prop, big=False):
    """plain wakers: wake/drop from workers against poll_wake; placement by `fill`."""
    nw = rng.randint(1, 6)
    nt = rng.randint(2, 4)
    placement = rng.choice(["same-leaf", "same-leaf", "other-words", "mixed"]) if not big else "big"
    main = []
    wakers = list(range(1, nw + 1))
    if placement == "big":
        # wakers around the end of the first bitmap: slots 4095 | 4096 is reserved -> re-homed to 4097 ...
        main.append("fill %d" % rng.choice([4088, 4090, 4092, 4093, 4094]))
    for w in wakers:
        main.append("new %d" % w)
        if placement == "other-words" or (placement == "mixed" and rng.random() < 0.5):
            main.append("fill %d" % rng.choice([63, 64, 65, 70, 128]))
    owner = {w: rng.randint(1, nt) for w in wakers}
    shared = set(w for w in wakers if rng.random() < 0.2)
    scripts = {}
    dropped = set()
    extra_new = nw + 1
    for t in range(1, nt + 1):
        sc = []
        mine = [w for w in wakers if owner[w] == t]
        for _ in range(rng.randint(1, 5)):
            r = rng.random()
            cand = [w for w in mine if w not in dropped] + [w for w in shared if w not in dropped]
            if not cand:
                if rng.random() < 0.3:
                    sc.append("wake %d" % rng.choice(wakers))       # bad command (dropped / foreign)
                continue
            w = rng.choice(cand)
            want_drop = 0.35 if prop == "C12" else 0.15
            if r < want_drop and w in mine and w not in shared:
                sc.append("drop %d" % w)
                dropped.add(w)
            else:
                sc.append("wake %d" % w)
        scripts[t] = sc
    body = ["spawn"] * nt
    for _ in range(rng.randint(0, 4)):
        body.append(rng.choice(["poll", "pollif", "pollif"]))
    if prop == "C12" or rng.random() < 0.3:
        for _ in range(rng.randint(0, 3)):
            body.append("new %d" % extra_new)                         # may reuse a freed slot
            extra_new += 1
            body.append("poll")
    rest = body[nt:]
    rng.shuffle(rest)
    main += body[:nt] + rest + ["join", rng.choice(["poll", "pollif", "pollif"])]
    if rng.random() < 0.3:
        main.append("pollif")
    # wakers created late can be woken by main itself
    scripts[0] = main
    est = 6 * sum(len(v) for v in scripts.values())
    return Case(scripts, gen_sched(rng, nt, est), rng.randint(1, 2 ** 31), "waker/" + placement)


def gen_chan_case(rng):
    nc = rng.choice([1, 1, 2])
    ns = rng.randint(1, 3)
    main = []
    if rng.random() < 0.3:
        main.append("new 1")
    for c in range(nc):
        main.append("cnew %d" % c)
    scripts = {}
    msg = 100
    for t in range(1, ns + 1):
        sc = []
        for _ in range(rng.randint(1, 3)):
            c = rng.randrange(nc)
            if rng.random() < 0.15:
                sc.append("closed %d" % c)
            sc.append("send %d %d" % (c, msg))
            msg += 1
        if rng.random() < 0.3:
            sc.append("closed %d" % rng.randrange(nc))
        scripts[t] = sc
    if rng.random() < 0.25:
        # the guard is dropped while accepted messages are still queued (no poll_wake in between), then poll_wake:
        # nothing may be forwarded after the close
        main += ["spawn"] * ns
        main.append(rng.choice(["join", "waitidle", "join"]))
        for c in range(nc):
            if rng.random() < 0.8:
                main.append("cdrop %d" % c)
        main += [rng.choice(["poll", "pollif"]), "join", "pollif"]
        scripts[0] = main
        est = 8 * sum(len(v) for v in scripts.values())
        return Case(scripts, gen_sched(rng, ns, est), rng.randint(1, 2 ** 31), "chan-lateclose")
    body = [rng.choice(["poll", "pollif"]) for _ in range(rng.randint(0, 3))]
    for c in range(nc):
        if rng.random() < 0.6:
            body.append("cdrop %d" % c)
    if rng.random() < 0.3:
        body.append("send 0 %d" % msg)
    rng.shuffle(body)
    main += ["spawn"] * ns + body + ["join", rng.choice(["poll", "pollif", "pollif"])]
    for c in range(nc):
        if rng.random() < 0.3 and ("cdrop %d" % c) not in main:
            main += ["cdrop %d" % c, "pollif"]
    kind = "chan"
    if rng.random() < 0.08:
        main.insert(0, "fill %d" % rng.choice(BIG_FILLS))      # the channel's Waker beyond the first bitmap
        kind = "chan-big"
    scripts[0] = main
    est = 8 * sum(len(v) for v in scripts.values())
    return Case(scripts, gen_sched(rng, ns, est), rng.randint(1, 2 ** 31), kind)


def gen_pipe_case(rng):
    np_ = rng.choice([1, 1, 1, 2])
    main = []
    scripts = {}
    msg = 500
    tid = 1
    body = []
    for p in range(np_):
        main.insert(p, "pnew %d" % p)
        sc = []
        n_send = rng.randint(0, 3)
        for _ in range(rng.randint(1, 5)):
            r = rng.random()
            if r < 0.4:
                sc.append("recv")
            elif r < 0.8:
                sc.append("lsend %d" % msg)
                msg += 1
            elif r < 0.9:
                sc.append("cancel")
            else:
                sc.append("panic")
                break
        scripts[tid] = sc
        tid += 1
        for _ in range(n_send):
            body.append("psend %d %d" % (p, msg))
            msg += 1
    body += [rng.choice(["poll", "pollif"]) for _ in range(rng.randint(0, 3))]
    rng.shuffle(body)
    main += body
    # always drop the pipes before joining (a worker blocked in recv would otherwise be a legitimate deadlock)
    drops = ["pdrop %d" % p for p in range(np_)]
    if rng.random() < 0.5:
        k = rng.randint(np_, len(main))
        main = main[:k] + drops[:1] + main[k:]
        drops = drops[1:]
        if rng.random() < 0.5:
            main.append("psend 0 %d" % msg)      # after drop: bad command (handle gone)
    main += drops + ["join", rng.choice(["poll", "pollif", "pollif"])]
    kind = "pipe"
    if rng.random() < 0.10:
        # the PipedThread's own Waker around / beyond the end of the first 64x64 bitmap (slab keys 4095 | 4097 ...)
        main.insert(0, "fill %d" % rng.choice(BIG_FILLS))
        kind = "pipe-big"
    scripts[0] = main
    est = 8 * sum(len(v) for v in scripts.values())
    return Case(scripts, gen_sched(rng, np_, est), rng.randint(1, 2 ** 31), kind)


def gen_pipe_open_case(rng):
    """no drop / join: the run ends when nothing can run any more (a worker blocked in recv is a legitimate
    deadlock); `waitidle ; pollif` gives the main thread the chance to serve every notification first"""
    main = ["pnew 0"]
    msg = 700
    sc = []
    for _ in range(rng.randint(1, 4)):
        r = rng.random()
        if r < 0.5:
            sc.append("recv")
        elif r < 0.9:
            sc.append("lsend %d" % msg)
            msg += 1
        else:
            sc.append("cancel")
    if rng.random() < 0.7:
        sc.append("recv")
    for _ in range(rng.randint(0, 3)):
        if rng.random() < 0.6:
            main.append("psend 0 %d" % msg)
            msg += 1
        main += ["waitidle", "pollif"] if rng.random() < 0.7 else ["pollif"]
    main += ["waitidle", "pollif"]
    scripts = {0: main, 1: sc}
    est = 8 * (len(main) + len(sc))
    return Case(scripts, gen_sched(rng, 1, est), rng.randint(1, 2 ** 31), "pipe-open")


def gen_mixed_case(rng):
    """plain wakers + a channel + a piped thread sharing one leaf word"""
    main = ["new 1", "cnew 0", "pnew 0", "new 2", "spawn", "spawn"]
    scripts = {1: [], 2: [], 3: []}
    for _ in range(rng.randint(1, 4)):
        scripts[1].append(rng.choice(["recv", "lsend 7%d" % rng.randint(0, 9), "cancel"]))
    for t, w in ((2, 1), (3, 2)):
        for k in range(rng.randint(1, 4)):
            scripts[t].append(rng.choice(["wake %d" % w, "send 0 %d" % (100 * t + k), "wake %d" % w]))
        if rng.random() < 0.4:
            scripts[t].append("drop %d" % w)
    body = ["poll", "pollif", "psend 0 900", "psend 0 901", "cdrop 0", "pdrop 0"]
    rng.shuffle(body)
    if "pdrop 0" not in body[:]:
        body.append("pdrop 0")
    main += body + ["join", rng.choice(["poll", "pollif"])]
    scripts[0] = main
    est = 8 * sum(len(v) for v in scripts.values())
    return Case(scripts, gen_sched(rng, 3, est), rng.randint(1, 2 ** 31), "mixed")


def waker_key(j):
    """slab key (= bit) of the j-th waker created (1-based): keys that are multiples of 4096 are reserved"""
    return j + (j - 1) // 4095


def gen_huge_case(rng):
    """More than 64 * 4095 = 262080 live wakers: the Vec of one summary slot holds two bitmaps.  Wakers in two different
    bitmaps of ONE slot (and one in another slot) are woken from different threads against poll_wake.  The model is not
    run on these cases (its slab is a function chain: quadratic in the number of wakers); the C11..C14 monitors are
    evaluated on the real trace as usual."""
    slot = rng.choice([0, 0, 1, 2, 5, 63])           # summary slot shared by the two bitmaps
    other = rng.choice([s_ for s_ in (1, 2, 3, 40, 63) if s_ != slot])
    per = 4095
    # 1-based creation index of a waker in bitmap bm: bm*4095 + 1 .. (bm+1)*4095
    def idx(bm):
        return bm * per + rng.choice([1, 2, 63, 64, 65, 700, per - 1, per])
    targets = [("lo", idx(slot)), ("hi", idx(slot + 64)), ("other", idx(other))]
    if rng.random() < 0.4:
        targets.append(("lo2", idx(slot)))
    if rng.random() < 0.4:
        targets.append(("hi2", idx(slot + 64)))
    seen, tl = set(), []
    for nme, j in sorted(targets, key=lambda x: x[1]):
        if j not in seen:
            seen.add(j)
            tl.append((nme, j))
    main, made, wid, names = [], 0, 1, {}
    for nme, j in tl:
        gap = j - 1 - made
        while gap > 0:                                   # keep single commands moderate
            k = min(gap, 100000)
            main.append("fill %d" % k)
            gap -= k
        main.append("new %d" % wid)
        names[nme] = wid
        wid += 1
        made = j
    if rng.random() < 0.5:
        main.append("fill %d" % rng.choice([1, 100, 5000]))
    los = [names[n_] for n_ in ("lo", "lo2") if n_ in names]
    his = [names[n_] for n_ in ("hi", "hi2") if n_ in names]
    scripts = {}
    layout = rng.choice(["split", "split", "split3", "one"])
    if layout == "split":
        scripts[1] = ["wake %d" % w for w in los]
        scripts[2] = ["wake %d" % w for w in his]
        if rng.random() < 0.7:
            scripts[rng.choice([1, 2])].append("wake %d" % names["other"])
    elif layout == "split3":
        scripts[1] = ["wake %d" % w for w in los]
        scripts[2] = ["wake %d" % w for w in his]
        scripts[3] = ["wake %d" % names["other"]]
    else:
        al = ["wake %d" % w for w in los + his + [names["other"]]]
        rng.shuffle(al)
        scripts[1] = al
        scripts[2] = ["wake %d" % rng.choice(his)]
    for t in scripts:
        if rng.random() < 0.3:
            scripts[t].append("wake %d" % rng.choice(los + his))    # a second wake of an already pending waker
    nt = len(scripts)
    body = []
    for _ in range(rng.randint(0, 3)):
        body.append(rng.choice(["poll", "pollif", "pollif"]))
    main += ["spawn"] * nt + body + ["join", rng.choice(["poll", "pollif"])]
    if rng.random() < 0.5:
        main.append(rng.choice(["poll", "pollif"]))
    scripts[0] = main
    est = 8 * sum(len(v) for v in scripts.values())
    return Case(scripts, gen_sched(rng, nt, est), rng.randint(1, 2 ** 31), "huge/slot%d+%d/%s" % (slot, other, layout))


def is_huge(case):
    return case.kind.startswith("huge") or case.kind.startswith("corpus/huge")


def gen_case(rng, prop):
    r = rng.random()
    if prop in ("C11", "C12"):
        if r < 0.06:
            return gen_waker_case(rng, prop, big=True)
        if r < 0.86:
            return gen_waker_case(rng, prop)
        if r < 0.93:
            return gen_mixed_case(rng)
        return gen_chan_case(rng) if rng.random() < 0.5 else gen_pipe_case(rng)
    if prop == "C13":
        if r < 0.85:
            return gen_chan_case(rng)
        return gen_mixed_case(rng)
    if r < 0.60:
        return gen_pipe_case(rng)
    if r < 0.88:
        return gen_pipe_open_case(rng)
    return gen_mixed_case(rng)


# ----------------------------------------------------------------------------------------------
# running and comparing
# ----------------------------------------------------------------------------------------------

def run_real(conc, case, path, tids=None):
    with open(path, "w") as f:
        f.write(case.text(tids))
    try:
        p = subprocess.run([conc, path], stdout=subprocess.PIPE, stderr=subprocess.PIPE, text=True, timeout=60)
        out, err, rc = p.stdout, p.stderr, p.returncode
    except subprocess.TimeoutExpired:
        out, err, rc = "", "timeout", 124
    lines = [l.rstrip() for l in out.split("\n") if l.strip()]
    return lines, err, rc


def tids_of(lines):
    tids, last = [], 0
    for l in lines:
        if l.startswith("END"):
            break
        f = l.split(" ")
        s = int(f[0])
        if s != last:
            last = s
            tids.append(int(f[1]))
    return tids


def run_model_batch(driver, jobs):
    """jobs: list of (id, Case, tids) -> {id: [lines]}"""
    text = "".join(c.model_job(j, tids) for j, c, tids in jobs)
    p = subprocess.run([driver], input=text, stdout=subprocess.PIPE, stderr=subprocess.PIPE, text=True, timeout=1200)
    res, cur = {}, None
    for l in p.stdout.split("\n"):
        if l.startswith("JOB "):
            cur = l[4:].strip()
            res[cur] = []
        elif cur is not None and l.strip():
            res[cur].append(l.rstrip())
    return res, p.stderr


def canon(lines):
    """drop ghost events; rename objects by first appearance (a consistent bijection real<->model is then equality)"""
    names, out = {}, []

    def nm(x):
        if x not in names:
            names[x] = "o%d" % len(names)
        return names[x]
    for l in lines:
        f = l.split(" ")
        if f[0] == "END":
            continue
        if f[2].startswith("#") or f[2] == "X":
            continue
        if f[2] in ("A", "L", "U", "N"):
            f[3] = nm(f[3])
        elif f[2] in ("CW", "CR"):
            f[3] = nm(f[3])
            f[4] = nm(f[4])
        else:
            f[3] = "0"
        out.append(" ".join(f).rstrip())
    return out


def end_fields(lines):
    for l in reversed(lines):
        if l.startswith("END"):
            return dict(kv.split("=", 1) for kv in l.split()[1:])
    return {}


def diff_traces(real, model):
    """None if equal, else (index, real line, model line)"""
    cr, cm = canon(real), canon(model)
    for i in range(max(len(cr), len(cm))):
        a = cr[i] if i < len(cr) else None
        b = cm[i] if i < len(cm) else None
        if a != b:
            return (i, a, b)
    er, em = end_fields(real), end_fields(model)
    if er.get("aborted", "-") == "-" and em.get("unfinished", ""):
        return (len(cr), "END all threads finished", "END unfinished=" + em.get("unfinished", ""))
    if er.get("aborted") == "deadlock" and em.get("enabled", ""):
        return (len(cr), "END deadlock", "END enabled=" + em.get("enabled", ""))
    return None


# ----------------------------------------------------------------------------------------------
# monitors (extracted from coq/W/Monitors.v) on traces
# ----------------------------------------------------------------------------------------------

def monitor_batch(driver, jobs):
    """jobs: list of (id, [trace lines]) -> {id: {"C11": bool, ...}}"""
    parts = []
    for j, lines in jobs:
        parts.append("JOB %s\n" % j)
        for l in lines:
            if l.startswith("END"):
                continue
            parts.append("obs " + l + "\n")
        parts.append("MON\n")
    p = subprocess.run([driver], input="".join(parts), stdout=subprocess.PIPE, stderr=subprocess.PIPE, text=True, timeout=1200)
    res, cur = {}, None
    for l in p.stdout.split("\n"):
        if l.startswith("JOB "):
            cur = l[4:].strip()
        elif l.startswith("MON ") and cur is not None:
            res[cur] = dict((kv.split("=")[0], kv.split("=")[1] == "1") for kv in l.split()[1:])
    return res, p.stderr


class Result:
    def __init__(self, case, real, err, rc):
        self.case, self.real, self.err, self.rc = case, real, err, rc
        self.tids = tids_of(real)
        self.model = None
        self.diff = None
        self.mon = None
        self.end = end_fields(real)


def run_cases(conc, driver, cases, tag, model_ok=True, explicit_tids=None):
    """Run the real code on every case, then the model on the same schedules, then the monitors on the REAL traces."""
    os.makedirs(WORK, exist_ok=True)

    def one(i):
        path = os.path.join(WORK, "%s-%d.case" % (tag, i))
        lines, err, rc = run_real(conc, cases[i], path, explicit_tids[i] if explicit_tids else None)
        try:
            os.remove(path)
        except OSError:
            pass
        return Result(cases[i], lines, err, rc)
    with concurrent.futures.ThreadPoolExecutor(max_workers=max(4, vlib.NCPU)) as ex:
        results = list(ex.map(one, range(len(cases))))
    if driver is None:
        return results
    bsz = 100
    batches = [list(range(b, min(b + bsz, len(cases)))) for b in range(0, len(cases), bsz)]

    def mbatch(idx):
        out = {}
        if model_ok:
            m, err = run_model_batch(driver, [(str(i), cases[i], results[i].tids) for i in idx if not is_huge(cases[i])])
            out["model"] = m
        mon, err2 = monitor_batch(driver, [(str(i), results[i].real) for i in idx])
        out["mon"] = mon
        return out
    with concurrent.futures.ThreadPoolExecutor(max_workers=max(2, vlib.NCPU // 2)) as ex:
        outs = list(ex.map(mbatch, batches))
    for idx, o in zip(batches, outs):
        for i in idx:
            r = results[i]
            r.mon = o["mon"].get(str(i))
            if model_ok and not is_huge(cases[i]):
                r.model = o["model"].get(str(i), [])
                r.diff = diff_traces(r.real, r.model)
    return results


def monitor_fails(res, prop):
    return res.mon is not None and res.mon.get(prop) is False


def crate_panic(res):
    """the CRATE (not the harness, not a scripted worker panic) panicked on a valid scenario: a failing input"""
    src = os.path.join(os.path.realpath(vlib.REPO), "src") + os.sep
    return any("panicked at" in ln and (src in ln or (vlib.REPO.rstrip("/") + "/src/") in ln) for ln in res.err.split("\n"))


def real_broken(res):
    """the real run itself went wrong (harness crash / panic outside a piped worker / step limit)"""
    return res.rc != 0 or res.err.strip() != "" or res.end.get("aborted") == "steplimit" or not res.end


# ----------------------------------------------------------------------------------------------
# shrinking
# ----------------------------------------------------------------------------------------------

def shrink(conc, driver, case, tids, pred, budget=120):
    """greedy removal of commands; the schedule is the recorded thread-id sequence (entries naming a thread
    that is not schedulable are skipped by the controller, the tail is seeded random)."""
    best = Case({t: list(v) for t, v in case.scripts.items()}, ("tids", list(tids)), case.seed, case.kind + "/shrunk")
    tries = 0
    progress = True
    while progress and tries < budget:
        progress = False
        for t in sorted(best.scripts):
            i = 0
            while i < len(best.scripts[t]) and tries < budget:
                cmd = best.scripts[t][i]
                if cmd in ("spawn", "join") or cmd.startswith("pnew"):
                    i += 1
                    continue
                cand = Case({u: list(v) for u, v in best.scripts.items()}, best.sched, best.seed, best.kind)
                del cand.scripts[t][i]
                tries += 1
                rs = run_cases(conc, driver, [cand], "shrink", model_ok=True)
                if pred(rs[0]):
                    best = cand
                    progress = True
                else:
                    i += 1
    return best


def write_replay_file(prop, fname, header, case, res):
    path = vlib.replay_path(prop, fname)
    with open(path, "w") as f:
        for h in header:
            f.write("# " + h + "\n")
        f.write(case.text(res.tids if res is not None else None))
        if res is not None:
            f.write("# --- real trace (conc_drv) ---\n")
            for l in res.real[:400]:
                f.write("# R " + l + "\n")
            if res.model is not None:
                f.write("# --- model trace (w_driver) ---\n")
                for l in res.model[:400]:
                    f.write("# M " + l + "\n")
            if res.diff:
                f.write("# first difference at event %d: real %r | model %r\n" % res.diff)
            f.write("# monitors on the real trace: %s\n" % json.dumps(res.mon))
    return path


def corpus_cases():
    d = os.path.join(vlib.ROOT, "corpus", "w")
    out = []
    if os.path.isdir(d):
        for f in sorted(os.listdir(d)):
            if f.endswith(".case"):
                out.append((f, parse_case(open(os.path.join(d, f)).read())))
    return out


def case_signature(res):
    """what makes a case 'distinct': the sequence of (thread, event kind) of the real trace"""
    sig = []
    for l in res.real:
        f = l.split(" ")
        if f[0] == "END":
            continue
        sig.append(f[1] + f[2])
    return hash(tuple(sig))


# ----------------------------------------------------------------------------------------------
# entry points
# ----------------------------------------------------------------------------------------------

def run(prop, tier, seed):
    t_start = time.time()
    ev = vlib.Evidence(prop, tier, seed, "proof")
    import shutil
    shutil.rmtree(os.path.join(vlib.OUT, "replay", prop), ignore_errors=True)
    problems = []
    # 1. translator, proofs
    ok, tprobs = translate()
    if not ok:
        problems += ["translator: " + p for p in tprobs]
    audit = vlib.props_audit(prop, PINS[prop])
    if not audit["ok"]:
        problems += ["proof: " + p for p in audit["problems"]]
        failed = vlib.coq_failed_files(audit["log"])
        if failed:
            problems.append("proof: files failing to compile: " + ", ".join(failed))
    # 2. builds
    okr, conc, rlog = build_real()
    if not okr:
        vlib.log(rlog[-3000:])
        raise RuntimeError("harness/w does not build against %s" % vlib.REPO)
    okm, driver, mlog = build_model()
    model_ok = okm
    if not okm:
        problems.append("model: W/Extract.vo / w_driver does not build against the regenerated coq/Gen: " +
                        ", ".join(vlib.coq_failed_files(mlog)))
        # the monitors are specification-level: keep searching the real code with the last driver that built
        last = [p_ for p_ in (vlib.driver_path("w_driver"), os.path.join(vlib.CACHE, "bin", "w_driver")) if os.path.exists(p_)]
        driver = last[0] if last else None
    # 3. corpus, then generated cases
    rng = random.Random(seed * 7919 + {"C11": 1, "C12": 2, "C13": 3, "C14": 4}[prop])
    n = {"quick": 1500, "thorough": 24000}[tier]
    if problems:
        n = max(n, 6000)
    budget = 140 if tier == "quick" else 1000
    results = []
    corp = corpus_cases()
    if corp:
        rs = run_cases(conc, driver, [c for _, c in corp], "corpus", model_ok)
        for (name, _), r in zip(corp, rs):
            r.name = "corpus/" + name
        results += rs
    dist = {}
    nhuge = {"C11": {"quick": 8, "thorough": 60}, "C12": {"quick": 2, "thorough": 10}}.get(prop, {}).get(tier, 0)
    if nhuge:
        hrng = random.Random(seed * 104729 + 17)
        hc = [gen_huge_case(hrng) for _ in range(nhuge)]
        rs = run_cases(conc, driver, hc, "huge", model_ok)
        for i, r in enumerate(rs):
            r.name = "huge%d" % i
            dist["huge"] = dist.get("huge", 0) + 1
        results += rs
    done = 0
    escalated = False
    while done < n and not any(monitor_fails(r, prop) or crate_panic(r) for r in results):
        k = min(500, n - done)
        cases = [gen_case(rng, prop) for _ in range(k)]
        rs = run_cases(conc, driver, cases, "g%d" % done, model_ok)
        for i, r in enumerate(rs):
            r.name = "gen%d" % (done + i)
            dist[r.case.kind] = dist.get(r.case.kind, 0) + 1
            dist["sched:" + r.case.sched[0]] = dist.get("sched:" + r.case.sched[0], 0) + 1
        results += rs
        done += k
        if not escalated and any(r.diff for r in rs) and n < 6000:
            n = 6000          # correspondence broken: escalate the search
            escalated = True
        if any(monitor_fails(r, prop) or crate_panic(r) for r in rs):
            break
        if time.time() - t_start > budget:
            break
    panics = [r for r in results if crate_panic(r)]
    broken = [r for r in results if real_broken(r) and not crate_panic(r)]
    if broken:
        r = broken[0]
        raise RuntimeError("real run failed (%s): rc=%s stderr=%s" % (r.name, r.rc, r.err[-500:]))
    if panics:
        # a panic inside src/ on a valid scenario: the property fails on this input whatever the monitors saw before it
        r = panics[0]
        path = write_replay_file(prop, "panic-%s.case" % r.name.replace("/", "_"),
                                 ["VIOLATION of %s: the crate at %s PANICS on a valid scenario (%d of %d cases)" % (prop, vlib.REPO, len(panics), len(results)),
                                  "stderr: " + " | ".join(r.err.strip().split("\n")[:4])] + problems, r.case, r)
        vlib.violation(prop, path)
        ev.violations = len(panics)
        ev.cov = {"obligations": max(1, audit["obligations"]), "discharged": audit["obligations"] if audit["ok"] else 0,
                  "checker_cmd": "make -C coq Props/%s.vo" % prop, "evaluations": len(results), "crate_panics": len(panics), "proof_problems": problems}
        ev.write()
        return 1
    fails = [r for r in results if monitor_fails(r, prop)]
    diffs = [r for r in results if r.diff]
    if diffs:
        d = diffs[0]
        problems.append("correspondence: real code and model disagree in %d of %d cases (first: %s event %d: real %r | model %r)"
                        % ((len(diffs), len(results), d.name) + d.diff))
    # 4. verdict
    rc = 0
    if fails:
        r = fails[0]
        if driver is not None:
            small = shrink(conc, driver, r.case, r.tids, lambda x: monitor_fails(x, prop) and not real_broken(x))
            rs = run_cases(conc, driver, [small], "final", model_ok)
            rr = rs[0] if monitor_fails(rs[0], prop) else r
        else:
            small, rr = r.case, r
        path = write_replay_file(prop, "monitor-%s.case" % r.name.replace("/", "_"),
                                 ["VIOLATION of %s: the %s_ok monitor is false on a REAL trace of the code at %s" % (prop, prop, vlib.REPO),
                                  "found in %s; shrunk from %d to %d commands; %d failing cases among %d"
                                  % (r.name, r.case.ncmds(), rr.case.ncmds(), len(fails), len(results))] + problems,
                                 rr.case, rr)
        vlib.violation(prop, path)
        ev.violations = len(fails)
        rc = 1
    elif problems:
        header = ["VIOLATION of %s (no failing input found): the property is no longer shown to hold" % prop] + problems
        header.append("searched %d schedules on the real code with the %s_ok monitor: no failing input" % (len(results), prop))
        if diffs:
            d = diffs[0]
            small = shrink(conc, driver, d.case, d.tids, lambda x: bool(x.diff) and not real_broken(x), budget=60) if model_ok else d.case
            rs = run_cases(conc, driver, [small], "final", model_ok)
            rr = rs[0] if rs[0].diff else d
            path = write_replay_file(prop, "tie-broken.case", header, rr.case, rr)
        else:
            path = vlib.replay_path(prop, "tie-broken.case")
            with open(path, "w") as f:
                f.write("\n".join("# " + h for h in header) + "\n")
        vlib.violation(prop, path, no_input=True)
        ev.violations = 1
        rc = 1
    # 5. evidence
    tfiles = [f for f in vlib.coq_deps("Props/%s.v" % prop) if not f.startswith("Gen/")]
    nthm = vlib.count_theorems(tfiles) if audit["ok"] else 0
    distinct = len(set(case_signature(r) for r in results))
    steps = sum(len(r.tids) for r in results)
    aborted = {}
    for r in results:
        a = r.end.get("aborted", "-")
        aborted[a] = aborted.get(a, 0) + 1
    samples = []
    for r in results[:2]:
        samples.append({"case": r.name, "scripts": {str(t): v for t, v in r.case.scripts.items()}, "schedule": r.tids[:60],
                        "monitors": r.mon})
    ev.cov = {
        "obligations": max(nthm, audit["obligations"]), "discharged": max(nthm, audit["obligations"]) if audit["ok"] else 0,
        "theorem_files": tfiles,
        "checker_cmd": "make -C coq Props/%s.vo (coq_makefile, full .vo) && coqc Props/%s.v with Print Assumptions" % (prop, prop),
        "trusted_base": vlib.TRUSTED_BASE_COMMON + [
            "scheduler shim harness/shim/verif_std.rs (baton controller; intercepts AtomicUsize, Mutex, Condvar, thread::spawn of src/sync/*.rs)",
            "axioms reported by Print Assumptions: %s" % (", ".join(audit["axioms"]) or "none (closed under the global context)")],
        "evaluations": len(results), "distinct_nontrivial": distinct,
        "rule": "seeded scenarios (2-4 worker threads x 1-6 wakers in one leaf word / several words / across the 4096-slot bitmap boundary, "
                "'huge': > 262080 wakers so that one summary slot has two bitmaps - wakers in both and in another slot woken from different threads, channels, "
                "piped threads) x schedules (seeded random, PCT priority schedules with 0-4 change points, bursty explicit prefixes) at the "
                "granularity of one atomic/lock operation; distinct = distinct sequences of (thread, event kind) of the real trace",
        "traces_validated_against_impl": len([r for r in results if r.model is not None and not r.diff]),
        "steps": steps, "disagreements": len(diffs), "monitor_failures": len(fails), "run_outcomes": aborted,
        "distribution": dist, "samples": samples, "proof_problems": problems,
        "explanation": "theorems about the interleaving model coq/W/Waker.v (all schedules, inductive invariant) + generated index arithmetic and ORDERING "
                       "(coq/Gen/SrcWaker.v) + per-step correspondence of shared-memory events, callbacks, handler calls, forwarded messages and return values "
                       "between the real code under the scheduler shim and the model on the same schedule + monitors C11_ok..C14_ok on the real traces",
    }
    ev.assumptions = [
        "A-SC: executions of the real code are sequentially consistent interleavings of its atomic/lock operations (all bitmap operations use ORDERING >= AcqRel, checked by C11_ordering); hardware/C11 weak memory is not modelled",
        "std Mutex/Condvar (no spurious wake-ups), thread spawn, panic unwinding, Arc, Vec/VecDeque, slab::Slab are modelled; the shim serialises the real threads",
        "fewer than 2^32 handler slots; more than 262080 wakers (second bitmap per summary slot): covered by the proofs and by the 'huge' scenario family "
        "(real code + monitors on the real trace); the event-by-event correspondence with the model is not run on those cases",
    ]
    ev.write()
    return rc


def replay(prop, path):
    case = parse_case(open(path).read())
    translate()
    okr, conc, rlog = build_real()
    if not okr:
        raise RuntimeError("harness/w does not build against %s" % vlib.REPO)
    okm, driver, mlog = build_model()
    if not okm:
        last = [p_ for p_ in (vlib.driver_path("w_driver"), os.path.join(vlib.CACHE, "bin", "w_driver")) if os.path.exists(p_)]
        driver = last[0] if last else None
    rs = run_cases(conc, driver, [case], "replay", okm)
    r = rs[0]
    for l in r.real:
        vlib.log("R " + l)
    vlib.log("monitors on the real trace: %s" % json.dumps(r.mon))
    if r.diff:
        vlib.log("model differs at event %d: real %r | model %r" % r.diff)
    if monitor_fails(r, prop):
        vlib.violation(prop, path)
        return 1
    if r.diff or not okm:
        vlib.violation(prop, path, no_input=True)
        return 1
    vlib.log("replay: %s holds on this case (monitor true, model agrees)" % prop)
    return 0
