"""Layer R (runtime) checks: C01 C02 C03 C04 C05 C06 C15 C16 C20.

Tie: the Rust interpreter harness/r runs generated DSL programs on the REAL crate; the extracted Coq machine
(coq/R/Rt.v via exec/r_driver.ml) runs the same programs; traces are diffed; the extracted monitors Cxx_ok are
evaluated on BOTH traces; theorems of coq/Props/Cxx.v are rebuilt and audited.

run(prop, tier, seed) -> exit code ; replay(prop, path) -> exit code
"""
import json
import os
import random
import shutil
import sys
import time

sys.path.insert(0, os.path.dirname(os.path.dirname(os.path.abspath(__file__))))
import vlib

PROPS = ["C01", "C02", "C03", "C04", "C05", "C06", "C15", "C16", "C20"]
CORPUS = os.path.join(vlib.ROOT, "corpus", "r")
WORK = os.path.join(vlib.CACHE, "r-work")

# model-only event codes (coq/R/Syntax.v)
M_FREE_ACTOR, M_AMBIG, M_UAF, M_LIMBO, M_PREPHELD, M_DRAINLEFT, M_CHILDCYCLE, M_DRAINSHORT = 1, 2, 3, 4, 5, 6, 7, 8

# --------------------------------------------------------------------------------------------------
# program text


def ser_clo(c):
    _, cid, size, align, caps, body = c
    return "clo %d %d %d [ %s] [ %s]" % (cid, size, align, "".join("%d " % h for h in caps), ser_acts(body))


def ser_notif(n):
    return "-" if n is None else "to %d %s" % (n[0], ser_clo(n[1]))


def ser_acts(acts):
    return "".join(ser_act(a) + " " for a in acts)


def ser_act(a):
    k = a[0]
    if k in ("defer", "deferd", "lazy", "idle"):
        return "%s %s" % (k, ser_clo(a[1]))
    if k in ("tadd", "tmac"):
        return "%s %s %d %d %s" % (k, a[1], a[2], a[3], ser_clo(a[4]))
    if k == "after":
        return "after %d %d %s" % (a[1], a[2], ser_clo(a[3]))
    if k == "tupd":
        return "tupd %s %d %d" % (a[1], a[2], a[3])
    if k in ("tdel", "tact"):
        return "%s %s %d" % (k, a[1], a[2])
    if k in ("actor", "slabadd"):
        return "%s %d %d %s" % (k, a[1], a[2], ser_notif(a[3]))
    if k == "call":
        return "call %d %s" % (a[1], ser_clo(a[2]))
    if k == "callprep":
        return "callprep %d %d %s" % (a[1], 1 if a[2] else 0, ser_clo(a[3]))
    if k in ("stop", "slablen", "now", "start", "shutdown"):
        return k
    if k in ("fail", "store", "droph", "pdrop", "iszombie", "log", "logcheck"):
        return "%s %d" % (k, a[1])
    if k in ("kill", "killa", "owned", "clone", "anon", "retsend", "fwdsend"):
        return "%s %d %d" % (k, a[1], a[2])
    if k == "newret":
        rk = a[3]
        if rk[0] == "clos":
            body = "clos [ %s] [ %s]" % ("".join("%d " % h for h in rk[1]), ser_acts(rk[2]))
        else:
            body = "%s %d %s" % (rk[0], rk[1], ser_clo(rk[2]))
        return "newret %d %d %s" % (a[1], a[2], body)
    if k == "newfwd":
        fk = a[3]
        if fk[0] == "clos":
            body = "clos [ %s]" % ser_acts(fk[1])
        else:
            body = "to %d %s" % (fk[1], ser_clo(fk[2]))
        return "newfwd %d %d %s" % (a[1], a[2], body)
    if k == "newtok":
        return "newtok %d %d [ %s]" % (a[1], a[2], "".join(ser_clo(c) + " " for c in a[3]))
    if k == "rep":
        return "rep %d [ %s]" % (a[1], ser_acts(a[2]))
    raise ValueError("act " + repr(a))


def ser_top(o):
    k = o[0]
    if k == "new":
        return "new %d" % o[1]
    if k == "run":
        return "run %d %d" % (o[1], 1 if o[2] else 0)
    if k == "do":
        return "do [ %s]" % ser_acts(o[1])
    if k in ("dropstakker", "dropall"):
        return k
    if k in ("setlogger", "setfilter"):
        return "%s [ %s]" % (k, "".join("%d " % l for l in o[1]))
    raise ValueError("top " + repr(o))


def ser_case(name, prog):
    return "case %s\n%s\nend\n" % (name, "\n".join(ser_top(o) for o in prog))


# ---- parsing the text format back (corpus files, replay files) ----

def parse_cases(text):
    """-> list of (name, prog) with prog in the tuple representation."""
    cases, name, ops = [], None, []
    for line in text.split("\n"):
        ws = line.split()
        if not ws or ws[0] == "#":
            continue
        if ws[0] == "case" and len(ws) == 2:
            name, ops = ws[1], []
        elif ws == ["end"]:
            if name is not None:
                cases.append((name, ops))
            name = None
        else:
            ops.append(_P(ws).top())
    return cases


class _P:
    def __init__(self, toks):
        self.t, self.i = toks, 0

    def nx(self):
        self.i += 1
        return self.t[self.i - 1]

    def pk(self):
        return self.t[self.i] if self.i < len(self.t) else ""

    def num(self):
        return int(self.nx())

    def lst(self, f):
        assert self.nx() == "["
        r = []
        while self.pk() != "]":
            r.append(f())
        self.nx()
        return r

    def clo(self):
        assert self.nx() == "clo"
        cid, size, align = self.num(), self.num(), self.num()
        caps = self.lst(self.num)
        return ("clo", cid, size, align, caps, self.lst(self.act))

    def notif(self):
        x = self.nx()
        if x == "-":
            return None
        return (self.num(), self.clo())

    def act(self):
        k = self.nx()
        if k in ("defer", "deferd", "lazy", "idle"):
            return (k, self.clo())
        if k in ("tadd", "tmac"):
            return (k, self.nx(), self.num(), self.num(), self.clo())
        if k == "after":
            return (k, self.num(), self.num(), self.clo())
        if k == "tupd":
            return (k, self.nx(), self.num(), self.num())
        if k in ("tdel", "tact"):
            return (k, self.nx(), self.num())
        if k in ("actor", "slabadd"):
            return (k, self.num(), self.num(), self.notif())
        if k == "call":
            return (k, self.num(), self.clo())
        if k == "callprep":
            h, r = self.num(), self.num()
            return (k, h, bool(r), self.clo())
        if k in ("stop", "slablen", "now", "start", "shutdown"):
            return (k,)
        if k in ("fail", "store", "droph", "pdrop", "iszombie", "log", "logcheck"):
            return (k, self.num())
        if k in ("kill", "killa", "owned", "clone", "anon", "retsend", "fwdsend"):
            return (k, self.num(), self.num())
        if k == "newret":
            h, r = self.num(), self.num()
            rk = self.nx()
            if rk == "clos":
                caps = self.lst(self.num)
                return (k, h, r, ("clos", caps, self.lst(self.act)))
            return (k, h, r, (rk, self.num(), self.clo()))
        if k == "newfwd":
            h, f = self.num(), self.num()
            fk = self.nx()
            if fk == "clos":
                return (k, h, f, ("clos", self.lst(self.act)))
            return (k, h, f, ("to", self.num(), self.clo()))
        if k == "newtok":
            h, t = self.num(), self.num()
            return (k, h, t, self.lst(self.clo))
        if k == "rep":
            n = self.num()
            return (k, n, self.lst(self.act))
        raise ValueError("act " + k)

    def top(self):
        k = self.nx()
        if k == "new":
            return (k, self.num())
        if k == "run":
            t = self.num()
            return (k, t, bool(self.num()))
        if k == "do":
            return (k, self.lst(self.act))
        if k in ("dropstakker", "dropall"):
            return (k,)
        if k in ("setlogger", "setfilter"):
            return (k, self.lst(self.num))
        raise ValueError("top " + k)


# --------------------------------------------------------------------------------------------------
# generator

SIZE_W = [30, 6, 6, 6, 4, 3, 2, 2]
ALLK = ["own", "act", "anon", "ret", "ret0", "fwd", "fwd0", "tok"]
LOG_FILTERS = [[], [0], [1], [2], [3], [4], [8], [5], [6], [7], [2, 5], [3, 6], [4, 5, 6], [0, 5, 6], [8, 6], [1, 7]]

PROFILES = {
    # weights of act families per property focus
    "C01": dict(queue=10, timer=3, tok=4, actor=1, call=1, term=0.5, own=0.5, ret=1, fwd=0.5, log=0, time=1, vol=1.5),
    "C06": dict(queue=10, timer=3, tok=1, actor=0.5, call=0.5, term=0.2, own=0.2, ret=0.5, fwd=0.5, log=0, time=1, vol=0.3),
    "C15": dict(queue=6, timer=5, tok=0.5, actor=1, call=2, term=0.3, own=0.2, ret=0.5, fwd=0.5, log=0, time=6, vol=0),
    "C02": dict(queue=2, timer=1, tok=0.5, actor=5, call=8, term=3, own=1, ret=2, fwd=2, log=0, time=0.3, vol=0),
    "C03": dict(queue=1, timer=1, tok=0.5, actor=5, call=6, term=8, own=3, ret=1, fwd=1, log=0, time=0.2, vol=0),
    "C04": dict(queue=1, timer=0.5, tok=0.5, actor=6, call=4, term=3, own=9, ret=1, fwd=1, log=0, time=0.2, vol=0),
    "C05": dict(queue=3, timer=3, tok=1, actor=3, call=4, term=3, own=1, ret=9, fwd=2, log=0, time=0.2, vol=0),
    "C16": dict(queue=4, timer=2, tok=3, actor=4, call=4, term=3, own=5, ret=4, fwd=4, log=0.5, time=0.3, vol=0.7),
    "C20": dict(queue=1, timer=0.5, tok=0.3, actor=6, call=4, term=5, own=2, ret=1, fwd=0.5, log=5, time=0.2, vol=0),
    "C18": dict(queue=4, timer=2, tok=2, actor=4, call=4, term=3, own=3, ret=3, fwd=3, log=2, time=1, vol=0.5),
}


class Gen:
    """Structured random programs.  Invariants kept so that programs are unambiguous, terminating and free of
       user-made reference cycles: run instants are even ms and timer instants odd ms; a Fwd body only sends
       through forwarders created earlier; an actor's state only receives references to actors created later.
       Scoping discipline (keeps most handle uses valid although closures run later than the text around them):
       a nested body may move/drop only handles it captured or created itself; it may *use* those and the
       `stable` handles (created at top level, never moved or dropped by generated code)."""

    def __init__(self, rng, prof, budget=60, logger=False):
        self.r, self.w, self.budget = rng, prof, budget
        self.nclo = self.nh = self.na = self.nr = self.nf = self.nt = self.nv = 0
        # the interpreter picks the macro arm / creation form from the static ids (actor id mod 4, closure id mod 4,
        # ret / fwd id mod 3): start the counters anywhere so that every residue occurs in first position too
        self.na, self.nclo, self.nr, self.nf = rng.randrange(0, 4), rng.randrange(0, 4), rng.randrange(0, 6), rng.randrange(0, 3)
        self.handles = {}        # hid -> (kind, target); kind in own act anon ret ret0 fwd fwd0 tok
        self.stable = set()
        self.root_of = {}        # actor id -> stable handle id
        self.vars = []           # (tk, v)
        self.t = 0               # last run instant (even)
        self.logger = logger
        self.allow_var = rng.random() < 0.2   # Max/Min timers only in a fifth of the programs (order ambiguity)
        self.reent = 0           # > 0 while generating a body that can be executed more than once (Fwd targets)
        self.stats = dict()

    def st(self, k):
        self.stats[k] = self.stats.get(k, 0) + 1

    def fresh(self, what):
        v = getattr(self, what) + 1
        setattr(self, what, v)
        return v

    def pad(self):
        c = self.r.random()
        if c < 0.55:
            return 0, 0
        if c < 0.62:
            return 8 + self.r.randrange(64), 3        # just below 2^10 .. 2^13 bytes (queue growth boundaries)
        return self.r.choices(range(8), SIZE_W)[0], self.r.randrange(8)

    def pick(self, kinds, scope, destructive=False):
        if scope is None:
            cand = [h for h, (k, _) in self.handles.items() if k in kinds and not (destructive and h in self.stable)]
        else:
            cand = [h for h in scope if h in self.handles and self.handles[h][0] in kinds and h not in self.stable]
            if not destructive:
                cand += [h for h in self.stable if h in self.handles and self.handles[h][0] in kinds]
        return self.r.choice(cand) if cand else None

    def drop_act(self, h):
        """Drop a handle: plainly, or by the unwinding of a panic caught on the spot (same semantics)."""
        if self.r.random() < 0.2:
            self.st("pdrop")
            return ("pdrop", h)
        return ("droph", h)

    def pick_actor(self, ctx, scope):
        """A handle to an actor; from inside an actor's own body often that actor itself (the `[cx]` macro arms)."""
        if isinstance(ctx, tuple) and self.r.random() < 0.35:
            h = self.root_of.get(ctx[1])
            if h is not None and h in self.handles:
                self.st("self_target")
                return h
        return self.pick(["own", "act"], scope)

    def mk(self, scope, kind, target):
        h = self.fresh("nh")
        self.handles[h] = (kind, target)
        if scope is not None:
            scope.append(h)
        return h

    def gone(self, h):
        self.handles.pop(h, None)

    def clo(self, ctx, depth, outer, caps=None, nobody=False, n=None):
        """A closure created in scope `outer`; its captures move out of `outer`."""
        cid = self.fresh("nclo")
        size, align = self.pad()
        if caps is None:
            caps = []
            if self.r.random() < 0.3:
                for _ in range(self.r.randrange(1, 3)):
                    h = self.pick(ALLK, outer, destructive=True)
                    if h is not None and h not in caps:
                        caps.append(h)
        inner = list(caps)
        body = [] if nobody else self.acts(ctx, depth + 1, inner, n=n)
        for h in inner:          # whatever the body captured or created is invisible outside
            self.gone(h)
        return ("clo", cid, size, align, caps, body)

    def acts(self, ctx, depth, scope, n=None):
        if n is None:
            hi = max(0, min(5, self.budget // 4)) if depth < 7 else 0
            n = self.r.randrange(0, hi + 1) if depth > 0 else self.r.randrange(1, 7)
        out = []
        for _ in range(n):
            if self.budget <= 0:
                break
            a = self.act(ctx, depth, scope)
            if a is not None:
                self.budget -= 1
                out.extend(a if isinstance(a, list) else [a])
        return out

    # ctx: 'stk' | ('meth', a) | ('prep', a) | 'none'
    def act(self, ctx, depth, scope):
        w, r = self.w, self.r
        core = ctx != "none"
        fams = [("queue", w["queue"] if core else w["queue"] * 0.4), ("timer", w["timer"] if core else 0),
                ("tok", w["tok"]), ("actor", w["actor"] if core else 0), ("call", w["call"]),
                ("term", w["term"]), ("own", w["own"]), ("ret", w["ret"]), ("fwd", w["fwd"]),
                ("log", w["log"] if core and self.logger else 0), ("time", w["time"] if core else 0),
                ("vol", w["vol"] if depth <= 1 and core else 0)]
        if self.reent:
            # static ids (actors, rets, fwds, tokens) must be created at most once: nothing id-creating here
            fams = [(f, x) for f, x in fams if f in ("queue", "timer", "call", "term", "log", "time")]
        fam = r.choices([f for f, _ in fams], [x for _, x in fams])[0]
        self.st(fam)
        return getattr(self, "g_" + fam)(ctx, depth, scope)

    def g_queue(self, ctx, depth, scope):
        r = self.r
        if ctx == "none":
            return ("deferd", self.clo("stk", depth, scope))
        k = r.choices(["defer", "deferd", "lazy", "idle"], [5, 2, 3, 2])[0]
        return (k, self.clo("stk", depth, scope))

    def instant(self):
        r = self.r
        c = r.random()
        if c < 0.15:
            d = -r.randrange(0, 50) * 2 - 1           # in the past
        elif c < 0.6:
            d = r.randrange(0, 30) * 2 + 1
        elif c < 0.8:
            d = r.randrange(0, 5000) * 2 + 1
        elif c < 0.95:
            d = r.choice([59999, 60001, 119999, 30001])
        else:
            d = r.randrange(100000, 10000000) * 2 + 1  # hours ahead (< 30000 s)
        return max(1, self.t + d)

    def g_timer(self, ctx, depth, scope):
        r = self.r
        c = r.random()
        if c < 0.5 or not self.vars:
            k = r.choices(["f", "x", "n"], [6, 2, 2])[0] if self.allow_var else "f"
            v = self.fresh("nv")
            self.vars.append((k, v))
            if k == "f" and r.random() < 0.3:
                return ("after", v, r.randrange(0, 40) * 2 + 1, self.clo("stk", depth, scope))
            return ("tadd", k, v, self.instant(), self.clo("stk", depth, scope))
        k, v = r.choice(self.vars)
        if c < 0.65:
            return ("tdel", k, v)
        if k == "f":
            return ("tdel", k, v) if c < 0.8 else None
        if c < 0.78:
            return ("tupd", k, v, self.instant())
        if c < 0.88:
            return ("tact", k, v)
        return ("tmac", k, v, self.instant(), self.clo("stk", depth, scope))

    def g_tok(self, ctx, depth, scope):
        r = self.r
        h = self.pick(["tok"], scope, destructive=True)
        if r.random() < 0.65 or h is None:
            t = self.fresh("nt")
            script = [self.clo("stk", min(depth + 2, 6), [], caps=[]) for _ in range(r.choice([0, 1, 1, 1, 2]))]
            h = self.mk(scope, "tok", t)
            return ("newtok", h, t, script)
        self.gone(h)
        return self.drop_act(h)

    def notif(self, depth, scope):
        hp = self.pick(["own", "act"], scope)
        if hp is not None and self.r.random() < 0.3:
            return (hp, self.clo(("meth", self.handles[hp][1]), depth + 2, [], caps=[]))
        return None

    def g_actor(self, ctx, depth, scope, stable=False):
        r = self.r
        a = self.fresh("na")
        n = self.notif(depth, scope)
        if isinstance(ctx, tuple) and ctx[0] == "meth" and r.random() < 0.35:
            h = self.mk(scope, "act", a)
            out = [("slabadd", h, a, n)]
            out += self.init_calls(h, a, depth)
            if r.random() < 0.3:
                out.append(("slablen",))
            # often: end the child and look at the slab again later (ActorOwnSlab removes terminated children)
            hp = self.root_of.get(ctx[1])
            if r.random() < 0.6:
                how = r.random()
                end = [("stop",)] if how < 0.5 else [("fail", r.randrange(1, 99))]
                out.append(("call", h, ("clo", self.fresh("nclo"), 0, 0, [], end)))
                if hp is not None:
                    look = ("call", hp, ("clo", self.fresh("nclo"), 0, 0, [], [("slablen",)]))
                    out.append(r.choice([("defer", self.wrap_clo([look])), ("lazy", self.wrap_clo([look])), look]))
                    self.st("slab_lifecycle")
            return out
        h = self.mk(scope, "own", a)
        if stable:
            self.stable.add(h)
            self.root_of[a] = h
        return [("actor", h, a, n)] + self.init_calls(h, a, depth)

    def init_calls(self, h, a, depth):
        out = self.init_calls0(h, a, depth)
        # sometimes calls are made BEFORE the init step is queued: they are held in the Prep queue when it runs
        if self.r.random() < 0.3:
            pre = [("call", h, self.clo(("meth", a), depth + 1, [], caps=[], n=self.r.randrange(0, 2))) for _ in range(self.r.choice([1, 1, 2]))]
            self.st("calls_before_init")
            return pre + out
        return out

    def init_calls0(self, h, a, depth):
        r = self.r
        style = r.choices(["imm", "multi", "fail", "never", "stop"], [6, 2, 1.2, 1.2, 0.8])[0]
        self.st("init_" + style)
        if style == "imm":
            return [("callprep", h, True, self.clo(("prep", a), depth + 1, [], caps=[]))]
        if style == "never":
            return []
        if style == "fail":
            c = self.clo(("prep", a), depth + 1, [], caps=[], nobody=True)
            # (sometimes the failing step still returns Some(value): the failure wins, the value is dropped)
            return [("callprep", h, r.random() < 0.4, c[:5] + ([("fail", r.randrange(1, 99))],))]
        if style == "stop":
            c = self.clo(("prep", a), depth + 1, [], caps=[], nobody=True)
            return [("callprep", h, r.random() < 0.4, c[:5] + ([("stop",)],))]
        # multi-step: prep -> (direct / defer / timer) prep -> Some.  The inner steps address the actor through
        # a weak clone captured by the step that schedules them.
        steps = r.randrange(2, 4)
        hw = self.fresh("nh")
        inner = ("callprep", hw, True, self.clo(("prep", a), depth + 2, [], caps=[]))
        for i in range(steps - 1):
            c = self.clo(("prep", a), depth + 1, [], caps=[], nobody=True)
            how = r.random()
            if how < 0.4:
                wrapped = [inner]
            elif how < 0.7:
                wrapped = [("defer", self.wrap_clo([inner], [hw]))]
            else:
                v = self.fresh("nv")
                wrapped = [("tadd", "f", v, self.t + r.randrange(0, 20) * 2 + 1, self.wrap_clo([inner], [hw]))]
            last = i == steps - 2
            inner = ("callprep", h if last else hw, False, c[:4] + ([hw],) + (wrapped,))
        return [("clone", h, hw), inner]

    def wrap_clo(self, body, caps=()):
        return ("clo", self.fresh("nclo"), 0, 0, list(caps), body)

    def g_call(self, ctx, depth, scope):
        r = self.r
        h = self.pick_actor(ctx, scope)
        if h is None:
            return self.g_actor(ctx, depth, scope) if ctx != "none" and not self.reent else None
        a = self.handles[h][1]
        if r.random() < 0.1:
            return ("callprep", h, r.random() < 0.5, self.clo(("prep", a), depth, scope, caps=[]))
        if r.random() < 0.1:
            return ("iszombie", h)
        return ("call", h, self.clo(("meth", a), depth, scope))

    def g_term(self, ctx, depth, scope):
        r = self.r
        c = r.random()
        if isinstance(ctx, tuple) and c < 0.5:
            return ("stop",) if r.random() < 0.5 else ("fail", r.randrange(1, 99))
        h = self.pick(["own"], scope)
        if h is None:
            return None
        if ctx == "stk" and c < 0.75:
            return ("kill", h, r.randrange(1, 99))
        if c < 0.9:
            return ("killa", h, r.randrange(1, 99))
        h = self.pick(["own", "anon"], scope, destructive=True)
        if h is None:
            return None
        self.gone(h)
        return self.drop_act(h)

    def g_own(self, ctx, depth, scope):
        r = self.r
        c = r.random()
        if c < 0.2:
            h = self.pick(["own"], scope)
            if h is not None:
                return ("owned", h, self.mk(scope, "own", self.handles[h][1]))
        if c < 0.4:
            h = self.pick(["own", "act"], scope)
            if h is not None:
                return ("clone", h, self.mk(scope, "act", self.handles[h][1]))
        if c < 0.5:
            h = self.pick(["own"], scope, destructive=True)
            if h is not None:
                a = self.handles[h][1]
                self.gone(h)
                return ("anon", h, self.mk(scope, "anon", a))
        if c < 0.75 and isinstance(ctx, tuple) and ctx[0] == "meth":
            hs = self.storable(ctx[1], scope)
            if hs is not None:
                self.gone(hs)
                return ("store", hs)
        if c < 0.92:
            h = self.pick(["own", "act", "anon"], scope, destructive=True)
            if h is not None:
                self.gone(h)
                return self.drop_act(h)
        h = self.pick(["own", "act"], scope)
        return ("iszombie", h) if h is not None else None

    def storable(self, a, scope):
        # only references to actors created later than `a` may live in a's state (no cycles)
        cand = []
        for h in (scope if scope is not None else list(self.handles)):
            if h not in self.handles or h in self.stable:
                continue
            k, tg = self.handles[h]
            if k in ("own", "anon", "act") and tg > a:
                cand.append(h)
            elif k in ("tok", "ret0", "fwd0"):
                cand.append(h)
        return self.r.choice(cand) if cand else None

    def g_ret(self, ctx, depth, scope):
        r = self.r
        c = r.random()
        hr = self.pick(["ret", "ret0"], scope, destructive=True)
        if hr is not None and c < 0.45:
            self.gone(hr)
            if r.random() < 0.7:
                return ("retsend", hr, r.randrange(0, 1000))
            return self.drop_act(hr)
        rid = self.fresh("nr")
        ht = self.pick_actor(ctx, scope)
        kind = r.choices(["clos", "to", "someto"], [5, 3, 2])[0]
        if kind == "clos" or ht is None:
            caps = []
            if r.random() < 0.3:
                x = self.pick(ALLK, scope, destructive=True)
                if x is not None:
                    caps = [x]
            inner = list(caps)
            body = self.acts("none", depth + 2, inner, n=r.randrange(0, 3))
            for x in inner:
                self.gone(x)
            h = self.mk(scope, "ret" if caps else "ret0", rid)
            act = ("newret", h, rid, ("clos", caps, body))
        else:
            a = self.handles[ht][1]
            cl = self.clo(("meth", a), depth + 1, [], caps=[])
            h = self.mk(scope, "ret", rid)
            act = ("newret", h, rid, (kind, ht, cl))
        # often route the Ret somewhere: as a capture of the next closure
        if r.random() < 0.6 and ctx != "none":
            how = r.random()
            if how < 0.4:
                return [act, ("defer", self.clo("stk", depth + 1, scope, caps=[h]))]
            if how < 0.55:
                return [act, ("lazy", self.clo("stk", depth + 1, scope, caps=[h]))]
            if how < 0.7:
                return [act, ("idle", self.clo("stk", depth + 1, scope, caps=[h]))]
            ht2 = self.pick(["own", "act"], scope)
            if how < 0.85 or ht2 is None:
                v = self.fresh("nv")
                self.vars.append(("f", v))
                return [act, ("tadd", "f", v, self.instant(), self.clo("stk", depth + 1, scope, caps=[h]))]
            a2 = self.handles[ht2][1]
            return [act, ("call", ht2, self.clo(("meth", a2), depth + 1, scope, caps=[h]))]
        return act

    def g_fwd(self, ctx, depth, scope):
        r = self.r
        c = r.random()
        hf = self.pick(["fwd", "fwd0"], scope)
        if hf is not None and c < 0.5:
            if r.random() < 0.75:
                return ("fwdsend", hf, r.randrange(0, 1000))
            if r.random() < 0.5:
                k, f = self.handles[hf]
                return ("clone", hf, self.mk(scope, k, f))
            hf = self.pick(["fwd", "fwd0"], scope, destructive=True)
            if hf is None:
                return None
            self.gone(hf)
            return self.drop_act(hf)
        f = self.fresh("nf")
        ht = self.pick_actor(ctx, scope)
        # bodies may only use forwarders created before this one (they are generated before it is registered)
        if ht is None or r.random() < 0.5:
            inner = []
            self.reent += 1
            body = self.acts("none", depth + 2, inner, n=r.randrange(0, 3))
            self.reent -= 1
            for x in inner:
                self.gone(x)
            h = self.mk(scope, "fwd0", f)
            act = ("newfwd", h, f, ("clos", body))
        else:
            a = self.handles[ht][1]
            self.reent += 1
            cl = self.clo(("meth", a), depth + 1, [], caps=[])
            self.reent -= 1
            h = self.mk(scope, "fwd", f)
            act = ("newfwd", h, f, ("to", ht, cl))
        if scope is None and r.random() < 0.4:
            self.stable.add(h)
        return act

    def g_log(self, ctx, depth, scope):
        r = self.r
        if r.random() < 0.7:
            return ("log", r.choice([0, 1, 2, 3, 4, 5, 6, 7, 8]))
        return ("logcheck", r.choice([0, 1, 2, 3, 4, 5, 6, 7, 8]))

    def g_time(self, ctx, depth, scope):
        return self.r.choice([("now",), ("now",), ("start",), ("shutdown",)])

    def g_vol(self, ctx, depth, scope):
        # volume: many small closures to force buffer growth / chaining (1 KiB .. 64 KiB and beyond)
        r = self.r
        n = r.choice([20, 40, 90, 200, 450, 900])
        size, align = self.pad()
        inner = ("clo", self.fresh("nclo"), size, align, [], [] if r.random() < 0.7 else [("deferd", self.wrap_clo([]))])
        self.st("vol_%d" % n)
        out = [("rep", n, [(r.choice(["defer", "deferd", "lazy"]), inner)])]
        # big captures pushed onto the now non-empty queue: sizes just below the powers of two
        for _ in range(r.choice([0, 1, 2, 4])):
            big = ("clo", self.fresh("nclo"), 8 + r.randrange(64), 3, [], [])
            h = self.pick(["own", "act"], scope)
            if h is not None and r.random() < 0.4:
                out.append(("call", h, big))
            else:
                out.append((r.choice(["defer", "deferd", "lazy"]), big))
            self.st("vol_big")
        return out

    def chain(self, length):
        """Closures c1..cL where dropping c_i un-run drops a token whose Drop defers c_(i+1) (F4 has L >= 100)."""
        acts, hs = [], [self.fresh("nh") for _ in range(length)]
        for i in range(length - 1, -1, -1):
            t = self.fresh("nt")
            nxt = [hs[i + 1]] if i + 1 < length else []
            acts.append(("newtok", hs[i], t, [("clo", self.fresh("nclo"), 0, 0, nxt, [])]))
        first = ("clo", self.fresh("nclo"), 0, 0, [hs[0]], [])
        q = self.r.choices(["defer", "deferd", "lazy", "idle", "tadd"], [5, 2, 2, 1, 1])[0]
        if q == "tadd":
            v = self.fresh("nv")
            acts.append(("tadd", "f", v, self.t + 100001, first))
        else:
            acts.append((q, first))
        self.st("chain_%d" % length)
        return acts

    def scen_var_timer(self):
        """A Max / Min timer whose closure carries a Ret (or a token), re-targeted, a run between the old and the new
           expiry (the timer is re-queued inside the timer set), then deleted / queried / fired."""
        r = self.r
        k = r.choice(["x", "x", "n"])
        v = self.fresh("nv")
        t1 = self.t + r.randrange(1, 40) * 2 + 1
        mid = t1 + r.randrange(0, 20) * 2 + 1            # even: a run instant
        t2 = mid + r.randrange(0, 40) * 2 + 1
        first, second = (t1, t2) if k == "x" else (t2 + 2 * r.randrange(0, 20), t2)   # Min: only earlier instants take effect
        rid = self.fresh("nr")
        h = self.fresh("nh")
        carried = r.random()
        if carried < 0.7:
            acts = [("newret", h, rid, ("clos", [], []))]
        else:
            tk = self.fresh("nt")
            acts = [("newtok", h, tk, [self.wrap_clo([])] if r.random() < 0.5 else [])]
        acts.append(("tadd", k, v, first, ("clo", self.fresh("nclo"), 0, 0, [h], [])))
        if r.random() < 0.85:
            acts.append(("tupd", k, v, second))
        out = [("do", acts), ("run", mid, False)]
        self.t = mid
        c = r.random()
        if c < 0.6:
            out.append(("do", [("tdel", k, v), ("tact", k, v)]))
        elif c < 0.8:
            out.append(("do", [("tact", k, v), ("tupd", k, v, self.t + r.randrange(0, 9) * 2 + 1), ("tdel", k, v), ("tdel", k, v)]))
        else:
            self.t = t2 + 2 * r.randrange(0, 30) + 1
            out.append(("run", self.t, False))
            out.append(("do", [("tdel", k, v)]))
        self.st("scen_var_timer_" + k)
        return out

    def scen_prep_owner(self):
        """Owner-count changes made BY calls that wait in the Prep queue: an actor created without init, calls to it
           that capture / drop owning handles of their own target or create new owners (`owned`, kept in the actor's
           state or in the environment), then the init step (the held calls are flushed by to_ready), then the owners
           are dropped one by one with a run after each."""
        r = self.r
        a = self.fresh("na")
        h = self.fresh("nh")
        out, acts = [], [("actor", h, a, None)]
        owners = [h]                     # owning handles expected to be alive after the flush, in the environment
        calls = []
        for _ in range(r.choice([1, 1, 2, 3])):
            v = r.random()
            if v < 0.3:
                h2 = self.fresh("nh")
                acts.append(("owned", h, h2))
                calls.append(("call", h, ("clo", self.fresh("nclo"), 0, 0, [h2], [])))            # dropped with the captures
            elif v < 0.45:
                h2 = self.fresh("nh")
                acts.append(("owned", h, h2))
                calls.append(("call", h, ("clo", self.fresh("nclo"), 0, 0, [h2], [("droph", h2), ("iszombie", h)])))
            elif v < 0.6:
                h2, h3 = self.fresh("nh"), self.fresh("nh")
                acts += [("owned", h, h2), ("anon", h2, h3)]
                calls.append(("call", h, ("clo", self.fresh("nclo"), 0, 0, [h3], [])))
            elif v < 0.72:
                # a new owner that lives in a closure queued by the held call: released when that closure has run
                h4 = self.fresh("nh")
                calls.append(("call", h, ("clo", self.fresh("nclo"), 0, 0, [], [("owned", h, h4), ("defer", ("clo", self.fresh("nclo"), 0, 0, [h4], []))])))
            else:
                h4 = self.fresh("nh")
                calls.append(("call", h, ("clo", self.fresh("nclo"), 0, 0, [], [("owned", h, h4)])))
                owners.append(h4)
        init = ("callprep", h, True, ("clo", self.fresh("nclo"), 0, 0, [], []))
        if r.random() < 0.6:
            out.append(("do", acts + calls))
            out.append(("run", self.t, False))              # the calls are now held
            out.append(("do", [init]))
        else:
            out.append(("do", acts + calls + [init]))       # held and flushed within one run
        out.append(("run", self.t, False))
        out.append(("do", [("iszombie", h), ("clone", h, self.fresh("nh"))]))
        r.shuffle(owners)
        keep = r.random() < 0.3
        for i, o in enumerate(owners):
            if keep and i == len(owners) - 1:
                break
            out.append(("do", [("droph", o)]))
            self.t += 2 * r.randrange(0, 3)
            out.append(("run", self.t, False))
        out.append(("do", [("iszombie", self.nh)]))
        self.st("scen_prep_owner")
        return out

    def scen_ret_to_prep(self):
        """A ret_to! / ret_some_to! Ret aimed at an actor that is still in Prep when the Ret is resolved (sent,
           dropped, or dropped by a deleted timer) and the main queue runs: the target call waits in the Prep queue;
           then the init step completes (the call runs) or the actor is terminated (the call is discarded)."""
        r = self.r
        a = self.fresh("na")
        h = self.fresh("nh")
        acts = [("actor", h, a, None)]
        n = r.choice([1, 1, 2])
        rets = []
        for _ in range(n):
            hr, rid = self.fresh("nh"), self.fresh("nr")
            kind = r.choice(["to", "to", "someto"])
            acts.append(("newret", hr, rid, (kind, h, ("clo", self.fresh("nclo"), 0, 0, [], [("now",)] if r.random() < 0.3 else []))))
            rets.append(hr)
        # other calls queued before / between
        if r.random() < 0.5:
            acts.append(("call", h, ("clo", self.fresh("nclo"), 0, 0, [], [])))
        for hr in rets:
            c = r.random()
            if c < 0.5:
                acts.append(("retsend", hr, r.randrange(0, 1000)))
            elif c < 0.75:
                acts.append(self.drop_act(hr))
            else:
                v = self.fresh("nv")
                acts += [("tadd", "f", v, self.t + r.randrange(1, 30) * 2 + 1, ("clo", self.fresh("nclo"), 0, 0, [hr], [])), ("tdel", "f", v)]
        out = [("do", acts), ("run", self.t, False)]
        fate = r.random()
        if fate < 0.65:
            out.append(("do", [("callprep", h, True, ("clo", self.fresh("nclo"), 0, 0, [], []))]))
        elif fate < 0.8:
            out.append(("do", [("callprep", h, r.random() < 0.5, ("clo", self.fresh("nclo"), 0, 0, [], [("stop",) if r.random() < 0.5 else ("fail", 7)]))]))
        elif fate < 0.9:
            out.append(("do", [("kill", h, 5)]))
        else:
            out.append(("do", [self.drop_act(h)]))
        self.t += 2 * r.randrange(0, 3)
        out.append(("run", self.t, False))
        out.append(("do", [("iszombie", h)] if fate < 0.9 else []))
        self.st("scen_ret_to_prep")
        return out

    def scen_zombie_probe(self):
        """Code that runs WHILE an actor is being terminated asks `is_zombie()` of that very actor: a Ret closure that
           captured a reference to the actor sits in a call held by the actor's Prep queue; terminating the actor drops
           the held call, the Ret answers None and its handler probes.  The state must already say Zombie there."""
        r = self.r
        a, h = self.fresh("na"), self.fresh("nh")
        acts = [("actor", h, a, None)]
        for _ in range(r.choice([1, 1, 2])):
            hc, hr, rid = self.fresh("nh"), self.fresh("nh"), self.fresh("nr")
            acts.append(("clone", h, hc))
            acts.append(("newret", hr, rid, ("clos", [hc], [("iszombie", hc)])))
            acts.append(("call", h, ("clo", self.fresh("nclo"), 0, 0, [hr], [])))
        out = [("do", acts)]
        if r.random() < 0.5:
            out.append(("run", self.t, False))
        fate = r.random()
        if fate < 0.4:
            out.append(("do", [("kill", h, 5)]))
        elif fate < 0.6:
            out.append(("do", [("callprep", h, False, ("clo", self.fresh("nclo"), 0, 0, [], [("stop",) if r.random() < 0.5 else ("fail", 7)]))]))
        elif fate < 0.8:
            out.append(("do", [self.drop_act(h)]))
        else:
            out.append(("do", [("callprep", h, True, ("clo", self.fresh("nclo"), 0, 0, [], []))]))     # control: the calls run
        self.t += 2 * r.randrange(0, 3)
        out.append(("run", self.t, False))
        self.st("scen_zombie_probe")
        return out

    # ---- whole programs ----
    def program(self):
        r = self.r
        t0 = r.choice([0, 0, 2, 1000])
        self.t = t0
        prog = [("new", t0)]
        if self.logger:
            prog.append(("setlogger", r.choice(LOG_FILTERS)))
        # root actors: stable handles usable from everywhere
        roots = []
        if self.w["actor"] + self.w["call"] > 1.5 or r.random() < 0.4:
            for _ in range(r.choice([1, 1, 2, 3])):
                roots += self.g_actor("stk", 0, None, stable=True)
        if roots:
            prog.append(("do", roots))
            if r.random() < 0.6:
                prog.append(("run", self.t, False))
        nseg = r.randrange(1, 7)
        for _ in range(nseg):
            if self.budget <= 0:
                break
            if self.w["ret"] >= 3 and r.random() < 0.15:
                prog += self.scen_var_timer()
                continue
            if self.w["ret"] >= 3 and r.random() < 0.15:
                prog += self.scen_ret_to_prep()
                continue
            if self.w["own"] >= 3 and r.random() < (0.25 if self.w["own"] >= 9 else 0.08):
                prog += self.scen_prep_owner()
                continue
            if self.w["term"] >= 3 and r.random() < 0.06:
                prog += self.scen_zombie_probe()
                continue
            prog.append(("do", self.acts("stk", 0, None)))
            for _ in range(r.choice([1, 1, 1, 2, 3])):
                c = r.random()
                if c < 0.55:
                    self.t += r.randrange(0, 30) * 2
                elif c < 0.7:
                    pass
                elif c < 0.8:
                    prog.append(("run", max(0, self.t - r.randrange(1, 40) * 2), r.random() < 0.3))   # backwards
                    continue
                elif c < 0.93:
                    self.t += r.choice([59998, 60000, 60002, 30000, 120004])
                else:
                    self.t += r.randrange(1000, 4000000) * 2
                prog.append(("run", self.t, r.random() < 0.35))
            if self.logger and r.random() < 0.25:
                prog.append(("setfilter", r.choice(LOG_FILTERS)))
        end = r.random()
        if self.w["tok"] >= 2 and r.random() < 0.25:
            # something left in the queues whose drops defer more: exercised by the drain rounds of Stakker::drop
            prog.append(("do", self.chain(r.choice([1, 2, 3, 5, 12, 40, 97, 98]))))
            end = 0.7 + 0.3 * r.random()
        if end < 0.6:
            # graceful: drop what we hold, run, then tear down
            prog.append(("dropall",))
            self.t += 2
            prog.append(("run", self.t, False))
            self.t += 100000
            prog.append(("run", self.t, True))
            self.st("end_graceful")
        elif end < 0.8:
            prog.append(("dropstakker",))
            self.stable = set()
            prog.append(("do", self.acts("none", 0, None, n=r.randrange(0, 3))))
            self.st("end_abrupt")
        else:
            self.st("end_implicit")
        return prog


def count_forms(acts, stats, inside=False):
    """Which public creation path / macro arm the interpreter takes (a function of the static ids, see
       harness/r/src/main.rs fused_create and the Call / CallPrep / NewRet / NewFwd sites)."""
    def bump(k):
        stats[k] = stats.get(k, 0) + 1
    for i, a in enumerate(acts):
        op = a[0]
        nxt = acts[i + 1] if i + 1 < len(acts) else None
        if op in ("actor", "slabadd"):
            fused = (nxt is not None and nxt[0] == "callprep" and nxt[1] == a[1] and nxt[3][2] == 0 and nxt[3][3] == 0
                     and a[1] not in nxt[3][4])
            f = a[2] % 4
            if op == "actor":
                name = {0: "actor_new!", 1: "ActorOwn::new", 2: "actor!(Type::init)" if fused else "actor_new!",
                        3: "actor!(<Type>::init)" if fused else "actor_new!"}[f]
            else:
                name = {0: "ActorOwnSlab::add", 2: "ActorOwnSlab::add", 1: "actor_in_slab!(Type::init)" if fused else "ActorOwnSlab::add",
                        3: "actor_in_slab!(<Type>::init)" if fused else "ActorOwnSlab::add"}[f]
            bump("form %s%s" % (name, " from an actor" if inside else ""))
        for x in a[1:]:
            if isinstance(x, tuple) and x and x[0] == "clo":
                count_forms(x[5], stats, inside or op in ("call", "callprep"))
            elif isinstance(x, tuple) and x and x[0] in ("to", "someto") and isinstance(x[-1], tuple):
                count_forms(x[-1][5], stats, True)
            elif isinstance(x, tuple) and x and x[0] == "clos":
                count_forms(x[-1], stats, inside)
            elif isinstance(x, list) and x and isinstance(x[0], tuple):
                if x[0][0] == "clo":
                    for c in x:
                        count_forms(c[5], stats, inside)
                else:
                    count_forms(x, stats, inside)


def gen_cases(prop, n, seed, budget=60):
    rng = random.Random("%s-%d" % (prop, seed))
    prof = PROFILES.get(prop, PROFILES["C16"])
    cases, stats = [], {}
    for i in range(n):
        g = Gen(random.Random(rng.getrandbits(64)), prof, budget=rng.choice([12, 25, budget, budget, 2 * budget]),
                logger=(prop in ("C20", "C18") or rng.random() < 0.15))
        cases.append(("g%s_%d_%d" % (prop, seed, i), g.program()))
        for top in cases[-1][1]:
            if top[0] == "do":
                count_forms(top[1], g.stats)
        for k, v in g.stats.items():
            stats[k] = stats.get(k, 0) + v
    return cases, stats


# --------------------------------------------------------------------------------------------------
# building and running

def _crate_dir():
    """The harness crate to build: harness/r itself for /repo, a private copy (with the dependency path rewritten)
       when the check is pointed at a scratch copy of the repository, so that concurrent runs never fight over
       Cargo.toml."""
    src = os.path.join(vlib.ROOT, "harness", "r")
    text = open(os.path.join(src, "Cargo.toml.in")).read().replace("@REPO@", vlib.REPO)
    text = text.replace("# TEMPLATE: tools/checks/layer_r.py writes Cargo.toml from this file (stakker path = vlib.REPO)\n", "# GENERATED from Cargo.toml.in\n")
    if os.path.realpath(vlib.REPO) == "/repo":
        vlib.write_if_changed(os.path.join(src, "Cargo.toml"), text)
        return src, None
    import hashlib
    h = hashlib.sha256(os.path.realpath(vlib.REPO).encode()).hexdigest()[:10]
    dst = os.path.join(vlib.CACHE, "harness-r-" + h)
    os.makedirs(os.path.join(dst, "src"), exist_ok=True)
    for fn in os.listdir(os.path.join(src, "src")):
        vlib.write_if_changed(os.path.join(dst, "src", fn), open(os.path.join(src, "src", fn)).read())
    vlib.write_if_changed(os.path.join(dst, "Cargo.toml"), text)
    if not os.path.exists(os.path.join(dst, "Cargo.lock")):
        lock_src = os.path.join(vlib.REPO, "Cargo.lock")
        shutil.copy(lock_src if os.path.exists(lock_src) else "/repo/Cargo.lock", os.path.join(dst, "Cargo.lock"))
    return dst, h


def build_harness(features=("logger",), no_default=False, tag="", extra_rustflags="", toolchain=None, env=None, target=None, release=False):
    """Default for the Layer R checks: the pinned default feature set plus `logger` (needed to observe C20).
       -> (ok, path of the r_interp binary, log)"""
    features = list(features) if features else None
    cdir, h = _crate_dir()
    if h is None and target is None:
        ok, bdir, out = vlib.harness_build("r", features=features, no_default=no_default, tag=tag, release=release,
                                           extra_rustflags=extra_rustflags, toolchain=toolchain, env=env)
        return ok, os.path.join(bdir, "r_interp"), out
    # same command as vlib.harness_build, on the private copy / with an explicit target triple
    tdir = os.path.join(vlib.CACHE, "target-r%s%s" % (("-" + h) if h else "", ("-" + tag) if tag else ""))
    cmd = ["cargo"] + (["+" + toolchain] if toolchain else []) + ["build", "--offline", "--target-dir", tdir]
    if release:
        cmd.append("--release")
    if target:
        cmd += ["--target", target]
    if no_default:
        cmd.append("--no-default-features")
    if features:
        cmd += ["--features", ",".join(features)]
    e = {"RUSTFLAGS": ("--cfg %s %s" % (vlib.GUARD, extra_rustflags)).strip(),
         "UAZU_STAKKER_VERIF_STD": os.path.join(vlib.ROOT, "harness", "shim", "passthrough.rs")}
    if env:
        e.update(env)
    with vlib.Lock("cargo-r%s%s" % (h or "", tag)):
        rc, out = vlib.run(cmd, cwd=cdir, env=e, timeout=1500)
    bdir = os.path.join(tdir, target, "release" if release else "debug") if target else os.path.join(tdir, "release" if release else "debug")
    return rc == 0, os.path.join(bdir, "r_interp"), out


def build_model():
    """Coq model + extraction + OCaml driver.  -> (ok, driver_path, log)"""
    ok, out = vlib.coq_build(["R/Extract.vo"])
    if not ok and "inconsistent assumptions" in out and vlib.COQ != getattr(vlib, "COQ_SRC", vlib.COQ):
        # mirrored tree (scratch repository): compiled files copied from the main tree were built against another
        # coq/Gen; rebuild this layer's files from scratch
        with vlib.Lock("coq"):
            for d in ("R", "Props"):
                dd = os.path.join(vlib.COQ, d)
                for f in os.listdir(dd) if os.path.isdir(dd) else []:
                    if f.endswith((".vo", ".vos", ".vok", ".glob")) and (d == "R" or f[:3] in ("C01", "C02", "C03", "C04", "C05", "C06", "C15", "C16", "C20")):
                        os.remove(os.path.join(dd, f))
        ok, out = vlib.coq_build(["R/Extract.vo"])
    if not ok:
        return False, None, out
    # the extracted file must be at least as new as what it was extracted from (a mirrored tree gets the .vo files
    # but not extracted/): re-run the extraction if it is missing or stale
    ml = os.path.join(vlib.COQ, "extracted", "r_model.ml")
    newest = max(os.path.getmtime(os.path.join(vlib.COQ, "R", f)) for f in os.listdir(os.path.join(vlib.COQ, "R")) if f.endswith(".vo"))
    if not os.path.exists(ml) or os.path.getmtime(ml) < newest:
        with vlib.Lock("coq"):
            os.makedirs(os.path.join(vlib.COQ, "extracted"), exist_ok=True)
            rc, o2 = vlib.run(["coqc", "-q", "-Q", ".", "Stk", "-w", "-notation-overridden", "R/Extract.v"], cwd=vlib.COQ, timeout=600)
        out += o2
        if rc != 0:
            return False, None, out
    try:
        drv = vlib.ocaml_driver("r_driver", "r_model.ml", "r_driver.ml", extra=["r_monitors.ml"])
    except Exception as ex:
        return False, None, out + "\n" + str(ex)
    return True, drv, out


def parse_traces(text):
    """-> dict name -> dict(lines=[...], mon={name: bool}, status=str)"""
    res, cur, name = {}, None, None
    for line in text.split("\n"):
        if line.startswith("case "):
            name = line[5:].strip()
            cur = dict(lines=[], mon={}, status="missing")
            res[name] = cur
        elif cur is None:
            continue
        elif line.startswith("endcase"):
            cur["status"] = line[8:].strip()
            cur = None
        elif line.startswith("mon "):
            ws = line.split()
            cur["mon"][ws[1]] = ws[2] == "1"
        elif line:
            cur["lines"].append(line)
    return res


def reentrant_logger_pass(prop, binary, driver, cases):
    """C20 only, REAL traces only (the model has no re-entrant logger): the same programs with a logger that allocates a
    LogID of its own while it handles an Open record.  The C20 monitor needs fresh increasing ids, not consecutive ones,
    so it must still hold.  -> list of (name, prog) on which it is false."""
    import concurrent.futures as cf
    os.makedirs(WORK, exist_ok=True)
    shards = chunks(cases, vlib.NCPU)
    bad = []

    def one(idx, shard):
        cf_ = os.path.join(WORK, "reenter-%d-%d.cases" % (os.getpid(), idx))
        with open(cf_, "w") as f:
            for name, prog in shard:
                f.write(ser_case(name, prog))
        _, real = run_real(binary, cf_, timeout=240, env={"VERIF_LOGGER_REENTER": "1"})
        tf = cf_[:-6] + ".real"
        with open(tf, "w") as f:
            f.write(real)
        _, mon = run_monitors(driver, tf)
        rm = parse_traces(mon)
        rt = parse_traces(real)
        return [(n, p) for n, p in shard if rt.get(n) and rt[n]["status"] == "done" and (rm.get(n) or {}).get("mon", {}).get(prop) is False]

    with cf.ThreadPoolExecutor(max_workers=vlib.NCPU) as ex:
        for r in ex.map(lambda a: one(*a), list(enumerate(shards))):
            bad += r
    return bad


def run_real(binary, cases_file, timeout=240, env=None):
    rc, out = vlib.run([binary, cases_file], timeout=timeout, env=env)
    return rc, out


def run_model(driver, cases_file, fuel=600000, inline=False, timeout=900):
    cmd = [driver, "exec", cases_file, str(fuel)] + (["inline"] if inline else [])
    rc, out = vlib.run(cmd, timeout=timeout)
    return rc, out


def run_monitors(driver, trace_file, timeout=900):
    rc, out = vlib.run([driver, "mon", trace_file], timeout=timeout)
    return rc, out


def canon(lines, drop_log=False):
    """Canonical form used by the diff: model-only lines removed; the trailing leak block sorted."""
    out, leaks = [], []
    for l in lines:
        if l.startswith("~"):
            continue
        if drop_log and l.split(" ", 1)[0] in ("log", "logreq", "logcheck", "setlogger", "setfilter"):
            continue
        if l.startswith("leak "):
            ws = l.split()
            leaks.append((int(ws[1]), int(ws[2])))
        else:
            out.append(l)
    return out + ["leak %d %d" % x for x in sorted(leaks)]


def model_flags(lines):
    fl = set()
    for l in lines:
        if l.startswith("~model "):
            fl.add(int(l.split()[1]))
    return fl


def first_diff(a, b):
    n = min(len(a), len(b))
    for i in range(n):
        if a[i] != b[i]:
            return i
    return n if len(a) != len(b) else -1


def chunks(cases, k):
    k = max(1, min(k, len(cases)))
    return [cases[i::k] for i in range(k)]


def run_both(binary, driver, cases, tag, nproc=None, fuel=600000, drop_log=False, inline=False, need_real_mon=True, real_timeout=240):
    """Run real + model on the cases (sharded).  -> dict name -> dict(real, model, realmon)"""
    import concurrent.futures as cf
    os.makedirs(WORK, exist_ok=True)
    nproc = nproc or vlib.NCPU
    shards = chunks(cases, nproc)
    res = {}

    def one(idx, shard):
        cf_ = os.path.join(WORK, "%s-%d.cases" % (tag, idx))
        with open(cf_, "w") as f:
            for name, prog in shard:
                f.write(ser_case(name, prog))
        rc1, real = run_real(binary, cf_, timeout=real_timeout)
        rc2, model = run_model(driver, cf_, fuel=fuel, inline=inline)
        rt = parse_traces(real)
        # if the interpreter died in the middle of the batch, the cases after the culprit were never run: run them
        rest = [(n, p) for n, p in shard if n not in rt]
        rounds = 0
        while rest and rounds < 8:
            rounds += 1
            cf2 = os.path.join(WORK, "%s-%d-r%d.cases" % (tag, idx, rounds))
            with open(cf2, "w") as f:
                for name, prog in rest:
                    f.write(ser_case(name, prog))
            _, real2 = run_real(binary, cf2, timeout=real_timeout)
            rt2 = parse_traces(real2)
            rt.update(rt2)
            real += real2
            rest = [(n, p) for n, p in rest if n not in rt2]
        mt = parse_traces(model)
        rm = {}
        if need_real_mon:
            tf = os.path.join(WORK, "%s-%d.real" % (tag, idx))
            with open(tf, "w") as f:
                f.write(real)
            rc3, mon = run_monitors(driver, tf)
            rm = parse_traces(mon)
        return rc1, rc2, rt, mt, rm, real[-2000:] if rc1 else ""

    with cf.ThreadPoolExecutor(max_workers=nproc) as ex:
        futs = [ex.submit(one, i, s) for i, s in enumerate(shards)]
        for fu, shard in zip(futs, shards):
            rc1, rc2, rt, mt, rm, tail = fu.result()
            for name, prog in shard:
                res[name] = dict(prog=prog, real=rt.get(name), model=mt.get(name), realmon=(rm.get(name) or {}).get("mon", {}),
                                 rc=(rc1, rc2), tail=tail)
    return res


# --------------------------------------------------------------------------------------------------
# judging one case

def judge(prop, r, drop_log=False):
    """-> (verdict, detail).  verdict in ok | skip-ambig | diff | monitor-real | monitor-model | crash | fuel"""
    real, model = r["real"], r["model"]
    if model is None or real is None:
        return "crash", "no trace (real rc=%s model rc=%s) %s" % (r["rc"][0], r["rc"][1], r.get("tail", ""))
    if model["status"] == "fuel":
        return "fuel", "model out of fuel"
    if model["status"] != "done":
        return "crash", "model status " + model["status"]
    flags = model_flags(model["lines"])
    if M_AMBIG in flags:
        return "skip-ambig", ""
    if M_UAF in flags:
        # the model's defensive "actor cell not in the table / already freed" branches: the "not in the table" ones
        # are proved unreachable (Nest.v + C02Proofs.v); seeing any of them is a failure of the model, not a skip
        return "crash", "model flagged M_UAF (access to an actor cell that is gone)"
    if real["status"] != "done":
        return "crash", "real status %s: %s" % (real["status"], [l for l in real["lines"] if l.startswith("panic")][:1])
    a, b = canon(real["lines"], drop_log), canon(model["lines"], drop_log)
    i = first_diff(a, b)
    if i >= 0:
        return "diff", "first difference at event %d: real=%r model=%r" % (i, a[i] if i < len(a) else None, b[i] if i < len(b) else None)
    return "ok", ""


def monitor_failures(prop, r, which=None):
    """Names of monitors false on the real / model trace (restricted to `which` if given)."""
    bad = []
    for side, mons in (("real", r["realmon"]), ("model", (r["model"] or {}).get("mon", {}))):
        for name, v in mons.items():
            if which is not None and name not in which:
                continue
            if not v:
                bad.append((side, name))
    return bad


# --------------------------------------------------------------------------------------------------
# shrinking (delta debugging over top-level ops, then over acts)

def shrink(prog, fails, max_iter=400):
    """`fails(prog) -> bool`.  Returns a smaller failing program."""
    it = [0]

    def test(p):
        it[0] += 1
        if it[0] > max_iter:
            return False
        try:
            return fails(p)
        except Exception:
            return False

    changed = True
    while changed and it[0] <= max_iter:
        changed = False
        # remove top-level ops
        i = len(prog) - 1
        while i >= 1:
            cand = prog[:i] + prog[i + 1:]
            if test(cand):
                prog, changed = cand, True
            i -= 1
        # remove / unwrap acts
        for path in list(act_paths(prog)):
            cand = remove_at(prog, path)
            if cand is not None and test(cand):
                prog, changed = cand, True
                break
    return prog


def act_lists(a):
    """sub-lists of acts inside an act: yields (setter_index_path, list)"""
    k = a[0]
    if k in ("defer", "deferd", "lazy", "idle"):
        yield (1, 5), a[1][5]
    elif k in ("tadd", "tmac"):
        yield (4, 5), a[4][5]
    elif k == "after":
        yield (3, 5), a[3][5]
    elif k == "call":
        yield (2, 5), a[2][5]
    elif k == "callprep":
        yield (3, 5), a[3][5]
    elif k in ("actor", "slabadd") and a[3] is not None:
        yield (3, 1, 5), a[3][1][5]
    elif k == "newret":
        if a[3][0] == "clos":
            yield (3, 2), a[3][2]
        else:
            yield (3, 2, 5), a[3][2][5]
    elif k == "newfwd":
        if a[3][0] == "clos":
            yield (3, 1), a[3][1]
        else:
            yield (3, 2, 5), a[3][2][5]
    elif k == "rep":
        yield (2,), a[2]
    elif k == "newtok":
        for i, c in enumerate(a[3]):
            yield (3, i, 5), c[5]


def tset(t, path, v):
    if not path:
        return v
    l = list(t)
    l[path[0]] = tset(t[path[0]], path[1:], v)
    return tuple(l) if isinstance(t, tuple) else l


def act_paths(prog):
    """paths to every act: (top index, [(act index, sub path)...], act index)"""
    def rec(acts, prefix):
        for i in range(len(acts) - 1, -1, -1):
            yield prefix + (i,)
            for sub, l in act_lists(acts[i]):
                yield from rec(l, prefix + (i,) + ("S",) + sub + ("E",))
    for ti, o in enumerate(prog):
        if o[0] == "do":
            yield from rec(o[1], (ti,))


def remove_at(prog, path):
    ti = path[0]
    rest = list(path[1:])

    def rec(acts, rest):
        i = rest[0]
        if len(rest) == 1:
            return acts[:i] + acts[i + 1:]
        assert rest[1] == "S"
        e = rest.index("E")
        sub = tuple(rest[2:e])
        a = acts[i]
        inner = a
        for s in sub:
            inner = inner[s]
        new_inner = rec(inner, rest[e + 1:])
        return acts[:i] + [tset(a, sub, new_inner)] + acts[i + 1:]
    try:
        o = prog[ti]
        return prog[:ti] + [("do", rec(o[1], rest))] + prog[ti + 1:]
    except Exception:
        return None


# --------------------------------------------------------------------------------------------------
# the check

# finding id -> (model flag that decides class membership on the program, witness file)
KNOWN_CLASS = {"F4": (M_DRAINLEFT, "F4_witness.cases"), "F5": (M_PREPHELD, "F5_witness.cases"), "F7": (7, "F7_witness.cases"),
               "F8": (None, "F8_witness.cases")}     # F8: decided by refcycle_actors() on the program text, see classes_of

# theorems pinned per property (coq/Props/<prop>.v)
PINS = {
    "C01": ["C01_exactly_once_fifo", "F4_refuted"], "C02": ["C02_fifo_lifecycle", "C02_order_gating_partial"], "C03": ["C03_terminates_once", "C03_dropped_cause_issued", "C03_terminates_once_checked", "C03_decomposition", "C03_lifecycle", "C03_cause", "C03_once_partial"],
    "C04": ["C04_last_owner_dropped", "C04_slab_len", "C04_notify_check", "C04_runret_check", "C04_slab_children_terminate", "C04_runret_split", "C04_drop_takes_queue_place", "C04_never_dropped_while_owned", "C04_never_dropped_while_owned_chk", "C04_last_owner_terminates", "C04_owner_census", "C04_monitor_split", "C04_owner_count_partial"], "C05": ["C05_as_checked", "C05_ret_exactly_once", "C05_calls_not_lost", "C05_ret_exactly_once_checked", "C05_ret_once_partial"], "C06": ["C06_quiescence_lazy_idle", "C06_plain_any_deferrer"],
    "C15": ["C15_time"], "C16": ["C16_of_no_leak", "C16_released_once_partial", "C16_released_once_rest", "C16_decomposition", "C16_no_uaf", "C16_flags_no_leak_part", "C16_flags_of_no_leak", "C16_heap_partial", "C16_exec_final", "C16_final_state", "C16_leak_located", "C16_no_container_leak_settled", "C16_no_leak_settled"], "C20": ["C20_open_close_filter", "C20_filter_table"],
}
PROOF_FILES = ["R/Syntax.v", "R/Rt.v", "R/Mon.v"]

QUICK_N = {"C01": 4500, "C02": 9000, "C03": 9000, "C04": 9000, "C05": 9000, "C06": 7500, "C15": 9000, "C16": 7500, "C20": 9000}
THOROUGH_N = {"C01": 40000, "C02": 90000, "C03": 90000, "C04": 90000, "C05": 90000, "C06": 70000, "C15": 90000, "C16": 60000, "C20": 90000}

# what is proved of the model for each property (goes into the evidence; docs/layer_r.md has the details)
CLAIM = {
    "C01": dict(partial=False, proved="C01_exactly_once_fifo: forall d p fuel t, exec d fuel p = Done t -> ~In (EModel M_DRAINLEFT 0) t -> C01_ok t = true; F4_refuted (class inhabited, C01_ok false there)",
                missing="size/alignment/volume independence of the execution order is the Layer Q theorem (C17); here the queues are abstract lists"),
    "C15": dict(partial=False, proved="C15_time: forall d p fuel t, exec d fuel p = Done t -> C15_ok t = true", missing=""),
    "C06": dict(partial=False, proved="C06_quiescence_lazy_idle: forall p fuel t, exec DGlobal fuel p = Done t -> C06_ok t = true (both conjuncts: plain closures and actor calls; global / thread-local deferrer); C06_plain_any_deferrer: the plain-closure conjunct for either deferrer kind",
                missing=""),
    "C02": dict(partial=False, proved="C02_fifo_lifecycle: forall p fuel t, exec DGlobal fuel p = Done t -> C02_ok t = true (per-actor FIFO of calls across Prep->Ready, lifecycle gating, discards justified by termination / teardown; global / thread-local deferrer); C02_order_gating_partial: one-item facts",
                missing=""),
    "C03": dict(partial=False, proved="C03_terminates_once: forall d p fuel t, exec d fuel p = Done t -> no_container_leak t -> C03_ok t = true (hypothesis decidable on the trace: no leaked closure / actor value / notifier; it is false only in the known-finding classes F5 / F7 and for an actor storing a reference to itself, where C03_ok is indeed false: C03_F5_refuted, C03_F7_refuted, C03_selfcycle_refuted); C03_terminates_once_checked (boolean hypothesis ncl_b); C03_decomposition (C03_ok from the lifecycle monitor okL and the cause monitor okK); C03_lifecycle; C03_cause (okK for every run, no hypothesis); C03_once_partial (one-step facts); C03_dropped_cause_issued: forall p fuel t, exec DGlobal fuel p = Done t -> length t < CMAX-1 -> C03_dropped_ok t = true (a notifier is invoked with Dropped only when the trace shows no visible owner: the request was actually issued); the check evaluates C03_ok && C03_dropped_ok && C03_none_ok on real and model traces, where C03_none_ok (no notifier answered None after the actor's value was dropped) is an UNPROVED extra conjunct",
                missing=""),
    "C04": dict(partial=False, proved="C04_last_owner_dropped: forall p fuel t, exec DGlobal fuel p = Done t -> Z.of_nat (length t) < CMAX - 1 -> C04_ok t = true (global / thread-local deferrer; CMAX = 2^62-1 is the saturation point of the packed owner count). Both hypotheses are necessary: C04_inline_deferrer_refuted (with the inline deferrer a kill! queued while no Stakker exists parks an owner for ever: C04_ok false on the model trace), C04_saturation (at CMAX the generated count_inc is the identity and the count never comes down again). Parts: C04_monitor_split (C04_ok = total state function + three checks); C04_notify_check (at notify a Dropped: C04_never_dropped_while_owned - no visible owner of a - and C04_drop_takes_queue_place - every call to a pending when its last visible owner went has been started or discarded: the termination takes the drop's place in the main queue); C04_runret_check (when run returns: C04_last_owner_terminates - every actor that lost its last visible owner since the Stakker was created is notified - and C04_slab_children_terminate - so are the slab children of every notified parent); C04_slab_len (slab.len() is at least the number of children not yet notified and at most the number not notified at the last runret); C04_owner_census (invariant: count field of the packed CountAndState word = number of owner handles anywhere in the configuration = invisible owners + EOwnNew - EOwnDrop; deferred terminate(Dropped) queued exactly on 1 -> 0); Examples C04_example, C04_slab_example; C04_owner_count_partial (one-step facts)",
                missing=""),
    "C05": dict(partial=False, proved="C05_as_checked: forall p fuel t, exec DGlobal fuel p = Done t -> NoDup (ret_ids t) -> no_container_leak t -> C05_ok t && C05_calls_ok t = true; C05_ret_exactly_once: the first conjunct for either deferrer (every Ret created once and invoked exactly once, with the value sent or None where it is dropped); C05_calls_not_lost: the second conjunct without hypotheses (DGlobal). The two hypotheses are decidable on the trace (distinct Ret ids; no leaked closure / actor value / notifier) and cannot be dropped: F5, F7, a self-reference cycle and the inline-deferrer leftover are refuted at model level (C05_*_model)",
                missing=""),
    "C16": dict(partial=True, proved="C16_of_no_leak: forall d p fuel t, exec d fuel p = Done t -> (forall k i, ~ In (ELeak k i) t) -> C16_ok t = true (hypothesis decidable on the trace; necessary: C16_leak_refuted, finding F5); from C16_decomposition (C16_ok = C16_flags_ok && C16_once_ok K && C16_once_ok (not K)), C16_released_once_partial (closure instances, actor values, user Rets, termination notifiers: consumed only if created before and not consumed yet), C16_released_once_rest (the same for tokens, Fwd closures, orphaned value tokens), C16_no_uaf (no access to an actor cell that is gone - not in the table / already freed - in any run), C16_flags_no_leak_part (the flag check without its leak conjunct holds in every run), C16_flags_of_no_leak; C16_heap_partial: translated MinRc table frees exactly on 1->0, clone/drop round trip, model frees the cell exactly then; leak conjunct, final-configuration argument: C16_exec_final + C16_final_state (the configuration in which the leak report is computed, both deferrer kinds: no Stakker alive, environment / frames / lazy / idle / timers empty, closure instances left in the main queue were parked after the last Core::new), C16_leak_located (global deferrer, exact census: a reported leak of a closure instance / user Ret / notifier / actor value is an object of that main queue or of an actor cell still in the table), C16_no_container_leak_settled (exec DGlobal fuel p = Done t -> settled t = true -> no_actor t = true -> no ELeak of these four kinds), C16_no_leak_settled (... -> simple16 t = true -> C16_ok t = true); Examples C16_no_leak_example (non-vacuity), C16_epilogue_depth (a program without any actor leaks a parked closure: the hypothesis settled is necessary)",
                missing="the leak conjunct for runs WITH actors (no leak report outside the classes of F4/F5/F7/F8, the self-referencing actor and the documented defer-after-drop case): needs the reference census of LinRef*.v as an equality (every cell without a surviving reference cycle is freed by the end of the epilogue) and an exact token / Fwd-object census; a syntactic (program-text) form of the hypotheses settled / no_actor; machine-level memory safety is sampled under AddressSanitizer (thorough tier)"),
    "C20": dict(partial=False, proved="C20_open_close_filter: forall d p fuel t, exec d fuel p = Done t -> Z.of_nat (length t) < 2^64-1 -> C20_ok (observable t) = true (observable = the trace without the model-only '~' events; bound: LogIDs are u64 counters); C20_filter_table (9x9 table of the translated From<LogLevel>/allows)",
                missing=""),
}

# which event kinds make a case "non-trivial" for a property (rule recorded in the evidence)
NONTRIVIAL = {
    "C01": ("at least 3 main-queue submissions of which one is re-entrant (made while a closure runs or from a Drop)", lambda ls: _cnt(ls, "sub m") >= 3 and _reentrant(ls)),
    "C02": ("at least 2 calls to one actor and a lifecycle change (ready / notify) of that actor", lambda ls: _cnt(ls, "target") >= 2 and (_cnt(ls, "ready") + _cnt(ls, "notify")) >= 1),
    "C03": ("at least one actor with a termination request or owner drop", lambda ls: _cnt(ls, "req") + _cnt(ls, "owndrop") >= 1 and _cnt(ls, "actor") >= 1),
    "C04": ("at least one owner created and dropped and one notification", lambda ls: _cnt(ls, "owndrop") >= 1 and _cnt(ls, "notify") >= 1),
    "C05": ("at least one Ret created and invoked", lambda ls: _cnt(ls, "retnew") >= 1 and _cnt(ls, "ret ") >= 1),
    "C06": ("at least one lazy or idle item and two run calls", lambda ls: _cnt(ls, "sub l") + _cnt(ls, "sub i") >= 1 and _cnt(ls, "runbegin") >= 2),
    "C15": ("at least two run calls and one observation of now()", lambda ls: _cnt(ls, "runbegin") >= 2 and (_cnt(ls, "run ") + _cnt(ls, "meth") + _cnt(ls, "num 8")) >= 1),
    "C16": ("at least 5 objects created (closures, values, rets, tokens, fwds)", lambda ls: _cnt(ls, "clo ") + _cnt(ls, "ready") + _cnt(ls, "retnew") + _cnt(ls, "toknew") + _cnt(ls, "fwdnew") >= 5),
    "C20": ("a logger installed and at least one actor created", lambda ls: _cnt(ls, "setlogger") >= 1 and _cnt(ls, "actor") >= 1),
}


def _cnt(lines, prefix):
    return sum(1 for l in lines if l.startswith(prefix))


def _reentrant(lines):
    depth = 0
    for l in lines:
        if l.startswith(("run ", "meth ", "prep ")):
            depth += 1
        elif l.startswith("end "):
            depth = max(0, depth - 1)
        elif l.startswith("sub m") and depth > 0:
            return True
        elif l.startswith("tokdrop"):
            return True
    return False


def load_corpus():
    cases = []
    if os.path.isdir(CORPUS):
        for fn in sorted(os.listdir(CORPUS)):
            if fn.endswith(".cases"):
                for name, prog in parse_cases(open(os.path.join(CORPUS, fn)).read()):
                    cases.append((name, prog, fn))
    return cases


def refcycle_actors(prog):
    """F8 (PendingTermRefCycle), decided on the PROGRAM text: actors on a cycle of `state of A stores a reference to B`
    (a `store h` act in a method / Prep step / Ret / Fwd / notifier handler of A) and `the notifier of B targets A`
    edges that contains at least one stored reference.  Handles are static, so both relations are static."""
    hact, ntgt, stores = {}, {}, []

    def clo(c, ctx):
        acts(c[5], ctx)

    def acts(al, ctx):
        for a in al:
            k = a[0]
            if k in ("defer", "deferd", "lazy", "idle"):
                clo(a[1], None)
            elif k in ("tadd", "tmac"):
                clo(a[4], None)
            elif k == "after":
                clo(a[3], None)
            elif k in ("actor", "slabadd"):
                hact[a[1]] = a[2]
                if k == "slabadd" and ctx is not None:
                    stores.append((ctx, ("actor", a[2])))       # the slab of the running actor owns the child
                if a[3] is not None:
                    ntgt[a[2]] = a[3][0]
                    clo(a[3][1], ("h", a[3][0]))
            elif k == "call":
                clo(a[2], ("h", a[1]))
            elif k == "callprep":
                clo(a[3], ("h", a[1]))
            elif k in ("owned", "clone", "anon"):
                if a[1] in hact:
                    hact[a[2]] = hact[a[1]]
            elif k == "store" and ctx is not None:
                stores.append((ctx, ("h", a[1])))
            elif k == "newret":
                rk = a[3]
                if rk[0] == "clos":
                    acts(rk[2], None)
                else:
                    clo(rk[2], ("h", rk[1]))
            elif k == "newfwd":
                fk = a[3]
                if fk[0] == "clos":
                    acts(fk[1], None)
                else:
                    clo(fk[2], ("h", fk[1]))
            elif k == "newtok":
                for c in a[3]:
                    clo(c, None)
            elif k == "rep":
                acts(a[2], ctx)

    for o in prog:
        if o[0] == "do":
            acts(o[1], None)

    def res(x):
        return x[1] if x[0] == "actor" else hact.get(x[1])

    edges = {}
    for ctx, tgt in stores:
        a, b = res(ctx), res(tgt)
        if a is not None and b is not None:
            edges.setdefault(a, set()).add((b, True))
    for b, hp in ntgt.items():
        a = hact.get(hp)
        if a is not None:
            edges.setdefault(b, set()).add((a, False))
    on_cycle = set()
    for start in list(edges):
        # DFS from start along edges; a cycle back to start through at least one stored reference
        stack, seen = [(start, False)], set()
        while stack:
            node, st = stack.pop()
            for nxt, is_store in edges.get(node, ()):
                st2 = st or is_store
                if nxt == start and st2:
                    on_cycle.add(start)
                if (nxt, st2) not in seen:
                    seen.add((nxt, st2))
                    stack.append((nxt, st2))
    return on_cycle


def classes_of(r):
    """Known-finding classes the PROGRAM belongs to (decided by the model on the program; F8 by a predicate on the
    program text plus: some actor of the cycle is never notified in the real run)."""
    fl = model_flags((r["model"] or {}).get("lines", []))
    cls = set(fid for fid, (flag, _) in KNOWN_CLASS.items() if flag is not None and flag in fl)
    try:
        cyc = refcycle_actors(r.get("prog") or [])
    except Exception:
        cyc = set()
    if cyc:
        notified = set()
        for l in ((r.get("real") or {}).get("lines", []) if isinstance(r.get("real"), dict) else []):
            ws = l.split()
            if len(ws) >= 2 and ws[0] == "notify":
                notified.add(int(ws[1]))
        if cyc - notified:
            cls.add("F8")
    return cls


LEAK_PROPS = ("C16", "C03", "C05")      # monitors with a "nothing is left over at the end" conjunct


def deferred_after_last_drop(r):
    """the REAL trace submits a closure after the last `dropend`: no Stakker exists any more and none follows"""
    lines = (r.get("real") or {}).get("lines", []) if isinstance(r.get("real"), dict) else []
    last = -1
    for i, l in enumerate(lines):
        if l == "dropend":
            last = i
    return last >= 0 and any(l.startswith("sub ") for l in lines[last + 1:])


def findings_for(prop):
    res = {}
    for f in vlib.known_findings():
        if f.get("status") == "known" and f["id"] in KNOWN_CLASS and prop in f.get("properties", []):
            res[f["id"]] = f
    return res


def save_replay(prop, name, prog, note):
    path = vlib.replay_path(prop, name + ".cases")
    with open(path, "w") as f:
        f.write("# %s\n" % note.replace("\n", " "))
        f.write(ser_case(name, prog))
    return path


def check_cases(prop, binary, driver, cases, tag, drop_log=False):
    """-> (results, summary) where summary has the lists of failing cases by kind."""
    res = run_both(binary, driver, cases, tag, drop_log=drop_log)
    known = findings_for(prop)
    summ = dict(ok=0, ambig=0, diffs=[], monviol=[], known={}, crashes=[], fuel=0, validated=0)
    for name, _ in cases:
        r = res[name]
        v, d = judge(prop, r, drop_log)
        r["verdict"], r["detail"] = v, d
        if v == "skip-ambig":
            summ["ambig"] += 1
            continue
        if v == "fuel":
            summ["fuel"] += 1
            continue
        if v == "crash":
            summ["crashes"].append((name, d))
            continue
        if v == "diff":
            summ["diffs"].append((name, d))
        else:
            summ["validated"] += 1
        # the property's monitor on the REAL trace (whatever the model says)
        if r["realmon"].get(prop) is False and v == "ok" and prop in LEAK_PROPS and deferred_after_last_drop(r):
            # the documented exclusion of C16 ("deferring after the Stakker is dropped"): a closure submitted after the
            # last Stakker of the case was dropped is parked for ever, with everything it captures; real crate and model
            # agree on the whole trace (v == "ok").  Counted, never a verdict (DESIGN.md 11.4, EpilogueDepth).
            summ["excluded_defer_after_drop"] = summ.get("excluded_defer_after_drop", 0) + 1
        elif r["realmon"].get(prop) is False:
            cls = classes_of(r) & set(known)
            if cls:
                for c in cls:
                    summ["known"].setdefault(c, []).append(name)
            else:
                summ["monviol"].append((name, "monitor %s_ok is false on the real trace" % prop))
        elif v == "ok":
            summ["ok"] += 1
    return res, summ


def make_fails(prop, binary, driver, kind, drop_log=False):
    """Predicate used by the shrinker: does the (smaller) program still fail the same way?"""
    counter = [0]

    def fails(prog):
        counter[0] += 1
        name = "shrink%d" % counter[0]
        res = run_both(binary, driver, [(name, prog)], "shrink-%d" % os.getpid(), nproc=1, drop_log=drop_log, real_timeout=20)
        r = res[name]
        v, _ = judge(prop, r, drop_log)
        if kind == "diff":
            return v == "diff"
        if kind == "mon":
            if v == "ok" and prop in LEAK_PROPS and deferred_after_last_drop(r):
                return False
            return v in ("ok", "diff") and r["realmon"].get(prop) is False and not (classes_of(r) & set(findings_for(prop)))
        return v == "crash"
    return fails


def run(prop, tier, seed):
    ev = vlib.Evidence(prop, tier, seed, level="proof")
    t0 = time.time()
    shutil.rmtree(os.path.join(vlib.OUT, "replay", prop), ignore_errors=True)
    problems = []          # things that break the tie / the proof (protocol: search, then no-input violation)
    ok_tr, tr_problems = vlib.translate()
    if not ok_tr:
        problems += ["translator: " + p for p in tr_problems]
    # --- proofs
    audit = vlib.props_audit(prop, PINS.get(prop, []))
    if not audit["ok"]:
        problems += ["proof: " + p for p in audit["problems"]]
        failed = vlib.coq_failed_files(audit["log"])
        if failed:
            problems.append("coq files failing: " + ", ".join(failed))
    # --- model + harness
    okm, driver, mlog = build_model()
    okh, binary, hlog = build_harness()
    if not okh:
        problems.append("harness build failed: " + hlog[-1500:])
    if not okm:
        problems.append("model build failed: " + mlog[-1500:])
        # failing-input search with the last model / monitors that did build (from the unchanged tree)
        fallback = os.path.join(vlib.CACHE, "bin", "r_driver")
        if os.path.exists(fallback):
            okm, driver = True, fallback
            problems.append("searching with the last good model and monitors: " + fallback)
    violations = []
    summ_all = dict(ok=0, ambig=0, validated=0, fuel=0)
    known_seen = {}
    dist = {}
    samples = []
    nontrivial = set()
    n_eval = 0
    if okm and okh:
        rule, pred = NONTRIVIAL[prop]
        # corpus first (known-finding witnesses and regression cases)
        corpus = load_corpus()
        ccases = [(n, p) for n, p, _ in corpus]
        res, summ = check_cases(prop, binary, driver, ccases, "corpus-" + prop)
        batches = [("corpus", ccases, res, summ)]
        n = (THOROUGH_N if tier == "thorough" else QUICK_N)[prop]
        if problems:
            n = max(n, THOROUGH_N[prop] // 2)       # failing-input search: escalate the budget
        per = 1500
        done = 0
        bi = 0
        escalated = bool(problems)
        while done < n:
            k = min(per, n - done)
            cases, stats = gen_cases(prop, k, seed * 1000 + bi)
            for kk, vv in stats.items():
                dist["gen." + kk] = dist.get("gen." + kk, 0) + vv
            res, summ = check_cases(prop, binary, driver, cases, "gen-%s-%d" % (prop, bi))
            batches.append(("gen%d" % bi, cases, res, summ))
            done += k
            bi += 1
            if summ["monviol"] or summ["crashes"]:
                break                                  # a failing input: enough to report; shrink below
            if summ["diffs"] and not escalated:
                # the correspondence is broken but no monitor is false yet: keep searching the real crate with the
                # escalated budget for an input on which the property itself fails (DESIGN.md 2.4)
                escalated = True
                n = max(n, THOROUGH_N[prop] // 2)
        for bname, cases, res, summ in batches:
            n_eval += len(cases)
            for k_ in ("ok", "ambig", "validated", "fuel"):
                summ_all[k_] += summ[k_]
            summ_all["excluded_defer_after_drop"] = summ_all.get("excluded_defer_after_drop", 0) + summ.get("excluded_defer_after_drop", 0)
            for fid, names in summ["known"].items():
                known_seen.setdefault(fid, []).extend(names)
            for name, _ in cases:
                r = res[name]
                if r.get("real") and r["verdict"] in ("ok", "diff"):
                    ls = r["real"]["lines"]
                    if pred(ls):
                        nontrivial.add(hash(tuple(canon(ls))))
                    for l in ls:
                        kk = l.split(" ", 1)[0]
                        dist["ev." + kk] = dist.get("ev." + kk, 0) + 1
                    if prop == "C05":
                        # the two trace hypotheses of C05_ret_exactly_once (hyp05 of coq/R/C05Proofs.v), on the real trace
                        rids = [l.split()[1] for l in ls if l.startswith("retnew ")]
                        leaked = any(l.startswith("leak ") and l.split()[1] in ("0", "1", "3") for l in ls)
                        key = "thm.C05_hypotheses_hold" if (len(rids) == len(set(rids)) and not leaked) else "thm.C05_hypotheses_fail"
                        dist[key] = dist.get(key, 0) + 1
                    if len(samples) < 6 and pred(ls):
                        samples.append(dict(case=name, events=len(ls), program=ser_case(name, r["prog"])[:600]))
            for kind, lst in (("mon", summ["monviol"]), ("diff", summ["diffs"]), ("crash", summ["crashes"])):
                for name, detail in lst[:2]:
                    prog = res[name]["prog"]
                    small = shrink(prog, make_fails(prop, binary, driver, kind), max_iter=250 if tier == "quick" else 600)
                    path = save_replay(prop, "%s_%s" % (kind, name), small, "%s: %s" % (kind, detail))
                    violations.append((kind, name, path, detail))
    # --- C16, thorough tier: the same cases under AddressSanitizer / LeakSanitizer
    san_info = None
    if prop == "C16" and tier == "thorough" and okm and okh:
        allres, allcases = {}, []
        for bname, cases, res, summ in batches:
            allres.update(res)
            allcases += [(n, p) for n, p in cases if res[n].get("verdict") == "ok"]
        san_info, san_found = sanitizer_tier(driver, allcases, allres)
        if not san_info.get("built"):
            problems.append("sanitizer build failed: " + san_info.get("log", ""))
        for name, prog, rep in san_found[:2]:
            path = save_replay(prop, "asan_%s" % name, prog, "sanitizer report: " + rep.replace("\n", " | ")[:800])
            violations.append(("mon", name, path, "AddressSanitizer/LeakSanitizer report"))
    # --- C20: the same programs once more on the REAL crate with a logger that re-enters Core (allocates a LogID while
    # it handles an Open record); the model has no such logger, so this pass judges the real traces with the C20 monitor only
    reenter_info = None
    if prop == "C20" and okm and okh:
        rcases = []
        for bname, cases, res, summ in batches:
            rcases += [(n, p) for n, p in cases if res[n].get("verdict") == "ok" and res[n]["realmon"].get(prop) is True]
        rcases = rcases[:(3000 if tier == "quick" else 20000)]
        bad = reentrant_logger_pass(prop, binary, driver, rcases)
        reenter_info = {"cases": len(rcases), "monitor_false": len(bad)}
        for name, prog in bad[:1]:
            path = save_replay(prop, "reenter_%s" % name, prog,
                               "mon: C20_ok is false on the REAL trace when the logger allocates a LogID inside its callback "
                               "(run harness/r with VERIF_LOGGER_REENTER=1); the same program passes with a passive logger")
            violations.append(("mon", name, path, "re-entrant logger"))
    # --- verdict
    known = findings_for(prop)
    for fid, f in sorted(known.items()):
        names = known_seen.get(fid, [])
        wit = [x for x in names if x.startswith(fid + "_")]
        if wit:
            vlib.known_finding(prop, "class=%s %s (witness %s reproduces: %s_ok is false on the real trace; %d generated/corpus cases in the class)"
                               % (f.get("class"), f["record"].split(" ", 3)[-1][:160], ",".join(wit), prop, len(names)))
    rc = 0
    # a false monitor on a real trace, or a crash / panic of the real crate on a valid program, is a failing input
    mon_v = [v for v in violations if v[0] in ("mon", "crash")]
    other_v = [v for v in violations if v[0] not in ("mon", "crash")]
    if mon_v:
        for kind, name, path, detail in mon_v[:1]:
            vlib.violation(prop, path)
        rc = 1
    elif other_v:
        # model and code disagree (or the interpreter crashed) but no monitor is false on a real trace
        kind, name, path, detail = other_v[0]
        vlib.violation(prop, path, no_input=True)
        rc = 1
    elif problems:
        path = vlib.replay_path(prop, "tie_or_proof_broken.txt")
        with open(path, "w") as f:
            f.write("property %s: the following no longer checks; %d cases were searched without finding a failing input\n" % (prop, n_eval))
            f.write("\n".join(problems) + "\n")
        vlib.violation(prop, path, no_input=True)
        rc = 1
    # --- evidence
    ev.violations = len(violations) + (1 if (problems and not violations) else 0)
    nth = vlib.count_theorems(vlib.coq_deps("Props/%s.v" % prop))
    ev.cov.update(dict(
        obligations=max(audit["obligations"], nth), discharged=(max(audit["discharged"], nth) if audit["ok"] else 0),
        checker_cmd="make -C coq Props/%s.vo (coqc 8.16.1, full .vo) ; Print Assumptions of %s" % (prop, ", ".join(PINS.get(prop, [])) or "-"),
        axioms=audit["axioms"], closed_under_global_context=audit["closed"],
        trusted_base=vlib.TRUSTED_BASE_COMMON + [
            "harness/r interpreter (programs -> public stakker API calls; drop-counting tokens) and exec/r_driver.ml",
            "timers and the flat queue are abstract in coq/R (lists); their refinement is Layer T / Layer Q"],
        evaluations=n_eval, traces_validated_against_impl=summ_all["validated"], distinct_nontrivial=len(nontrivial),
        rule="a case counts as non-trivial for %s if its real trace has %s; distinct = distinct canonical real traces" % (prop, NONTRIVIAL[prop][0]),
        samples=samples, distribution=dist,
        skipped_ambiguous_timer_order=summ_all["ambig"], model_out_of_fuel=summ_all["fuel"],
        excluded_defer_after_last_stakker_drop=summ_all.get("excluded_defer_after_drop", 0),
        known_finding_cases=dict((k, len(v)) for k, v in known_seen.items()),
        sanitizer=san_info, reentrant_logger_pass=reenter_info,
        theorem=CLAIM[prop]["proved"], theorem_is_partial=CLAIM[prop]["partial"], not_proved=CLAIM[prop]["missing"],
        problems=problems, violations_detail=[dict(kind=k, case=n, replay=p, detail=d) for k, n, p, d in violations][:10],
    ))
    if CLAIM[prop]["partial"]:
        ev.assumptions.append("PARTIAL PROOF: " + CLAIM[prop]["missing"])
    ev.assumptions += ["timer expiries in generated programs are >= 1 ms away from every run instant and < 30000 s ahead (order of firing by expiry, ties by creation)",
                       "programs mixing Max/Min timers with other timers in one firing batch or at teardown are skipped (order owned by Layer T)"]
    ev.write()
    vlib.log("%s %s: %d cases, %d validated against the implementation, %d non-trivial, %.0fs" % (prop, tier, n_eval, summ_all["validated"], len(nontrivial), time.time() - t0))
    return rc


def replay(prop, path):
    okm, driver, mlog = build_model()
    okh, binary, hlog = build_harness()
    if not (okm and okh):
        vlib.log("build failed:\n" + (mlog if not okm else hlog)[-2000:])
        return 3
    text = open(path).read()
    cases = parse_cases(text)
    if not cases:
        vlib.log(text)
        return 1
    res, summ = check_cases(prop, binary, driver, cases, "replay-" + prop)
    rc = 0
    for name, _ in cases:
        r = res[name]
        vlib.log("case %s: %s %s ; %s_ok(real)=%s %s_ok(model)=%s ; classes=%s" % (
            name, r["verdict"], r["detail"], prop, r["realmon"].get(prop), prop, (r["model"] or {}).get("mon", {}).get(prop), sorted(classes_of(r))))
    if summ["monviol"]:
        vlib.violation(prop, path)
        rc = 1
    elif summ["diffs"] or summ["crashes"]:
        vlib.violation(prop, path, no_input=True)
        rc = 1
    for fid, names in summ["known"].items():
        vlib.known_finding(prop, "class=%s reproduced by %s" % (fid, ",".join(names)))
    return rc


# --------------------------------------------------------------------------------------------------
# C16 sanitizer tier (thorough only): the same interpreter under AddressSanitizer / LeakSanitizer

ASAN_TARGET = "x86_64-unknown-linux-gnu"


def build_asan():
    return build_harness(toolchain="nightly", target=ASAN_TARGET, tag="asan", extra_rustflags="-Zsanitizer=address")


def _asan_run(binary, cases, tag, leaks):
    os.makedirs(WORK, exist_ok=True)
    cf_ = os.path.join(WORK, "asan-%s.cases" % tag)
    with open(cf_, "w") as f:
        for name, prog in cases:
            f.write(ser_case(name, prog))
    env = {"ASAN_OPTIONS": "detect_leaks=%d:abort_on_error=0:halt_on_error=1:detect_stack_use_after_return=1" % (1 if leaks else 0),
           "LSAN_OPTIONS": "exitcode=23", "RUST_BACKTRACE": "0"}
    rc, out = vlib.run([binary, cf_], timeout=1800, env=env)
    report = None
    if "ERROR: AddressSanitizer" in out or "ERROR: LeakSanitizer" in out or rc not in (0,):
        i = out.find("ERROR: ")
        report = out[i:i + 1500] if i >= 0 else "exit code %d: %s" % (rc, out[-600:])
    return rc, out, report


def _asan_find(binary, cases, leaks):
    """Locate one case that makes the sanitizer report (bisection over the batch)."""
    lo = list(cases)
    while len(lo) > 1:
        half = lo[:len(lo) // 2]
        _, _, rep = _asan_run(binary, half, "bisect-%d" % os.getpid(), leaks)
        lo = half if rep else lo[len(lo) // 2:]
    return lo[0] if lo else None


def sanitizer_tier(driver, cases, results):
    """-> (info dict, list of (case name, prog, report))"""
    ok, binary, log = build_asan()
    if not ok:
        return dict(built=False, log=log[-1500:]), []
    clean, leaky = [], []
    for name, prog in cases:
        r = results.get(name)
        if not r or not r.get("model") or r["model"]["status"] != "done":
            continue
        if any(l.startswith("leak ") for l in r["model"]["lines"]):
            leaky.append((name, prog))
        else:
            clean.append((name, prog))
    found = []
    info = dict(built=True, clean_cases=len(clean), leaky_cases=len(leaky), shards=0)
    import concurrent.futures as cf
    shards = chunks(clean, vlib.NCPU) if clean else []
    with cf.ThreadPoolExecutor(max_workers=vlib.NCPU) as ex:
        futs = [ex.submit(_asan_run, binary, sh, "c%d" % i, True) for i, sh in enumerate(shards)]
        for fu, sh in zip(futs, shards):
            rc, out, rep = fu.result()
            info["shards"] += 1
            if rep:
                bad = _asan_find(binary, sh, True)
                if bad:
                    found.append((bad[0], bad[1], rep))
    # programs for which the model itself predicts unreleased objects (known classes F4/F5/F7 and closures parked
    # after the last Stakker): memory errors still count, leak reports do not
    if leaky:
        rc, out, rep = _asan_run(binary, leaky, "leaky", False)
        if rep:
            bad = _asan_find(binary, leaky, False)
            if bad:
                found.append((bad[0], bad[1], rep))
    # sanity: LeakSanitizer does see the known F5 leak (otherwise the tier would be blind)
    wit = [(n, p) for n, p, fn in load_corpus() if n == "F5_prep_held"]
    if wit:
        rc, out, rep = _asan_run(binary, wit, "f5", True)
        info["f5_leak_reported_by_lsan"] = bool(rep and "LeakSanitizer" in rep)
    return info, found


# --------------------------------------------------------------------------------------------------
# plug-in for tools/checks/layer_cfg.py (C18): the runtime interpreter under every feature configuration

def cfg_deferrer_kind(features):
    f = set(features)
    if "inline-deferrer" in f or "multi-stakker" in f:
        return "inline"
    if "multi-thread" in f:
        return "thread-local"
    if "no-unsafe" in f:
        return "inline"
    return "global"


def _prefix_to_first_drop(lines):
    out = []
    for l in lines:
        if l.startswith("leak "):
            continue
        out.append(l)
        if l == "dropend":
            break
    return out


def cfg_compare(features, real, model):
    """-> None if the real trace of this configuration equals the model trace under the rules of DESIGN 6/C18
       (log events only with `logger`; with the inline deferrer only up to the end of the first Stakker::drop),
       else (index, real line, model line)."""
    if real is None:
        return (0, "no trace", "")
    if real["status"] != "done":
        return (0, "status %s %s" % (real["status"], [l for l in real["lines"] if l.startswith("panic")][:1]), "done")
    has_log = "logger" in features
    a = canon(real["lines"], drop_log=not has_log)
    b = canon(model["lines"], drop_log=not has_log)
    if cfg_deferrer_kind(features) == "inline":
        a, b = _prefix_to_first_drop(a), _prefix_to_first_drop(b)
    i = first_diff(a, b)
    if i < 0:
        return None
    return (i, a[i] if i < len(a) else None, b[i] if i < len(b) else None)


def cfg_check(cfgs, tier, seed):
    """cfgs: [(name, features, no_default)].  Builds the interpreter under each configuration (4 at a time), runs the
       corpus + generated programs under each, compares with the single model trace.
       -> dict(diffs=[(cfg, case, index, real line, model line, program text)], programs, comparisons, build_s, ...)"""
    import concurrent.futures as cf
    t0 = time.time()
    okm, driver, mlog = build_model()
    if not okm:
        return dict(diffs=[("model", "<build>", 0, "model build failed", mlog[-300:], "")], programs=0, comparisons=0, build_s=0)
    built, blog = {}, {}

    def build(c):
        name, feats, nd = c
        ok, binary, out = build_harness(features=list(feats) or None, no_default=nd, tag="cfg-" + name.replace("+", "_").replace("-", ""))
        return name, ok, binary, out
    with cf.ThreadPoolExecutor(max_workers=4) as ex:
        for name, ok, binary, out in ex.map(build, cfgs):
            built[name] = binary if ok else None
            if not ok:
                blog[name] = out[-600:]
    build_s = time.time() - t0
    diffs = [(name, "<build>", 0, "harness/r does not build under this configuration", blog[name], "") for name in blog]
    n = 6000 if tier == "thorough" else 1200
    cases, stats = gen_cases("C18", n, seed)
    cases = [(nm, p) for nm, p, _ in load_corpus()] + cases
    os.makedirs(WORK, exist_ok=True)
    cfile = os.path.join(WORK, "cfg-%d.cases" % os.getpid())
    with open(cfile, "w") as f:
        for name, prog in cases:
            f.write(ser_case(name, prog))
    rc, mout = run_model(driver, cfile)
    model = parse_traces(mout)
    usable = [(nm, p) for nm, p in cases
              if model.get(nm) and model[nm]["status"] == "done" and M_AMBIG not in model_flags(model[nm]["lines"])]

    def one(c):
        name, feats, nd = c
        if built.get(name) is None:
            return c, None
        rc, out = run_real(built[name], cfile)
        return c, parse_traces(out)
    with cf.ThreadPoolExecutor(max_workers=vlib.NCPU) as ex:
        results = list(ex.map(one, cfgs))
    comparisons, equal, per_cfg = 0, 0, {}
    for (name, feats, nd), real in results:
        if real is None:
            continue
        bad = 0
        for nm, prog in usable:
            comparisons += 1
            d = cfg_compare(feats, real.get(nm), model[nm])
            if d is None:
                equal += 1
            else:
                bad += 1
                if bad <= 2:
                    diffs.append((name, nm, d[0], d[1], d[2], ser_case(nm, prog)))
        per_cfg[name] = dict(different=bad, deferrer=cfg_deferrer_kind(feats), logger=("logger" in feats))
    if tier == "thorough" and not os.environ.get("VERIF_KEEP_TARGETS"):
        for name, _, _ in cfgs:
            shutil.rmtree(os.path.join(vlib.CACHE, "target-r-cfg-" + name.replace("+", "_").replace("-", "")), ignore_errors=True)
    return dict(diffs=diffs, programs=len(usable), comparisons=comparisons, equal=equal, build_s=round(build_s, 1),
                skipped_ambiguous_timer_order=len(cases) - len(usable), per_configuration=per_cfg, generator=stats,
                total_s=round(time.time() - t0, 1))
