"""Layer T checks: C07 C08 C09 C10 C19 (timers).

Pipeline (see DESIGN.md 2.4):
  1. regenerate coq/Gen from /repo (translator), audit Props/<id>.v (build, Print Assumptions, lint)
  2. build harness/t against /repo's working tree (debug + release) and the extracted model driver
  3. corpus first, then generated histories: real crate vs model (results AND internal state after every op)
  4. the Coq monitors (extracted) evaluated on the REAL results
  5. verdict: monitor false on a real trace -> VIOLATION (or KNOWN-FINDING for the listed classes);
     proof / translator / correspondence broken -> search, then VIOLATION (no-failing-input-found if none)
"""
import os
import random
import subprocess
import sys
import time

import vlib

PROPS = {"C07": "c07", "C08": "c08", "C09": "c09", "C10": "c10", "C19": "c19", "C15": "c15"}
ALSO_BITS = {"C08": ["c07"]}
PINS = {
    "C07": ["C07_no_early"],
    "C08": ["C08_on_time"],
    "C09": ["C09_next_expiry"],
    "C10": ["C10_keys_exact"],
    "C19": ["C19_order"],
    "C15": [],      # the C15 theorems live in the runtime layer (coq/R); here: Core::now observed on real traces at sub-tick steps
}
NS = 10 ** 9
STEP = 16384
NEAR = 32767 * NS

# ------------------------------------------------------------------ case generation


class Gen:
    """One PRNG; boundary-biased instants; mostly valid key use plus a malformed stream."""

    def __init__(self, rng, focus):
        self.r = rng
        self.focus = focus
        self.dist = {}

    def count(self, k):
        self.dist[k] = self.dist.get(k, 0) + 1

    def instant(self, cur):
        r = self.r
        c = r.random()
        if c < 0.10:
            self.count("inst:past")
            return cur - r.choice([1, 5, 1000, STEP, 10 ** 6, NS, 7 * NS + 123, 400 * NS])
        if c < 0.16:
            self.count("inst:now")
            return cur + r.choice([0, 1, -1, 2])
        if c < 0.30:
            self.count("inst:tick-edge")
            base = ((cur + r.randrange(0, 40) * STEP) // STEP) * STEP
            return base + r.choice([0, 1, -1, STEP - 1, STEP, STEP + 1, 2 * STEP - 1, 2 * STEP, 2 * STEP + 1])
        if c < 0.42:
            self.count("inst:second-edge")
            sec = (cur // NS + r.choice([0, 1, 1, 2, 5, 60])) * NS
            return sec + r.choice([0, 1, -1, -STEP, -STEP + 1, -2561, -2560, -2559, -1000, 999997440 - NS, 999997441 - NS,
                                   999997439 - NS, STEP, 61035 * STEP - NS, 61036 * STEP - NS])
        if c < 0.52:
            self.count("inst:9h-edge")
            return cur + 32767 * NS + r.choice([0, 1, -1, -20000, 20000, -STEP, STEP, -50, 50, r.randrange(-40000, 40000)])
        if c < 0.58:
            self.count("inst:18h-edge")
            return cur + 65536 * NS + r.choice([0, 1, -1, -20000, 20000, r.randrange(-40000, 40000)])
        if c < 0.75:
            self.count("inst:short")
            return cur + r.randrange(0, r.choice([3 * STEP, 10 ** 6, 10 ** 9, 10 * NS]))
        if c < 0.90:
            self.count("inst:medium")
            return cur + r.randrange(0, r.choice([100 * NS, 3000 * NS, 40000 * NS]))
        self.count("inst:long")
        return cur + r.randrange(0, r.choice([100000 * NS, 400000 * NS]))

    def run_instant(self, cur, pend_hint):
        r = self.r
        c = r.random()
        if c < 0.08:
            self.count("run:nonadvancing")
            return cur - r.choice([0, 1, STEP, NS])
        if c < 0.30:
            self.count("run:tiny")
            return cur + r.choice([1, 2, STEP - 1, STEP, STEP + 1, 2 * STEP, 3 * STEP + 7, r.randrange(1, 5 * STEP)])
        if c < 0.55:
            self.count("run:short")
            return cur + r.randrange(1, r.choice([10 ** 6, NS, 10 * NS]))
        if c < 0.75 and pend_hint:
            self.count("run:to-timer")
            return max(cur, r.choice(pend_hint)) + r.choice([0, 1, -1, STEP, STEP - 1, STEP + 1, 2 * STEP, -STEP, 5 * STEP])
        if c < 0.88:
            self.count("run:medium")
            return cur + r.randrange(1, r.choice([100 * NS, 3000 * NS, 33000 * NS]))
        self.count("run:multi-9h")
        return cur + r.randrange(1, 5) * 32767 * NS + r.randrange(-NS, 40000 * NS)

    def case(self, name):
        r = self.r
        n_ops = r.choice([5, 8, 12, 20, 30, 45, 60, 80])
        cur = 0
        ops = []
        keys = {"F": [], "M": [], "N": []}     # op indices that returned a key
        hint = []
        cb = 0
        focus = self.focus
        if r.random() < 0.15:
            ops.append("run %d" % r.choice([1, 5 * NS, 10 * NS, 123456789012, 86400 * NS * 30]))
            cur = max(cur, int(ops[-1].split()[1]))
        if r.random() < (0.25 if focus == "C19" else 0.05):
            # var slots freed in some order (expired or deleted), then clusters of fixed timers given the identical
            # instant at the same time, at every distance below the 32767 s limit of the fixed path
            self.count("scen:slot-recycle-cluster")
            vs = []
            for _ in range(r.randrange(2, 5)):
                cb += 1
                kind = r.choice(["add", "addmax", "addmin"])
                t = cur + (33000 + r.randrange(0, 3000)) * NS if kind == "add" else cur + r.randrange(1, 40000) * NS
                ops.append("%s %d %d" % (kind, t, cb))
                keys[{"add": "F", "addmax": "M", "addmin": "N"}[kind]].append(len(ops) - 1)
                vs.append((kind, len(ops) - 1, t))
            if r.random() < 0.5:
                order = list(vs)
                if r.random() < 0.3:
                    r.shuffle(order)
                for kind, ix, t in order:
                    ops.append("%s k%d" % ({"add": "del", "addmax": "delmax", "addmin": "delmin"}[kind], ix))
            else:
                cur = max(t for _, _, t in vs) + r.randrange(1, 100) * NS
                ops.append("run %d" % cur)
            for _ in range(r.randrange(1, 3)):
                t = cur + r.choice([r.randrange(1, 100) * NS, r.randrange(20000, 32766) * NS, r.randrange(28672, 32766) * NS + r.randrange(0, NS),
                                    r.randrange(1000, 28672) * NS])
                for _ in range(r.randrange(2, 4)):
                    cb += 1
                    ops.append("add %d %d" % (t, cb))
                    keys["F"].append(len(ops) - 1)
                hint.append(t)
            if r.random() < 0.8:
                cur = cur + 32768 * NS + r.randrange(0, 100) * NS
                ops.append("run %d" % cur)
        if r.random() < (0.12 if focus == "C19" else 0.04):
            # long uptime, then fixed timers whose deadlines lie far in the PAST (up to and beyond 32768 s / 65536 s back),
            # mixed with present and near-future ones: all are clamped to now+1 tick and must run in creation order
            self.count("scen:past-deadlines")
            if cur < 70000 * NS:
                cur = r.choice([70000 * NS, 200000 * NS, 86400 * NS * 30]) + r.randrange(0, NS)
                ops.append("run %d" % cur)
            for _ in range(r.randrange(2, 6)):
                cb += 1
                back = r.choice([0, 1, STEP, NS, 100 * NS, 32767 * NS, 32768 * NS, 32769 * NS, 40000 * NS, 65535 * NS, 65536 * NS, 65537 * NS,
                                 r.randrange(0, 70000) * NS + r.randrange(0, NS)])
                t = max(0, cur - back) if r.random() < 0.8 else cur + r.choice([1, STEP, 2 * STEP, NS])
                ops.append("add %d %d" % (t, cb))
                keys["F"].append(len(ops) - 1)
                hint.append(t)
            cur = cur + r.choice([1, STEP, 2 * STEP, NS, 5 * NS])
            ops.append("run %d" % cur)
        if r.random() < (0.08 if focus == "C10" else 0.02):
            # a burst of more than 32 var-slot timers, all gone again (deleted or fired) so that the runtime is completely
            # idle, then new var timers reusing the slots, then the OLD keys are used: they must stay inert
            self.count("scen:var-burst")
            burst = []
            for _ in range(r.randrange(33, 41)):
                cb += 1
                kind = r.choice(["addmax", "addmin", "add"])
                t = cur + (33000 + r.randrange(0, 2000)) * NS if kind == "add" else cur + r.randrange(1, 2000) * NS
                ops.append("%s %d %d" % (kind, t, cb))
                keys[{"add": "F", "addmax": "M", "addmin": "N"}[kind]].append(len(ops) - 1)
                burst.append((kind, len(ops) - 1))
            if r.random() < 0.6:
                for kind, ix in burst:
                    ops.append("%s k%d" % ({"add": "del", "addmax": "delmax", "addmin": "delmin"}[kind], ix))
            else:
                cur = cur + 36000 * NS
                ops.append("run %d" % cur)
            for _ in range(r.randrange(1, 4)):
                cb += 1
                kind = r.choice(["addmax", "addmin", "add"])
                t = cur + (33000 + r.randrange(0, 2000)) * NS if kind == "add" else cur + r.randrange(1, 2000) * NS
                ops.append("%s %d %d" % (kind, t, cb))
                keys[{"add": "F", "addmax": "M", "addmin": "N"}[kind]].append(len(ops) - 1)
            for kind, ix in r.sample(burst, 6):
                c2 = r.random()
                if c2 < 0.4:
                    ops.append("%s k%d" % ({"add": "del", "addmax": "delmax", "addmin": "delmin"}[kind], ix))
                elif kind != "add":
                    ops.append(("act%s k%d" % (kind[3:], ix)) if c2 < 0.7 else ("mod%s k%d %d" % (kind[3:], ix, cur + r.randrange(1, 3000) * NS)))
            cur = cur + r.randrange(1, 40000) * NS
            ops.append("run %d" % cur)
        if r.random() < 0.07:
            # far var-slot timers re-queued by advance() with the 0x7FFF s clamp active, then deleted / updated /
            # left alone, slots reused, then time carried past every stand-in entry
            self.count("scen:far-requeue")
            far = []
            for _ in range(r.randrange(1, 4)):
                cb += 1
                k = r.randrange(2, 6)
                t = cur + k * 32767 * NS + r.randrange(-NS, 20000 * NS)
                kind = r.choice(["add", "addmax", "addmax", "addmin"])
                ops.append("%s %d %d" % (kind, t, cb))
                keys[{"add": "F", "addmax": "M", "addmin": "N"}[kind]].append(len(ops) - 1)
                far.append((kind, len(ops) - 1, t))
                hint.append(t)
            for _ in range(r.randrange(1, 3)):
                cur = cur + r.randrange(1, 3) * 32767 * NS + r.randrange(0, 3000 * NS)
                ops.append("run %d" % cur)
            for kind, ix, t in far:
                c2 = r.random()
                if c2 < 0.6:
                    ops.append("%s k%d" % ({"add": "del", "addmax": "delmax", "addmin": "delmin"}[kind], ix))
                elif c2 < 0.8 and kind != "add":
                    ops.append("%s k%d %d" % ({"addmax": "modmax", "addmin": "modmin"}[kind], ix, cur + r.randrange(0, 5) * 32767 * NS + r.randrange(0, 1000 * NS)))
            for _ in range(r.randrange(0, 3)):
                cb += 1
                kind = r.choice(["add", "addmax", "addmin"])
                t = cur + r.choice([5 * NS, 40000 * NS, 70000 * NS, 140000 * NS])
                ops.append("%s %d %d" % (kind, t, cb))
                keys[{"add": "F", "addmax": "M", "addmin": "N"}[kind]].append(len(ops) - 1)
                hint.append(t)
            if r.random() < 0.7:
                cur = cur + r.randrange(1, 4) * 32767 * NS + r.randrange(0, 3000 * NS)
                ops.append("run %d" % cur)
        while len(ops) < n_ops:
            c = r.random()
            idx = len(ops)

            def keyref(kind, stale_ok=True):
                ks = keys[kind]
                if not ks or r.random() < 0.06:
                    self.count("key:default")
                    return "default"
                if r.random() < 0.75:
                    return "k%d" % ks[-r.randrange(1, min(len(ks), 4) + 1)]
                return "k%d" % r.choice(ks)

            if c < 0.16:
                cb += 1
                t = self.instant(cur)
                if focus == "C19" and r.random() < 0.6:
                    # clusters of near-identical fixed timers
                    t = cur + r.choice([0, 1, STEP, 2 * STEP, 3 * STEP, 10 * STEP, 5 * NS]) + r.choice([0, 0, 1, STEP - 1, STEP, 2 * STEP])
                    for _ in range(r.randrange(1, 4)):
                        ops.append("add %d %d" % (t, cb))
                        keys["F"].append(len(ops) - 1)
                        hint.append(t)
                        cb += 1
                    self.count("op:add-cluster")
                    continue
                ops.append("add %d %d" % (t, cb))
                keys["F"].append(idx)
                hint.append(t)
                self.count("op:add")
            elif c < 0.20:
                cb += 1
                d = max(0, self.instant(cur) - cur)
                ops.append("after %d %d" % (d, cb))
                keys["F"].append(idx)
                hint.append(cur + d)
                self.count("op:after")
            elif c < 0.30:
                cb += 1
                t = self.instant(cur)
                ops.append("addmax %d %d" % (t, cb))
                keys["M"].append(idx)
                hint.append(t)
                self.count("op:addmax")
            elif c < 0.40:
                cb += 1
                t = self.instant(cur)
                ops.append("addmin %d %d" % (t, cb))
                keys["N"].append(idx)
                hint.append(t)
                self.count("op:addmin")
            elif c < 0.47:
                t = self.instant(cur)
                ops.append("modmax %s %d" % (keyref("M"), t))
                hint.append(t)
                self.count("op:modmax")
            elif c < 0.56:
                t = self.instant(cur)
                ops.append("modmin %s %d" % (keyref("N"), t))
                hint.append(t)
                self.count("op:modmin")
            elif c < 0.61:
                ops.append("del %s" % keyref("F"))
                self.count("op:del")
            elif c < 0.65:
                ops.append("delmax %s" % keyref("M"))
                self.count("op:delmax")
            elif c < 0.69:
                ops.append("delmin %s" % keyref("N"))
                self.count("op:delmin")
            elif c < 0.72:
                ops.append("act%s %s" % (("max", keyref("M")) if r.random() < 0.5 else ("min", keyref("N"))))
                self.count("op:active")
            elif c < 0.80:
                ops.append("ne")
                self.count("op:ne")
                k = r.random()
                if k < 0.3:
                    ops.append("nw %d" % (cur + r.choice([0, 1, -5, STEP, NS, 40000 * NS])))
                    self.count("op:nw")
                elif k < 0.5:
                    ops.append("nwm %d %d %d" % (cur + r.choice([0, 1, STEP, NS]), r.choice([0, 1, STEP, NS, 3600 * NS]), r.random() < 0.3))
                    self.count("op:nwm")
                elif k < 0.8:
                    # drain a few rounds at exactly next_expiry
                    for _ in range(r.randrange(1, 6)):
                        ops.append("runne %d %d" % (r.choice([0, 0, 0, 0, 1, -1, STEP]), cur))
                        ops.append("ne")
                        self.count("op:runne")
                    # the generator cannot know where time is now; later instants are relative to a conservative guess
            elif c < (0.90 if focus == "C15" else 0.82):
                ops.append("now")
                self.count("op:now")
                if focus == "C15":
                    t = cur + r.choice([1, 2, 5000, STEP - 1, STEP, STEP + 1, -1, 0, 3 * STEP, NS])
                    ops.append("run %d" % t)
                    cur = max(cur, t)
                    ops.append("now")
                    self.count("op:run-subtick")
            elif c < (0.87 if focus == "C19" else 0.835):
                self.defers = getattr(self, "defers", 1000000) + 1
                ops.append("defer %d" % self.defers)
                self.count("op:defer")
            else:
                t = self.run_instant(cur, hint[-6:])
                ops.append("run %d" % t)
                cur = max(cur, t)
                self.count("op:run")
        if r.random() < 0.5:
            # final drain: everything must fire within the round budget
            ops.append("ne")
            for _ in range(r.choice([3, 10, 40])):
                ops.append("runne 0 %d" % cur)
                ops.append("ne")
            self.count("tail:drain")
        if r.random() < 0.5:
            ops.append("run %d" % (cur + 500000 * NS))
            ops.append("ne")
            self.count("tail:bigrun")
        return "case %s\n%s\nend\n" % (name, "\n".join(ops))


def gen_cases(seed, n, focus):
    rng = random.Random("T-%s-%d" % (focus, seed))
    g = Gen(rng, focus)
    text = "".join(g.case("g%d" % i) for i in range(n))
    return text, g.dist


# ------------------------------------------------------------------ running and comparing

def parse_cases(text):
    """-> list of (name, [op lines])"""
    cases, cur = [], None
    for line in text.split("\n"):
        line = line.strip()
        if not line:
            continue
        if line.startswith("case "):
            cur = (line[5:], [])
            cases.append(cur)
        elif line == "end":
            cur = None
        elif cur is not None:
            cur[1].append(line)
    return cases


XLINES = {}   # id(result list) -> {op index: "X d5@.. t3@.." full execution order of that run (real driver only)}


def order_clause_ok(xline):
    """C19, last clause: timer callbacks of a run execute after the calls already queued when run was called
    (deferred calls 'd' in submission order = increasing id, then timer callbacks 't')."""
    items = xline.split()[1:]
    kinds = [it[0] for it in items]
    if "d" in kinds and "t" in kinds and kinds.index("t") < len(kinds) - 1 - kinds[::-1].index("d"):
        return False
    dids = [int(it[1:].split("@")[0]) for it in items if it[0] == "d"]
    return dids == sorted(dids)


def parse_results(out):
    """driver output -> {case name: [(result line, state line or None), ...]}"""
    res, cur = {}, None
    lines = out.split("\n")
    i = 0
    while i < len(lines):
        ln = lines[i].strip()
        i += 1
        if not ln:
            continue
        if ln.startswith("case "):
            cur = []
            res[ln[5:]] = cur
        elif ln == "end":
            cur = None
        elif cur is not None:
            if ln in ("PANIC", "SKIP"):
                cur.append((ln, None))
            else:
                st = None
                if i < len(lines) and lines[i].startswith("S "):
                    st = lines[i].strip()
                    i += 1
                if i < len(lines) and lines[i].startswith("X"):
                    XLINES.setdefault(id(cur), {})[len(cur)] = lines[i].strip()
                    i += 1
                cur.append((ln, st))
    return res


def run_bin(binp, args, text, timeout=900):
    p = subprocess.run([binp] + args, input=text, stdout=subprocess.PIPE, stderr=subprocess.PIPE, text=True, timeout=timeout)
    return p.returncode, p.stdout, p.stderr


def monitor_input(cases, results):
    buf = []
    for name, ops in cases:
        buf.append("case " + name)
        rs = results.get(name, [])
        for j, op in enumerate(ops):
            buf.append(op)
            buf.append("= " + (rs[j][0] if j < len(rs) else "SKIP"))
        buf.append("end")
    return "\n".join(buf) + "\n"


def parse_verdicts(out):
    res, cur = {}, None
    for ln in out.split("\n"):
        ln = ln.strip()
        if ln.startswith("case "):
            cur = []
            res[ln[5:]] = cur
        elif ln == "end":
            cur = None
        elif cur is not None and ln:
            if ln == "SKIP":
                cur.append(None)
            else:
                cur.append(dict(kv.split("=") for kv in ln.split()[1:]))
    return res


class Outcome:
    def __init__(self):
        self.cases = 0
        self.ops = 0
        self.disagree = []      # (case name, op index, real, model)
        self.monfail = {}       # bit -> [(case name, op index)]
        self.distinct = set()
        self.panics = 0


def evaluate(cases, real, model, verd, outcome, tag):
    for name, ops in cases:
        outcome.cases += 1
        rr, mm, vv = real.get(name, []), model.get(name, []), verd.get(name, [])
        sig = []
        diverged = False
        for j, op in enumerate(ops):
            outcome.ops += 1
            r = rr[j] if j < len(rr) else ("MISSING", None)
            m = mm[j] if j < len(mm) else ("MISSING", None)
            if r != m and not diverged:
                outcome.disagree.append((tag + ":" + name, j, r, m))
                diverged = True     # keep evaluating the monitors on the REAL trace
            if r[0] == "PANIC":
                outcome.panics += 1
            sig.append(op.split()[0] + ":" + r[0].split()[0] + (str(len(r[0].split())) if r[0].startswith("F") else ""))
            if " SYNC" in r[0]:
                # a timer callback ran inside an add/update/delete call instead of inside run()
                outcome.monfail.setdefault("c07", []).append((tag + ":" + name, j))
            x = XLINES.get(id(rr), {}).get(j)
            if x and not order_clause_ok(x):
                outcome.monfail.setdefault("c19", []).append((tag + ":" + name, j))
            v = vv[j] if j < len(vv) else None
            if v:
                for bit, val in v.items():
                    if val == "0":
                        outcome.monfail.setdefault(bit, []).append((tag + ":" + name, j))
            if r[0] in ("PANIC", "SKIP"):
                break
        fired = sum(1 for x in sig if x.startswith("run:F") or x.startswith("runne:F"))
        if len(ops) >= 3 and any(x.startswith("run") for x in sig):
            outcome.distinct.add(tuple(sig))


def one_batch(bins, driver, text, outcome, tag):
    cases = parse_cases(text)
    rc, mout, merr = run_bin(driver, ["model"], text)
    if rc != 0:
        raise RuntimeError("model driver failed: " + merr[-2000:])
    model = parse_results(mout)
    for bname, binp in bins:
        rc, rout, rerr = run_bin(binp, [], text)
        if rc != 0:
            raise RuntimeError("real driver (%s) failed rc=%d: %s" % (bname, rc, rerr[-2000:]))
        real = parse_results(rout)
        rc, vout, verr = run_bin(driver, ["monitor"], monitor_input(cases, real))
        if rc != 0:
            raise RuntimeError("monitor driver failed: " + verr[-2000:])
        evaluate(cases, real, model, parse_verdicts(vout), outcome, tag + "/" + bname)
    return cases


def case_text(name, ops):
    return "case %s\n%s\nend\n" % (name, "\n".join(ops))


def check_case(bins, driver, name, ops, bit):
    """Does this case still fail (monitor bit false on a real trace, or real != model)?  -> (fails, kind)"""
    o = Outcome()
    one_batch(bins, driver, case_text(name, ops), o, "shrink")
    if bit is None:
        return bool(o.disagree), "disagree"
    return bool(o.monfail.get(bit)), "monitor"


def shrink(bins, driver, name, ops, upto, bit):
    """Prefix truncation then neutralisation of single ops (`now` keeps key indices stable)."""
    ops = list(ops[:upto + 1])
    changed = True
    budget = 150
    while changed and budget > 0:
        changed = False
        for j in range(len(ops) - 1):
            if ops[j] == "now":
                continue
            budget -= 1
            if budget <= 0:
                break
            trial = ops[:j] + ["now"] + ops[j + 1:]
            try:
                fails, _ = check_case(bins, driver, name, trial, bit)
            except Exception:
                fails = False
            if fails:
                ops = trial
                changed = True
    return ops


def write_replay(prop, fname, header, name, ops, bins, driver):
    path = vlib.replay_path(prop, fname)
    text = case_text(name, ops)
    buf = ["# " + h for h in header]
    buf.append("# replay: ./check %s --replay %s" % (prop, path))
    try:
        rc, mout, _ = run_bin(driver, ["model"], text)
        for bname, binp in bins:
            rc, rout, _ = run_bin(binp, [], text)
            real = parse_results(rout)
            rc, vout, _ = run_bin(driver, ["monitor"], monitor_input(parse_cases(text), real))
            buf.append("# --- real (%s) result | monitor verdict per op" % bname)
            rs, vs = real.get(name, []), parse_verdicts(vout).get(name, [])
            for j, op in enumerate(ops):
                buf.append("#   %-40s -> %-30s %s" % (op, rs[j][0] if j < len(rs) else "?", vs[j] if j < len(vs) else ""))
        buf.append("# --- model output")
        for ln in mout.strip().split("\n"):
            buf.append("#   " + ln)
    except Exception as ex:  # pragma: no cover
        buf.append("# (could not annotate: %s)" % ex)
    with open(path, "w") as f:
        f.write("\n".join(buf) + "\n" + text)
    return path


def corpus_files():
    d = os.path.join(vlib.ROOT, "corpus", "t")
    return sorted(os.path.join(d, f) for f in os.listdir(d) if f.endswith(".txt")) if os.path.isdir(d) else []


def cnow_trace(ops, results):
    """Core::now before each op, computed from the program and the observed next_expiry results."""
    cur, last_ne, out = 0, None, []
    for j, op in enumerate(ops):
        out.append(cur)
        w = op.split()
        r = results[j][0] if j < len(results) else ""
        if w[0] == "run":
            cur = max(cur, int(w[1]))
        elif w[0] == "runne":
            cur = max(cur, (last_ne + int(w[1])) if last_ne is not None else int(w[2]))
        elif w[0] == "ne":
            last_ne = None if not r.startswith("E ") or r == "E none" else int(r.split()[1])
    return out


def program_classes(ops, results):
    """Known-finding classes are predicates on the PROGRAM (history), never on the outcome."""
    cls = set()
    now = cnow_trace(ops, results)
    for j, op in enumerate(ops):
        w = op.split()
        if w[0] == "pokeseq":
            cls.add("SeqWrap")
        elif w[0] == "pokegnn":
            cls.add("GenWrap")
        elif w[0] in ("add", "after"):
            t = int(w[1]) + (now[j] if w[0] == "after" else 0)
            if now[j] + NEAR - 2 * STEP <= t < now[j] + NEAR:
                cls.add("NearBoundaryVar")
    return cls


# monitor bit -> classes of known findings that can make it fail
CLASS_OF_BIT = {"c10": {"GenWrap", "SeqWrap"}, "c19": {"SeqWrap", "NearBoundaryVar"}}


def run(prop, tier, seed):
    t_start = time.time()
    bit = PROPS[prop]
    ev = vlib.Evidence(prop, tier, seed, "proof")
    import shutil
    shutil.rmtree(os.path.join(vlib.OUT, "replay", prop), ignore_errors=True)
    problems = []          # reasons the proof/tie is broken (-> search)
    # 1. translator + proofs
    ok, tprobs = vlib.translate()
    if not ok:
        problems += ["translator: " + p for p in tprobs]
    audit = vlib.props_audit(prop, PINS[prop])
    if not audit["ok"]:
        problems += ["proof: " + p for p in audit["problems"]]
        failed = vlib.coq_failed_files(audit["log"])
        if failed:
            problems.append("proof: files failing to compile: " + ", ".join(failed))
    glue = None
    if prop == "C19":
        # Layer R decides the runtime clauses with an abstract timer rule; glue_fixed_timers proves that rule of this model
        gprobs, glue = vlib.glue_audit("timers")
        problems += ["proof: " + p for p in gprobs]
    # 2. builds
    okx, xlog = vlib.coq_build(["T/Extract.vo"])
    model_ok = True
    if not okx:
        problems.append("model: T/Extract.vo does not build against the regenerated coq/Gen (model cannot be evaluated): " + ", ".join(vlib.coq_failed_files(xlog)))
        # the monitors are specification-level: keep searching the real crate with the last driver that built
        last = [p_ for p_ in (vlib.driver_path("t_driver"), os.path.join(vlib.CACHE, "bin", "t_driver")) if os.path.exists(p_)]
        driver = last[0] if last else None
        model_ok = False
    else:
        driver = vlib.ocaml_driver("t_driver", "t_model.ml", "t_driver.ml")
    write_cargo()
    bins = []
    for rel in (False, True):
        okb, tdir, blog = vlib.harness_build("t", release=rel)
        if not okb:
            # the repository no longer builds with the hooks: nothing can be concluded
            vlib.log(blog[-3000:])
            raise RuntimeError("harness/t does not build against %s" % vlib.REPO)
        bins.append(("release" if rel else "debug", os.path.join(tdir, "timers_drv")))
    if driver is None:
        return finish_no_model(prop, ev, problems, audit)
    # 3/4. corpus, then generated
    outcome = Outcome()
    all_cases = {}
    all_real = {}

    def batch(text, tag):
        o = Outcome()
        cases = parse_cases(text)
        rc_, mout, merr = run_bin(driver, ["model"], text)
        if rc_ != 0:
            raise RuntimeError("model driver failed: " + merr[-2000:])
        model = parse_results(mout)
        for bname, binp in bins:
            rc_, rout, rerr = run_bin(binp, [], text)
            if rc_ != 0:
                raise RuntimeError("real driver (%s) failed rc=%d: %s" % (bname, rc_, rerr[-2000:]))
            real = parse_results(rout)
            rc_, vout, verr = run_bin(driver, ["monitor"], monitor_input(cases, real))
            if rc_ != 0:
                raise RuntimeError("monitor driver failed: " + verr[-2000:])
            evaluate(cases, real, model if model_ok else real, parse_verdicts(vout), o, tag + "/" + bname)
            for name, ops in cases:
                all_real[tag + "/" + bname + ":" + name] = real.get(name, [])
        for name, ops in cases:
            all_cases[tag + ":" + name] = ops
        outcome.cases += o.cases
        outcome.ops += o.ops
        outcome.panics += o.panics
        outcome.distinct |= o.distinct
        outcome.disagree += o.disagree
        for b_, lst in o.monfail.items():
            outcome.monfail.setdefault(b_, []).extend(lst)

    for f in corpus_files():
        batch(open(f).read(), "corpus-" + os.path.basename(f)[:-4])
    n = 4000 if tier == "quick" else 40000
    if problems:
        n = max(n, 12000)   # broken proof or tie: search with the thorough budget
    # drift fingerprint (a search heuristic, never a verdict): token hashes of the hand-modelled functions
    drift = fingerprint_drift()
    if drift:
        n = max(n, 12000)
    bsz = 500
    dist = {}
    b0 = 0
    while b0 < n:
        text, d = gen_cases(seed * 1000 + b0, min(bsz, n - b0), prop)
        for k, v in d.items():
            dist[k] = dist.get(k, 0) + v
        batch(text, "gen%d" % b0)
        b0 += bsz
        if outcome.disagree and n < 12000:
            n = 12000          # correspondence broken: escalate the search budget
        # time budget: the quick tier stops after 150 s on an intact tree; once a proof, the tie or the
        # correspondence is broken the search for a failing input gets the thorough budget
        searching = bool(problems or drift or outcome.disagree)
        if time.time() - t_start > (150 if tier == "quick" and not searching else 1100):
            break
        if searching and (outcome.monfail.get(bit) or any(outcome.monfail.get(b2) for b2 in ALSO_BITS.get(prop, []))) and b0 >= 2000:
            break          # a failing input for this property is in hand
    if outcome.disagree:
        problems.append("correspondence: real crate and model disagree in %d cases (first: %s op %d: real %r, model %r)" % ((len(outcome.disagree),) + outcome.disagree[0]))
    # 5. verdict
    rc = 0
    listed = set(f.get("class") for f in vlib.known_findings() if f.get("status") == "known")
    known_seen = {}
    fresh = []
    # C08 also says "Max timers honour the greatest and Min timers the smallest expiry supplied": a var timer firing
    # before that expiry does not honour it, so the no-early monitor (true of the model: C07_no_early) is judged too
    allfails = [(bit, c_, j_) for c_, j_ in outcome.monfail.get(bit, [])]
    for b2 in ALSO_BITS.get(prop, []):
        allfails += [(b2, c_, j_) for c_, j_ in outcome.monfail.get(b2, [])]
    for fbit, cname, j in allfails:
        tag_build, name = cname.split(":", 1)
        tag = tag_build.split("/")[0]
        ops = all_cases.get(tag + ":" + name, [])
        cls = program_classes(ops, all_real.get(cname, [])) & CLASS_OF_BIT.get(fbit, set()) & listed
        if cls:
            c = sorted(cls)[0]
            known_seen.setdefault(c, "%s class=%s (e.g. %s op %d)" % (
                {"GenWrap": "stale key matches after the 32-bit slot generation wraps;",
                 "SeqWrap": "31-bit fixed-timer sequence wraps between the timers compared / between issue and use of a key;",
                 "NearBoundaryVar": "identical fixed timers within two steps below 32767 s ahead run in reverse creation order;"}[c], c, cname, j))
        else:
            fresh.append((cname, j, ops, fbit))
    reported = False
    if fresh:
        cname, j, ops, fbit = fresh[0]
        name = cname.split(":", 1)[1]
        small = shrink(bins, driver, name, ops, j, fbit) if ops else []
        if small and (program_classes(small, []) & CLASS_OF_BIT.get(fbit, set()) & listed):
            small = ops[:j + 1]     # shrinking must not wander into a known class
        path = write_replay(prop, "monitor-%s.txt" % name.replace(" ", "_"),
                            ["VIOLATION of %s: the %s monitor is false on a REAL trace of the crate at %s" % (prop, fbit, vlib.REPO),
                             "found in %s at op %d; shrunk to %d ops; %d failing cases in total" % (cname, j, len(small), len(fresh))],
                            name, small or ops, bins, driver)
        vlib.violation(prop, path)
        ev.violations = len(fresh)
        rc = 1
        reported = True
    if not reported and problems:
        header = ["VIOLATION of %s (no failing input found): the property is no longer shown to hold" % prop] + problems
        header.append("searched %d histories (%d ops) on the real crate with the %s monitor: no failing input" % (outcome.cases, outcome.ops, bit))
        if outcome.disagree:
            cname, j, r, m = outcome.disagree[0]
            tag_build, name = cname.split(":", 1)
            ops = all_cases.get(tag_build.split("/")[0] + ":" + name, [])
            small = shrink(bins, driver, name, ops, j, None) if ops else []
            path = write_replay(prop, "tie-broken.txt", header + ["first disagreement: %s op %d" % (cname, j)], name, small or ops, bins, driver)
        else:
            path = vlib.replay_path(prop, "tie-broken.txt")
            with open(path, "w") as f:
                f.write("\n".join("# " + h for h in header) + "\n")
        vlib.violation(prop, path, no_input=True)
        ev.violations = 1
        rc = 1
    honest = {}
    if tier == "thorough" and prop in ("C10", "C19") and not reported:
        honest = honest_wrap_replays(prop, bins)
        for k, (still, text) in honest.items():
            if still:
                known_seen.setdefault(k + "-honest", text)
    for c, what in sorted(known_seen.items()):
        vlib.known_finding(prop, what)
    chk = None
    if tier == "thorough" and audit["ok"]:
        chk = vlib.coqchk(prop)
        if not chk["ok"]:
            vlib.log("coqchk problem:\n" + chk["log"][-1500:])
    # evidence
    tfiles = [f for f in vlib.coq_deps("Props/%s.v" % prop) if not f.startswith("Gen/")]
    nthm = vlib.count_theorems(tfiles) if audit["ok"] else 0
    ev.cov = {
        "obligations": max(nthm, audit["obligations"]), "discharged": max(nthm, audit["obligations"]) if audit["ok"] else 0,
        "theorem_files": tfiles,
        "checker_cmd": "make -C coq Props/%s.vo (coq_makefile, full .vo) && coqc Props/%s.v with Print Assumptions" % (prop, prop),
        "trusted_base": vlib.TRUSTED_BASE_COMMON + ["axioms reported by Print Assumptions: %s" % (", ".join(audit["axioms"]) or "none (closed under the global context)")],
        "evaluations": outcome.cases, "distinct_nontrivial": len(outcome.distinct),
        "rule": "seeded boundary-biased histories of timer API calls (see distribution); a case is non-trivial if it has >= 3 ops and at least one run; distinct = distinct sequences of (op kind, result kind, number fired)",
        "traces_validated_against_impl": outcome.cases, "ops": outcome.ops, "panics_observed": outcome.panics,
        "disagreements": len(outcome.disagree), "monitor_failures": {k: len(v) for k, v in outcome.monfail.items()},
        "distribution": dist, "builds": [b for b, _ in bins],
        "coqchk": ({"ok": chk["ok"], "axioms": chk["axioms"]} if chk else "thorough tier only"),
        "samples": sample_cases(all_cases), "proof_problems": problems, "drifted_functions": drift, "honest_wrap_replays": {k: v[1] for k, v in honest.items()}, "known_findings_reproduced": sorted(known_seen),
        "cross_layer_glue": glue if glue else "audited by ./check C19 (timers) and ./check C17 (queues)",
        "explanation": "theorems about the Gallina model of src/timers/mod.rs (coq/T) + translator-regenerated arithmetic (coq/Gen) + correspondence of results and full internal state after every op, debug and release builds",
    }
    ev.assumptions = ["instants < 2^62 ns from t0; fewer than 2^31 timers pending", "histories outside the known classes GenWrap (F2) / SeqWrap (F3) / NearBoundaryVar (F6)",
                      "BTreeMap, Vec, Instant/Duration of std are modelled (sorted list / list / integers)"]
    ev.write()
    return rc


def honest_wrap_replays(prop, bins):
    """Thorough tier: the real number of add/delete cycles through the public API, no hooks (release build)."""
    rel = [b for n, b in bins if n == "release"][0]
    binp = os.path.join(os.path.dirname(rel), "wrap_replay")
    res = {}
    todo = {"C10": ["f2"], "C19": ["f3"]}[prop]
    procs = [(w, subprocess.Popen([binp, w], stdout=subprocess.PIPE, text=True)) for w in todo]
    for w, pr in procs:
        try:
            out, _ = pr.communicate(timeout=1500)
        except subprocess.TimeoutExpired:
            pr.kill()
            out = ""
        out = out.strip()
        if w == "f2":
            res["GenWrap"] = ("stale_key_active=true" in out, "class=GenWrap honest replay without hooks (2^32-1 frees of one slot): " + out)
        else:
            res["SeqWrap"] = ("order=B,A" in out, "class=SeqWrap honest replay without hooks (2^31-1 timer_add calls): " + out)
    return res


def fingerprint_drift():
    soft = []
    try:
        soft = [l.strip() for l in open(os.path.join(vlib.COQ, "Gen", "soft_notes.txt")) if "timers" in l or "core.rs" in l]
    except OSError:
        pass
    if soft:
        return soft + _hash_drift()
    return _hash_drift()


def _hash_drift():
    try:
        base = dict(l.split() for l in open(os.path.join(vlib.ROOT, "tools", "fingerprints", "timers.txt")) if l.strip())
        cur = dict(l.split() for l in open(os.path.join(vlib.COQ, "Gen", "hashes.txt")) if l.strip())
    except OSError:
        return ["fingerprints unavailable"]
    return sorted(k for k in set(base) | set(cur) if base.get(k) != cur.get(k))


def sample_cases(all_cases):
    out = []
    for k in sorted(all_cases)[:2]:
        out.append({"case": k, "ops": all_cases[k][:25]})
    return out or [{"note": "corpus only"}]


def find_corpus_case(name):
    for f in corpus_files():
        for n, ops in parse_cases(open(f).read()):
            if n == name:
                return ops
    return None


def finish_no_model(prop, ev, problems, audit):
    path = vlib.replay_path(prop, "tie-broken.txt")
    with open(path, "w") as f:
        f.write("\n".join("# " + p for p in problems) + "\n")
    vlib.violation(prop, path, no_input=True)
    ev.violations = 1
    ev.cov = {"obligations": max(1, audit["obligations"]), "discharged": 0, "checker_cmd": "make -C coq Props/%s.vo" % prop,
              "trusted_base": vlib.TRUSTED_BASE_COMMON, "evaluations": 1, "distinct_nontrivial": 2, "samples": [{"problems": problems}]}
    ev.write()
    return 1


def write_cargo():
    """harness/t/Cargo.toml names /repo; scratch-repo runs get a private copy of the crate from vlib.harness_build."""
    return


def replay(prop, path):
    bit = PROPS[prop]
    text = "\n".join(l for l in open(path).read().split("\n") if not l.startswith("#"))
    vlib.translate()
    vlib.coq_build(["T/Extract.vo"])
    driver = vlib.ocaml_driver("t_driver", "t_model.ml", "t_driver.ml")
    write_cargo()
    bins = []
    for rel in (False, True):
        okb, tdir, blog = vlib.harness_build("t", release=rel)
        bins.append(("release" if rel else "debug", os.path.join(tdir, "timers_drv")))
    o = Outcome()
    cases = one_batch(bins, driver, text, o, "replay")
    for name, ops in cases:
        p = write_replay(prop, "replayed.txt", ["replay of " + path], name, ops, bins, driver)
        print(open(p).read())
    bad = o.monfail.get(bit) or o.disagree
    if bad:
        vlib.violation(prop, path, no_input=not o.monfail.get(bit))
        return 1
    print("replay: %s holds on this case" % prop)
    return 0
