"""Layer Q check: C17 (flat queue == boxed queue).

Pipeline (DESIGN.md 2.4, docs/layer_q.md):
  1. regenerate coq/Gen from the repo (translator); audit coq/Props/C17.v (build, Print Assumptions, lint)
  2. build harness/q (REAL flat.rs + boxed.rs side by side, debug and release) and the extracted model driver
  3. corpus first, then generated cases (one PRNG, seeded): for every case
        real flat (debug) == real flat (release)                       (incl. verif_geometry after every op)
        real flat without geometry == real boxed                        (the property itself, on the real code)
        real flat == extracted flat model  (incl. (base mod 128, len, cap) after every op, given the real placement)
        extracted boxed model == extracted flat model without geometry  (sanity of the extraction)
        monitor geom_ok (Coq, extracted) on every REAL geometry triple
  4. verdict: a failing case is shrunk (delta debugging over ops) and reported as VIOLATION with the case as replay;
     a translator/proof/build failure with no failing case => VIOLATION ... no-failing-input-found.
"""
import concurrent.futures
import hashlib
import os
import random
import re
import shutil
import subprocess
import time

import vlib

PINS = ["flat_refines_boxed", "flat_geometry_ok", "flat_no_bug_error", "flat_push_total", "flat_exec_order_eq", "flat_accesses_ok",
        "align_ptr_is_round_up", "up_is_least_multiple", "req_bounds_consumption", "expand_size_is_next_pow2"]
Q_FILES = ["Q/Arith.v", "Q/MemProofs.v", "Q/FlatProofs.v", "Q/SysProofs.v", "Q/FlatSafety.v", "Props/C17.v"]
COQ_TARGETS = ["Q/Extract.vo", "Props/C17.vo"]

S_LIST = [0, 1, 2, 3, 4, 7, 8, 9, 15, 16, 17, 24, 31, 32, 33, 48, 63, 64, 65, 100, 127, 128, 129, 255, 256, 257, 511, 512,
          1000, 1023, 1024, 1025, 2047, 2048, 4095, 4096,
          # just below a power of two: req + 32 (the chained-queue item) crosses the next growth boundary
          2016, 2024, 2032, 2040, 4064, 4072, 4080, 4088,
          # 2^k - align for the large alignments: the alignment slack of `req` decides whether the next buffer size suffices
          1920, 1984, 3968, 4032]
A_LIST = [1, 2, 4, 8, 16, 32, 64, 128]
CLASSES = [(s, a) for s in S_LIST for a in A_LIST]
BOUNDARIES = [1024, 2048, 4096, 8192, 16384, 32768, 65536]

WORK = os.path.join(vlib.OUT, "q")


# ---------------------------------------------------------------------------------------------------------
# planning mirror of the geometry (used ONLY to position generated cases; never an oracle)
# ---------------------------------------------------------------------------------------------------------

def rnd(s, a):
    return (s + a - 1) // a * a


def up(p, a):
    return p + (-p) % a


def req_spec(n, a):
    return up(max(8, a) + n, 8)


def npow2(n):
    r = 1
    while r < n:
        r *= 2
    return r


class Geo:
    def __init__(self):
        self.base, self.len, self.cap = 0, 0, 0
        self.items = []   # tags pending, in order

    def push(self, n, a, newbase):
        """returns 0: fits, 1: expands (old buffer empty or none), 2: expands and chains the old buffer"""
        req = req_spec(n, a)
        exp = 1 if req > self.cap - self.len else 0
        if exp:
            old = self.len != 0
            exp = 2 if old else 1
            req2 = req + 32 if old else req
            self.cap = npow2(max(max(self.cap, req2) + 1, 1024))
            self.base = newbase
            self.len = 32 if old else 0
        p = self.base + self.len
        dp = up(p + 8, a)
        self.len = up(dp + n, 8) - self.base
        return exp

    def consumption(self, n, a):
        p = self.base + self.len
        return up(up(p + 8, a) + n, 8) - p


class NoTag(Exception):
    """the tag space of closures smaller than 4 bytes is exhausted in this case (4 zero-sized definitions per case)"""


class CaseB:
    """Builder of one case; mirrors the geometry so that fills can be positioned exactly."""

    def __init__(self, name, nq, rng, stats, bigbase=False):
        self.name, self.nq, self.r, self.stats = name, nq, rng, stats
        self.defs = {}       # tag -> (S, A, seed)
        self.bydef = {}      # (S, A, seed) -> tag  (small classes are shared)
        self.scripts = {}    # tag -> [(q, box, tag2, base)]
        self.ops = []
        self.geo = [Geo() for _ in range(nq)]
        self.nalloc = 0
        self.next_tag = 1 << 26
        self.small_next = {0: 0, 1: 4, 2: 1024, 3: 1 << 18}
        self.small_lim = {0: 4, 1: 1024, 2: 1 << 18, 3: 1 << 26}
        self.bigbase = bigbase
        self.targets = []    # (boundary, S, A, residual, expanded?) planned target pushes
        self.features = set()

    # -- closures
    def closure(self, s, a, shared=False):
        n = rnd(s, a)
        if shared and (s, a) in self.bydef:
            return self.bydef[(s, a)]
        if n < 4:
            t = self.small_next[n]
            if t >= self.small_lim[n] or (n == 0 and t >= 4):
                # tag space of tiny closures exhausted: reuse an existing definition of the same class if any
                for tag, (s2, a2, _) in self.defs.items():
                    if (rnd(s2, a2), a2) == (n, a):
                        return tag
                raise NoTag()
            self.small_next[n] = t + 1
            tag = t
        else:
            tag = self.next_tag
            self.next_tag += self.r.choice([1, 1, 3, 17, 255, 65537])
        self.defs[tag] = (s, a, self.r.randrange(0, 1 << 32))
        if shared:
            self.bydef[(s, a)] = tag
        self.stats["class"][(s, a)] = self.stats["class"].get((s, a), 0) + 1
        return tag

    def zst(self):
        """some zero-sized closure with alignment <= 8 (consumes exactly 8 bytes)"""
        for tag, (s2, a2, _) in self.defs.items():
            if s2 == 0 and a2 <= 8:
                return tag
        return self.closure(0, self.r.choice([1, 2, 4, 8]))

    def new_base(self):
        self.nalloc += 1
        res = self.r.choice(range(0, 128, 8))
        self.stats["residue"][res] = self.stats["residue"].get(res, 0) + 1
        if self.bigbase:
            return (1 << self.r.choice([33, 40, 47, 56, 60])) + 128 * self.r.randrange(0, 1 << 20) + res
        return 65536 * self.nalloc + res

    def script(self, tag, q, box, tag2, base=None):
        if base is None:
            base = self.new_base()
        self.scripts.setdefault(tag, []).append((q, box, tag2, base))
        self.features.add("nested")

    def _mirror_push(self, q, box, tag, base):
        s, a, _ = self.defs[tag]
        n, al = (16, 8) if box else (rnd(s, a), a)
        g = self.geo[q]
        exp = g.push(n, al, base)
        g.items.append(tag)
        if exp == 2:
            self.features.add("chain")
        return exp

    # -- ops
    def push(self, q, tag, box=False, base=None):
        if base is None:
            base = self.new_base()
        self.ops.append("push %d %d %d %d" % (q, 1 if box else 0, tag, base))
        self.stats["op"]["push_box" if box else "push"] += 1
        return self._mirror_push(q, box, tag, base)

    def execute(self, q):
        self.ops.append("exec %d" % q)
        self.stats["op"]["exec"] += 1
        g = self.geo[q]
        items, g.items, g.len = g.items, [], 0
        if items:
            self.features.add("exec-nonempty")
        for t in items:
            for (j, box, t2, base) in self.scripts.get(t, []):
                assert j != q
                self._mirror_push(j, box, t2, base)
                self.stats["op"]["nested_push"] += 1

    def is_empty(self, q):
        self.ops.append("empty %d" % q)
        self.stats["op"]["empty"] += 1

    def drop(self, q):
        self.ops.append("drop %d" % q)
        self.stats["op"]["drop"] += 1
        if self.geo[q].items:
            self.features.add("drop-nonempty")
        self.geo[q] = Geo()

    # -- positioning
    def grow_to(self, q, cap):
        """make queue q's current buffer have capacity `cap` (a boundary), then leave it non-empty or empty"""
        g = self.geo[q]
        jump = {2048: 1024, 4096: 2048, 8192: 4096}
        guard = 0
        while g.cap < cap:
            guard += 1
            assert guard < 4000
            if g.cap == 0 and g.len == 0 and cap in jump and self.r.random() < 0.7:
                self.push(q, self.closure(jump[cap], 1))
                continue
            if g.cap == 0:
                self.push(q, self.closure(*self.r.choice([(8, 8), (4, 2), (16, 4), (100, 16)])))
                continue
            # fill the current buffer until a push expands it (doubling)
            if g.cap * 2 <= cap or True:
                self.fill_to(q, g.cap - self.r.choice([0, 0, 8, 16]), cheap=True)
                # now push something that does not fit any more
                avail = g.cap - g.len
                cands = [(s, a) for (s, a) in [(24, 8), (64, 1), (128, 16), (256, 8), (100, 128)] if req_spec(rnd(s, a), a) > avail
                         and req_spec(rnd(s, a), a) + 32 <= g.cap]
                s, a = self.r.choice(cands) if cands else (256, 8)
                self.push(q, self.closure(s, a))
        assert g.cap == cap, (g.cap, cap)

    def fill_to(self, q, target_len, cheap=False):
        """push fillers (never expanding) until len == target_len exactly"""
        g = self.geo[q]
        assert target_len % 8 == 0 and g.len <= target_len <= g.cap, (g.len, target_len, g.cap)
        pool_small = [(0, 1), (0, 2), (1, 1), (3, 1), (4, 4), (7, 1), (8, 8), (9, 1), (15, 2), (16, 8), (17, 1), (24, 8), (31, 1),
                      (32, 4), (33, 1), (48, 8), (63, 1), (64, 8), (65, 2), (100, 4), (127, 1), (128, 8)]
        pool_big = [(255, 1), (256, 8), (257, 1), (511, 1), (512, 8), (1000, 8), (1023, 1), (1024, 8), (1025, 1), (2047, 1), (2048, 8),
                    (4095, 1), (4096, 8)]
        pool_al = [(0, 16), (0, 32), (0, 64), (0, 128), (1, 16), (17, 32), (100, 64), (100, 128), (129, 128), (33, 64), (512, 128),
                   (1000, 64)]
        guard = 0
        while g.len < target_len:
            guard += 1
            assert guard < 20000
            rem = target_len - g.len
            avail = g.cap - g.len
            pools = []
            if cheap and rem >= 256:
                pools = [[(0, 128)]] * 6 + [pool_al, pool_big]
            elif rem >= 4200:
                pools = [pool_big, pool_big, pool_al, pool_small, [(0, 128)], [(0, 128)]]
            elif rem >= 300:
                pools = [pool_big, pool_al, pool_small, [(0, 128)]]
            else:
                pools = [pool_small, pool_small, pool_al]
            done = False
            for _ in range(6):
                s, a = self.r.choice(self.r.choice(pools))
                n = rnd(s, a)
                box = False
                if self.r.random() < 0.04:
                    n, a, box = 16, 8, True
                if req_spec(n, a) <= avail and g.consumption(n, a) <= rem:
                    try:
                        tag = self.closure(s, a, shared=(rnd(s, a) < 4 or (cheap and (s, a) == (0, 128))))
                    except NoTag:
                        continue
                    self.push(q, tag, box=box)
                    done = True
                    break
            if not done:
                # exact finish with 8/16-byte steps (closures of 4 and 8 bytes: their tags never run out)
                s, a = (4, 4) if rem == 8 or self.r.random() < 0.5 else (8, 8)
                if s == 4 and rem >= 16 and self.r.random() < 0.5:
                    s, a = (9, 1)
                if g.consumption(rnd(s, a), a) > rem:
                    s, a = (4, 4) if rem >= 16 else (None, None)
                if s is None:
                    # 8 bytes left: only a zero-sized closure fits
                    self.push(q, self.zst())
                else:
                    self.push(q, self.closure(s, a))
        assert g.len == target_len

    def text(self):
        out = ["case %s" % self.name, "nq %d" % self.nq]
        for tag in sorted(self.defs):
            s, a, seed = self.defs[tag]
            out.append("def %d %d %d %d" % (tag, s, a, seed))
        for tag in sorted(self.scripts):
            for (q, box, t2, base) in self.scripts[tag]:
                out.append("script %d %d %d %d %d" % (tag, q, 1 if box else 0, t2, base))
        out += self.ops
        out.append("end")
        return "\n".join(out) + "\n"


def new_stats():
    return {"class": {}, "residue": {}, "op": {"push": 0, "push_box": 0, "exec": 0, "empty": 0, "drop": 0, "nested_push": 0},
            "family": {}, "targets": set(), "boundary": {}}


def residual_levels(rng, req, cons, how):
    """fill levels cap - r, r in {0, 8, .., req+8}: the decisive ones always, others sampled"""
    key = {0, 8, req - 8, req, req + 8, cons - 8, cons, cons + 8, 32, 40}
    key = {r for r in key if 0 <= r <= req + 8 and r % 8 == 0}
    if how == "all":
        return list(range(0, req + 16, 8))
    extra = set()
    allr = list(range(0, req + 16, 8))
    for _ in range(how):
        extra.add(rng.choice(allr))
    return sorted(key | extra)


def gen_straddle(rng, stats, name, boundary, s, a, r, variant):
    """fill a buffer of capacity `boundary` to boundary - r, then push the target (S, A)."""
    nested = variant % 4 == 3
    nq = 2 if nested or variant % 5 == 4 else 1
    c = CaseB(name, nq, rng, stats, bigbase=(variant % 11 == 7))
    q = nq - 1
    tag = c.closure(s, a)     # the target first: tags of tiny closures are scarce
    c.zst()
    c.grow_to(q, boundary)
    g = c.geo[q]
    if variant % 2 == 0 or g.len > boundary - r:
        # start from the empty buffer (same allocation, len = 0)
        c.execute(q)
    if boundary - r < g.len:
        return None
    c.fill_to(q, boundary - r, cheap=(boundary >= 8192))
    n = rnd(s, a)
    box = variant % 7 == 5
    if nested:
        # the target is pushed onto queue 1 by a closure running on queue 0
        carrier = c.closure(*rng.choice([(8, 8), (4, 4), (100, 64), (24, 8)]))
        c.script(carrier, q, box, tag)
        c.push(0, carrier)
        before = (g.cap, g.cap - g.len)
        c.is_empty(q)
        c.execute(0)
    else:
        before = (g.cap, g.cap - g.len)
        c.push(q, tag, box=box)
    rq = req_spec(16, 8) if box else req_spec(n, a)
    expanded = rq > before[1]
    stats["targets"].add((before[0], 16 if box else n, 8 if box else a, before[1]))
    stats["boundary"][boundary] = stats["boundary"].get(boundary, 0) + 1
    # afterwards: a few more pushes, is_empty, then execute or drop
    for _ in range(rng.choice([0, 1, 2, 3])):
        c.push(q, safe_closure(c, rng, False))
    c.is_empty(q)
    if variant % 3 == 1:
        c.drop(q)
        c.is_empty(q)
    else:
        c.execute(q)
        c.is_empty(q)
        if rng.random() < 0.5:
            c.push(q, safe_closure(c, rng, True))
            c.execute(q)
    stats["family"]["straddle"] = stats["family"].get("straddle", 0) + 1
    return c


def gen_random(rng, stats, name, nops, heavy):
    nq = rng.choice([1, 2, 2, 3, 4])
    c = CaseB(name, nq, rng, stats, bigbase=rng.random() < 0.05)
    # closures with scripts (nested pushes onto other queues); depth via chains of definitions
    carriers = {}   # tag -> queue it is meant for
    if nq > 1:
        for _ in range(rng.choice([0, 1, 2, 4])):
            home = rng.randrange(nq)
            tag = c.closure(*rng.choice([cl for cl in CLASSES if rnd(*cl) >= 4]))
            for _ in range(rng.choice([1, 1, 2, 3])):
                tgt = rng.choice([j for j in range(nq) if j != home])
                # pushed closure may itself be a carrier meant for queue tgt
                inner = [t for t, h in carriers.items() if h == tgt]
                if inner and rng.random() < 0.5:
                    t2 = rng.choice(inner)
                else:
                    t2 = safe_closure(c, rng, heavy)
                c.script(tag, tgt, rng.random() < 0.15, t2)
            carriers[tag] = home
    pushed = 0
    for _ in range(nops):
        x = rng.random()
        q = rng.randrange(nq)
        if x < 0.70:
            mine = [t for t, h in carriers.items() if h == q]
            if mine and rng.random() < 0.2:
                c.push(q, rng.choice(mine))
            else:
                c.push(q, safe_closure(c, rng, heavy), box=rng.random() < 0.08)
            pushed += 1
        elif x < 0.82:
            c.execute(q)
        elif x < 0.93:
            c.is_empty(q)
        else:
            c.drop(q)
    for q in range(nq):
        if rng.random() < 0.5:
            c.execute(q)
    stats["family"]["random"] = stats["family"].get("random", 0) + 1
    return c


def safe_closure(c, rng, heavy):
    while True:
        try:
            return c.closure(*pick_class(rng, heavy))
        except NoTag:
            pass


def pick_class(rng, heavy):
    x = rng.random()
    if x < (0.35 if heavy else 0.1):
        return rng.choice([cl for cl in CLASSES if rnd(*cl) >= 1000])
    if x < 0.6:
        return rng.choice([cl for cl in CLASSES if rnd(*cl) <= 64])
    return rng.choice(CLASSES)


def gen_classes(rng, stats, name, a):
    """every size at one alignment, direct and boxed, from a random placement, then execute / drop"""
    c = CaseB(name, 2, rng, stats)
    order = list(S_LIST)
    rng.shuffle(order)
    for s in order:
        c.push(0, c.closure(s, a, shared=rnd(s, a) < 4))
        if rng.random() < 0.3:
            c.push(1, c.closure(s, a, shared=rnd(s, a) < 4), box=True)
    c.is_empty(0)
    c.execute(0)
    c.is_empty(0)
    c.drop(1)
    stats["family"]["classes"] = stats["family"].get("classes", 0) + 1
    return c


def generate(seed, tier):
    """returns (list of case texts with names, stats)"""
    rng = random.Random(seed)
    stats = new_stats()
    cases = []

    def add(c):
        if c is not None:
            cases.append((c.name, c.text(), sorted(c.features)))

    thorough = tier == "thorough"
    idx = 0
    for a in A_LIST:
        add(gen_classes(rng, stats, "classes-a%d" % a, a))
    # straddle every growth boundary from every (sampled) residual fill level, all sizes x alignments
    for boundary in BOUNDARIES:
        if thorough:
            classes = CLASSES
            extra = 3 if boundary <= 8192 else 1
        else:
            if boundary <= 2048:
                classes = CLASSES
            else:
                k = {4096: len(CLASSES), 8192: 120, 16384: 64, 32768: 32, 65536: 16}[boundary]
                classes = rng.sample(CLASSES, k)
            extra = 0
        for (s, a) in classes:
            n = rnd(s, a)
            req = req_spec(n, a)
            if req + 32 >= boundary * 16:
                continue
            cons_min = up(8 + n, 8)
            if thorough:
                levels = residual_levels(rng, req, cons_min, extra)
            else:
                lv = residual_levels(rng, req, cons_min, 0)
                keep = {0, req - 8, req} if boundary > 2048 else {0, 8, req - 8, req, req + 8, cons_min}
                levels = [r for r in lv if r in keep]
                if boundary <= 1024:
                    levels = lv
            for r in levels:
                if r > boundary:
                    continue
                idx += 1
                add(gen_straddle(rng, stats, "straddle-%d-%d-%d-r%d-%d" % (boundary, s, a, r, idx), boundary, s, a, r, rng.randrange(0, 1000)))
    # the full residual sweep {0, 8, .., req+8} for a few classes at 1 KiB and 2 KiB (all of them when thorough at 1 KiB)
    sweep = [(100, 16), (0, 128), (4096, 128), (1, 1), (1000, 64)] if not thorough else \
        [(100, 16), (0, 128), (4096, 128), (1, 1), (1000, 64), (17, 32), (2047, 2), (255, 8), (3, 1), (64, 64), (1025, 16), (33, 128)]
    for boundary in ([1024, 2048] if not thorough else [1024, 2048, 4096]):
        for (s, a) in sweep:
            req = req_spec(rnd(s, a), a)
            for r in range(0, req + 16, 8):
                if r > boundary:
                    continue
                idx += 1
                add(gen_straddle(rng, stats, "sweep-%d-%d-%d-r%d-%d" % (boundary, s, a, r, idx), boundary, s, a, r, rng.randrange(0, 1000)))
    # random sequences
    nrand = 6000 if thorough else 1500
    for i in range(nrand):
        heavy = i % 3 == 0
        nops = rng.choice([5, 10, 20, 40, 80] if not heavy else [10, 30, 60, 120])
        add(gen_random(rng, stats, "random-%d" % i, nops, heavy))
    return cases, stats


# ---------------------------------------------------------------------------------------------------------
# running
# ---------------------------------------------------------------------------------------------------------

def sh(cmd, timeout):
    try:
        p = subprocess.run(cmd, stdout=subprocess.PIPE, stderr=subprocess.STDOUT, timeout=timeout)
        return p.returncode, p.stdout.decode("utf8", "replace")
    except subprocess.TimeoutExpired as ex:
        out = ex.stdout.decode("utf8", "replace") if ex.stdout else ""
        return 124, out


def split_cases(out):
    """canonical output -> {case name: text}, order kept; a case cut short by a crash is kept as is"""
    res, cur, name = {}, [], None
    pre = []
    for line in out.split("\n"):
        if line.startswith("case "):
            if name is not None:
                res[name] = "\n".join(cur)
            name, cur = line[5:].strip(), [line]
        elif name is not None:
            if line != "":
                cur.append(line)
        elif line != "":
            pre.append(line)
    if name is not None:
        res[name] = "\n".join(cur)
    return res, pre


def strip_geom(text):
    return "\n".join(l for l in text.split("\n") if not l.startswith("geom ") and not l.startswith("MONITOR "))


def py_geom_ok(base, ln, cap):
    """fallback of the Coq monitor geom_ok (used only when the extracted driver cannot be built)"""
    if cap == 0:
        return ln == 0
    return cap >= 1024 and (cap & (cap - 1)) == 0 and base % 8 == 0 and 0 <= ln <= cap and ln % 8 == 0


class Tools:
    def __init__(self):
        self.hdbg = self.hrel = self.driver = None
        self.problems = []


def evaluate(tools, path, timeout=90):
    """Run one case file through every program.  Returns {case name: reason} for the failing cases + counters."""
    fails = {}
    runs = {}
    for key, cmd in (("flat-debug", [tools.hdbg, "flat", path]), ("flat-release", [tools.hrel, "flat", path]),
                     ("boxed-debug", [tools.hdbg, "boxed", path]), ("boxed-release", [tools.hrel, "boxed", path]),
                     ("model-flat", [tools.driver, "flat", path]), ("model-boxed", [tools.driver, "boxed", path])):
        if cmd[0] is None:
            runs[key] = None
            continue
        ncases = max(1, open(path).read().count("\ncase ") + 1)
        tmo = max(timeout, ncases // 3)                     # real code: a hang is a failure, but allow for a loaded machine
        if key.startswith("model-"):
            tmo *= 10
        rc, out = sh(cmd, tmo)
        if key.startswith("model-") and rc == 124:
            # the model evaluator ran out of time: a machinery problem, never a verdict about the code
            raise RuntimeError("model driver timed out on %s (%d cases, %d s)" % (path, ncases, tmo))
        cases, pre = split_cases(out)
        runs[key] = (rc, cases, pre)
    names = []
    for line in open(path):
        if line.startswith("case "):
            names.append(line[5:].strip())
    ref = runs["flat-debug"]

    def get(key, name):
        r = runs.get(key)
        if r is None:
            return None
        return r[1].get(name)

    # the Coq monitor geom_ok (extracted) on the REAL trace
    mon_fail = {}
    if tools.driver is not None and ref is not None:
        tmp = path + ".realtrace"
        with open(tmp, "w") as f:
            for n in names:
                t = ref[1].get(n)
                if t:
                    f.write(t + "\n")
        rc, out = sh([tools.driver, "monitor", tmp], timeout)
        bad_lines = [int(m.group(1)) for m in re.finditer(r"MONITOR geom_ok false line (\d+)", out)]
        if bad_lines:
            lines = open(tmp).read().split("\n")
            for bl in bad_lines:
                k = bl - 1
                while k >= 0 and not lines[k].startswith("case "):
                    k -= 1
                if k >= 0:
                    mon_fail.setdefault(lines[k][5:].strip(), "monitor geom_ok (Coq, extracted) is false on the REAL trace: " + lines[bl - 1])
        try:
            os.remove(tmp)
        except OSError:
            pass
    validated = 0
    for key in ("flat-debug", "flat-release", "boxed-debug", "boxed-release"):
        r = runs[key]
        if r is not None and r[2]:
            for n in names[:1]:
                fails.setdefault(n, "%s printed `%s` before the first case" % (key, r[2][0]))
    for n in names:
        fd = get("flat-debug", n)
        why = None
        for key in ("flat-debug", "flat-release", "boxed-debug", "boxed-release"):
            t = get(key, n)
            if t is None or not re.search(r"^end \d+$", t, re.M):
                rc = runs[key][0]
                why = "%s: the real queue did not complete the case (%s)" % (
                    key, "panic" if t and "\npanic" in t else "process exit code %d" % rc if t is not None or rc != 0 else "no output")
                break
        if why is None:
            fr = get("flat-release", n)
            if fd != fr:
                why = "real flat queue: debug and release builds differ"
            elif strip_geom(fd) != get("boxed-debug", n) or strip_geom(fd) != get("boxed-release", n):
                why = "real flat queue and real boxed queue differ (run order / bytes read back / drops / is_empty)"
            elif " BAD" in fd:
                why = "real flat queue: a closure read back bytes that differ from what was pushed"
        if why is None:
            why = mon_fail.get(n)
        if why is None:
            for l in fd.split("\n"):
                if l.startswith("geom "):
                    w = l.split()
                    if not py_geom_ok(int(w[2]), int(w[3]), int(w[4])) and tools.driver is None:
                        why = "monitor geom_ok false on the real trace: " + l
                        break
        if why is None and tools.driver is not None:
            mf, mb = get("model-flat", n), get("model-boxed", n)
            if mf is None or mb is None:
                why = "model produced no output"
            elif "MONITOR" in mf:
                why = "monitor geom_ok false on the model trace"
            elif mf != fd:
                why = "real flat queue and the flat model differ (events or (base mod 128, len, cap) after some op)"
            elif strip_geom(mf) != mb:
                why = "flat model and boxed model differ"
            else:
                validated += 1
        if why is not None:
            fails[n] = why
    return fails, validated, len(names), measure(path, names, ref[1] if ref else {})


def measure(path, names, real):
    """coverage measured on the REAL flat trace: for every top-level push, (cap before, N, A, cap - len before) and
       whether the buffer was replaced; for every case the number of closures run / dropped"""
    points, expansions, runs, drops = set(), {}, 0, 0
    defs = {}
    cur = None
    for line in open(path):
        w = line.split()
        if not w:
            continue
        if w[0] == "case":
            cur = w[1]
            defs[cur] = {}
        elif w[0] == "def":
            defs[cur][w[1]] = (rnd(int(w[2]), int(w[3])), int(w[3]))
    for n in names:
        t = real.get(n)
        if not t:
            continue
        geo = {}
        pend = None
        for l in t.split("\n"):
            w = l.split()
            if not w:
                continue
            if w[0] == "op":
                pend = None
                if w[2] == "push":
                    q = w[3]
                    nn, aa = (16, 8) if w[4] == "1" else defs[n].get(w[5], (0, 1))
                    pend = (q, nn, aa, geo.get(q, (0, 0, 0)))
            elif w[0] == "geom":
                g = (int(w[2]), int(w[3]), int(w[4]))
                if pend and pend[0] == w[1]:
                    b, ln, cap = pend[3]
                    points.add((cap, pend[1], pend[2], cap - ln))
                    if g[2] != cap:
                        expansions[(cap, g[2])] = expansions.get((cap, g[2]), 0) + 1
                    pend = None
                geo[w[1]] = g
            elif w[0] == "run":
                runs += 1
            elif w[0] == "drop":
                drops += 1
    return {"points": points, "expansions": expansions, "runs": runs, "drops": drops}


def case_blocks(text):
    """split a case file into blocks (one per case)"""
    blocks, cur = [], []
    for line in text.split("\n"):
        if line.startswith("case "):
            cur = [line]
        elif cur:
            cur.append(line)
            if line.strip() == "end":
                blocks.append("\n".join(cur) + "\n")
                cur = []
    return blocks


def block_name(block):
    return block.split("\n", 1)[0][5:].strip()


def shrink(tools, block, budget_s=90):
    """delta debugging over the op lines of one failing case; returns the smallest failing block found"""
    lines = block.strip().split("\n")
    head = [l for l in lines if l.split()[0] in ("case", "nq", "def", "script")]
    ops = [l for l in lines if l.split()[0] in ("push", "exec", "empty", "drop")]
    t0 = time.time()
    tmpdir = os.path.join(WORK, "shrink-%d" % os.getpid())
    os.makedirs(tmpdir, exist_ok=True)
    counter = [0]

    def fails(cand_ops):
        counter[0] += 1
        p = os.path.join(tmpdir, "c%d.cases" % counter[0])
        with open(p, "w") as f:
            f.write("\n".join(head + cand_ops + ["end"]) + "\n")
        fl = evaluate(tools, p, timeout=60)[0]
        os.remove(p)
        return bool(fl)

    n = 2
    while len(ops) >= 2 and time.time() - t0 < budget_s:
        chunk = max(1, len(ops) // n)
        reduced = False
        for i in range(0, len(ops), chunk):
            cand = ops[:i] + ops[i + chunk:]
            if cand and fails(cand):
                ops = cand
                n = max(n - 1, 2)
                reduced = True
                break
            if time.time() - t0 > budget_s:
                break
        if not reduced:
            if chunk == 1:
                break
            n = min(n * 2, len(ops))
    # prune unused definitions
    used = set()
    for l in ops:
        w = l.split()
        if w[0] == "push":
            used.add(w[3])
    scripts = [l for l in head if l.startswith("script ")]
    changed = True
    while changed:
        changed = False
        for l in scripts:
            w = l.split()
            if w[1] in used and w[4] not in used:
                used.add(w[4])
                changed = True
    head2 = [l for l in head if not (l.startswith("def ") and l.split()[1] not in used)
             and not (l.startswith("script ") and l.split()[1] not in used)]
    cand = "\n".join(head2 + ops + ["end"]) + "\n"
    p = os.path.join(tmpdir, "final.cases")
    with open(p, "w") as f:
        f.write(cand)
    fl = evaluate(tools, p, timeout=60)[0]
    shutil.rmtree(tmpdir, ignore_errors=True)
    if fl:
        return cand, list(fl.values())[0]
    return "\n".join(head + ops + ["end"]) + "\n", None


def build_all(ev, tools):
    """translator, proofs, harness, driver.  Returns list of tie problems (strings)."""
    problems = []
    t0 = time.time()
    ok, probs = vlib.translate()
    if not ok:
        problems += ["translator: " + p for p in probs]
    okc, clog = vlib.coq_build(COQ_TARGETS)
    audit = vlib.props_audit("C17", PINS)
    if not audit["ok"]:
        problems += ["proof audit: " + p for p in audit["problems"]]
        failed = vlib.coq_failed_files(audit["log"] + "\n" + clog)
        if failed:
            problems.append("coq files that no longer compile: " + ", ".join(failed))
            m = re.search(r'File "\./([^"]+)", line (\d+)[^\n]*\n(?:.*\n){0,3}?Error:[^\n]*(?:\n[^\n]*){0,4}', audit["log"] + "\n" + clog)
            if m:
                problems.append("first coq error: " + m.group(0)[:600].replace("\n", " | "))
    if ev.prop == "C17":
        # Layer R treats every FnOnceQueue as a list; glue_queue_ops composes that with flat_refines_boxed
        gprobs, glue = vlib.glue_audit("queues")
        problems += ["proof audit: " + p for p in gprobs]
        ev.cov["cross_layer_glue"] = glue
    ev.cov["obligations"] = vlib.count_theorems(Q_FILES)
    ev.cov["discharged"] = ev.cov["obligations"] if audit["ok"] else 0
    ev.cov["property_theorems"] = PINS
    ev.cov["axioms"] = audit["axioms"]
    ev.cov["closed_under_global_context"] = audit["closed"]
    ev.cov["checker_cmd"] = "cd coq && make Props/C17.vo && coqc -q -Q . Stk Props/C17.v   (coqc 8.16.1; via tools/vlib.props_audit)"
    t1 = time.time()
    env = {"VERIF_REPO": vlib.REPO}
    okd, ddir, dlog = vlib.harness_build("q", release=False, env=env)
    okr, rdir, rlog = vlib.harness_build("q", release=True, env=env)
    if okd:
        tools.hdbg = os.path.join(ddir, "q_harness")
    else:
        problems.append("harness (debug) does not build against the repo: " + dlog[-600:].replace("\n", " | "))
    if okr:
        tools.hrel = os.path.join(rdir, "q_harness")
    else:
        problems.append("harness (release) does not build against the repo: " + rlog[-600:].replace("\n", " | "))
    # the driver only needs the model files (not the proofs)
    model_ok = os.path.exists(os.path.join(vlib.COQ, "Q", "Extract.vo")) and "Q/Extract.v" not in vlib.coq_failed_files(clog) \
        and all(("Q/%s.v" % f) not in vlib.coq_failed_files(clog) for f in ("Flat", "Boxed", "Sys", "Monitor")) \
        and "Gen/SrcFlat.v" not in vlib.coq_failed_files(clog)
    if not okc:
        okx, xlog = vlib.coq_build(["Q/Extract.vo"])
        model_ok = okx
    if model_ok:
        try:
            tools.driver = vlib.ocaml_driver("q_driver", "q_model.ml", "q_driver.ml")
        except Exception as ex:   # noqa
            problems.append("model driver does not build: %s" % str(ex)[-400:])
    else:
        problems.append("the executable model does not compile against the regenerated coq/Gen/SrcFlat.v")
    ev.cov["build_s"] = {"coq": round(t1 - t0, 1), "harness+driver": round(time.time() - t1, 1)}
    # meta: closure layouts and the chain item size are inputs reported by the harness
    if tools.hdbg:
        for hb in (tools.hdbg, tools.hrel):
            if hb is None:
                continue
            rc, out = sh([hb, "meta"], 60)
            m = re.search(r"chain_item_size (\d+)", out)
            gen = ""
            try:
                gen = open(os.path.join(vlib.COQ, "Gen", "SrcFlat.v")).read()
            except OSError:
                pass
            g = re.search(r"Definition CHAIN_ITEM_SIZE : Z := (\d+)\.", gen)
            if rc != 0 or not m:
                problems.append("harness meta failed")
            elif g and m.group(1) != g.group(1):
                problems.append("size_of::<(*mut (), FnOnceQueue<()>)>() = %s but CHAIN_ITEM_SIZE = %s" % (m.group(1), g.group(1)))
            bad = []
            for mm in re.finditer(r"class (\d+) (\d+) (\d+) (\d+)", out):
                s, a, n, al = map(int, mm.groups())
                if n != rnd(s, a) or al != a:
                    bad.append((s, a, n, al))
            if bad:
                problems.append("closure layout differs from the class table: %s" % bad[:5])
    return problems


def write_shards(cases, d, nshards):
    os.makedirs(d, exist_ok=True)
    # balance by size
    order = sorted(range(len(cases)), key=lambda i: -len(cases[i][1]))
    shards = [[] for _ in range(nshards)]
    sizes = [0] * nshards
    for i in order:
        k = sizes.index(min(sizes))
        shards[k].append(i)
        sizes[k] += len(cases[i][1])
    paths = []
    for k, idxs in enumerate(shards):
        if not idxs:
            continue
        p = os.path.join(d, "shard%02d.cases" % k)
        with open(p, "w") as f:
            for i in sorted(idxs):
                f.write(cases[i][1])
        paths.append(p)
    return paths


def run_files(tools, paths, cover=None):
    fails, validated, total = {}, 0, 0
    with concurrent.futures.ThreadPoolExecutor(max_workers=max(2, vlib.NCPU // 2)) as ex:
        for (fl, v, n, m), p in zip(ex.map(lambda p: evaluate(tools, p), paths), paths):
            for k, why in fl.items():
                fails[k] = (why, p)
            validated += v
            total += n
            if cover is not None:
                cover["points"] |= m["points"]
                for k, c in m["expansions"].items():
                    cover["expansions"][k] = cover["expansions"].get(k, 0) + c
                cover["runs"] += m["runs"]
                cover["drops"] += m["drops"]
    return fails, validated, total


def find_block(path, name):
    for b in case_blocks(open(path).read()):
        if block_name(b) == name:
            return b
    return None


def report_failure(prop, ev, tools, fails):
    """shrink the smallest failing case, save the replay, print the verdict line"""
    items = []
    cache = {}
    for name, (why, path) in list(fails.items())[:400]:     # a crash fails every later case of its file: a sample is enough
        if path not in cache:
            cache[path] = {block_name(b): b for b in case_blocks(open(path).read())}
        b = cache[path].get(name)
        if b:
            items.append((len(b), name, why, b))
    items.sort()
    _, name, why, block = items[0]
    small, why2 = shrink(tools, block)
    rp = vlib.replay_path(prop, "fail-%s.cases" % hashlib.sha256(small.encode()).hexdigest()[:12])
    with open(rp, "w") as f:
        f.write("# property C17: flat queue vs boxed queue\n# reason: %s\n# original case: %s (%d failing cases in this run)\n"
                "# replay: ./check C17 --replay %s\n" % (why2 or why, name, len(fails), rp))
        f.write(small)
    ev.violations = 1
    ev.cov["failing_cases"] = len(fails)
    ev.cov["first_failure"] = {"case": name, "reason": why2 or why, "replay": rp}
    vlib.violation(prop, rp)
    return rp


def run(prop, tier, seed):
    # C17 (flat == boxed) and the flat-queue part of C16 (every access in bounds and aligned, each item consumed
    # exactly once, no assertion of flat.rs fails: FlatSafety theorems + the same three-way correspondence)
    assert prop in ("C17", "C16")
    ev = vlib.Evidence(prop, tier, seed, level="proof")
    tools = Tools()
    os.makedirs(WORK, exist_ok=True)
    rundir = os.path.join(WORK, "%s-%d-%d" % (tier, seed, os.getpid()))   # overlapping runs must not share case files
    shutil.rmtree(rundir, ignore_errors=True)
    os.makedirs(rundir)
    try:
        return _run(prop, tier, seed, ev, tools, rundir)
    finally:
        ev.write()
        shutil.rmtree(rundir, ignore_errors=True)


def _run(prop, tier, seed, ev, tools, rundir):
    t0 = time.time()
    problems = build_all(ev, tools)
    ev.cov["trusted_base"] = vlib.TRUSTED_BASE_COMMON + [
        "block memory model: the allocator returns pairwise disjoint blocks at 8-aligned addresses (the harness's global allocator "
        "wrapper chooses address mod 128 per buffer; System malloc underneath)",
        "closure layout: size_of/align_of of every closure type are reported by the harness (meta) and checked against the class table; "
        "vtable layout knowledge of flat.rs is checked by its own sanity_check() at start-up",
        "rustc/LLVM code generation (debug and release builds are both run and must agree)",
    ]
    ev.assumptions = [
        "closures are modelled by (id, size, align, captured bytes); what a closure does when run is a function of what is read back",
        "nested pushes target other queues (pushing onto the queue being executed is not expressible in safe Rust)",
        "64-bit target (usize = u64, size_of::<VP>() = 8)",
    ]
    if tools.hdbg is None or tools.hrel is None:
        # the real code does not even build: nothing can be run
        rp = vlib.replay_path(prop, "tie-broken.txt")
        with open(rp, "w") as f:
            f.write("# property C17: the correspondence harness does not build against the repo\n" + "\n".join(problems) + "\n")
        ev.violations = 1
        ev.cov["problems"] = problems
        vlib.violation(prop, rp, no_input=True)
        return 1
    escalate = bool(problems)
    gen_tier = "thorough" if escalate else tier
    # corpus first
    corpus_dir = os.path.join(vlib.ROOT, "corpus", "q")
    corpus = sorted(os.path.join(corpus_dir, f) for f in os.listdir(corpus_dir) if f.endswith(".cases")) if os.path.isdir(corpus_dir) else []
    cover = {"points": set(), "expansions": {}, "runs": 0, "drops": 0}
    cfails, cval, ctot = run_files(tools, corpus, cover)
    vlib.log("[C17] corpus: %d cases, %d validated against the model, %d failing" % (ctot, cval, len(cfails)))
    if cfails:
        ev.cov["problems"] = problems
        ev.cov["evaluations"] = ctot
        ev.cov["traces_validated_against_impl"] = cval
        ev.cov["distinct_nontrivial"] = 0
        ev.cov["rule"] = "stopped at the corpus (regression cases run first): a corpus case fails"
        rp = report_failure(prop, ev, tools, cfails)
        ev.cov["samples"] = [open(rp).read()]
        return 1
    tg = time.time()
    cases, stats = generate(seed, gen_tier)
    paths = write_shards(cases, rundir, vlib.NCPU * 2)
    vlib.log("[C17] generated %d cases (%d KiB) in %.1fs" % (len(cases), sum(len(c[1]) for c in cases) // 1024, time.time() - tg))
    tr = time.time()
    fails, validated, total = run_files(tools, paths, cover)
    vlib.log("[C17] ran %d cases in %.1fs: %d validated against the model, %d failing" % (total, time.time() - tr, validated, len(fails)))
    distinct = set()
    nontrivial = 0
    for name, text, feats in cases:
        h = hashlib.sha256(text.split("\n", 1)[1].encode()).hexdigest()
        if h not in distinct:
            distinct.add(h)
            if "chain" in feats or "nested" in feats or "drop-nonempty" in feats:
                nontrivial += 1
    ev.cov["evaluations"] = total + ctot
    ev.cov["distinct_nontrivial"] = nontrivial
    ev.cov["rule"] = ("cases are generated from one PRNG(seed): per-alignment class sweeps, boundary-straddle cases (a buffer of capacity "
                      "1 KiB..64 KiB filled to cap - r, then the target closure pushed directly, boxed, or by a running closure of another queue), "
                      "full residual sweeps r in {0,8,..,req+8}, random multi-queue sequences with nested scripts; a case is non-trivial if it "
                      "contains a buffer expansion that chains a non-empty old buffer, a nested push, or a drop of a non-empty queue; distinct = distinct op/def text")
    ev.cov["traces_validated_against_impl"] = validated + cval
    ev.cov["samples"] = [cases[i][1] for i in (0, len(cases) // 2, len(cases) - 1) if len(cases[i][1]) < 6000][:3] or [cases[-1][1][:4000]]
    tset = stats["targets"]
    ev.cov["distribution"] = {
        "cases_by_family": stats["family"],
        "ops": stats["op"],
        "closure_classes_used": len(stats["class"]), "closure_classes_total": len(CLASSES),
        "closure_defs_by_alignment": {str(a): sum(v for (s, a2), v in stats["class"].items() if a2 == a) for a in A_LIST},
        "closure_defs_by_size_bucket": {b: sum(v for (s, a), v in stats["class"].items() if lo <= rnd(s, a) <= hi)
                                        for b, lo, hi in (("0", 0, 0), ("1-8", 1, 8), ("9-64", 9, 64), ("65-512", 65, 512), ("513-4096", 513, 4096))},
        "base_residues_mod_128": {str(k): v for k, v in sorted(stats["residue"].items())},
        "straddle_targets_by_boundary": {str(k): v for k, v in sorted(stats["boundary"].items())},
        "planned_distinct_(cap,size,align,residual)_targets": len(tset),
        "planned_targets_reached_in_real_trace": len([t for t in tset if t in cover["points"]]),
        "measured_on_real_trace": {
            "distinct_(cap_before,size,align,cap-len_before)_push_points": len(cover["points"]),
            "push_points_by_capacity": {str(c): len([1 for p in cover["points"] if p[0] == c]) for c in sorted({p[0] for p in cover["points"]})},
            "distinct_residuals_by_capacity": {str(c): len({p[3] for p in cover["points"] if p[0] == c}) for c in sorted({p[0] for p in cover["points"]})},
            "push_points_expanding": len([1 for (c, n, a, r) in cover["points"] if req_spec(n, a) > r]),
            "push_points_exact_fit(req == cap-len)": len([1 for (c, n, a, r) in cover["points"] if req_spec(n, a) == r]),
            "push_points_one_step_short(req == cap-len+8)": len([1 for (c, n, a, r) in cover["points"] if req_spec(n, a) == r + 8]),
            "buffer_growth_events(cap_before->cap_after)": {"%d->%d" % k: v for k, v in sorted(cover["expansions"].items())},
            "closures_run": cover["runs"], "closures_dropped_unrun": cover["drops"],
        },
    }
    ev.cov["wall_breakdown_s"] = {"build": round(tg - t0, 1), "generate": round(tr - tg, 1), "run": round(time.time() - tr, 1)}
    if fails:
        ev.cov["problems"] = problems
        rp = report_failure(prop, ev, tools, fails)
        ev.cov["samples"] = [open(rp).read()] + ev.cov["samples"][:1]
        return 1
    if problems:
        # the tie is broken (translator / proofs / model build) and no failing input was found
        rp = vlib.replay_path(prop, "tie-broken.txt")
        with open(rp, "w") as f:
            f.write("# property C17: no failing input found in %d cases (thorough generation), but the tie between proof and code is broken:\n" % total)
            for p in problems:
                f.write(p + "\n")
        ev.violations = 1
        ev.cov["problems"] = problems
        ev.cov["discharged"] = 0
        for p in problems:
            vlib.log("[C17] " + p[:300])
        vlib.violation(prop, rp, no_input=True)
        return 1
    vlib.log("[C17] ok: %d theorems checked, %d cases, real flat == real boxed == model (%.0fs)" % (ev.cov["obligations"], total + ctot, time.time() - t0))
    return 0


def replay(prop, path):
    assert prop in ("C17", "C16")
    ev = vlib.Evidence(prop, "quick", 0, level="proof")
    tools = Tools()
    os.makedirs(WORK, exist_ok=True)
    problems = build_all(ev, tools)
    text = open(path).read()
    if case_blocks(text) and not re.search(r"^nq \d+", text, re.M):
        # a case file of another layer (C16 is decided by two layers; every queue case starts with `nq <n>`)
        vlib.log("[C17] replay: %s is not a queue-layer case file (left to the layer that wrote it)" % path)
        return 0
    if not case_blocks(text):
        # a "tie broken" replay: the obligations themselves are the replay
        for p in problems:
            vlib.log("[C17] " + p[:300])
        if problems:
            vlib.violation(prop, path, no_input=True)
            return 1
        vlib.log("[C17] replay: translator, proofs and builds are fine now")
        return 0
    if tools.hdbg is None or tools.hrel is None:
        vlib.violation(prop, path, no_input=True)
        return 1
    fails, validated, total, _ = evaluate(tools, path)
    for n, why in fails.items():
        vlib.log("[C17] replay %s: %s" % (n, why))
    if fails:
        vlib.violation(prop, path)
        return 1
    vlib.log("[C17] replay: %d cases pass (%d validated against the model)" % (total, validated))
    return 0
