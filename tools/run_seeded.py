#!/usr/bin/env python3
"""Regression over the seeded changes in /verif/seeded/<id>/ (development aid, not a registered check).

For every seed: export /repo's HEAD into a scratch directory under /tmp, apply patch.diff, run
`./check <property>` with VERIF_REPO pointing at it (scratch-repo runs use a mirrored Coq tree, private
harness crate copies, target dirs and evidence files, so /repo's own results are never touched), record the
verdict line, remove the scratch directory.  Writes seeded/RESULTS.json and prints a table.

usage: tools/run_seeded.py [ids...]        (default: all)
"""
import json
import os
import shutil
import subprocess
import sys
import time

ROOT = os.path.dirname(os.path.dirname(os.path.abspath(__file__)))


def main():
    want = set(sys.argv[1:])
    sdir = os.path.join(ROOT, "seeded")
    res_path = os.path.join(sdir, "RESULTS.json")
    results = json.load(open(res_path)) if os.path.exists(res_path) else {}
    for sid in sorted(os.listdir(sdir)):
        d = os.path.join(sdir, sid)
        if not os.path.isdir(d) or (want and sid not in want):
            continue
        meta = json.load(open(os.path.join(d, "meta.json")))
        prop = meta["breaks_property"]
        scratch = "/tmp/seedrun_%s" % sid
        shutil.rmtree(scratch, ignore_errors=True)
        os.makedirs(scratch)
        subprocess.run("git -C /repo archive HEAD | tar -x -C %s" % scratch, shell=True, check=True)
        if os.path.exists("/repo/Cargo.lock") and not os.path.exists(os.path.join(scratch, "Cargo.lock")):
            shutil.copy("/repo/Cargo.lock", os.path.join(scratch, "Cargo.lock"))     # untracked in /repo, needed offline
        subprocess.run(["git", "init", "-q"], cwd=scratch)
        r = subprocess.run(["git", "apply", os.path.join(d, "patch.diff")], cwd=scratch, stdout=subprocess.PIPE, stderr=subprocess.STDOUT, text=True)
        if r.returncode != 0:
            results[sid] = {"property": prop, "verdict": "PATCH-DOES-NOT-APPLY", "detail": r.stdout[-300:]}
            print(sid, results[sid]["verdict"])
            continue
        t0 = time.time()
        env = dict(os.environ, VERIF_REPO=scratch)
        p = subprocess.run(["./check", prop], cwd=ROOT, env=env, stdout=subprocess.PIPE, stderr=subprocess.STDOUT, text=True, timeout=3600)
        lines = [l for l in p.stdout.split("\n") if l.startswith("VIOLATION") or l.startswith("CHECK-ERROR")]
        verdict = "MISSED"
        if any(l.startswith("CHECK-ERROR") for l in lines):
            verdict = "CHECK-ERROR"
        elif any("no-failing-input-found" in l for l in lines) and not any(l.startswith("VIOLATION") and "no-failing-input-found" not in l for l in lines):
            verdict = "VIOLATION-no-failing-input-found"
        elif lines:
            verdict = "VIOLATION-with-replay"
        results[sid] = {"property": prop, "verdict": verdict, "exit": p.returncode, "seconds": round(time.time() - t0), "lines": lines[:3]}
        # keep the replay the check produced next to the seed
        import re
        for l in lines:
            m = re.search(r"replay=(\S+)", l)
            if m and os.path.exists(m.group(1)) and "no-failing-input-found" not in l:
                shutil.copy(m.group(1), os.path.join(d, "detected_replay.txt"))
                break
        print("%-7s %-4s %-34s %4ds" % (sid, prop, verdict, time.time() - t0), flush=True)
        shutil.rmtree(scratch, ignore_errors=True)
        # drop the scratch-specific caches (mirrored Coq tree, private crates, target dirs)
        import hashlib
        h = hashlib.sha256(os.path.realpath(scratch).encode()).hexdigest()[:10]
        for name in os.listdir(os.path.join(ROOT, ".cache")):
            if h in name:
                pth = os.path.join(ROOT, ".cache", name)
                shutil.rmtree(pth, ignore_errors=True) if os.path.isdir(pth) else os.remove(pth)
        import fcntl
        with open(res_path + ".lock", "w") as lk:       # several runners may work on disjoint subsets in parallel
            fcntl.flock(lk, fcntl.LOCK_EX)
            merged = json.load(open(res_path)) if os.path.exists(res_path) else {}
            merged[sid] = results[sid]
            with open(res_path, "w") as f:
                json.dump(merged, f, indent=1, sort_keys=True)
    return 0


if __name__ == "__main__":
    sys.exit(main())
