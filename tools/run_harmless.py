#!/usr/bin/env python3
"""Development aid: behaviour-preserving rewrites of /repo must NOT raise an alarm.

usage: tools/run_harmless.py <patch.diff> <prop> [<prop> ...]

Exports /repo's HEAD into a scratch directory, applies the patch, runs `./check <prop>` for every property given with
VERIF_REPO pointing at the scratch copy (isolated: mirrored Coq tree, private crates, scratch evidence), prints one line
per property (`<patch> <prop> OK|ALARM ...`), removes the scratch directory and its caches.  Results are appended to
harmless/RESULTS.txt when the patch lives under harmless/.
"""
import hashlib
import os
import shutil
import subprocess
import sys
import time

ROOT = os.path.dirname(os.path.dirname(os.path.abspath(__file__)))


def main():
    patch = os.path.abspath(sys.argv[1])
    props = sys.argv[2:]
    tag = hashlib.sha256(patch.encode()).hexdigest()[:8]
    scratch = "/tmp/harmless_%s" % tag
    shutil.rmtree(scratch, ignore_errors=True)
    os.makedirs(scratch)
    subprocess.run("git -C /repo archive HEAD | tar -x -C %s" % scratch, shell=True, check=True)
    if os.path.exists("/repo/Cargo.lock") and not os.path.exists(os.path.join(scratch, "Cargo.lock")):
        shutil.copy("/repo/Cargo.lock", os.path.join(scratch, "Cargo.lock"))
    subprocess.run(["git", "init", "-q"], cwd=scratch)
    r = subprocess.run(["git", "apply", patch], cwd=scratch, stdout=subprocess.PIPE, stderr=subprocess.STDOUT, text=True)
    if r.returncode != 0:
        print("%s PATCH-DOES-NOT-APPLY %s" % (os.path.basename(patch), r.stdout[-200:]))
        return 2
    rc_all = 0
    lines = []
    for prop in props:
        t0 = time.time()
        p = subprocess.run(["./check", prop], cwd=ROOT, env=dict(os.environ, VERIF_REPO=scratch), stdout=subprocess.PIPE,
                           stderr=subprocess.STDOUT, text=True, timeout=3600)
        bad = [l for l in p.stdout.split("\n") if l.startswith("VIOLATION") or l.startswith("CHECK-ERROR")]
        ok = p.returncode == 0 and not bad
        line = "%s %s %s %ds %s" % (os.path.basename(os.path.dirname(patch)) + "/" + os.path.basename(patch), prop,
                                     "OK" if ok else "ALARM", time.time() - t0, " | ".join(bad[:2]))
        print(line, flush=True)
        lines.append(line)
        if not ok:
            rc_all = 1
            with open("/tmp/harmless_%s_%s.out" % (tag, prop), "w") as f:
                f.write(p.stdout)
    shutil.rmtree(scratch, ignore_errors=True)
    h = hashlib.sha256(os.path.realpath(scratch).encode()).hexdigest()[:10]
    for name in os.listdir(os.path.join(ROOT, ".cache")):
        if h in name:
            pth = os.path.join(ROOT, ".cache", name)
            shutil.rmtree(pth, ignore_errors=True) if os.path.isdir(pth) else os.remove(pth)
    if os.path.dirname(patch).startswith(os.path.join(ROOT, "harmless")):
        with open(os.path.join(ROOT, "harmless", "RESULTS.txt"), "a") as f:
            f.write("\n".join(lines) + "\n")
    return rc_all


if __name__ == "__main__":
    sys.exit(main())
