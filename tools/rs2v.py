#!/usr/bin/env python3
"""rs2v: translate a restricted subset of Rust (pure integer functions, constants) from /repo into Gallina.

Output: coq/Gen/Src*.v, regenerated on every run.  Functions are translated into an overflow-checking
option monad over Z (None = the debug-build overflow panic); `const` items into plain Z definitions;
selected literals of hand-modelled (stateful) functions are extracted by anchored patterns so that the
hand-written models are parameterised by what the source says now.

Anything outside the subset in a listed item is a translation failure (reported, never guessed).
"""
import os
import re
import sys


class TrError(Exception):
    pass


# "soft" notes: structural anchors of hand-modelled (stateful) functions that no longer match.  They are a search
# heuristic only (the checks escalate their search budget), never a verdict: the tie for stateful code is the
# correspondence check, which follows whatever the code does.
SOFT = []


# ---------------------------------------------------------------- source handling

def strip_comments(src):
    out = []
    i, n = 0, len(src)
    while i < n:
        if src.startswith("//", i):
            j = src.find("\n", i)
            i = n if j < 0 else j
        elif src.startswith("/*", i):
            j = src.find("*/", i)
            i = n if j < 0 else j + 2
        elif src[i] == '"':
            j = i + 1
            while j < n and src[j] != '"':
                j += 2 if src[j] == "\\" else 1
            out.append('""')
            i = j + 1
        else:
            out.append(src[i])
            i += 1
    return "".join(out)


def match_brace(src, i):
    """src[i] == '{' -> index just past matching '}'"""
    assert src[i] == "{", src[i:i + 20]
    d = 0
    while i < len(src):
        if src[i] == "{":
            d += 1
        elif src[i] == "}":
            d -= 1
            if d == 0:
                return i + 1
        i += 1
    raise TrError("unbalanced braces")


def find_block(src, header_re, start=0):
    """Find `header_re ... {` and return (body_without_braces, end_index, header_match)."""
    m = re.compile(header_re).search(src, start)
    if not m:
        return None
    i = src.find("{", m.end() - 1)
    j = match_brace(src, i)
    return src[i + 1:j - 1], j, m


def find_impl(src, impl_re):
    """impl_re is matched (re.search) against the whitespace-normalised text between `impl` and `{`."""
    for m in re.finditer(r"\bimpl\b", src):
        i = src.find("{", m.end())
        if i < 0:
            break
        header = " ".join(src[m.end():i].split())
        if ";" in header:
            continue
        if re.fullmatch(impl_re, header):
            return src[i + 1:match_brace(src, i) - 1]
    raise TrError("impl block not found: " + impl_re)


def find_fn(src, name):
    m = re.search(r"\bfn\s+" + re.escape(name) + r"\b\s*(<[^>]*>)?\s*\(", src)
    if not m:
        raise TrError("fn not found: " + name)
    # params
    i = m.end() - 1
    d = 0
    j = i
    while True:
        if src[j] == "(":
            d += 1
        elif src[j] == ")":
            d -= 1
            if d == 0:
                break
        j += 1
    params = src[i + 1:j]
    k = src.find("{", j)
    ret = src[j + 1:k]
    e = match_brace(src, k)
    return params, ret, src[k + 1:e - 1]


# ---------------------------------------------------------------- tokenizer / parser

TOK = re.compile(r"""
   (?P<str>"[^"]*")
 | (?P<num>0x[0-9A-Fa-f_]+(?:u8|u16|u32|u64|usize|i32|i64)?|\d[\d_]*(?:u8|u16|u32|u64|usize|i32|i64)?)
 | (?P<id>[A-Za-z_][A-Za-z0-9_]*)
 | (?P<op><<=|>>=|\.\.=|=>|::|<<|>>|<=|>=|==|!=|&&|\|\||\+=|-=|\*=|\|=|&=|->|\.\.|[-+*/%&|^!<>=.,;:(){}\[\]#?'])
 | (?P<ws>\s+)
""", re.X)


def tokenize(s):
    toks, i = [], 0
    while i < len(s):
        m = TOK.match(s, i)
        if not m:
            raise TrError("cannot tokenize at: " + s[i:i + 30])
        i = m.end()
        if m.lastgroup == "ws":
            continue
        toks.append((m.lastgroup, m.group(m.lastgroup)))
    toks.append(("eof", ""))
    return toks


class P:
    """Pratt parser producing tuples."""
    BIN = {"||": 1, "&&": 2, "==": 3, "!=": 3, "<": 3, ">": 3, "<=": 3, ">=": 3,
           "|": 4, "^": 5, "&": 6, "<<": 7, ">>": 7, "+": 8, "-": 8, "*": 9, "/": 9, "%": 9}

    def __init__(self, toks):
        self.t, self.i = toks, 0

    def peek(self, k=0):
        return self.t[self.i + k]

    def next(self):
        x = self.t[self.i]
        self.i += 1
        return x

    def accept(self, v):
        if self.peek()[1] == v and self.peek()[0] != "num":
            self.i += 1
            return True
        return False

    def expect(self, v):
        if not self.accept(v):
            raise TrError("expected %r, got %r" % (v, self.peek()[1]))

    # ---- types (skipped over, returned as string)
    def parse_type(self):
        depth, parts = 0, []
        while True:
            k, v = self.peek()
            if k == "eof":
                break
            if depth == 0 and v in ("=", ";", ",", ")", "{", "=>", ">"):
                break
            if v in ("<", "(", "["):
                depth += 1
            if v in (">", ")", "]"):
                depth -= 1
            if v == ">>":
                depth -= 2
            parts.append(v)
            self.i += 1
        return "".join(parts)

    # ---- blocks and statements
    def parse_block_body(self):
        stmts = []
        while not (self.peek()[1] == "}" and self.peek()[0] == "op") and self.peek()[0] != "eof":
            k, v = self.peek()
            if v == ";":
                self.next()
                continue
            if v == "#":  # attribute
                self.next()
                self.expect("[")
                d = 1
                while d:
                    x = self.next()[1]
                    d += (x == "[") - (x == "]")
                continue
            if v == "let":
                self.next()
                mut = self.accept("mut")
                if self.accept("("):
                    names = []
                    while not self.accept(")"):
                        self.accept("mut")
                        names.append(self.next()[1])
                        self.accept(",")
                    pat = ("tuple", names)
                else:
                    pat = ("var", self.next()[1])
                ty = None
                if self.accept(":"):
                    ty = self.parse_type()
                self.expect("=")
                e = self.parse_expr()
                self.expect(";")
                stmts.append(("let", pat, ty, e))
                continue
            if v == "return":
                self.next()
                e = None if self.peek()[1] == ";" else self.parse_expr()
                self.accept(";")
                stmts.append(("return", e))
                continue
            if k == "id" and self.peek(1)[1] == "!" and self.peek(2)[1] == "(" and v in (
                    "assert", "assert_eq", "debug_assert", "debug_assert_eq", "println"):
                self.next(); self.next(); self.next()
                d = 1
                while d:
                    x = self.next()[1]
                    d += (x == "(") - (x == ")")
                self.accept(";")
                continue
            e = self.parse_expr()
            if self.peek()[1] in ("=", "+=", "-=", "|=", "&=", "*="):
                op = self.next()[1]
                rhs = self.parse_expr()
                self.expect(";")
                if op != "=":
                    rhs = ("bin", op[:-1], e, rhs)
                stmts.append(("assign", e, rhs))
                continue
            if self.accept(";"):
                stmts.append(("expr", e))
            elif self.peek()[1] == "}" or self.peek()[0] == "eof":
                stmts.append(("tail", e))
            elif e[0] in ("if", "match", "block"):
                stmts.append(("expr", e))
            else:
                raise TrError("unexpected token after expression: %r" % (self.peek()[1],))
        return stmts

    def parse_block(self):
        self.expect("{")
        b = self.parse_block_body()
        self.expect("}")
        return ("block", b)

    def parse_expr(self, minp=0, nostruct=False):
        lhs = self.parse_unary(nostruct)
        while True:
            k, v = self.peek()
            if v == "as":
                self.next()
                ty = self.parse_cast_type()
                lhs = ("cast", lhs, ty)
                continue
            if k == "op" and v in self.BIN and self.BIN[v] >= minp + 0 and self.BIN[v] > minp - 1:
                p = self.BIN[v]
                if p < minp:
                    break
                self.next()
                rhs = self.parse_expr(p + 1, nostruct)
                lhs = ("bin", v, lhs, rhs)
                continue
            break
        return lhs

    def parse_cast_type(self):
        k, v = self.next()
        if v == "*":
            while self.peek()[1] in ("mut", "const", "(", ")", "u8"):
                self.next()
            return "ptr"
        return v

    def parse_unary(self, nostruct):
        k, v = self.peek()
        if v in ("!", "-", "*", "&"):
            self.next()
            if v == "&":
                self.accept("mut")
            e = self.parse_unary(nostruct)
            # unary binds tighter than `as` and binary ops
            return e if v in ("&", "*") else ("un", v, e)
        return self.parse_postfix(self.parse_primary(nostruct))

    def parse_args(self):
        args = []
        while not self.accept(")"):
            args.append(self.parse_expr())
            self.accept(",")
        return args

    def parse_postfix(self, e):
        while True:
            k, v = self.peek()
            if v == ".":
                self.next()
                k2, name = self.next()
                if self.peek()[1] == "::":  # turbofish
                    self.next()
                    self.expect("<")
                    self.parse_type()
                    self.expect(">")
                if self.accept("("):
                    e = ("method", e, name, self.parse_args())
                else:
                    e = ("field", e, name)
                continue
            if v == "(" and e[0] in ("path",):
                self.next()
                e = ("call", e, self.parse_args())
                continue
            if v == "[":
                self.next()
                ix = self.parse_expr()
                self.expect("]")
                e = ("index", e, ix)
                continue
            if v == "?":
                raise TrError("`?` not supported")
            break
        return e

    def parse_primary(self, nostruct):
        k, v = self.next()
        if k == "num":
            m = re.match(r"(0x[0-9A-Fa-f_]+|\d[\d_]*)(u8|u16|u32|u64|usize|i32|i64)?$", v)
            if m.group(1).startswith("0x"):
                val = int(m.group(1).replace("_", ""), 16)
            else:
                val = int(m.group(1).replace("_", ""))
            return ("lit", val, m.group(2))
        if v == "(":
            if self.accept(")"):
                return ("tuple", [])
            e = self.parse_expr()
            if self.accept(","):
                items = [e]
                while not self.accept(")"):
                    items.append(self.parse_expr())
                    self.accept(",")
                return ("tuple", items)
            self.expect(")")
            return ("paren", e)
        if v == "if":
            c = self.parse_expr(nostruct=True)
            a = self.parse_block()
            b = None
            if self.accept("else"):
                if self.peek()[1] == "if":
                    b = ("block", [("tail", self.parse_primary(nostruct))])
                else:
                    b = self.parse_block()
            return ("if", c, a, b)
        if v == "match":
            s = self.parse_expr(nostruct=True)
            self.expect("{")
            arms = []
            while not self.accept("}"):
                pats = [self.parse_pattern()]
                while self.accept("|"):
                    pats.append(self.parse_pattern())
                self.expect("=>")
                body = self.parse_expr()
                self.accept(",")
                arms.append((pats, body))
            return ("match", s, arms)
        if v == "{":
            self.i -= 1
            return self.parse_block()
        if v == "unsafe":
            return self.parse_block()
        if v == "|" or v == "||":
            if v == "|":
                while not self.accept("|"):
                    self.next()
            return ("closure", self.parse_expr())
        if v == "true":
            return ("bool", True)
        if v == "false":
            return ("bool", False)
        if k == "id":
            path = [v]
            while self.peek()[1] == "::":
                self.next()
                if self.accept("<"):
                    ty = self.parse_type()
                    self.expect(">")
                    path.append("<" + ty + ">")
                else:
                    path.append(self.next()[1])
            return ("path", path)
        if v == "<":
            ty = self.parse_type()
            self.expect(">")
            path = ["<" + ty + ">"]
            while self.accept("::"):
                path.append(self.next()[1])
            return ("path", path)
        raise TrError("unexpected token %r" % (v,))

    def parse_pattern(self):
        k, v = self.peek()
        if k == "num":
            return ("plit", self.parse_primary(False))
        if v == "_":
            self.next()
            return ("pwild",)
        e = self.parse_primary(False)
        if e[0] == "path" and len(e[1]) == 1 and e[1][0][0].islower():
            return ("pbind", e[1][0])
        return ("ppath", e)


# ---------------------------------------------------------------- translation to Gallina

BITS = {"u8": 8, "u16": 16, "u32": 32, "u64": 64, "usize": 64, "i32": 32, "i64": 64}
NEWTYPES = {"Time": "u64", "WrapTime": "u32", "CountAndState": "usize", "LogFilter": "u32", "Self": None}


def zlit(v):
    return str(v) if v >= 0 else "(%d)" % v


class Tr:
    """Translate a function body.  env: name -> (coq_name, type).  consts: name -> type (emitted elsewhere)."""

    def __init__(self, env, consts, self_ty=None, fields=None, subst=None, enums=None):
        self.env = dict(env)
        self.consts = consts
        self.self_ty = self_ty
        self.fields = fields or {}   # (var, field) -> (coq, type)
        self.subst = subst or {}     # textual path -> (coq atom, type)
        self.enums = enums or {}     # path string -> int
        self.n = 0
        self.inline_scopes = []      # source texts in which private helper fns may be looked up and inlined
        self.inline_depth = 0

    def fresh(self, base="tmp"):
        self.n += 1
        return "%s%d" % (base, self.n)

    # an expression compiles to (binds, atom, type) where binds = [(name, option-valued coq term)]
    def lit_ty(self, ty, want):
        return ty or want

    def expr(self, e, want=None):
        k = e[0]
        if k == "paren":
            return self.expr(e[1], want)
        if k == "lit":
            return [], zlit(e[1]), e[2] or want or "int"
        if k == "bool":
            return [], "true" if e[1] else "false", "bool"
        if k == "path":
            p = "::".join(e[1])
            if p in self.subst:
                return [], self.subst[p][0], self.subst[p][1]
            if p in self.enums:
                return [], zlit(self.enums[p]), want or "int"
            if len(e[1]) == 1 and e[1][0] in self.env:
                c, t = self.env[e[1][0]]
                return [], c, t
            name = e[1][-1]
            if name in self.consts and (len(e[1]) == 1 or e[1][0] in ("Self", "BitMap")):
                return [], name, self.consts[name]
            if p in ("u64::MAX", "usize::MAX"):
                return [], "18446744073709551615", "u64" if p[1] == "6" else "usize"
            if p == "u32::MAX":
                return [], "4294967295", "u32"
            raise TrError("unknown path " + p)
        if k == "field":
            if self.textual(e) in self.subst:
                c, t = self.subst[self.textual(e)]
                return [], c, t
            base = e[1]
            if base[0] == "path" and len(base[1]) == 1:
                key = (base[1][0], e[2])
                if key in self.fields:
                    return [], self.fields[key][0], self.fields[key][1]
            if e[2] == "0":  # newtype projection
                return self.expr(base, want)
            raise TrError("unsupported field access .%s" % e[2])
        if k == "cast":
            b, a, t = self.expr(e[1], None)
            ty = e[2]
            if ty == "usize":
                pass
            if ty not in BITS:
                raise TrError("unsupported cast to " + ty)
            if t == "int":
                return b, a, ty
            if t == "bool":
                raise TrError("bool cast")
            sb, db = BITS.get(t, 64), BITS[ty]
            if ty == "i32":
                return b, "(as_i32 %s)" % a, "i32"
            if db < sb:
                return b, "(%s mod %d)" % (a, 2 ** db), ty
            return b, a, ty
        if k == "un":
            b, a, t = self.expr(e[2], want)
            if e[1] == "!":
                if t == "bool":
                    return b, "(negb %s)" % a, "bool"
                if t == "int":
                    t = want or "int"
                if t == "int":
                    raise TrError("cannot type `!literal`")
                return b, "(lnot%d %s)" % (BITS[t], a), t
            raise TrError("unary " + e[1])
        if k == "bin":
            return self.binop(e[1], e[2], e[3], want)
        if k == "call":
            fn = "::".join(e[1][1])
            args = e[2]
            if fn in ("Self", "Time", "WrapTime", "CountAndState", "LogFilter"):
                under = NEWTYPES.get(fn) or self.self_ty
                return self.expr(args[0], under)
            if fn in ("u64::from", "usize::from", "u32::from"):
                b, a, t = self.expr(args[0], None)
                return b, a, fn.split("::")[0]
            if fn == "Duration::new":
                b1, a1, _ = self.expr(args[0], "u64")
                b2, a2, _ = self.expr(args[1], "u32")
                return b1 + b2, "(%s, %s)" % (a1, a2), "pair"
            if fn in self.subst:
                return [], self.subst[fn][0], self.subst[fn][1]
            if fn in ("std::cmp::max", "std::cmp::min", "core::cmp::max", "core::cmp::min", "cmp::max", "cmp::min") and len(args) == 2:
                b1, a1, t1 = self.expr(args[0], want)
                b2, a2, t2 = self.expr(args[1], t1 if t1 != "int" else want)
                return b1 + b2, "(Z.%s %s %s)" % (fn[-3:], a1, a2), (t1 if t1 != "int" else t2)
            if self.inline_scopes:
                bs, atoms = [], []
                for x in args:
                    b_, a_, t_ = self.expr(x, None)
                    bs += b_
                    atoms.append((a_, t_))
                r = self.inline_call(e[1][1][-1], atoms, want)
                if r is not None:
                    return bs + r[0], r[1], r[2]
            raise TrError("unsupported call " + fn)
        if k == "method":
            return self.method(e, want)
        if k == "tuple":
            bs, atoms = [], []
            for x in e[1]:
                b, a, _ = self.expr(x, None)
                bs += b
                atoms.append(a)
            return bs, "(" + ", ".join(atoms) + ")", "tuple"
        if k in ("if", "block", "match"):
            code = self.value_block(e, want)
            v = self.fresh("v")
            return [(v, code[0])], v, code[1]
        raise TrError("unsupported expression kind " + k)

    def method(self, e, want):
        recv, name, args = e[1], e[2], e[3]
        # dur.as_secs() etc and cell accessors through substitution of the textual form
        txt = self.textual(e)
        if txt in self.subst:
            return [], self.subst[txt][0], self.subst[txt][1]
        b, a, t = self.expr(recv, want if name in ("max", "min", "wrapping_add", "wrapping_sub") else None)
        if name in ("max", "min"):
            b2, a2, t2 = self.expr(args[0], t if t != "int" else None)
            if t == "int":
                t = t2
            return b + b2, "(Z.%s %s %s)" % (name, a, a2), t
        if name in ("wrapping_add", "wrapping_sub"):
            b2, a2, t2 = self.expr(args[0], t if t != "int" else None)
            if t == "int":
                t = t2
            op = "+" if name == "wrapping_add" else "-"
            return b + b2, "((%s %s %s) mod %d)" % (a, op, a2, 2 ** BITS[t]), t
        if name == "saturating_add":
            b2, a2, t2 = self.expr(args[0], t)
            return b + b2, "(Z.min (%s + %s) %d)" % (a, a2, 2 ** BITS[t] - 1), t
        if name == "leading_zeros":
            return b, "(leading_zeros%d %s)" % (BITS[t], a), "u32"
        if name == "trailing_zeros":
            return b, "(trailing_zeros%d %s)" % (BITS[t], a), "u32"
        if name == "next_power_of_two":
            v = self.fresh()
            return b + [(v, "next_pow2_%d %s" % (BITS[t], a))], v, t
        if name == "cmp":
            b2, a2, t2 = self.expr(args[0], t)
            if t == "cmp":
                raise TrError("cmp of cmp")
            if (recv[0] == "field" and (recv[1][1][0], recv[2]) in self.fields and self.fields[(recv[1][1][0], recv[2])][1] in ("WrapTimeS",)):
                pass
            return b + b2, "(Z.compare %s %s)" % (a, a2), "cmp"
        if name == "then_with":
            inner = args[0]
            if inner[0] != "closure":
                raise TrError("then_with without closure")
            b2, a2, t2 = self.expr(inner[1], None)
            if b2:
                raise TrError("fallible then_with closure")
            return b, "(match %s with Eq => %s | c => c end)" % (a, a2), "cmp"
        if name in ("get", "clone"):
            return b, a, t
        if self.inline_scopes:
            bs, atoms = list(b), []
            for x in args:
                b_, a_, t_ = self.expr(x, None)
                bs += b_
                atoms.append((a_, t_))
            r = self.inline_call(name, atoms, want, self_arg=(a, t if t != "int" else (self.self_ty or "usize")))
            if r is not None:
                return bs + r[0], r[1], r[2]
        raise TrError("unsupported method ." + name)

    def inline_call(self, name, arg_atoms, want, self_arg=None):
        """Inline a private helper fn of the same file (a maintainer may extract one): parameters are bound to the
        already translated argument atoms, the body is translated in place.  -> (binds, atom, type) or None."""
        if self.inline_depth >= 3:
            return None
        for scope in self.inline_scopes:
            try:
                params, ret, body = find_fn(scope, name)
            except TrError:
                continue
            plist = [x.strip() for x in params.split(",") if x.strip()]
            env = {}
            if plist and re.match(r"^(&\s*)?(mut\s+)?self$", plist[0]):
                if self_arg is None:
                    continue
                env["self"] = self_arg
                plist = plist[1:]
            elif self_arg is not None:
                continue
            if len(plist) != len(arg_atoms):
                continue
            for pdecl, (a, t) in zip(plist, arg_atoms):
                m = re.match(r"^(?:mut\s+)?(\w+)\s*:\s*(.+)$", pdecl)
                if not m:
                    return None
                ty = m.group(2).strip()
                env[m.group(1)] = (a, ty if ty in BITS else (NEWTYPES.get(ty) or (t if t != "int" else "usize")))
            sub = Tr(env, self.consts, self_ty=self.self_ty, fields=self.fields, subst=self.subst, enums=self.enums)
            sub.n = self.n
            sub.inline_scopes = self.inline_scopes
            sub.inline_depth = self.inline_depth + 1
            rty = ret.replace("->", "").strip()
            w = rty if rty in BITS else (NEWTYPES.get(rty) or want)
            code, ty = sub.stmts(parse_body(body), w)
            self.n = sub.n
            v = self.fresh("h")
            return [(v, code)], v, ty
        return None

    def textual(self, e):
        k = e[0]
        if k == "path":
            return "::".join(e[1])
        if k == "field":
            return self.textual(e[1]) + "." + e[2]
        if k == "method":
            return self.textual(e[1]) + "." + e[2] + "(" + ",".join(self.textual(x) for x in e[3]) + ")"
        if k == "call":
            return self.textual(e[1]) + "(" + ",".join(self.textual(x) for x in e[2]) + ")"
        if k == "lit":
            return str(e[1])
        if k == "paren":
            return "(" + self.textual(e[1]) + ")"
        return "<%s>" % k

    def is_litlike(self, e):
        k = e[0]
        if k == "lit":
            return e[2] is None
        if k == "paren":
            return self.is_litlike(e[1])
        if k == "bin" and e[1] in ("<<", ">>"):
            return self.is_litlike(e[2])
        if k == "bin":
            return self.is_litlike(e[2]) and self.is_litlike(e[3])
        if k == "un":
            return self.is_litlike(e[2])
        if k == "path":
            return "::".join(e[1]) in self.enums
        return False

    def binop(self, op, l, r, want):
        if op in ("&&", "||"):
            b1, a1, _ = self.expr(l, "bool")
            b2, a2, _ = self.expr(r, "bool")
            if b2:
                raise TrError("fallible right operand of " + op)
            return b1, "(%s %s %s)" % (a1, op, a2), "bool"
        if op in ("<<", ">>"):
            b1, a1, t1 = self.expr(l, want)
            b2, a2, t2 = self.expr(r, "u32")
            if t1 == "int":
                t1 = want or "int"
            if t1 == "int":
                raise TrError("cannot type shift of literal")
            v = self.fresh()
            f = ("shl%d" if op == "<<" else "shr%d") % BITS[t1]
            return b1 + b2 + [(v, "%s %s %s" % (f, a1, a2))], v, t1
        cmpop = op in ("==", "!=", "<", ">", "<=", ">=")
        w = None if cmpop else want
        if self.is_litlike(l) and not self.is_litlike(r):
            b2, a2, t2 = self.expr(r, w)
            b1, a1, t1 = self.expr(l, t2)
        else:
            b1, a1, t1 = self.expr(l, w)
            b2, a2, t2 = self.expr(r, t1 if t1 != "int" else w)
            if t1 == "int":
                t1 = t2
        t = t1 if t1 != "int" else t2
        if t == "int":
            t = want or "int"
        if cmpop:
            if t1 == "cmp" or t2 == "cmp":
                raise TrError("comparison of orderings")
            if t == "bool":
                m = {"==": "Bool.eqb %s %s", "!=": "negb (Bool.eqb %s %s)"}[op]
                return b1 + b2, "(" + m % (a1, a2) + ")", "bool"
            m = {"==": "%s =? %s", "!=": "negb (%s =? %s)", "<": "%s <? %s", ">": "%s >? %s", "<=": "%s <=? %s", ">=": "%s >=? %s"}[op]
            return b1 + b2, "(" + m % (a1, a2) + ")", "bool"
        if t == "int":
            raise TrError("cannot type arithmetic on literals: " + op)
        if op in ("&", "|", "^"):
            f = {"&": "Z.land", "|": "Z.lor", "^": "Z.lxor"}[op]
            return b1 + b2, "(%s %s %s)" % (f, a1, a2), t
        v = self.fresh()
        bits = BITS[t]
        f = {"+": "cadd%d" % bits, "-": "csub", "*": "cmul%d" % bits, "/": "cdiv", "%": "cmod"}[op]
        return b1 + b2 + [(v, "%s %s %s" % (f, a1, a2))], v, t

    # a block / if / match used as a value -> (option-typed coq term, type)
    def value_block(self, e, want):
        if e[0] == "if":
            bc, ac, _ = self.expr(e[1], "bool")
            ta = self.value_block(e[2], want)
            if e[3] is None:
                raise TrError("if without else used as value")
            tb = self.value_block(e[3], want)
            return self.wrap(bc, "(if %s then %s else %s)" % (ac, ta[0], tb[0])), ta[1] if ta[1] != "int" else tb[1]
        if e[0] == "match":
            return self.match(e, want, lambda body: self.value_block(body, want))
        if e[0] == "block":
            saved = dict(self.env)
            code, ty = self.stmts(e[1], want)
            self.env = saved
            return code, ty
        b, a, t = self.expr(e, want)
        return self.wrap(b, "Some %s" % a), t

    def match(self, e, want, k):
        bs, a, t = self.expr(e[1], None)
        code, rty = None, None
        arms = e[2]
        # build nested ifs from last to first
        for pats, body in reversed(arms):
            conds, bindv = [], None
            for p in pats:
                if p[0] == "plit":
                    conds.append("(%s =? %s)" % (a, zlit(p[1][1])))
                elif p[0] == "ppath":
                    _, pa, _ = self.expr(p[1], t)
                    conds.append("(%s =? %s)" % (a, pa))
                elif p[0] == "pwild":
                    conds = None
                    break
                elif p[0] == "pbind":
                    bindv = p[1]
                    conds = None
                    break
            saved = dict(self.env)
            if bindv:
                self.env[bindv] = (a, t)
            bc, bt = k(body)
            self.env = saved
            rty = bt if rty in (None, "int") else rty
            if conds is None:
                code = bc
            else:
                if code is None:
                    # the last arm of a match the Rust compiler accepted as exhaustive acts as the default
                    code = bc
                    continue
                code = "(if %s then %s else %s)" % (" || ".join(conds), bc, code)
        return self.wrap(bs, code), rty

    def wrap(self, binds, body):
        for name, term in reversed(binds):
            body = "(%s <- %s ;; %s)" % (name, term, body)
        return body

    def assigned_vars(self, stmts):
        res = []
        for s in stmts:
            if s[0] == "assign":
                tgt = s[1]
                if tgt[0] == "path" and len(tgt[1]) == 1:
                    if tgt[1][0] not in res:
                        res.append(tgt[1][0])
                else:
                    raise TrError("assignment to non-variable")
            elif s[0] in ("let",):
                continue
            else:
                raise TrError("unsupported statement in assigning block: " + s[0])
        return res

    def stmts(self, ss, want):
        """Translate a statement list ending in a tail/return; returns (option-typed term, type)."""
        if not ss:
            raise TrError("block without value")
        s, rest = ss[0], ss[1:]
        if s[0] == "let":
            pat, ty, e = s[1], s[2], s[3]
            wt = ty if ty in BITS else None
            b, a, t = self.expr(e, wt)
            if pat[0] == "var":
                name = pat[1]
                cn = self.fresh(name + "_")
                self.env[name] = (cn, t if t != "int" else (wt or "int"))
                code, rty = self.stmts(rest, want)
                return self.wrap(b, "(let %s := %s in %s)" % (cn, a, code)), rty
            names = pat[1]
            cns = [self.fresh(n + "_") for n in names]
            for n, c in zip(names, cns):
                self.env[n] = (c, "usize" if n != "went_to_zero" else "bool")
            code, rty = self.stmts(rest, want)
            return self.wrap(b, "(let '(%s) := %s in %s)" % (", ".join(cns), a, code)), rty
        if s[0] == "assign":
            tgt = s[1]
            if not (tgt[0] == "path" and len(tgt[1]) == 1 and tgt[1][0] in self.env):
                raise TrError("assignment to non-variable")
            name = tgt[1][0]
            b, a, t = self.expr(s[2], self.env[name][1])
            cn = self.fresh(name + "_")
            self.env[name] = (cn, self.env[name][1])
            code, rty = self.stmts(rest, want)
            return self.wrap(b, "(let %s := %s in %s)" % (cn, a, code)), rty
        if s[0] == "return" or s[0] == "tail":
            if s[1] is None:
                raise TrError("return without value")
            if s[0] == "tail" and s[1][0] in ("if", "match", "block"):
                return self.value_block(s[1], want)
            b, a, t = self.expr(s[1], want)
            return self.wrap(b, "Some %s" % a), t
        if s[0] == "expr" and s[1][0] == "if":
            e = s[1]
            bc, ac, _ = self.expr(e[1], "bool")
            body = e[2][1]
            if e[3] is None and body and body[-1][0] == "return":
                saved = dict(self.env)
                ta, ty1 = self.stmts(body, want)
                self.env = saved
                tb, ty2 = self.stmts(rest, want)
                return self.wrap(bc, "(if %s then %s else %s)" % (ac, ta, tb)), ty2
            if e[3] is None:
                vs = self.assigned_vars(body)
                if not vs:
                    return self.stmts(rest, want)
                saved = dict(self.env)
                tail = ("tail", ("tuple", [("path", [v]) for v in vs]) if len(vs) > 1 else ("path", [vs[0]]))
                ta, _ = self.stmts(body + [tail], None)
                self.env = saved
                cur = "(" + ", ".join(self.env[v][0] for v in vs) + ")" if len(vs) > 1 else self.env[vs[0]][0]
                news = [self.fresh(v + "_") for v in vs]
                for v, nn in zip(vs, news):
                    self.env[v] = (nn, self.env[v][1])
                code, rty = self.stmts(rest, want)
                pat = "'(" + ", ".join(news) + ")" if len(vs) > 1 else news[0]
                return self.wrap(bc, "(%s <- (if %s then %s else Some %s) ;; %s)" % (pat, ac, ta, cur, code)), rty
            raise TrError("unsupported if/else statement form")
        raise TrError("unsupported statement " + s[0])


def parse_body(body):
    p = P(tokenize(body))
    ss = p.parse_block_body()
    if p.peek()[0] != "eof":
        raise TrError("trailing tokens in body: %r" % (p.peek()[1],))
    return ss


def parse_expr_text(txt):
    p = P(tokenize(txt))
    e = p.parse_expr()
    if p.peek()[0] != "eof":
        raise TrError("trailing tokens in expression: %r" % (p.peek()[1],))
    return e


def pure_expr(e, consts, enums, want="u64"):
    """Translate a constant expression to a plain Z term (compile-time evaluated in Rust, so no overflow)."""
    k = e[0]
    if k == "paren":
        return pure_expr(e[1], consts, enums, want)
    if k == "lit":
        return zlit(e[1])
    if k == "path":
        p = "::".join(e[1])
        if p in enums:
            return zlit(enums[p])
        if e[1][-1] in consts:
            return e[1][-1]
        if p == "Ordering::SeqCst":
            return "5"
        raise TrError("const path " + p)
    if k == "cast":
        return pure_expr(e[1], consts, enums, e[2])
    if k == "un" and e[1] == "!":
        return "(lnot%d %s)" % (BITS.get(want, 64), pure_expr(e[2], consts, enums, want))
    if k == "bin":
        a, b = pure_expr(e[2], consts, enums, want), pure_expr(e[3], consts, enums, want)
        f = {"+": "(%s + %s)", "-": "(%s - %s)", "*": "(%s * %s)", "<<": "(Z.shiftl %s %s)", ">>": "(Z.shiftr %s %s)",
             "&": "(Z.land %s %s)", "|": "(Z.lor %s %s)"}.get(e[1])
        if not f:
            raise TrError("const op " + e[1])
        return f % (a, b)
    if k == "index":
        arr, ix = e[1], e[2]
        return "(nth (Z.to_nat %s) %s 0)" % (pure_expr(ix, consts, enums, want), pure_expr(arr, consts, enums, want))
    if k == "call":
        fn = "::".join(e[1][1])
        m = re.match(r"std::mem::size_of::<(\w+)>|mem::size_of::<(\w+)>", fn)
        if m and (m.group(1) or m.group(2)) == "usize":
            return "8"
        raise TrError("const call " + fn)
    raise TrError("const expression kind " + k)


# ---------------------------------------------------------------- item table

HEADER = """(* GENERATED by tools/rs2v.py from %s -- do not edit; regenerated on every run *)
From Coq Require Import ZArith List Bool.
From Stk Require Import Lib.U.
Import ListNotations.
Local Open Scope Z_scope.
Local Open Scope bool_scope.

"""


def fn_def(name, params, code, comment):
    ps = " ".join("(%s : Z)" % p for p in params)
    return "(* %s *)\nDefinition %s %s :=\n  %s.\n\n" % (comment, name, ps, code)


def translate_fn(src, impl, fn, coqname, params, self_ty=None, fields=None, subst=None, env=None, enums=None, consts=None, want=None, relfile=""):
    scope = find_impl(src, impl) if impl else src
    _, _, body = find_fn(scope, fn)
    ss = parse_body(body)
    e = dict(env or {})
    tr = Tr(e, consts or {}, self_ty=self_ty, fields=fields, subst=subst, enums=enums)
    tr.inline_scopes = [scope] + ([src] if scope is not src else [])
    code, ty = tr.stmts(ss, want)
    return fn_def(coqname, params, code, "%s: %s%s" % (relfile, (impl + "::") if impl else "", fn))


def const_def(src, name, consts, enums, scope_re=None, relfile=""):
    m = re.search(r"\bconst\s+" + name + r"\s*:\s*([^=]+?)\s*=\s*([^;]+);", src)
    if not m:
        raise TrError("const not found: " + name)
    ty = m.group(1).strip()
    want = ty if ty in BITS else "u64"
    if ty.startswith("["):
        items = re.findall(r"\d+", m.group(2))
        return "(* %s: const %s *)\nDefinition %s : list Z := [%s].\n\n" % (relfile, name, name, "; ".join(items)), "list"
    e = parse_expr_text(m.group(2).strip())
    term = pure_expr(e, consts, enums, want)
    return "(* %s: const %s *)\nDefinition %s : Z := %s.\n\n" % (relfile, name, name, term), want


_INT_SUFFIX = re.compile(r"(?<=[0-9a-fA-F_])(u8|u16|u32|u64|u128|usize|i8|i16|i32|i64|i128|isize)$")


def int_of_token(src, tok, depth=0):
    """value of an integer literal, or of a named constant of the file whose initialiser is an integer literal or a
    constant expression over literals / other such constants (a maintainer may name a magic number)"""
    t = tok.strip()
    lit = _INT_SUFFIX.sub("", t.replace("_", "")) if re.match(r"^\d", t) else None
    if lit is not None:
        try:
            return int(lit, 0)
        except ValueError:
            raise TrError("not an integer literal: " + tok)
    if depth > 4 or not re.match(r"^[A-Za-z_][A-Za-z0-9_]*$", t):
        raise TrError("cannot evaluate %r as an integer constant" % tok)
    m = re.search(r"\bconst\s+" + re.escape(t) + r"\s*:\s*[^=;]+?=\s*([^;]+);", src)
    if not m:
        raise TrError("anchored token %r is neither an integer literal nor a const of the file" % tok)
    expr = m.group(1).strip()
    parts = re.findall(r"0[xX][0-9a-fA-F_]+\w*|\d[\d_]*\w*|[A-Za-z_][A-Za-z0-9_:]*|<<|>>|[-+*/%()|&^!~]", expr)
    if "".join(parts) != re.sub(r"\s+", "", expr):
        raise TrError("const %s has an initialiser the translator cannot evaluate: %s" % (t, expr))
    py = []
    for q in parts:
        if re.match(r"^(\d|0[xX])", q):
            py.append(str(int_of_token(src, q, depth + 1)))
        elif re.match(r"^[A-Za-z_]", q):
            py.append(str(int_of_token(src, q.split("::")[-1], depth + 1)))
        elif q == "/":
            py.append("//")
        elif q == "!":
            raise TrError("const %s: bitwise not needs a width" % t)
        else:
            py.append(q)
    try:
        return int(eval(" ".join(py), {"__builtins__": {}}, {}))
    except Exception as ex:
        raise TrError("const %s: %s" % (t, ex))


def resolve_ident(body, text, depth=0):
    """`text` is the right-hand side found at an anchor; when it is just a local name (the value was hoisted into a
    `let`), return that binding's right-hand side instead"""
    t = text.strip()
    if depth < 3 and re.match(r"^[a-z_][a-z0-9_]*$", t):
        ms = re.findall(r"\blet\s+(?:mut\s+)?%s\s*(?::[^=;]+)?=\s*(.*?);" % re.escape(t), body, re.S)
        if len(ms) == 1:
            return resolve_ident(body, ms[0], depth + 1)
    return t


def anchored_literal(src, scope_fn, pattern, what, impl=None):
    """Extract one integer literal from a hand-modelled function by an anchored regex with one group."""
    scope = src
    if impl:
        scope = find_impl(src, impl)
    if scope_fn:
        _, _, scope = find_fn(scope, scope_fn)
    ms = re.findall(pattern, scope)
    if not ms:
        raise TrError("anchor not found for %s in fn %s: /%s/" % (what, scope_fn, pattern))
    vals = set(int_of_token(src, x) for x in ms)
    if len(vals) != 1:
        raise TrError("anchor for %s matches different literals %s" % (what, sorted(vals)))
    return vals.pop(), len(ms)


def token_hash(src, impl, fn):
    import hashlib
    scope = find_impl(src, impl) if impl else src
    p, r, body = find_fn(scope, fn)
    toks = [v for k, v in tokenize(p + r + body)]
    return hashlib.sha256(" ".join(toks).encode()).hexdigest()[:16]


def gen_timers(repo):
    rel = "src/timers/mod.rs"
    src = strip_comments(open(os.path.join(repo, rel)).read())
    out = HEADER % rel
    probs = []

    def add(f):
        nonlocal out
        try:
            out += f()
        except (TrError, ValueError, KeyError, IndexError, TypeError, AttributeError, AssertionError) as ex:
            probs.append("%s: %s" % (rel, ex))
        except Exception as ex:       # a source shape the translator does not know: a broken tie, never a crash
            probs.append("%s: translator cannot handle the source (%s: %s)" % (rel, type(ex).__name__, ex))

    dur = {"dur.as_secs()": ("dur_secs", "u64"), "dur.subsec_nanos()": ("dur_nanos", "u32")}

    def ceil_floor(fn):
        scope = find_impl(src, r"Time")
        _, _, body = find_fn(scope, fn)
        body = re.sub(r"let\s+dur\s*=\s*inst\.saturating_duration_since\(t0\);", "", body)
        if "dur" not in body or "inst" in body:
            raise TrError("%s: expected `let dur = inst.saturating_duration_since(t0);`" % fn)
        tr = Tr({}, {}, self_ty="u64", subst=dur)
        code, _ = tr.stmts(parse_body(body), "u64")
        return fn_def("time_" + fn, ["dur_secs", "dur_nanos"], code, "%s: Time::%s (dur = inst.saturating_duration_since(t0))" % (rel, fn))

    add(lambda: ceil_floor("new_ceil"))
    add(lambda: ceil_floor("new_floor"))
    selfT = {"self": ("self_", "u64")}
    add(lambda: translate_fn(src, r"Time", "add_secs", "time_add_secs", ["self_", "secs"], self_ty="u64",
                             env={"self": ("self_", "u64"), "secs": ("secs", "u32")}, want="u64", relfile=rel))
    add(lambda: translate_fn(src, r"Time", "inc", "time_inc", ["self_"], self_ty="u64", env=selfT, want="u64", relfile=rel))

    def instant():
        scope = find_impl(src, r"Time")
        _, _, body = find_fn(scope, "instant")
        ss = parse_body(body)
        # the value is `t0 + <duration>`: translate the duration (a (secs, nanos) pair relative to t0)
        last = ss[-1]
        if last[0] != "tail" or last[1][0] != "bin" or last[1][1] != "+" or last[1][2] != ("path", ["t0"]):
            raise TrError("instant: expected the value `t0 + Duration::new(..)`")
        ss = ss[:-1] + [("tail", last[1][3])]
        tr = Tr(selfT, {}, self_ty="u64")
        code, _ = tr.stmts(ss, None)
        return fn_def("time_instant", ["self_"], code, "%s: Time::instant  (result = (secs, nanos) to add to t0)" % rel)

    add(instant)
    add(lambda: translate_fn(src, r"Time", "wt", "time_wt", ["self_"], self_ty="u32", env=selfT, want="u32", relfile=rel))
    add(lambda: translate_fn(src, r"WrapTime", "time", "wraptime_time", ["self_", "base"], self_ty="u64",
                             env={"self": ("self_", "u32"), "base": ("base", "u64")}, want="u64", relfile=rel))
    add(lambda: translate_fn(src, r"Ord for WrapTime", "cmp", "wraptime_cmp", ["self_", "other"], self_ty="u32",
                             env={"self": ("self_", "u32"), "other": ("other", "u32")}, relfile=rel))

    def timerkey_cmp():
        scope = find_impl(src, r"Ord for TimerKey")
        _, _, body = find_fn(scope, "cmp")
        e = parse_body(body)
        # self.time.cmp(&other.time) is WrapTime::cmp
        fields = {("self", "slot"): ("self_slot", "u32"), ("other", "slot"): ("other_slot", "u32")}
        tr = Tr({}, {}, fields=fields, subst={"self.time.cmp(other.time)": ("tcmp", "cmp")})
        code, _ = tr.stmts(e, None)
        return "(* %s: TimerKey::cmp (tcmp = WrapTime::cmp of the time fields) *)\nDefinition timerkey_cmp (self_time self_slot other_time other_slot : Z) :=\n  tcmp <- wraptime_cmp self_time other_time ;; %s.\n\n" % (rel, code)

    add(timerkey_cmp)
    add(lambda: translate_fn(src, None, "rounded_75point", "rounded_75point", ["t0", "t1"], self_ty="u64",
                             env={"t0": ("t0", "u64"), "t1": ("t1", "u64")}, want="u64", relfile=rel))

    # anchored literals of the hand-modelled stateful functions
    # (name, function, anchored pattern, value on the pinned tree).  When the pattern no longer matches (the code was
    # respelled: helper extracted, receiver renamed ...) the model keeps the pinned value, a SOFT note is recorded and the
    # tie for that constant rests on the state-exact correspondence, which the check then runs with the full search budget.
    lits = [
        ("ADVANCE_STEP_SECS", "advance", r"self\.now\.add_secs\((\w+)\)\.min\(target_now\)", 32767),
        ("ADVANCE_SPLIT_INC", "advance", r"WrapTime\(now\.wt\(\)\.0 \+ (\w+)\), 0\)", 1),
        ("ADVANCE_FIXED_BIT", "advance", r"key\.slot >= (\w+)", 2147483648),
        ("ADVANCE_REQUEUE_SECS", "advance", r"min\(self\.now\.add_secs\((\w+)\)\)", 32767),
        ("ADD_VAR_SECS", "add", r"expiry >= self\.now\.add_secs\((\w+)\)", 32767),
        ("ADD_FIXED_BIT", "add", r"self\.seq \| (\w+)", 2147483648),
        ("DEL_FIXED_BIT", "del", r"fk\.slot < (\w+)", 2147483648),
        ("ADD_MAX_SECS", "add_max", r"min\(self\.now\.add_secs\((\w+)\)\)", 32767),
        ("ADD_MIN_SECS", "add_min", r"min\(self\.now\.add_secs\((\w+)\)\)", 32767),
        ("MOD_MIN_SECS", "mod_min", r"min\(self\.now\.add_secs\((\w+)\)\)", 32767),
        ("ALLOC_GEN_START", "alloc_slot", r"VarSlot \{ gnn: (\w+), item \}", 1),
        ("FREE_GEN_MIN", "free_slot", r"wrapping_add\(1\)\.max\((\w+)\)", 1),
    ]
    implT = r"<S: 'static> Timers<S>"
    for name, fn, pat, pinned in lits:
        def one(name=name, fn=fn, pat=pat, pinned=pinned):
            try:
                v, n = anchored_literal(src, fn, pat, name, impl=r"<S: 'static> Timers<S>")
            except TrError as ex:
                if "anchor not found" not in str(ex):
                    raise
                SOFT.append("%s: literal anchor missing in Timers::%s for %s: /%s/ (model keeps the pinned value %d)" % (rel, fn, name, pat, pinned))
                return "(* %s: literal in Timers::%s: anchor /%s/ not found, pinned value kept; tie = state-exact correspondence *)\nDefinition %s : Z := %d.\n\n" % (
                    rel, fn, pat, name, pinned)
            return "(* %s: literal in Timers::%s matched by /%s/ (%d site%s) *)\nDefinition %s : Z := %d.\n\n" % (
                rel, fn, pat, n, "" if n == 1 else "s", name, v)
        add(one)
    # structural anchors: expressions that the hand-written model mirrors; absence = tie broken
    anchors = [
        ("advance", r"if vt\.expiry <= target_now"),
        ("advance", r"vt\.curr = vt\.expiry\.min\("),
        ("advance", r"rounded_75point\(self\.now, vt\.expiry\.min\("),
        ("add", r"Time::new_ceil\(expiry_time, self\.t0\)\.max\(self\.now\.inc\(\)\)"),
        ("add_max", r"expiry\.max\(self\.now\.inc\(\)\)\.min\("),
        ("add_min", r"rounded_75point\(\s*self\.now\.inc\(\),\s*expiry\.max\(self\.now\.inc\(\)\)\.min\("),
        ("mod_min", r"rounded_75point\(\s*self\.now\.inc\(\),\s*expiry\.max\(self\.now\.inc\(\)\)\.min\("),
        ("mod_min", r"if expiry < vt\.expiry"),
        ("mod_min", r"if expiry < vt\.curr"),
        ("mod_max", r"vt\.expiry = vt\.expiry\.max\(expiry\)"),
    ]
    scopeT = find_impl(src, r"<S: 'static> Timers<S>")
    for fn, pat in anchors:
        try:
            _, _, body = find_fn(scopeT, fn)
            if not re.search(pat, body):
                SOFT.append("%s: structural anchor missing in Timers::%s: /%s/" % (rel, fn, pat))
        except (TrError, ValueError, KeyError, IndexError, TypeError, AttributeError, AssertionError) as ex:
            probs.append("%s: %s" % (rel, ex))
    hashes = []
    for fn in ("next_expiry", "advance", "alloc_slot", "free_slot", "add", "del", "add_max", "mod_max", "del_max", "max_is_active",
               "add_min", "mod_min", "del_min", "min_is_active"):
        try:
            hashes.append((fn, token_hash(src, r"<S: 'static> Timers<S>", fn)))
        except (TrError, ValueError, KeyError, IndexError, TypeError, AttributeError, AssertionError) as ex:
            probs.append("%s: %s" % (rel, ex))
    return out, probs, hashes


def gen_count(repo):
    rel = "src/rc/count.rs"
    src = strip_comments(open(os.path.join(repo, rel)).read())
    out = HEADER % rel
    probs = []
    consts = {}
    enums = {}
    # State discriminants from actor.rs
    asrc = strip_comments(open(os.path.join(repo, "src/actor.rs")).read())
    r = find_block(asrc, r"enum\s+State\s*\{")
    if not r:
        probs.append("src/actor.rs: enum State not found")
    else:
        for m in re.finditer(r"(\w+)\s*=\s*(\d+)", r[0]):
            enums["State::" + m.group(1)] = int(m.group(2))
            out += "(* src/actor.rs: State::%s *)\nDefinition STATE_%s : Z := %s.\n\n" % (m.group(1), m.group(1).upper(), m.group(2))
    wanted = ["COUNT_SHIFT", "COUNT_INC", "COUNT_MASK"]
    allc = [c for c in re.findall(r"\bconst\s+(\w+)\s*:\s*(?:usize|u32|u64)\s*=", src)]     # file order: a const may use earlier ones
    for c in allc + [c for c in wanted if c not in allc]:
        try:
            d, ty = const_def(src, c, consts, enums, relfile=rel)
            consts[c] = ty
            out += d
        except (TrError, ValueError, KeyError, IndexError, TypeError, AttributeError, AssertionError) as ex:
            probs.append("%s: %s" % (rel, ex))
    selfE = {"self": ("self_", "usize")}
    for fn, params, env in (("new", [], {}), ("inc", ["self_"], selfE), ("dec", ["self_"], selfE),
                            ("set_state", ["self_", "state"], dict(selfE, state=("state", "usize"))),
                            ("is_prep", ["self_"], selfE), ("is_zombie", ["self_"], selfE)):
        try:
            out += translate_fn(src, r"CountAndState", fn, "count_" + fn, params, self_ty="usize", env=env, enums=enums,
                                consts=consts, want="usize" if fn in ("new", "inc", "set_state") else None, relfile=rel)
        except (TrError, ValueError, KeyError, IndexError, TypeError, AttributeError, AssertionError) as ex:
            probs.append("%s: %s::%s" % (rel, fn, ex))
    # MinRc drop table
    rel2 = "src/rc/minrc.rs"
    msrc = strip_comments(open(os.path.join(repo, rel2)).read())
    try:
        scope = find_impl(msrc, r"<T: \?Sized> Drop for MinRc<T>")
        _, _, body = find_fn(scope, "drop")
        m = re.search(r"let \(\w+, \w+\) = ((?:match|if)\b.*?\});\s*rcbox\.count\.(?:replace|set)\(", body, re.S)
        if not m:
            raise TrError("drop table not found")
        env = {}
        for nm in re.findall(r"\blet\s+(\w+)\s*=\s*rcbox\.count\.get\(\)\s*;", body):
            env[nm] = ("count", "usize")          # the old count under a local name
        tr = Tr(env, {}, subst={"rcbox.count.get()": ("count", "usize")})
        code, _ = tr.stmts([("tail", parse_expr_text(m.group(1)))], None)
        out += fn_def("minrc_drop", ["count"], code, "%s: MinRc::drop count table -> (new count, went_to_zero)" % rel2)
        scope = find_impl(msrc, r"<T: \?Sized> Clone for MinRc<T>")
        _, _, body = find_fn(scope, "clone")
        m = re.search(r"rcbox\.count\.replace\((.*?)\);", body, re.S)
        if not m:
            raise TrError("clone count update not found")
        tr = Tr({}, {}, subst={"rcbox.count.get()": ("count", "usize")})
        code, _ = tr.stmts([("tail", parse_expr_text(resolve_ident(body, m.group(1))))], "usize")
        out += fn_def("minrc_clone", ["count"], code, "%s: MinRc::clone count update" % rel2)
        m = re.search(r"count:\s*Cell::new\((\d+)\)", msrc)
        if not m:
            raise TrError("MinRc::new initial count not found")
        out += "(* %s: MinRc::new initial count *)\nDefinition MINRC_INIT : Z := %s.\n\n" % (rel2, m.group(1))
    except (TrError, ValueError, KeyError, IndexError, TypeError, AttributeError, AssertionError) as ex:
        probs.append("%s: %s" % (rel2, ex))
    return out, probs


def gen_flat(repo):
    rel = "src/queue/flat.rs"
    src = strip_comments(open(os.path.join(repo, rel)).read())
    out = HEADER % rel
    probs = []
    try:
        out += translate_fn(src, None, "align_off", "align_off", ["off", "pow2"], self_ty="usize",
                            env={"off": ("off", "usize"), "pow2": ("pow2", "usize")}, want="usize", relfile=rel)
        # the pointer version: same expression on the address
        _, _, body = find_fn(src, "align")
        m = re.search(r"^(.*?)unsafe\s*\{\s*p\.add\((\w+)\)\s*\}", body, re.S)
        lets = re.findall(r"let (\w+) = (.*?);", m.group(1), re.S) if m else []
        if not m or not lets or lets[-1][0] != m.group(2):
            raise TrError("fn align: expected `let .. ; let <inc> = ..; unsafe { p.add(<inc>) }`")
        tr = Tr({"p": ("p", "usize"), "pow2": ("pow2", "usize")}, {})
        sts = [("let", ("var", nm), None, parse_expr_text(ex.replace("(p as usize)", "p"))) for nm, ex in lets]
        code, _ = tr.stmts(sts + [("tail", ("bin", "+", ("path", ["p"]), ("path", [m.group(2)])))], "usize")
        out += fn_def("align_ptr", ["p", "pow2"], code, "%s: hvec::align (on the address; p.add(inc))" % rel)
        # req computation in HVec::push
        _, _, body = find_fn(src, "push")  # first `fn push` is FnOnceQueue::push; we need hvec's
        hv = find_block(src, r"\bmod\s+hvec\s*\{")[0]
        # module-level names for size_of::<VP>() / align_of::<VP>() (a maintainer may name them): expand them textually
        for cm in re.finditer(r"\bconst\s+(\w+)\s*:\s*usize\s*=\s*(mem::(?:size|align)_of::<VP>\(\))\s*;", hv):
            hv = re.sub(r"(?<![\w:])%s(?![\w(])" % re.escape(cm.group(1)), cm.group(2), hv.replace(cm.group(0), ""))
        _, _, body = find_fn(find_impl(hv, r"HVec"), "push")
        lines = re.findall(r"let req = (.*?);", body, re.S)
        if len(lines) < 2:
            raise TrError("HVec::push: `let req = ..;` chain not found")
        subst = {"mem::size_of::<VP>()": ("8", "usize"), "mem::align_of::<VP>()": ("8", "usize"),
                 "mem::size_of::<T>()": ("size_t", "usize"), "mem::align_of::<T>()": ("align_t", "usize"),
                 "align_off": None}
        del subst["align_off"]
        ss = []
        for ln in lines:
            ss.append(("let", ("var", "req"), None, parse_expr_text(ln)))
        ss.append(("tail", ("path", ["req"])))

        class Tr2(Tr):
            def expr(self, e, want=None):
                if e[0] == "call" and "::".join(e[1][1]) == "align_off":
                    b1, a1, _ = self.expr(e[2][0], "usize")
                    b2, a2, _ = self.expr(e[2][1], "usize")
                    v = self.fresh()
                    return b1 + b2 + [(v, "align_off %s %s" % (a1, a2))], v, "usize"
                if e[0] == "call":
                    t = self.textual(e)
                    if t in self.subst:
                        return [], self.subst[t][0], self.subst[t][1]
                return Tr.expr(self, e, want)
        tr = Tr2({}, {}, subst=subst)
        code, _ = tr.stmts(ss, "usize")
        out += fn_def("push_req", ["size_t", "align_t"], code, "%s: HVec::push worst-case space requirement `req` (size_of::<VP>() = align_of::<VP>() = 8)" % rel)
        # condition that triggers expansion
        m = re.search(r"if req > self\.cap - self\.len \{\s*expand\(self, req\);", body)
        if not m:
            SOFT.append(rel + ": HVec::push: expansion condition `if req > self.cap - self.len { expand(self, req);` not found")
        # expand_storage size
        q = find_impl(src, r"<S: 'static> FnOnceQueue<S>")
        _, _, eb = find_fn(q, "expand_storage")
        m = re.search(r"let \w+ = ((?:(?!;).)*?next_power_of_two\(\));", eb, re.S)
        if not m:
            raise TrError("expand_storage: `let <size> = .. .next_power_of_two();` not found")
        # the one free variable of the size expression is the adjusted requirement (`req2` on the pinned tree)
        free = [w for w in re.findall(r"(?<![\w.:])([a-z_][a-z0-9_]*)(?![\w(:])", m.group(1)) if w not in ("hv",)]
        free = sorted(set(free))
        if len(free) != 1:
            raise TrError("expand_storage: size expression should have one free variable, found %s" % free)
        size_expr = re.sub(r"(?<![\w.:])%s(?![\w(:])" % re.escape(free[0]), "req2", m.group(1))
        d, ty = const_def(q, "INITIAL_ALLOCATION", {}, {}, relfile=rel)
        out += d
        subst2 = {"hv.cap()": ("cap", "usize"), "Self::INITIAL_ALLOCATION": ("INITIAL_ALLOCATION", "usize")}
        tr = Tr({"req2": ("req2", "usize")}, {"INITIAL_ALLOCATION": "usize"}, subst=subst2)
        code, _ = tr.stmts([("tail", parse_expr_text(size_expr))], "usize")
        out += fn_def("expand_size", ["cap", "req2"], code, "%s: expand_storage new allocation size" % rel)
        if not re.search(r"let \w+ = hv\.len\(\) != 0;", eb):
            SOFT.append(rel + ": expand_storage: `let <push_old> = hv.len() != 0;` not found")
        if not re.search(r"\+=? mem::size_of::<\(\*mut \(\), FnOnceQueue<\(\)>\)>\(\)", eb):
            raise TrError("expand_storage: chained-queue size adjustment not found")
        out += "(* %s: size_of of the chained-queue item (raw pointer + FnOnceQueue) on 64-bit: 8 + 24; asserted against the harness at run time *)\nDefinition CHAIN_ITEM_SIZE : Z := 32.\n\n" % rel
    except (TrError, ValueError, KeyError, IndexError, TypeError, AttributeError, AssertionError) as ex:
        probs.append("%s: %s" % (rel, ex))
    return out, probs


def gen_core(repo):
    rel = "src/core.rs"
    src = strip_comments(open(os.path.join(repo, rel)).read())
    out = HEADER % rel
    probs = []
    try:
        def soft_lit(fn, pats, what, impl, pinned):
            """first pattern that matches decides; none matching: pinned value + SOFT note (the tie for this constant is
            then the trace-exact runtime correspondence: the F4 chain cases pin the round count, the 60 s cases the period)"""
            for pat in pats:
                try:
                    return anchored_literal(src, fn, pat, what, impl=impl)[0]
                except TrError as ex:
                    if "anchor not found" not in str(ex):
                        raise
            SOFT.append("%s: literal anchor missing in %s::%s for %s (model keeps the pinned value %d)" % (rel, impl, fn, what, pinned))
            return pinned
        v = soft_lit("drop", [r"for \w+ in 0\.\.(\w+)\s*\{", r"while \w+ < (\w+)\s*\{"], "TEARDOWN_ROUNDS", r"Drop for Stakker", 99)
        out += "(* %s: Stakker::drop drain rounds *)\nDefinition TEARDOWN_ROUNDS : Z := %d.\n\n" % (rel, v)
        v1 = soft_lit("new", [r"recreate_queues_\w+: now \+ Duration::from_secs\((\w+)\)"], "RECREATE_SECS", r"Stakker", 60)
        v2 = soft_lit("run", [r"self\.recreate_queues_\w+ = now \+ Duration::from_secs\((\w+)\)"], "RECREATE_SECS", r"Stakker", 60)
        if v1 != v2:
            raise TrError("recreate period differs between new and run")
        out += "(* %s: queue recreation period (seconds) *)\nDefinition RECREATE_SECS : Z := %d.\n\n" % (rel, v1)
        _, _, body = find_fn(find_impl(src, r"Core"), "log_span_open")
        m = re.search(r"self\.log_id_seq = (.*?);", body)
        if not m:
            raise TrError("log_span_open: log_id_seq update not found")
        tr = Tr({}, {}, subst={"self.log_id_seq": ("seq", "u64")})
        code, _ = tr.stmts([("tail", parse_expr_text(resolve_ident(body, m.group(1))))], "u64")
        out += fn_def("log_id_next", ["seq"], code, "%s: Core::log_span_open id allocation" % rel)
        _, _, rb = find_fn(find_impl(src, r"Stakker"), "run")
        for pat in (r"if now > self\.now \{\s*self\.now = now;\s*self\.timers\.advance\(now, &mut alt_main\);\s*\}",
                    r"if now > self\.recreate_queues_time \{",
                    r"if idle \{\s*if let Some\(cb\) = self\.idle_queue\.pop_front\(\) \{\s*cb\(self\);"):
            if not re.search(pat, rb):
                SOFT.append("%s: structural anchor missing in Stakker::run: /%s/" % (rel, pat))
    except (TrError, ValueError, KeyError, IndexError, TypeError, AttributeError, AssertionError) as ex:
        probs.append("%s: %s" % (rel, ex))
    return out, probs


def gen_log(repo):
    rel = "src/log.rs"
    src = strip_comments(open(os.path.join(repo, rel)).read())
    out = HEADER % rel
    probs = []
    enums = {}
    try:
        r = find_block(src, r"pub\s+enum\s+LogLevel\s*\{")
        for m in re.finditer(r"(\w+)\s*=\s*(\d+)", r[0]):
            enums["LogLevel::" + m.group(1)] = int(m.group(2))
            out += "(* %s: LogLevel::%s *)\nDefinition LOGLEVEL_%s : Z := %s.\n\n" % (rel, m.group(1), m.group(1).upper(), m.group(2))
        if len(enums) != 9:
            raise TrError("expected 9 LogLevel variants, found %d" % len(enums))
        out += translate_fn(src, r"LogFilter", "allows", "logfilter_allows", ["self_", "level"], self_ty="u32",
                            env={"self": ("self_", "u32"), "level": ("level", "u32")}, relfile=rel)
        # From<LogLevel>: match on variants
        scope = find_impl(src, r"From<LogLevel> for LogFilter")
        _, _, body = find_fn(scope, "from")
        lconsts = {}
        for cm in re.finditer(r"\bconst\s+(\w+)\s*:\s*u32\s*=\s*([^;]+);", src):      # named masks etc.
            try:
                lconsts[cm.group(1)] = int_of_token(src, cm.group(1))
            except TrError:
                pass
        lsubst = dict((k, (str(v), "u32")) for k, v in lconsts.items())
        lsubst.update(dict(("Self::" + k, (str(v), "u32")) for k, v in lconsts.items()))
        tr = Tr({"level": ("level", "u32")}, {}, self_ty="u32", enums=enums, subst=lsubst)
        tr.inline_scopes = [find_impl(src, r"LogFilter"), src]
        code, _ = tr.stmts(parse_body(body), "u32")
        out += fn_def("logfilter_from", ["level"], code, "%s: From<LogLevel> for LogFilter (level = discriminant)" % rel)
    except (TrError, ValueError, KeyError, IndexError, TypeError, AttributeError, AssertionError) as ex:
        probs.append("%s: %s" % (rel, ex))
    return out, probs


def gen_waker(repo):
    rel = "src/sync/waker.rs"
    src = strip_comments(open(os.path.join(repo, rel)).read())
    out = HEADER % rel
    probs = []
    try:
        m = re.search(r"const ORDERING: Ordering = Ordering::(\w+);", src)
        if not m:
            raise TrError("ORDERING not found")
        order = {"Relaxed": 0, "Release": 1, "Acquire": 2, "AcqRel": 3, "SeqCst": 4}.get(m.group(1))
        if order is None:
            raise TrError("unknown ordering " + m.group(1))
        out += "(* %s: const ORDERING = Ordering::%s  (Relaxed 0, Release 1, Acquire 2, AcqRel 3, SeqCst 4) *)\nDefinition ORDERING : Z := %d.\n\n" % (rel, m.group(1), order)
        consts = {}
        out += "(* %s: const LOG2_TABLE *)\nDefinition LOG2_TABLE : list Z := [%s].\n\n" % (
            rel, "; ".join(re.findall(r"\d+", re.search(r"const LOG2_TABLE: \[u32; 9\] = \[(.*?)\];", src).group(1))))
        consts["LOG2_TABLE"] = "list"
        for c in ("USIZE_BYTES", "USIZE_BITS", "USIZE_INDEX_BITS"):
            d, ty = const_def(src, c, consts, {}, relfile=rel)
            consts[c] = "u32"
            out += d
        bm = find_impl(src, r"BitMap")
        for c in ("SIZE_BITS", "SIZE"):
            d, ty = const_def(bm, c, consts, {}, relfile=rel)
            consts[c] = "u32"
            out += d.replace("Definition %s " % c, "Definition BITMAP_%s " % c).replace(" SIZE_BITS", " BITMAP_SIZE_BITS") if c == "SIZE" else d.replace("Definition SIZE_BITS ", "Definition BITMAP_SIZE_BITS ")
        # BitMap::set split: the first three `let` statements (whatever the locals are called):
        # bit relative to the bitmap, leaf index, bit within the leaf
        _, _, body = find_fn(bm, "set")
        lets = re.findall(r"let\s+(\w+)\s*=\s*(.*?);", body[:body.index("if ")], re.S)
        if len(lets) != 3:
            raise TrError("BitMap::set: expected three `let` statements (relative bit, leaf index, bit in leaf) before the climb")
        env = {"bit": ("bit", "u32")}
        cs = {"USIZE_INDEX_BITS": "u32", "USIZE_BITS": "u32"}
        tr = Tr(env, cs, subst={"self.base_index": ("base_index", "u32")})
        ss = [("let", ("var", nm), None, parse_expr_text(ex)) for nm, ex in lets]
        ss.append(("tail", ("tuple", [("path", [lets[1][0]]), ("path", [lets[2][0]])])))
        code, _ = tr.stmts(ss, None)
        out += fn_def("bitmap_split", ["bit", "base_index"], code, "%s: BitMap::set (leaf index a, bit b)" % rel)
        if not re.search(r"if self\.tree\.child\[\w+\]\.set\(\w+\)\s*&& self\.tree\.summary\.set\(\w+\)\s*&& self\.pollwaker\.summary\.set\(self\.wake_index\)\s*\{\s*\(self\.pollwaker\.waker\)\(\);", body):
            SOFT.append(rel + ": BitMap::set: climb condition not found")
        # drain recomposition
        _, _, dbody = find_fn(bm, "drain")
        m = re.search(r"cb\((.*?)\);", dbody)
        if not m:
            raise TrError("BitMap::drain: cb(..) not found")
        # the two closure parameters, whatever they are called: the one that is shifted is the leaf index
        ma = re.search(r"(\w+)\s*<<\s*USIZE_INDEX_BITS", m.group(1))
        free = [w for w in re.findall(r"(?<![\w.:])([a-z_][a-z0-9_]*)(?![\w(:])", m.group(1)) if w not in ("self",)]
        rest = [w for w in dict.fromkeys(free) if not ma or w != ma.group(1)]
        if not ma or len(rest) != 1:
            raise TrError("BitMap::drain: recomposition `(<leaf index> << USIZE_INDEX_BITS) + <bit> + self.base_index` not recognised")
        tr = Tr({ma.group(1): ("a", "u32"), rest[0]: ("b", "u32")}, cs, subst={"self.base_index": ("base_index", "u32")})
        code, _ = tr.stmts([("tail", parse_expr_text(m.group(1)))], "u32")
        out += fn_def("bitmap_join", ["a", "b", "base_index"], code, "%s: BitMap::drain bit recomposition" % rel)
        # WakeHandlers::add index arithmetic
        wh = find_impl(src, r"WakeHandlers")
        _, _, abody = find_fn(wh, "add")
        subst = {"BitMap::SIZE": ("BITMAP_SIZE", "u32"), "BitMap::SIZE_BITS": ("BITMAP_SIZE_BITS", "u32"),
                 "Self::SIZE": ("BITMAP_SIZE", "u32"), "Self::SIZE_BITS": ("BITMAP_SIZE_BITS", "u32")}
        m1 = re.search(r"let mut base = (.*?);", abody)
        m2 = re.search(r"let vec_index = (.*?);", abody)
        m3 = re.search(r"let waker_slot = (.*?);", abody)
        if not (m1 and m2 and m3):
            raise TrError("WakeHandlers::add: index arithmetic not found")
        for nm, mm in (("waker_base", m1), ("waker_vec_index", m2), ("waker_slot", m3)):
            tr = Tr({"bit": ("bit", "u32")}, cs, subst=subst)
            tr.inline_scopes = [bm, src]
            ex = re.sub(r"^\((.*)\) as usize$", r"\1", mm.group(1).strip())       # a cast hoisted into the binding
            code, _ = tr.stmts([("tail", parse_expr_text(ex))], "u32")
            out += fn_def(nm, ["bit"], code, "%s: WakeHandlers::add %s" % (rel, nm))
        _, _, dl = find_fn(wh, "del")
        m = re.search(r"if (0 != \(bit & \(BitMap::SIZE - 1\)\)) && self\.slab\.contains", dl)
        if not m:
            raise TrError("WakeHandlers::del: reserved-slot guard not found")
        tr = Tr({"bit": ("bit", "u32")}, cs, subst=subst)
        code, _ = tr.stmts([("tail", parse_expr_text(m.group(1)))], None)
        out += fn_def("waker_del_guard", ["bit"], code, "%s: WakeHandlers::del reserved-slot guard" % rel)
        # Leaf ops use ORDERING
        leaf = find_impl(src, r"Leaf")
        if not re.search(r"fetch_or\(1 << bit, ORDERING\)", leaf) or not re.search(r"swap\(0, ORDERING\)", leaf):
            SOFT.append(rel + ": Leaf::set/drain: atomic operations with ORDERING not found")
    except (TrError, ValueError, KeyError, IndexError, TypeError, AttributeError, AssertionError) as ex:
        probs.append("%s: %s" % (rel, ex))
    return out, probs


def generate(repo, outdir):
    """Write coq/Gen/*.v.  Returns (ok, problems).  Soft notes (see SOFT) go to <outdir>/soft_notes.txt."""
    os.makedirs(outdir, exist_ok=True)
    del SOFT[:]
    problems = []
    files = {}
    try:
        t, p, hashes = gen_timers(repo)
    except Exception as ex:
        t, p, hashes = "(* translation failed: %s *)\n" % ex, ["SrcTimers.v: %s" % ex], []
    files["SrcTimers.v"] = t
    problems += p
    for name, fn in (("SrcCount.v", gen_count), ("SrcFlat.v", gen_flat), ("SrcCore.v", gen_core), ("SrcLog.v", gen_log), ("SrcWaker.v", gen_waker)):
        try:
            t, p = fn(repo)
        except Exception as ex:
            t, p = "(* translation failed: %s *)\n" % ex, ["%s: %s" % (name, ex)]
        files[name] = t
        problems += p
    for name, text in files.items():
        path = os.path.join(outdir, name)
        try:
            old = open(path).read()
        except OSError:
            old = None
        if old != text:
            with open(path, "w") as f:
                f.write(text)
    with open(os.path.join(outdir, "soft_notes.txt"), "w") as f:
        f.write("".join(x + "\n" for x in SOFT))
    with open(os.path.join(outdir, "hashes.txt"), "w") as f:
        for fn, h in hashes:
            f.write("timers::%s %s\n" % (fn, h))
    return not problems, problems


if __name__ == "__main__":
    repo = sys.argv[1] if len(sys.argv) > 1 else "/repo"
    out = sys.argv[2] if len(sys.argv) > 2 else os.path.join(os.path.dirname(os.path.dirname(os.path.abspath(__file__))), "coq", "Gen")
    ok, probs = generate(repo, out)
    for p in probs:
        print("TRANSLATE-PROBLEM:", p)
    sys.exit(0 if ok else 1)
