#!/usr/bin/env python3
"""Development aid: confirm a seeded change delivered by a fresh sub-agent and store it under seeded/<ID>-<n>/.

usage: tools/ingest_seed.py <prop e.g. C01> <n e.g. 4> <delivery dir> <worktree>

Confirms, in the agent's scratch worktree (never /repo): patch.diff == `git diff -- src`; the crate's test suite passes
with the change (51 library tests); tests/seed_demo.rs FAILS with the change and PASSES without it.  Then copies
patch.diff / seed_demo.rs / notes.md and writes meta.json.  The worktree is left as found (change applied).
"""
import json
import os
import re
import shutil
import subprocess
import sys

ROOT = os.path.dirname(os.path.dirname(os.path.abspath(__file__)))


def sh(cmd, cwd, timeout=1800):
    p = subprocess.run(cmd, cwd=cwd, shell=True, stdout=subprocess.PIPE, stderr=subprocess.STDOUT, text=True, timeout=timeout,
                       env=dict(os.environ, CARGO_NET_OFFLINE="true"))
    return p.returncode, p.stdout


def results(out):
    return re.findall(r"test result: (\w+)\. (\d+) passed; (\d+) failed", out)


def main():
    prop, n, deliv, wt = sys.argv[1:5]
    feat = (" --features " + sys.argv[5]) if len(sys.argv) > 5 else ""     # demonstration needs a non-default feature
    sid = "%s-%s" % (prop, n)
    patch = open(os.path.join(deliv, "patch.diff")).read()
    rc, cur = sh("git diff -- src", wt)
    match = cur.strip() == patch.strip()
    if not match:
        # re-create the state from the delivered patch
        sh("git checkout -- src", wt)
        rc, o = sh("git apply %s" % os.path.join(deliv, "patch.diff"), wt)
        if rc != 0:
            print("patch does not apply:", o)
            return 1
    if not os.path.exists(os.path.join(wt, "tests", "seed_demo.rs")):
        shutil.copy(os.path.join(deliv, "seed_demo.rs"), os.path.join(wt, "tests", "seed_demo.rs"))
    # suite with the change (the demo excluded)
    os.rename(os.path.join(wt, "tests", "seed_demo.rs"), os.path.join(wt, "seed_demo.rs.hold"))
    rc, out = sh("cargo test --workspace --no-fail-fast --offline 2>&1", wt)
    os.rename(os.path.join(wt, "seed_demo.rs.hold"), os.path.join(wt, "tests", "seed_demo.rs"))
    res = results(out)
    suite_ok = rc == 0 and any(r == ("ok", "51", "0") for r in res) and all(r[0] == "ok" for r in res)
    rc1, out1 = sh("cargo test --test seed_demo --offline%s 2>&1" % feat, wt)
    demo_with = results(out1)
    sh("git stash push -q -- src", wt)
    rc2, out2 = sh("cargo test --test seed_demo --offline%s 2>&1" % feat, wt)
    demo_without = results(out2)
    sh("git stash pop -q", wt)
    ok = suite_ok and rc1 != 0 and rc2 == 0 and demo_without and all(r[0] == "ok" for r in demo_without)
    print("%s suite_ok=%s (%s) demo_with=%s rc=%d demo_without=%s rc=%d patch_match=%s => %s" % (
        sid, suite_ok, [r for r in res if r[1] != "0"][:3], demo_with, rc1, demo_without, rc2, match, "CONFIRMED" if ok else "REJECTED"))
    if not ok:
        open("/tmp/ingest_%s.log" % sid, "w").write(out[-5000:] + "\n=====\n" + out1[-5000:] + "\n=====\n" + out2[-5000:])
        return 1
    d = os.path.join(ROOT, "seeded", sid)
    os.makedirs(d, exist_ok=True)
    for f in ("patch.diff", "seed_demo.rs", "notes.md"):
        if os.path.exists(os.path.join(deliv, f)):
            shutil.copy(os.path.join(deliv, f), os.path.join(d, f))
    files = sorted(set(re.findall(r"^\+\+\+ b/(\S+)", patch, re.M)))
    meta = {
        "id": sid, "breaks_property": prop,
        "change": "see notes.md (files: %s)" % ", ".join(files),
        "needs_to_manifest": "see notes.md",
        "origin": "fresh sub-agent given only the property text and a scratch worktree of /repo (round %s)" % n,
        "confirmed": {
            "existing_suite_with_change": "cargo test --workspace --offline: library 51 passed; 0 failed; all other targets ok",
            "demo_with_change": "FAILED",
            "demo_without_change": "%s passed; 0 failed" % (demo_without[0][1] if demo_without else "?"),
        },
        "checks_run": {},
    }
    json.dump(meta, open(os.path.join(d, "meta.json"), "w"), indent=1)
    return 0


if __name__ == "__main__":
    sys.exit(main())
