import json, os, sys
ROOT=os.path.dirname(os.path.dirname(os.path.abspath(__file__)))
props=[json.loads(l) for l in open(ROOT+"/properties.jsonl")]
claimed = json.load(open(ROOT+"/tools/manifest_claims.json"))
checks=[]; na=[]
for p in props:
    pid=p["id"]
    if pid in claimed:
        c=claimed[pid]
        checks.append({
          "property_id": pid,
          "quick_cmd": "./check %s" % pid,
          "thorough_cmd": "./check %s --thorough" % pid,
          "evidence_file": "evidence/%s.json" % pid,
          "replay_cmd_template": "./check %s --replay {path}" % pid,
          "engine": c["engine"],
          "level_claimed": {"category":"proof","text":c["text"],"design_ref":c["design_ref"]},
          "level_note": c["note"],
          "technique": c["technique"],
        })
    else:
        na.append({"property_id":pid,"reason":"machinery for this property is still being built in this development (model, proofs and correspondence harness not yet registered); not a claim that the technique cannot apply"})
m={
 "version":1,
 "setup_cmd":"python3 tools/setup.py",
 "hooks":{"guard":"uazu_stakker_verif","enable":"RUSTFLAGS='--cfg uazu_stakker_verif' UAZU_STAKKER_VERIF_STD=/verif/harness/shim/<passthrough|verif_std>.rs cargo build --offline (done by tools/vlib.py harness_build)",
   "baseline_off_cmd":"cd /repo && cargo test --workspace --no-fail-fast --offline",
   "source_commits":["76eb74c","e97357c","5c100a2"],"add_only":True},
 "engines":[
   {"name":"coq-W","path":"coq/W","serves_properties":["C11","C12","C13","C14"],"kind_free_text":"Coq 8.16.1 interleaving model of sync/waker.rs, channel.rs, thread.rs and poll_wake; coverage invariant proved inductive over all schedules; real code runs under the scheduler shim"},
   {"name":"coq-R","path":"coq/R","serves_properties":["C01","C02","C03","C04","C05","C06","C15","C16","C20"],"kind_free_text":"Coq 8.16.1 micro-op continuation machine model of core.rs/actor.rs/rc/ret/fwd/log with a reference-counted heap; invariants by step preservation and induction on fuel; harness/r interprets the same program DSL over the public API"},
   {"name":"coq-R+T","path":"tools/checks/layer_cfg.py","serves_properties":["C18"],"kind_free_text":"runtime programs and timer histories under all 19 feature configurations against the single model trace"},
   {"name":"coq-Q","path":"coq/Q","serves_properties":["C17"],"kind_free_text":"Coq 8.16.1 byte-level model of src/queue/flat.rs and list model of boxed.rs; refinement theorem over all op sequences; harness/q runs both real files side by side"},
   {"name":"coq-T","path":"coq/T","serves_properties":["C07","C08","C09","C10","C19"],"kind_free_text":"Coq 8.16.1 model of src/timers/mod.rs + Core time handling; theorems by invariant/induction over all API histories; translator-regenerated arithmetic; correspondence harness/t"},
 ],
 "checks":checks,
 "not_applicable":na,
 "notes":"Every check: (1) regenerates coq/Gen from /repo with tools/rs2v.py, (2) rebuilds the Coq theorems the property depends on and audits Print Assumptions / forbidden vernacular, (3) rebuilds the Rust harness against /repo's working tree with --cfg uazu_stakker_verif, (4) runs real crate vs extracted model on seeded generated cases (results and internal state), (5) evaluates the Coq monitors on the real traces. Known findings: known_findings.json."
}
json.dump(m,open(ROOT+"/MANIFEST.json","w"),indent=1); open(ROOT+"/MANIFEST.json","a").write("\n")
