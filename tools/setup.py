#!/usr/bin/env python3
"""MANIFEST.setup_cmd: build the framework from files on disk only (offline)."""
import os, sys
sys.path.insert(0, os.path.dirname(os.path.abspath(__file__)))
import vlib

def main():
    vlib.ensure_dirs()
    ok, probs = vlib.translate()
    for p in probs:
        print("TRANSLATE-PROBLEM:", p)
    vlib.coq_project()
    # build every Coq file that exists (proofs are cached for the checks); failures are reported by the checks themselves
    files = [f[:-2] + ".vo" for f in vlib._coq_files()]
    okb, log = vlib.coq_build(files, timeout=3000)
    print(log[-3000:])
    print("setup: coq build", "ok" if okb else "had failures (checks will report them per property)")
    return 0

if __name__ == "__main__":
    sys.exit(main())
