"""Common machinery for the stakker verification checks.

Every per-layer check module (tools/checks/layer_*.py) uses these helpers:

  translate()               regenerate coq/Gen/*.v from /repo (tools/rs2v.py)
  coq_build(targets)        make the given .vo targets in /verif/coq (full .vo, under timeout)
  props_audit(prop, names)  recompile coq/Props/<prop>.v, parse `Print Assumptions`, lint the sources
  ocaml_driver(name)        build the extracted model + driver into .cache/bin/<name>
  harness_build(crate,...)  cargo build a harness crate against /repo's working tree
  Evidence                  evidence/<id>.json writer
  violation()/known_finding()  verdict lines
"""
import fcntl
import hashlib
import json
import os
import re
import shutil
import subprocess
import sys
import time

ROOT = os.path.dirname(os.path.dirname(os.path.abspath(__file__)))
REPO = os.environ.get("VERIF_REPO", "/repo")
CACHE = os.path.join(ROOT, ".cache")
COQ_SRC = os.path.join(ROOT, "coq")
# When a check is pointed at a scratch copy of the repository (VERIF_REPO, used for testing the checks
# against seeded changes) the Coq tree is mirrored into .cache so that the regenerated coq/Gen of the
# scratch copy never disturbs builds against /repo that run at the same time.
if os.path.realpath(REPO) != "/repo":
    COQ = os.path.join(CACHE, "coq-" + hashlib.sha256(os.path.realpath(REPO).encode()).hexdigest()[:10])
else:
    COQ = COQ_SRC


def sync_coq_mirror():
    if COQ == COQ_SRC:
        return
    common = ["--exclude", "extracted/", "--exclude", "Makefile*", "--exclude", "_CoqProject", "--exclude", ".Makefile.d",
              "--exclude", "*.aux", "--exclude", "*.glob", "--exclude", "*.vos", "--exclude", "*.vok", "--exclude", ".*.cache"]
    if not os.path.isdir(COQ):
        # first use: take everything, compiled files and the current coq/Gen included (times preserved), so that only
        # what the scratch repository really changes in Gen is rebuilt
        os.makedirs(COQ, exist_ok=True)
        cmd = ["rsync", "-a"] + common[2:] + [COQ_SRC + "/", COQ + "/"]   # common[0:2] excludes extracted/: keep it here
    else:
        # later uses: sources only (never the other tree's Gen or compiled files)
        cmd = ["rsync", "-a", "--delete", "--exclude", "Gen/", "--exclude", "*.vo"] + common + [COQ_SRC + "/", COQ + "/"]
    r = subprocess.run(cmd, stdout=subprocess.PIPE, stderr=subprocess.PIPE)
    if r.returncode not in (0, 23, 24):   # 23/24: a file changed or vanished under a concurrent build; make rebuilds what is stale
        raise RuntimeError("rsync of the Coq tree failed: " + r.stderr.decode("utf8", "replace")[-500:])


OUT = os.path.join(ROOT, "out")          # replay files, logs (git-ignored)
EVID = os.path.join(ROOT, "evidence")
GUARD = "uazu_stakker_verif"
NCPU = os.cpu_count() or 4

ENV_OFFLINE = {"CARGO_NET_OFFLINE": "true", "GOPROXY": "off", "PIP_NO_INDEX": "1"}

FORBIDDEN = re.compile(
    r"\b(Admitted|admit|Axiom|Axioms|Parameter|Parameters|Conjecture|Conjectures|Hypothesis|Hypotheses|Variable|Variables|"
    r"Admit Obligations|bypass_check|Unset Guard Checking|Unset Positivity Checking|Unset Universe Checking|"
    r"type-in-type|impredicative-set|native_compute)\b")
# `Variable`/`Hypothesis` are allowed inside a Section only; lint() checks that separately.

# Axioms of the Coq standard library that a theorem may depend on (each is named in the trusted base
# whenever Print Assumptions reports it).  Anything else is a lint failure.
ALLOWED_AXIOMS = set()   # the development uses none (DESIGN.md section 3): any axiom reported by Print Assumptions fails the audit



def log(msg):
    print(msg, flush=True)


def ensure_dirs():
    sync_coq_mirror()
    for d in (CACHE, OUT, EVID, os.path.join(CACHE, "bin"), os.path.join(COQ, "Gen"), os.path.join(COQ, "extracted")):
        os.makedirs(d, exist_ok=True)


def run(cmd, cwd=None, env=None, timeout=1800, stdin=None, check=False):
    """Run a command, return (rc, stdout+stderr text)."""
    e = dict(os.environ)
    e.update(ENV_OFFLINE)
    if env:
        e.update(env)
    try:
        p = subprocess.run(cmd, cwd=cwd, env=e, input=stdin, stdout=subprocess.PIPE, stderr=subprocess.STDOUT,
                           timeout=timeout, text=True, shell=isinstance(cmd, str))
        rc, out = p.returncode, p.stdout
    except subprocess.TimeoutExpired as ex:
        rc, out = 124, (ex.stdout or "") + "\n[timeout after %ds]" % timeout
        if isinstance(out, bytes):
            out = out.decode("utf8", "replace")
    if check and rc != 0:
        raise RuntimeError("command failed (%d): %s\n%s" % (rc, cmd, out[-4000:]))
    return rc, out


class Lock:
    def __init__(self, name):
        ensure_dirs()
        self.path = os.path.join(CACHE, name + ".lock")

    def __enter__(self):
        self.f = open(self.path, "w")
        fcntl.flock(self.f, fcntl.LOCK_EX)
        return self

    def __exit__(self, *a):
        fcntl.flock(self.f, fcntl.LOCK_UN)
        self.f.close()


def write_if_changed(path, text):
    try:
        if open(path).read() == text:
            return False
    except OSError:
        pass
    os.makedirs(os.path.dirname(path), exist_ok=True)
    with open(path, "w") as f:
        f.write(text)
    return True


# --------------------------------------------------------------------------
# translator
# --------------------------------------------------------------------------

def translate():
    """Regenerate coq/Gen from /repo.  Returns (ok, problems:list[str])."""
    ensure_dirs()
    sys.path.insert(0, os.path.join(ROOT, "tools"))
    import rs2v
    with Lock("coq"):
        return rs2v.generate(REPO, os.path.join(COQ, "Gen"))


# --------------------------------------------------------------------------
# Coq build
# --------------------------------------------------------------------------

def _coq_files():
    res = []
    for d, _, fs in os.walk(COQ):
        for f in fs:
            if f.endswith(".v"):
                res.append(os.path.relpath(os.path.join(d, f), COQ))
    return sorted(res)


def coq_project():
    files = _coq_files()
    text = "-Q . Stk\n-arg -w -arg -notation-overridden,-deprecated-hint-without-locality,-deprecated-instance-without-locality\n" + "\n".join(files) + "\n"
    changed = write_if_changed(os.path.join(COQ, "_CoqProject"), text)
    if changed or not os.path.exists(os.path.join(COQ, "Makefile")):
        run(["coq_makefile", "-f", "_CoqProject", "-o", "Makefile"], cwd=COQ, check=True)


def coq_build(targets, timeout=1500):
    """Build the given targets (paths relative to coq/, e.g. 'Props/C07.vo').  Returns (ok, log)."""
    ensure_dirs()
    with Lock("coq"):
        coq_project()
        rc, out = run(["make", "-j%d" % NCPU, "-k"] + list(targets), cwd=COQ, timeout=timeout)
    return rc == 0, out


def coq_failed_files(buildlog):
    """Names of the .v files whose compilation failed, from a make log."""
    res = []
    for m in re.finditer(r'File "\./([^"]+\.v)", line (\d+)', buildlog):
        if m.group(1) not in res:
            res.append(m.group(1))
    for m in re.finditer(r"\*\*\* \[(?:Makefile[^\]]*: )?([^\]\s]+\.vo)\]", buildlog):
        f = m.group(1)[:-1]
        if f not in res:
            res.append(f)
    return res


def strip_comments(src):
    out, depth, i, n = [], 0, 0, len(src)
    in_str = False
    while i < n:
        if not in_str and src.startswith("(*", i):
            depth += 1
            i += 2
            continue
        if not in_str and depth and src.startswith("*)", i):
            depth -= 1
            i += 2
            continue
        c = src[i]
        if depth == 0:
            if c == '"':
                in_str = not in_str
            out.append(c)
        elif c == "\n":
            out.append(c)
        i += 1
    return "".join(out)


def lint_sources():
    """Scan every .v under coq/ for forbidden vernacular.  Returns list of problems."""
    problems = []
    for rel in _coq_files():
        src = strip_comments(open(os.path.join(COQ, rel)).read())
        depth = 0
        for ln, line in enumerate(src.split("\n"), 1):
            s = line.strip()
            if re.match(r"^(Section|Module Type)\b", s):
                depth += 1
            elif re.match(r"^End\b", s) and depth:
                depth -= 1
            for m in FORBIDDEN.finditer(line):
                w = m.group(1)
                if w in ("Variable", "Variables", "Hypothesis", "Hypotheses") and depth > 0:
                    continue
                problems.append("%s:%d: forbidden `%s`" % (rel, ln, w))
    return problems


def props_audit(prop, pins):
    """Recompile coq/Props/<prop>.v (always, it is tiny) and check:
       - every theorem named in `pins` was printed by `Print Assumptions` as closed or with allowed axioms only;
       - sources are lint-clean.
       Returns dict(ok, obligations, discharged, axioms, problems, log)."""
    ensure_dirs()
    vfile = "Props/%s.v" % prop
    problems = []
    with Lock("coq"):
        coq_project()
        # dependencies first (cached), then force the Props file itself
        rc, out = run(["make", "-j%d" % NCPU, "-k", vfile + "o"], cwd=COQ, timeout=1500)
        if rc == 0:
            rc, out2 = run(["coqc", "-q", "-Q", ".", "Stk", "-w", "-notation-overridden", vfile], cwd=COQ, timeout=600)
            out = out + "\n" + out2
    if rc != 0:
        problems.append("coq build failed for %s (see log)" % vfile)
    # parse Print Assumptions blocks: lines "Closed under the global context" or "Axioms:\n name : type"
    closed = len(re.findall(r"Closed under the global context", out))
    axioms = []
    for m in re.finditer(r"^Axioms:\n((?:.+\n?)+?)(?=^\S|\Z)", out, re.M):
        pass
    in_ax = False
    for line in out.split("\n"):
        if line.startswith("Axioms:"):
            in_ax = True
            continue
        if in_ax:
            m = re.match(r"^([A-Za-z_][\w.']*)\s*$|^([A-Za-z_][\w.']*)\s*:", line)
            if m:
                axioms.append(m.group(1) or m.group(2))
            elif line.startswith(" ") or line.strip() == "":
                continue
            else:
                in_ax = False
    bad = [a for a in axioms if a not in ALLOWED_AXIOMS]
    if bad:
        problems.append("theorems depend on non-allowed axioms: %s" % ", ".join(sorted(set(bad))))
    src = ""
    try:
        src = strip_comments(open(os.path.join(COQ, vfile)).read())
    except OSError:
        problems.append("missing " + vfile)
    n_pa = len(re.findall(r"Print Assumptions", src))
    for name in pins:
        if not re.search(r"\b(Theorem|Lemma|Corollary)\s+%s\b" % re.escape(name), src):
            problems.append("pinned theorem %s missing from %s" % (name, vfile))
        if not re.search(r"Print Assumptions\s+%s\s*\." % re.escape(name), src):
            problems.append("no Print Assumptions for %s" % name)
    if rc == 0 and closed + (1 if axioms else 0) < 1 and pins:
        problems.append("Print Assumptions output not found")
    problems += lint_sources()
    obligations = len(re.findall(r"\b(Theorem|Lemma|Corollary|Example)\s", src))
    return dict(ok=not problems, obligations=max(obligations, len(pins)), discharged=(max(obligations, len(pins)) if rc == 0 else 0),
                axioms=sorted(set(axioms)), closed=closed, problems=problems, log=out, print_assumptions=n_pa)


GLUE_PINS = {
    # cross-layer glue (coq/Props/Glue.v, docs/glue.md): Layer R's abstractions are what the faithful layers do
    "timers": ["glue_fixed_timers", "glue_parity", "glue_rt_fire", "glue_rt_timer_add"],
    "queues": ["glue_rt_push", "glue_rt_hold", "glue_rt_execute", "glue_rt_execute_lazy", "glue_rt_execute_first_timers", "glue_rt_drop",
               "glue_rt_is_empty", "glue_rt_recreate", "glue_queue_ops", "glue_one_queue", "glue_queue_ops_swap"],
}


def glue_audit(which):
    """Audit coq/Props/Glue.v for the pins of `which` ('timers' | 'queues'); returns (problems, summary dict)."""
    a = props_audit("Glue", GLUE_PINS[which])
    probs = ["glue (%s): %s" % (which, p) for p in a["problems"]]
    if not a["ok"]:
        failed = coq_failed_files(a["log"])
        if failed:
            probs.append("glue (%s): files failing to compile: %s" % (which, ", ".join(failed)))
    return probs, {"file": "coq/Props/Glue.v", "pins": GLUE_PINS[which], "ok": a["ok"], "closed_under_global_context": a["closed"], "axioms": a["axioms"]}


def coq_deps(vfile):
    """Transitive .v dependencies (within coq/) of a file, from the Makefile's dependency database."""
    dfile = os.path.join(COQ, ".Makefile.d")
    direct = {}
    try:
        text = open(dfile).read().replace("\\\n", " ")
    except OSError:
        return [vfile]
    for line in text.split("\n"):
        if ":" not in line:
            continue
        lhs, rhs = line.split(":", 1)
        tgt = [t for t in lhs.split() if t.endswith(".vo")]
        if not tgt:
            continue
        direct[tgt[0][:-1]] = [d[:-1] for d in rhs.split() if d.endswith(".vo") and not d.startswith("/")]
    seen, todo = [], [vfile]
    while todo:
        f = todo.pop()
        if f in seen:
            continue
        seen.append(f)
        todo += direct.get(f, [])
    return sorted(seen)


def coqchk(prop, timeout=1500):
    """Thorough tier: re-check Props/<prop>.vo and everything it depends on with the independent checker.
       Returns dict(ok, axioms:str, log)."""
    with Lock("coq"):
        rc, out = run(["coqchk", "-silent", "-o", "-Q", ".", "Stk", "Stk.Props." + prop], cwd=COQ, timeout=timeout)
    m = re.search(r"\* Axioms:(.*?)\n\s*\n\* Constants/Inductives relying on type-in-type:(.*?)\n", out, re.S)
    axioms = " ".join(m.group(1).split()) if m else "?"
    bad = rc != 0 or not m or "<none>" not in (m.group(2) if m else "")
    for sect in ("relying on unsafe (co)fixpoints", "positivity is assumed"):
        mm = re.search(re.escape(sect) + r":(.*?)\n", out)
        if not mm or "<none>" not in mm.group(1):
            bad = True
    return dict(ok=not bad, axioms=axioms, log=out[-3000:])


def count_theorems(vfiles):
    """Count Lemma/Theorem/... statements in the given coq-relative files (for evidence)."""
    n = 0
    for rel in vfiles:
        try:
            src = strip_comments(open(os.path.join(COQ, rel)).read())
        except OSError:
            continue
        n += len(re.findall(r"^\s*(Theorem|Lemma|Corollary|Example|Fact|Proposition)\s", src, re.M))
    return n


# --------------------------------------------------------------------------
# OCaml driver for an extracted model
# --------------------------------------------------------------------------

def driver_path(name):
    """Path of the compiled driver (separate binaries for scratch-repo runs)."""
    return os.path.join(CACHE, "bin", name + ("" if COQ == COQ_SRC else "-" + os.path.basename(COQ)))


def ocaml_driver(name, model_ml, driver_ml, extra=()):
    """Compile coq/extracted/<model_ml> + exec/<driver_ml> into .cache/bin/<name>; cached on content hash."""
    ensure_dirs()
    srcs = [os.path.join(COQ, "extracted", model_ml)] + [os.path.join(ROOT, "exec", x) for x in extra] + [os.path.join(ROOT, "exec", driver_ml)]
    h = hashlib.sha256()
    for s in srcs:
        h.update(open(s, "rb").read())
        mli = s[:-3] + ".mli"
        if os.path.exists(mli):
            h.update(open(mli, "rb").read())
    digest = h.hexdigest()[:16]
    binp = driver_path(name)
    stamp = binp + ".stamp"
    if os.path.exists(binp) and os.path.exists(stamp) and open(stamp).read() == digest:
        return binp
    with Lock("ocaml-" + os.path.basename(binp)):
        bdir = os.path.join(CACHE, "ocaml-" + os.path.basename(binp))
        shutil.rmtree(bdir, ignore_errors=True)
        os.makedirs(bdir)
        names = []
        for s in srcs:
            shutil.copy(s, bdir)
            mli = s[:-3] + ".mli"
            if os.path.exists(mli):
                shutil.copy(mli, bdir)
                names.append(os.path.basename(mli))
            names.append(os.path.basename(s))
        run(["ocamlfind", "ocamlopt", "-O2", "-w", "-a", "-package", "str", "-linkpkg", "-o", binp] + names, cwd=bdir, check=True, timeout=900)
        open(stamp, "w").write(digest)
    return binp


# --------------------------------------------------------------------------
# Rust harness
# --------------------------------------------------------------------------

def repo_fingerprint():
    """Hash of /repo's working tree sources (src/, Cargo.toml) - used for caching and drift notes only."""
    h = hashlib.sha256()
    for base in ("Cargo.toml", "src"):
        p = os.path.join(REPO, base)
        if os.path.isfile(p):
            h.update(open(p, "rb").read())
        else:
            for d, _, fs in sorted(os.walk(p)):
                for f in sorted(fs):
                    h.update(f.encode())
                    h.update(open(os.path.join(d, f), "rb").read())
    return h.hexdigest()[:16]


_PRIV_COPIED = set()


def harness_build(crate, release=False, features=None, no_default=False, extra_rustflags="", env=None, tag="", bins=None, timeout=1500, toolchain=None, shim=False):
    """cargo build /verif/harness/<crate> against /repo's working tree with the verification cfg.
       Returns (ok, target_bin_dir, log)."""
    ensure_dirs()
    cdir = os.path.join(ROOT, "harness", crate)
    if COQ != COQ_SRC:
        # scratch-repo run: build a private copy of the crate (its Cargo.toml points at the scratch repo) in its own
        # target dir, so that overlapping runs against different repositories never share build state
        h = os.path.basename(COQ)[4:]
        priv = os.path.join(CACHE, "harness-%s-%s" % (crate, h))
        with Lock("harness-copy-%s-%s" % (crate, h)):     # several configurations are built in parallel from one copy
          if (crate, h) not in _PRIV_COPIED:                # once per process: a second sync would race with running builds
            _PRIV_COPIED.add((crate, h))
            rr = subprocess.run(["rsync", "-a", "--delete", "--exclude", "target/", "--exclude", "Cargo.lock", cdir + "/", priv + "/"])
            if rr.returncode not in (0, 23, 24):
                raise RuntimeError("rsync of harness/%s failed (%d)" % (crate, rr.returncode))
            for root_, _, files_ in os.walk(priv):
                for f_ in files_:
                    if f_ in ("Cargo.toml", "build.rs"):
                        pth = os.path.join(root_, f_)
                        txt = open(pth).read()
                        txt2 = txt.replace('"/repo"', '"%s"' % REPO).replace('"/repo/', '"%s/' % REPO)
                        if txt2 != txt:
                            open(pth, "w").write(txt2)
        cdir = priv
        tag = (tag + "-" if tag else "") + h
    lock = os.path.join(cdir, "Cargo.lock")
    if not os.path.exists(lock):
        src = os.path.join(REPO, "Cargo.lock")
        shutil.copy(src if os.path.exists(src) else "/repo/Cargo.lock", lock)
    tdir = os.path.join(CACHE, "target-%s%s" % (crate, ("-" + tag) if tag else ""))
    cmd = ["cargo"] + (["+" + toolchain] if toolchain else []) + ["build", "--offline", "--target-dir", tdir]
    if release:
        cmd.append("--release")
    if no_default:
        cmd.append("--no-default-features")
    if features:
        cmd += ["--features", ",".join(features)]
    for b in bins or []:
        cmd += ["--bin", b]
    e = {"RUSTFLAGS": ("--cfg %s %s" % (GUARD, extra_rustflags)).strip(),
         # shim=True: the Layer W scheduler shim; otherwise a plain re-export of std (layers that need no scheduling)
         "UAZU_STAKKER_VERIF_STD": os.path.join(ROOT, "harness", "shim", "verif_std.rs" if shim else "passthrough.rs")}
    if env:
        e.update(env)
    with Lock("cargo-%s%s" % (crate, tag)):
        rc, out = run(cmd, cwd=cdir, env=e, timeout=timeout)
    return rc == 0, os.path.join(tdir, "release" if release else "debug"), out


# --------------------------------------------------------------------------
# verdicts and evidence
# --------------------------------------------------------------------------

def known_findings():
    return json.load(open(os.path.join(ROOT, "known_findings.json")))["findings"]


def replay_path(prop, name):
    d = os.path.join(OUT, "replay", prop)
    os.makedirs(d, exist_ok=True)
    return os.path.join(d, name)


def violation(prop, replay, no_input=False):
    log("VIOLATION property=%s replay=%s%s" % (prop, replay, " no-failing-input-found" if no_input else ""))


def known_finding(prop, what):
    log("KNOWN-FINDING: property=%s %s" % (prop, what))


class Evidence:
    def __init__(self, prop, tier, seed, level="proof"):
        self.prop, self.tier, self.seed, self.level = prop, tier, int(seed), level
        self.t0 = time.time()
        self.cov = {}
        self.assumptions = []
        self.violations = 0

    def write(self):
        os.makedirs(EVID, exist_ok=True)
        doc = {"property_id": self.prop, "tier": self.tier, "seed": self.seed, "level": self.level,
               "coverage": self.cov, "assumptions": self.assumptions, "wall_s": round(time.time() - self.t0, 2),
               "violations": self.violations}
        part = os.environ.get("VERIF_EVIDENCE_PART")
        path = os.path.join(EVID, self.prop + ".json")
        if COQ != COQ_SRC and not part:
            # a run against a scratch copy of the repository (testing the checks): never overwrite the evidence of /repo
            os.makedirs(os.path.join(OUT, "evidence_scratch"), exist_ok=True)
            path = os.path.join(OUT, "evidence_scratch", self.prop + ".json")
        if part:   # a property decided by several layers: ./check merges the parts
            os.makedirs(os.path.join(OUT, "evidence_parts"), exist_ok=True)
            path = os.path.join(OUT, "evidence_parts", "%s.%s.json" % (self.prop, part))
        with open(path, "w") as f:
            json.dump(doc, f, indent=1, sort_keys=True)
            f.write("\n")


TRUSTED_BASE_COMMON = [
    "Coq 8.16.1 kernel (coqc; vm_compute used for closed finite computations; no native_compute)",
    "tools/rs2v.py translator (pure integer functions and constants of /repo regenerated into coq/Gen on every run)",
    "Coq extraction (ExtrOcamlBasic only; no Extract Constant/Inductive of our own) + OCaml 4.13.1 driver, used only to evaluate the model in the correspondence check",
    "correspondence harness (Rust crate with a path dependency on /repo, built with --cfg uazu_stakker_verif) and the Python diff/monitor code",
]
