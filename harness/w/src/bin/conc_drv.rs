// Layer W correspondence harness: runs the REAL Waker / Channel / PipedThread of stakker under the
// scheduler shim (stakker::verif_std::ctl) on one case and prints a canonical event trace.
//
// usage: conc_drv <case-file>            (one case per process)
//
// Case file (line based):
//   sched tids <t> <t> ...              explicit schedule (thread ids), random tail
//   sched pct <p0> <p1> .. / <s1> <s2>  priority schedule: initial priorities / change-point steps
//   seed <n>                            seed for the random tail
//   maxsteps <n>
//   thread <tid> <cmd> ; <cmd> ; ...    script of thread <tid> (0 = main; others in spawn order)
//
// Commands (every command starts with a yield point, event "C <text>", and ends with an event
// "R <value>" logged inside its last step):
//   any thread   : wake <w> | drop <w> | send <c> <m> | closed <c>
//   main only    : new <w> | fill <n> | poll | pollif (poll_wake only if notified since the last one) | spawn | join | waitidle (until no other thread can run) | cnew <c> | cdrop <c>
//                  | pnew <p> | psend <p> <m> | pdrop <p>
//   piped worker : recv | send <m> | cancel | panic       (end of script = return)
//
// Output: one line per event  "<step> <tid> <kind> <obj> <a> <b> <text>"  (kinds: see the shim),
// harness kinds: C command, R return value, H handler (text "<w> <deleted>"), NOTIFY poll-waker callback,
// F channel forward ("<c> <m>"), FR piped fwd_recv ("<p> <m>"), T piped fwd_term ("<p> <none|text>").
// Last line: "END threads=<n> steps=<n> skipped=<n> aborted=<reason|->".

use stakker::sync::{Channel, ChannelGuard, PipedLink, PipedThread, Waker};
use stakker::verif_std::ctl;
use stakker::{Fwd, Stakker};
use std::collections::HashMap;
use std::sync::{Arc, Mutex};
use std::time::Instant;

#[derive(Clone, Debug)]
enum Cmd {
    Wake(u32),
    Drop(u32),
    Send(u32, u64),
    Closed(u32),
    New(u32),
    Fill(u32),
    Poll,
    PollIf,
    Spawn,
    Join,
    WaitIdle,
    CNew(u32),
    CDrop(u32),
    PNew(u32),
    PSend(u32, u64),
    PDrop(u32),
    Recv,
    Cancel,
    Panic,
    LSend(u64),
}

fn text(c: &Cmd) -> String {
    match c {
        Cmd::Wake(w) => format!("wake {}", w),
        Cmd::Drop(w) => format!("drop {}", w),
        Cmd::Send(c, m) => format!("send {} {}", c, m),
        Cmd::Closed(c) => format!("closed {}", c),
        Cmd::New(w) => format!("new {}", w),
        Cmd::Fill(n) => format!("fill {}", n),
        Cmd::Poll => "poll".into(),
        Cmd::PollIf => "pollif".into(),
        Cmd::Spawn => "spawn".into(),
        Cmd::Join => "join".into(),
        Cmd::WaitIdle => "waitidle".into(),
        Cmd::CNew(c) => format!("cnew {}", c),
        Cmd::CDrop(c) => format!("cdrop {}", c),
        Cmd::PNew(p) => format!("pnew {}", p),
        Cmd::PSend(p, m) => format!("psend {} {}", p, m),
        Cmd::PDrop(p) => format!("pdrop {}", p),
        Cmd::Recv => "recv".into(),
        Cmd::Cancel => "cancel".into(),
        Cmd::Panic => "panic".into(),
        Cmd::LSend(m) => format!("lsend {}", m),
    }
}

fn parse_cmd(s: &str, piped: bool) -> Cmd {
    let v: Vec<&str> = s.split_whitespace().collect();
    let n = |i: usize| -> u64 { v.get(i).and_then(|x| x.parse().ok()).unwrap_or_else(|| panic!("bad command: {}", s)) };
    match v[0] {
        "wake" => Cmd::Wake(n(1) as u32),
        "drop" => Cmd::Drop(n(1) as u32),
        "send" if piped => Cmd::LSend(n(1)),
        "lsend" => Cmd::LSend(n(1)),
        "send" => Cmd::Send(n(1) as u32, n(2)),
        "closed" => Cmd::Closed(n(1) as u32),
        "new" => Cmd::New(n(1) as u32),
        "fill" => Cmd::Fill(n(1) as u32),
        "poll" => Cmd::Poll,
        "pollif" => Cmd::PollIf,
        "spawn" => Cmd::Spawn,
        "join" => Cmd::Join,
        "waitidle" => Cmd::WaitIdle,
        "cnew" => Cmd::CNew(n(1) as u32),
        "cdrop" => Cmd::CDrop(n(1) as u32),
        "pnew" => Cmd::PNew(n(1) as u32),
        "psend" => Cmd::PSend(n(1) as u32, n(2)),
        "pdrop" => Cmd::PDrop(n(1) as u32),
        "recv" => Cmd::Recv,
        "cancel" => Cmd::Cancel,
        "panic" => Cmd::Panic,
        _ => panic!("bad command: {}", s),
    }
}

#[derive(Default)]
struct Registry {
    used: std::collections::HashSet<u32>, // waker ids are never reused (an id names one waker for the whole run)
    wakers: HashMap<u32, Arc<Waker>>,
    chans: HashMap<u32, Channel<u64>>,
}

static REG: Mutex<Option<Registry>> = Mutex::new(None);

// set by the poll-waker callback, cleared when a poll_wake starts (what an I/O poller does)
static NOTIFIED: std::sync::atomic::AtomicBool = std::sync::atomic::AtomicBool::new(false);

fn reg<R>(f: impl FnOnce(&mut Registry) -> R) -> R {
    let mut g = REG.lock().unwrap_or_else(|e| e.into_inner());
    f(g.get_or_insert_with(Registry::default))
}

fn ret(v: impl Into<String>) {
    ctl::note("R", v.into());
}

/// Commands every thread can run.  Returns false if `c` is not one of them.
fn common_cmd(c: &Cmd) -> bool {
    match *c {
        Cmd::Wake(w) => {
            // the registry lock is never held across a yield point
            let a = reg(|r| r.wakers.get(&w).cloned());
            match a {
                Some(a) => {
                    a.wake();
                    ret("-");
                }
                None => ret("bad"),
            }
        }
        Cmd::Drop(w) => {
            let a = reg(|r| r.wakers.remove(&w));
            match a {
                Some(a) => match Arc::try_unwrap(a) {
                    Ok(wk) => {
                        drop(wk);
                        ret("-");
                    }
                    Err(a) => {
                        std::mem::forget(a);
                        ret("shared");
                    }
                },
                None => ret("bad"),
            }
        }
        Cmd::Send(c, m) => {
            let ch = reg(|r| r.chans.get(&c).cloned());
            match ch {
                Some(ch) => {
                    let r = ch.send(m);
                    ret(if r { "1" } else { "0" });
                }
                None => ret("bad"),
            }
        }
        Cmd::Closed(c) => {
            let ch = reg(|r| r.chans.get(&c).cloned());
            match ch {
                Some(ch) => {
                    let r = ch.is_closed();
                    ret(if r { "1" } else { "0" });
                }
                None => ret("bad"),
            }
        }
        _ => return false,
    }
    true
}

fn worker(script: Vec<Cmd>) {
    for c in script {
        ctl::yield_event("C", text(&c));
        if !common_cmd(&c) {
            ret("bad");
        }
    }
}

fn piped_worker(script: Vec<Cmd>, link: &mut PipedLink<u64, u64>) {
    for c in script {
        ctl::yield_event("C", text(&c));
        match c {
            Cmd::Recv => match link.recv() {
                Some(v) => ret(format!("{}", v)),
                None => ret("none"),
            },
            Cmd::LSend(m) => {
                let r = link.send(m);
                ret(if r { "1" } else { "0" });
            }
            Cmd::Cancel => {
                let r = link.cancel();
                ret(if r { "1" } else { "0" });
            }
            Cmd::Panic => {
                ret("-");
                panic!("boom");
            }
            _ => {
                if !common_cmd(&c) {
                    ret("bad");
                }
            }
        }
    }
}

fn print_report(rep: &ctl::Report) {
    use std::io::Write;
    let out = std::io::stdout();
    let mut o = std::io::BufWriter::new(out.lock());
    for e in &rep.events {
        if e.kind == "CW" || e.kind == "CR" {
            // a = address of the mutex
            let _ = writeln!(o, "{} {} {} {:x} {:x} {} {}", e.step, e.tid, e.kind, e.obj, e.a, e.b, e.text);
        } else {
            let _ = writeln!(o, "{} {} {} {:x} {} {} {}", e.step, e.tid, e.kind, e.obj, e.a, e.b, e.text);
        }
    }
    let _ = writeln!(
        o,
        "END threads={} steps={} skipped={} aborted={}",
        rep.threads,
        rep.tids.len(),
        rep.skipped,
        rep.aborted.clone().unwrap_or_else(|| "-".into())
    );
    let _ = o.flush();
}

fn main() {
    let path = std::env::args().nth(1).expect("usage: conc_drv <case-file>");
    let src = std::fs::read_to_string(&path).expect("cannot read case file");
    let mut sched = ctl::Sched::Tids(Vec::new());
    let mut seed = 1u64;
    let mut maxsteps = 200_000u64;
    let mut scripts: HashMap<usize, String> = HashMap::new();
    for line in src.lines() {
        let line = line.trim();
        if line.is_empty() || line.starts_with('#') {
            continue;
        }
        let (k, rest) = line.split_once(' ').unwrap_or((line, ""));
        match k {
            "sched" => {
                let (m, r2) = rest.trim().split_once(' ').unwrap_or((rest.trim(), ""));
                match m {
                    "tids" => sched = ctl::Sched::Tids(r2.split_whitespace().map(|x| x.parse().unwrap()).collect()),
                    "pct" => {
                        let (a, b) = r2.split_once('/').unwrap_or((r2, ""));
                        sched = ctl::Sched::Pct {
                            prio: a.split_whitespace().map(|x| x.parse().unwrap()).collect(),
                            change: b.split_whitespace().map(|x| x.parse().unwrap()).collect(),
                        }
                    }
                    _ => panic!("bad sched line"),
                }
            }
            "seed" => seed = rest.trim().parse().unwrap(),
            "maxsteps" => maxsteps = rest.trim().parse().unwrap(),
            "thread" => {
                let (t, r2) = rest.trim().split_once(' ').unwrap_or((rest.trim(), ""));
                scripts.insert(t.parse().unwrap(), r2.to_string());
            }
            _ => {} // other keys are for the model driver / bookkeeping
        }
    }
    let parse_script = |t: usize, piped: bool| -> Vec<Cmd> {
        scripts
            .get(&t)
            .map(|s| s.split(';').map(|x| x.trim()).filter(|x| !x.is_empty()).map(|x| parse_cmd(x, piped)).collect())
            .unwrap_or_default()
    };

    // quiet panics of piped workers (the panic text is observed through fwd_term)
    std::panic::set_hook(Box::new(|info| {
        let boom = info.payload().downcast_ref::<&str>().map(|s| *s == "boom").unwrap_or(false);
        if !boom {
            eprintln!("conc_drv: {}", info);
        }
    }));

    let mut s = Stakker::new(Instant::now());
    s.set_poll_waker(|| {
        ctl::yield_event("NOTIFY", String::new());
        NOTIFIED.store(true, std::sync::atomic::Ordering::SeqCst);
    });
    let mut guards: HashMap<u32, ChannelGuard> = HashMap::new();
    let mut pipes: HashMap<u32, PipedThread<u64, u64>> = HashMap::new();
    let mut fillers: Vec<Waker> = Vec::new();
    let mut nthreads = 1usize;

    ctl::begin(ctl::Config { sched, seed, max_steps: maxsteps }, Box::new(print_report));

    for c in parse_script(0, false) {
        ctl::yield_event("C", text(&c));
        if common_cmd(&c) {
            continue;
        }
        match c {
            Cmd::New(w) => {
                if w >= 1_000_000 || reg(|r| !r.used.insert(w)) {
                    ret("bad");
                } else {
                    let wk = s.waker(move |_s, deleted| {
                        ctl::yield_event("H", format!("{} {}", w, deleted as u8));
                    });
                    reg(|r| r.wakers.insert(w, Arc::new(wk)));
                    ret("-");
                }
            }
            Cmd::Fill(n) => {
                for k in 0..n {
                    let id = 1_000_000 + fillers.len() as u32;
                    let _ = k;
                    fillers.push(s.waker(move |_s, deleted| {
                        ctl::yield_event("H", format!("{} {}", id, deleted as u8));
                    }));
                }
                ret("-");
            }
            Cmd::Poll => {
                NOTIFIED.store(false, std::sync::atomic::Ordering::SeqCst);
                s.poll_wake();
                ret("-");
            }
            Cmd::PollIf => {
                if NOTIFIED.swap(false, std::sync::atomic::Ordering::SeqCst) {
                    s.poll_wake();
                    ret("1");
                } else {
                    ret("0");
                }
            }
            Cmd::Spawn => {
                let script = parse_script(nthreads, false);
                nthreads += 1;
                stakker::verif_std::thread::spawn(move || worker(script));
                ret("-");
            }
            Cmd::Join => {
                ctl::join_all();
                ret("-");
            }
            Cmd::WaitIdle => {
                ctl::wait_idle();
                ret("-");
            }
            Cmd::CNew(c) => {
                if reg(|r| r.chans.contains_key(&c)) {
                    ret("bad");
                } else {
                    let fwd = Fwd::new(move |m: u64| ctl::note("F", format!("{} {}", c, m)));
                    let (ch, g) = Channel::new(&mut s, fwd);
                    reg(|r| r.chans.insert(c, ch));
                    guards.insert(c, g);
                    ret("-");
                }
            }
            Cmd::CDrop(c) => match guards.remove(&c) {
                Some(g) => {
                    drop(g);
                    ret("-");
                }
                None => ret("bad"),
            },
            Cmd::PNew(p) => {
                if pipes.contains_key(&p) {
                    ret("bad");
                } else {
                    let script = parse_script(nthreads, true);
                    nthreads += 1;
                    let fwd_recv = Fwd::new(move |m: u64| ctl::note("FR", format!("{} {}", p, m)));
                    let fwd_term = Fwd::new(move |m: Option<String>| {
                        ctl::note("T", format!("{} {}", p, m.unwrap_or_else(|| "none".into())))
                    });
                    let pt = PipedThread::spawn(fwd_recv, fwd_term, &mut s, move |link| piped_worker(script, link));
                    pipes.insert(p, pt);
                    ret("-");
                }
            }
            Cmd::PSend(p, m) => match pipes.get_mut(&p) {
                Some(pt) => {
                    pt.send(m);
                    ret("-");
                }
                None => ret("bad"),
            },
            Cmd::PDrop(p) => match pipes.remove(&p) {
                Some(pt) => {
                    drop(pt);
                    ret("-");
                }
                None => ret("bad"),
            },
            _ => ret("bad"),
        }
    }

    let rep = ctl::end();
    print_report(&rep);
    // Leave without running destructors: remaining wakers / guards would only add untraced events.
    use std::io::Write;
    let _ = std::io::stdout().flush();
    std::process::exit(0);
}
