//! Layer T correspondence driver: runs histories of timer API calls against the real
//! stakker crate in virtual time and prints, per op, the result and the internal state dump
//! (verification hook).  Case format: see /verif/exec/t_driver.ml.
use stakker::{FixedTimerKey, MaxTimerKey, MinTimerKey, Stakker};
use std::cell::RefCell;
use std::io::{BufRead, Write};
use std::panic::{catch_unwind, AssertUnwindSafe};
use std::rc::Rc;
use std::time::{Duration, Instant};

#[derive(Clone, Copy)]
enum Key {
    F(FixedTimerKey),
    Max(MaxTimerKey),
    Min(MinTimerKey),
    None,
}

fn key_fields(dbg: &str) -> (u64, u64) {
    // "FixedTimerKey { slot: 1, gen_or_time: 2 }"
    let nums: Vec<u64> = dbg
        .split(|c: char| !c.is_ascii_digit())
        .filter(|s| !s.is_empty())
        .map(|s| s.parse().unwrap())
        .collect();
    (nums[0], nums[1])
}

fn inst(t0: Instant, ns: i64) -> Instant {
    if ns >= 0 {
        t0 + Duration::from_nanos(ns as u64)
    } else {
        t0 - Duration::from_nanos((-ns) as u64)
    }
}

fn ns_since(t0: Instant, t: Instant) -> i128 {
    if t >= t0 {
        t.duration_since(t0).as_nanos() as i128
    } else {
        -(t0.duration_since(t).as_nanos() as i128)
    }
}

struct Case {
    s: Option<Stakker>,
    t0: Instant,
    keys: Vec<Key>,
    fired: Rc<RefCell<Vec<u64>>>,
    // full execution order of one run: ('d' deferred call | 't' timer callback, id, Core::now in ns)
    order: Rc<RefCell<Vec<(char, u64, i128)>>>,
    extra: Option<String>,
    last_ne: Option<i64>,
}

impl Case {
    fn key(&self, r: &str) -> Key {
        if r == "default" {
            Key::None
        } else {
            self.keys[r[1..].parse::<usize>().unwrap()]
        }
    }
    fn fk(&self, r: &str) -> FixedTimerKey {
        match self.key(r) {
            Key::F(k) => k,
            _ => FixedTimerKey::default(),
        }
    }
    fn maxk(&self, r: &str) -> MaxTimerKey {
        match self.key(r) {
            Key::Max(k) => k,
            _ => MaxTimerKey::default(),
        }
    }
    fn mink(&self, r: &str) -> MinTimerKey {
        match self.key(r) {
            Key::Min(k) => k,
            _ => MinTimerKey::default(),
        }
    }

    fn op(&mut self, ws: &[&str]) -> (String, Key) {
        let t0 = self.t0;
        let kref = if ws.len() > 1 && (ws[1] == "default" || ws[1].starts_with('k')) { ws[1] } else { "default" };
        let (kf, kmax, kmin, kany) = (self.fk(kref), self.maxk(kref), self.mink(kref), self.key(kref));
        let s = self.s.as_mut().unwrap();
        let num = |i: usize| ws[i].parse::<i64>().unwrap();
        let order = self.order.clone();
        let cb = move |id: u64, fired: &Rc<RefCell<Vec<u64>>>| {
            let f = fired.clone();
            let o = order.clone();
            move |s: &mut Stakker| {
                f.borrow_mut().push(id);
                o.borrow_mut().push(('t', id, ns_since(t0, s.now())));
            }
        };
        match ws[0] {
            "add" => {
                let k = s.timer_add(inst(t0, num(1)), cb(num(2) as u64, &self.fired));
                let (a, b) = key_fields(&format!("{:?}", k));
                (format!("K {} {}", a, b), Key::F(k))
            }
            "after" => {
                let k = s.after(Duration::from_nanos(num(1) as u64), cb(num(2) as u64, &self.fired));
                let (a, b) = key_fields(&format!("{:?}", k));
                (format!("K {} {}", a, b), Key::F(k))
            }
            "addmax" => {
                let k = s.timer_max_add(inst(t0, num(1)), cb(num(2) as u64, &self.fired));
                let (a, b) = key_fields(&format!("{:?}", k));
                (format!("K {} {}", a, b), Key::Max(k))
            }
            "addmin" => {
                let k = s.timer_min_add(inst(t0, num(1)), cb(num(2) as u64, &self.fired));
                let (a, b) = key_fields(&format!("{:?}", k));
                (format!("K {} {}", a, b), Key::Min(k))
            }
            "del" => (format!("B {}", s.timer_del(kf) as u8), Key::None),
            "delmax" => (format!("B {}", s.timer_max_del(kmax) as u8), Key::None),
            "delmin" => (format!("B {}", s.timer_min_del(kmin) as u8), Key::None),
            "modmax" => (
                format!("B {}", s.timer_max_upd(kmax, inst(t0, num(2))) as u8),
                Key::None,
            ),
            "modmin" => (
                format!("B {}", s.timer_min_upd(kmin, inst(t0, num(2))) as u8),
                Key::None,
            ),
            "actmax" => (format!("B {}", s.timer_max_active(kmax) as u8), Key::None),
            "actmin" => (format!("B {}", s.timer_min_active(kmin) as u8), Key::None),
            "run" | "runne" => {
                let at = if ws[0] == "run" {
                    num(1)
                } else {
                    match self.last_ne {
                        Some(t) => t + num(1),
                        None => num(2),
                    }
                };
                self.fired.borrow_mut().clear();
                self.order.borrow_mut().clear();
                s.run(inst(t0, at), false);
                let mut x = String::from("X");
                for (k, id, now) in self.order.borrow().iter() {
                    x.push_str(&format!(" {}{}@{}", k, id, now));
                }
                self.extra = Some(x);
                let mut out = String::from("F");
                for id in self.fired.borrow().iter() {
                    out.push_str(&format!(" {}", id));
                }
                self.fired.borrow_mut().clear();
                (out, Key::None)
            }
            "ne" => match s.next_expiry() {
                None => {
                    self.last_ne = None;
                    ("E none".to_string(), Key::None)
                }
                Some(t) => {
                    self.last_ne = Some(ns_since(t0, t) as i64);
                    (format!("E {}", ns_since(t0, t)), Key::None)
                }
            },
            "nw" => match s.next_wait(inst(t0, num(1))) {
                None => ("E none".to_string(), Key::None),
                Some(d) => (format!("E {}", d.as_nanos()), Key::None),
            },
            "nwm" => {
                let d = s.next_wait_max(inst(t0, num(1)), Duration::from_nanos(num(2) as u64), ws[3] == "1");
                (format!("D {}", d.as_nanos()), Key::None)
            }
            "now" => (format!("D {}", ns_since(t0, s.now())), Key::None),
            "defer" => {
                let o = self.order.clone();
                let id = num(1) as u64;
                s.defer(move |s: &mut Stakker| o.borrow_mut().push(('d', id, ns_since(t0, s.now()))));
                ("U".to_string(), Key::None)
            }
            "pokeseq" => {
                s.verif_timers_poke(Some(num(1) as u32), None);
                ("U".to_string(), Key::None)
            }
            "pokegnn" => {
                let slot = match kany {
                    Key::F(k) => key_fields(&format!("{:?}", k)).0,
                    Key::Max(k) => key_fields(&format!("{:?}", k)).0,
                    Key::Min(k) => key_fields(&format!("{:?}", k)).0,
                    Key::None => 0,
                };
                s.verif_timers_poke(None, Some((slot as u32, num(2) as u32)));
                ("U".to_string(), Key::None)
            }
            other => panic!("bad op {}", other),
        }
    }
}

fn main() {
    std::panic::set_hook(Box::new(|_| {}));
    let stdin = std::io::stdin();
    let stdout = std::io::stdout();
    let mut out = std::io::BufWriter::new(stdout.lock());
    // keep t0 well clear of the platform's Instant origin so that instants before t0 exist
    let base = Instant::now() + Duration::from_secs(100_000);
    let mut case: Option<Case> = None;
    let mut dead = false;
    for line in stdin.lock().lines() {
        let line = line.unwrap();
        let ws: Vec<&str> = line.split_whitespace().collect();
        if ws.is_empty() {
            continue;
        }
        match ws[0] {
            "case" => {
                if let Some(mut c) = case.take() {
                    let s = c.s.take();
                    let _ = catch_unwind(AssertUnwindSafe(move || drop(s)));
                }
                dead = false;
                writeln!(out, "{}", line).unwrap();
                case = Some(Case {
                    s: Some(Stakker::new(base)),
                    t0: base,
                    keys: Vec::new(),
                    fired: Rc::new(RefCell::new(Vec::new())),
                    order: Rc::new(RefCell::new(Vec::new())),
                    extra: None,
                    last_ne: None,
                });
            }
            "end" => {
                writeln!(out, "end").unwrap();
            }
            _ => {
                let c = case.as_mut().unwrap();
                if dead {
                    writeln!(out, "SKIP").unwrap();
                    c.keys.push(Key::None);
                    continue;
                }
                let r = catch_unwind(AssertUnwindSafe(|| c.op(&ws)));
                match r {
                    Ok((mut text, key)) => {
                        c.keys.push(key);
                        // C07: callbacks run only inside run(): anything recorded by another op ran synchronously
                        if ws[0] != "run" && ws[0] != "runne" && !c.fired.borrow().is_empty() {
                            text.push_str(" SYNC");
                            for id in c.fired.borrow().iter() {
                                text.push_str(&format!(" {}", id));
                            }
                            c.fired.borrow_mut().clear();
                        }
                        writeln!(out, "{}", text).unwrap();
                        let d = c.s.as_ref().unwrap().verif_timers_dump();
                        writeln!(out, "S {}", d).unwrap();
                        if let Some(x) = c.extra.take() {
                            writeln!(out, "{}", x).unwrap();
                        }
                    }
                    Err(_) => {
                        dead = true;
                        c.keys.push(Key::None);
                        writeln!(out, "PANIC").unwrap();
                    }
                }
            }
        }
    }
    if let Some(mut c) = case.take() {
        let s = c.s.take();
        let _ = catch_unwind(AssertUnwindSafe(move || drop(s)));
    }
}
