//! Honest (hook-free) replays of the counter wrap-around findings F2 and F3: the real number of
//! add/delete cycles through the public API only.  Thorough tier (release build): F3 ~100 s, F2 ~210 s.
use stakker::Stakker;
use std::cell::RefCell;
use std::rc::Rc;
use std::time::{Duration, Instant};

fn main() {
    let which = std::env::args().nth(1).unwrap_or_default();
    let t0 = Instant::now();
    let mut s = Stakker::new(t0);
    let far = t0 + Duration::from_secs(100);
    match which.as_str() {
        "f2" => {
            // k0 = max_add; del; (2^32 - 2) x (max_add; del); k1 = min_add; timer_max_active(k0)?
            let k0 = s.timer_max_add(far, |_| {});
            assert!(s.timer_max_del(k0));
            let mut n: u64 = 0;
            while n < 4_294_967_294 {
                let k = s.timer_max_add(far, |_| {});
                if !s.timer_max_del(k) {
                    println!("F2 unexpected: delete of a live key failed at cycle {}", n);
                    return;
                }
                n += 1;
            }
            let _k1 = s.timer_min_add(far, |_| {});
            println!("F2 cycles={} stale_key_active={}", n, s.timer_max_active(k0));
        }
        "f3" => {
            // (2^31 - 2) x (timer_add; timer_del); A, B at the identical instant; run
            let mut n: u64 = 0;
            while n < 2_147_483_646 {
                let k = s.timer_add(far, |_| {});
                if !s.timer_del(k) {
                    println!("F3 unexpected: delete of a live key failed at cycle {}", n);
                    return;
                }
                n += 1;
            }
            let order = Rc::new(RefCell::new(Vec::new()));
            let (o1, o2) = (order.clone(), order.clone());
            s.timer_add(far, move |_| o1.borrow_mut().push("A"));
            s.timer_add(far, move |_| o2.borrow_mut().push("B"));
            s.run(t0 + Duration::from_secs(200), false);
            println!("F3 cycles={} order={}", n, order.borrow().join(","));
        }
        _ => println!("usage: wrap_replay f2|f3"),
    }
}
