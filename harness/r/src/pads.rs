// GENERATED (by the snippet recorded in docs/layer_r.md): capture paddings of every size class x alignment class.
// A closure that captures a `P: Pad` has a different size/alignment in the flat FnOnce queue.
pub trait Pad: Copy + 'static { fn fill(seed: u32) -> Self; fn ok(&self, seed: u32) -> bool; }
pub trait PadFn { type Out; fn call<P: Pad>(self) -> Self::Out; }
#[inline(always)] fn byte(seed: u32, i: usize) -> u8 { (seed as usize).wrapping_mul(31).wrapping_add(i.wrapping_mul(7)) as u8 }
pub const SIZES: [usize; 8] = [0, 1, 8, 24, 100, 500, 2000, 4096];
pub const ALIGNS: [usize; 8] = [1, 2, 4, 8, 16, 32, 64, 128];
#[repr(C, align(1))] #[derive(Clone, Copy)] pub struct P0_1([u8; 0]);
impl Pad for P0_1 { #[inline(never)] fn fill(seed: u32) -> Self { let mut b = [0u8; 0]; for i in 0..0 { b[i] = byte(seed, i); } P0_1(b) } #[inline(never)] fn ok(&self, seed: u32) -> bool { (self as *const Self as usize) % 1 == 0 && (0..0).all(|i| self.0[i] == byte(seed, i)) } }
#[repr(C, align(2))] #[derive(Clone, Copy)] pub struct P0_2([u8; 0]);
impl Pad for P0_2 { #[inline(never)] fn fill(seed: u32) -> Self { let mut b = [0u8; 0]; for i in 0..0 { b[i] = byte(seed, i); } P0_2(b) } #[inline(never)] fn ok(&self, seed: u32) -> bool { (self as *const Self as usize) % 2 == 0 && (0..0).all(|i| self.0[i] == byte(seed, i)) } }
#[repr(C, align(4))] #[derive(Clone, Copy)] pub struct P0_4([u8; 0]);
impl Pad for P0_4 { #[inline(never)] fn fill(seed: u32) -> Self { let mut b = [0u8; 0]; for i in 0..0 { b[i] = byte(seed, i); } P0_4(b) } #[inline(never)] fn ok(&self, seed: u32) -> bool { (self as *const Self as usize) % 4 == 0 && (0..0).all(|i| self.0[i] == byte(seed, i)) } }
#[repr(C, align(8))] #[derive(Clone, Copy)] pub struct P0_8([u8; 0]);
impl Pad for P0_8 { #[inline(never)] fn fill(seed: u32) -> Self { let mut b = [0u8; 0]; for i in 0..0 { b[i] = byte(seed, i); } P0_8(b) } #[inline(never)] fn ok(&self, seed: u32) -> bool { (self as *const Self as usize) % 8 == 0 && (0..0).all(|i| self.0[i] == byte(seed, i)) } }
#[repr(C, align(16))] #[derive(Clone, Copy)] pub struct P0_16([u8; 0]);
impl Pad for P0_16 { #[inline(never)] fn fill(seed: u32) -> Self { let mut b = [0u8; 0]; for i in 0..0 { b[i] = byte(seed, i); } P0_16(b) } #[inline(never)] fn ok(&self, seed: u32) -> bool { (self as *const Self as usize) % 16 == 0 && (0..0).all(|i| self.0[i] == byte(seed, i)) } }
#[repr(C, align(32))] #[derive(Clone, Copy)] pub struct P0_32([u8; 0]);
impl Pad for P0_32 { #[inline(never)] fn fill(seed: u32) -> Self { let mut b = [0u8; 0]; for i in 0..0 { b[i] = byte(seed, i); } P0_32(b) } #[inline(never)] fn ok(&self, seed: u32) -> bool { (self as *const Self as usize) % 32 == 0 && (0..0).all(|i| self.0[i] == byte(seed, i)) } }
#[repr(C, align(64))] #[derive(Clone, Copy)] pub struct P0_64([u8; 0]);
impl Pad for P0_64 { #[inline(never)] fn fill(seed: u32) -> Self { let mut b = [0u8; 0]; for i in 0..0 { b[i] = byte(seed, i); } P0_64(b) } #[inline(never)] fn ok(&self, seed: u32) -> bool { (self as *const Self as usize) % 64 == 0 && (0..0).all(|i| self.0[i] == byte(seed, i)) } }
#[repr(C, align(128))] #[derive(Clone, Copy)] pub struct P0_128([u8; 0]);
impl Pad for P0_128 { #[inline(never)] fn fill(seed: u32) -> Self { let mut b = [0u8; 0]; for i in 0..0 { b[i] = byte(seed, i); } P0_128(b) } #[inline(never)] fn ok(&self, seed: u32) -> bool { (self as *const Self as usize) % 128 == 0 && (0..0).all(|i| self.0[i] == byte(seed, i)) } }
#[repr(C, align(1))] #[derive(Clone, Copy)] pub struct P1_1([u8; 1]);
impl Pad for P1_1 { #[inline(never)] fn fill(seed: u32) -> Self { let mut b = [0u8; 1]; for i in 0..1 { b[i] = byte(seed, i); } P1_1(b) } #[inline(never)] fn ok(&self, seed: u32) -> bool { (self as *const Self as usize) % 1 == 0 && (0..1).all(|i| self.0[i] == byte(seed, i)) } }
#[repr(C, align(2))] #[derive(Clone, Copy)] pub struct P1_2([u8; 1]);
impl Pad for P1_2 { #[inline(never)] fn fill(seed: u32) -> Self { let mut b = [0u8; 1]; for i in 0..1 { b[i] = byte(seed, i); } P1_2(b) } #[inline(never)] fn ok(&self, seed: u32) -> bool { (self as *const Self as usize) % 2 == 0 && (0..1).all(|i| self.0[i] == byte(seed, i)) } }
#[repr(C, align(4))] #[derive(Clone, Copy)] pub struct P1_4([u8; 1]);
impl Pad for P1_4 { #[inline(never)] fn fill(seed: u32) -> Self { let mut b = [0u8; 1]; for i in 0..1 { b[i] = byte(seed, i); } P1_4(b) } #[inline(never)] fn ok(&self, seed: u32) -> bool { (self as *const Self as usize) % 4 == 0 && (0..1).all(|i| self.0[i] == byte(seed, i)) } }
#[repr(C, align(8))] #[derive(Clone, Copy)] pub struct P1_8([u8; 1]);
impl Pad for P1_8 { #[inline(never)] fn fill(seed: u32) -> Self { let mut b = [0u8; 1]; for i in 0..1 { b[i] = byte(seed, i); } P1_8(b) } #[inline(never)] fn ok(&self, seed: u32) -> bool { (self as *const Self as usize) % 8 == 0 && (0..1).all(|i| self.0[i] == byte(seed, i)) } }
#[repr(C, align(16))] #[derive(Clone, Copy)] pub struct P1_16([u8; 1]);
impl Pad for P1_16 { #[inline(never)] fn fill(seed: u32) -> Self { let mut b = [0u8; 1]; for i in 0..1 { b[i] = byte(seed, i); } P1_16(b) } #[inline(never)] fn ok(&self, seed: u32) -> bool { (self as *const Self as usize) % 16 == 0 && (0..1).all(|i| self.0[i] == byte(seed, i)) } }
#[repr(C, align(32))] #[derive(Clone, Copy)] pub struct P1_32([u8; 1]);
impl Pad for P1_32 { #[inline(never)] fn fill(seed: u32) -> Self { let mut b = [0u8; 1]; for i in 0..1 { b[i] = byte(seed, i); } P1_32(b) } #[inline(never)] fn ok(&self, seed: u32) -> bool { (self as *const Self as usize) % 32 == 0 && (0..1).all(|i| self.0[i] == byte(seed, i)) } }
#[repr(C, align(64))] #[derive(Clone, Copy)] pub struct P1_64([u8; 1]);
impl Pad for P1_64 { #[inline(never)] fn fill(seed: u32) -> Self { let mut b = [0u8; 1]; for i in 0..1 { b[i] = byte(seed, i); } P1_64(b) } #[inline(never)] fn ok(&self, seed: u32) -> bool { (self as *const Self as usize) % 64 == 0 && (0..1).all(|i| self.0[i] == byte(seed, i)) } }
#[repr(C, align(128))] #[derive(Clone, Copy)] pub struct P1_128([u8; 1]);
impl Pad for P1_128 { #[inline(never)] fn fill(seed: u32) -> Self { let mut b = [0u8; 1]; for i in 0..1 { b[i] = byte(seed, i); } P1_128(b) } #[inline(never)] fn ok(&self, seed: u32) -> bool { (self as *const Self as usize) % 128 == 0 && (0..1).all(|i| self.0[i] == byte(seed, i)) } }
#[repr(C, align(1))] #[derive(Clone, Copy)] pub struct P8_1([u8; 8]);
impl Pad for P8_1 { #[inline(never)] fn fill(seed: u32) -> Self { let mut b = [0u8; 8]; for i in 0..8 { b[i] = byte(seed, i); } P8_1(b) } #[inline(never)] fn ok(&self, seed: u32) -> bool { (self as *const Self as usize) % 1 == 0 && (0..8).all(|i| self.0[i] == byte(seed, i)) } }
#[repr(C, align(2))] #[derive(Clone, Copy)] pub struct P8_2([u8; 8]);
impl Pad for P8_2 { #[inline(never)] fn fill(seed: u32) -> Self { let mut b = [0u8; 8]; for i in 0..8 { b[i] = byte(seed, i); } P8_2(b) } #[inline(never)] fn ok(&self, seed: u32) -> bool { (self as *const Self as usize) % 2 == 0 && (0..8).all(|i| self.0[i] == byte(seed, i)) } }
#[repr(C, align(4))] #[derive(Clone, Copy)] pub struct P8_4([u8; 8]);
impl Pad for P8_4 { #[inline(never)] fn fill(seed: u32) -> Self { let mut b = [0u8; 8]; for i in 0..8 { b[i] = byte(seed, i); } P8_4(b) } #[inline(never)] fn ok(&self, seed: u32) -> bool { (self as *const Self as usize) % 4 == 0 && (0..8).all(|i| self.0[i] == byte(seed, i)) } }
#[repr(C, align(8))] #[derive(Clone, Copy)] pub struct P8_8([u8; 8]);
impl Pad for P8_8 { #[inline(never)] fn fill(seed: u32) -> Self { let mut b = [0u8; 8]; for i in 0..8 { b[i] = byte(seed, i); } P8_8(b) } #[inline(never)] fn ok(&self, seed: u32) -> bool { (self as *const Self as usize) % 8 == 0 && (0..8).all(|i| self.0[i] == byte(seed, i)) } }
#[repr(C, align(16))] #[derive(Clone, Copy)] pub struct P8_16([u8; 8]);
impl Pad for P8_16 { #[inline(never)] fn fill(seed: u32) -> Self { let mut b = [0u8; 8]; for i in 0..8 { b[i] = byte(seed, i); } P8_16(b) } #[inline(never)] fn ok(&self, seed: u32) -> bool { (self as *const Self as usize) % 16 == 0 && (0..8).all(|i| self.0[i] == byte(seed, i)) } }
#[repr(C, align(32))] #[derive(Clone, Copy)] pub struct P8_32([u8; 8]);
impl Pad for P8_32 { #[inline(never)] fn fill(seed: u32) -> Self { let mut b = [0u8; 8]; for i in 0..8 { b[i] = byte(seed, i); } P8_32(b) } #[inline(never)] fn ok(&self, seed: u32) -> bool { (self as *const Self as usize) % 32 == 0 && (0..8).all(|i| self.0[i] == byte(seed, i)) } }
#[repr(C, align(64))] #[derive(Clone, Copy)] pub struct P8_64([u8; 8]);
impl Pad for P8_64 { #[inline(never)] fn fill(seed: u32) -> Self { let mut b = [0u8; 8]; for i in 0..8 { b[i] = byte(seed, i); } P8_64(b) } #[inline(never)] fn ok(&self, seed: u32) -> bool { (self as *const Self as usize) % 64 == 0 && (0..8).all(|i| self.0[i] == byte(seed, i)) } }
#[repr(C, align(128))] #[derive(Clone, Copy)] pub struct P8_128([u8; 8]);
impl Pad for P8_128 { #[inline(never)] fn fill(seed: u32) -> Self { let mut b = [0u8; 8]; for i in 0..8 { b[i] = byte(seed, i); } P8_128(b) } #[inline(never)] fn ok(&self, seed: u32) -> bool { (self as *const Self as usize) % 128 == 0 && (0..8).all(|i| self.0[i] == byte(seed, i)) } }
#[repr(C, align(1))] #[derive(Clone, Copy)] pub struct P24_1([u8; 24]);
impl Pad for P24_1 { #[inline(never)] fn fill(seed: u32) -> Self { let mut b = [0u8; 24]; for i in 0..24 { b[i] = byte(seed, i); } P24_1(b) } #[inline(never)] fn ok(&self, seed: u32) -> bool { (self as *const Self as usize) % 1 == 0 && (0..24).all(|i| self.0[i] == byte(seed, i)) } }
#[repr(C, align(2))] #[derive(Clone, Copy)] pub struct P24_2([u8; 24]);
impl Pad for P24_2 { #[inline(never)] fn fill(seed: u32) -> Self { let mut b = [0u8; 24]; for i in 0..24 { b[i] = byte(seed, i); } P24_2(b) } #[inline(never)] fn ok(&self, seed: u32) -> bool { (self as *const Self as usize) % 2 == 0 && (0..24).all(|i| self.0[i] == byte(seed, i)) } }
#[repr(C, align(4))] #[derive(Clone, Copy)] pub struct P24_4([u8; 24]);
impl Pad for P24_4 { #[inline(never)] fn fill(seed: u32) -> Self { let mut b = [0u8; 24]; for i in 0..24 { b[i] = byte(seed, i); } P24_4(b) } #[inline(never)] fn ok(&self, seed: u32) -> bool { (self as *const Self as usize) % 4 == 0 && (0..24).all(|i| self.0[i] == byte(seed, i)) } }
#[repr(C, align(8))] #[derive(Clone, Copy)] pub struct P24_8([u8; 24]);
impl Pad for P24_8 { #[inline(never)] fn fill(seed: u32) -> Self { let mut b = [0u8; 24]; for i in 0..24 { b[i] = byte(seed, i); } P24_8(b) } #[inline(never)] fn ok(&self, seed: u32) -> bool { (self as *const Self as usize) % 8 == 0 && (0..24).all(|i| self.0[i] == byte(seed, i)) } }
#[repr(C, align(16))] #[derive(Clone, Copy)] pub struct P24_16([u8; 24]);
impl Pad for P24_16 { #[inline(never)] fn fill(seed: u32) -> Self { let mut b = [0u8; 24]; for i in 0..24 { b[i] = byte(seed, i); } P24_16(b) } #[inline(never)] fn ok(&self, seed: u32) -> bool { (self as *const Self as usize) % 16 == 0 && (0..24).all(|i| self.0[i] == byte(seed, i)) } }
#[repr(C, align(32))] #[derive(Clone, Copy)] pub struct P24_32([u8; 24]);
impl Pad for P24_32 { #[inline(never)] fn fill(seed: u32) -> Self { let mut b = [0u8; 24]; for i in 0..24 { b[i] = byte(seed, i); } P24_32(b) } #[inline(never)] fn ok(&self, seed: u32) -> bool { (self as *const Self as usize) % 32 == 0 && (0..24).all(|i| self.0[i] == byte(seed, i)) } }
#[repr(C, align(64))] #[derive(Clone, Copy)] pub struct P24_64([u8; 24]);
impl Pad for P24_64 { #[inline(never)] fn fill(seed: u32) -> Self { let mut b = [0u8; 24]; for i in 0..24 { b[i] = byte(seed, i); } P24_64(b) } #[inline(never)] fn ok(&self, seed: u32) -> bool { (self as *const Self as usize) % 64 == 0 && (0..24).all(|i| self.0[i] == byte(seed, i)) } }
#[repr(C, align(128))] #[derive(Clone, Copy)] pub struct P24_128([u8; 24]);
impl Pad for P24_128 { #[inline(never)] fn fill(seed: u32) -> Self { let mut b = [0u8; 24]; for i in 0..24 { b[i] = byte(seed, i); } P24_128(b) } #[inline(never)] fn ok(&self, seed: u32) -> bool { (self as *const Self as usize) % 128 == 0 && (0..24).all(|i| self.0[i] == byte(seed, i)) } }
#[repr(C, align(1))] #[derive(Clone, Copy)] pub struct P100_1([u8; 100]);
impl Pad for P100_1 { #[inline(never)] fn fill(seed: u32) -> Self { let mut b = [0u8; 100]; for i in 0..100 { b[i] = byte(seed, i); } P100_1(b) } #[inline(never)] fn ok(&self, seed: u32) -> bool { (self as *const Self as usize) % 1 == 0 && (0..100).all(|i| self.0[i] == byte(seed, i)) } }
#[repr(C, align(2))] #[derive(Clone, Copy)] pub struct P100_2([u8; 100]);
impl Pad for P100_2 { #[inline(never)] fn fill(seed: u32) -> Self { let mut b = [0u8; 100]; for i in 0..100 { b[i] = byte(seed, i); } P100_2(b) } #[inline(never)] fn ok(&self, seed: u32) -> bool { (self as *const Self as usize) % 2 == 0 && (0..100).all(|i| self.0[i] == byte(seed, i)) } }
#[repr(C, align(4))] #[derive(Clone, Copy)] pub struct P100_4([u8; 100]);
impl Pad for P100_4 { #[inline(never)] fn fill(seed: u32) -> Self { let mut b = [0u8; 100]; for i in 0..100 { b[i] = byte(seed, i); } P100_4(b) } #[inline(never)] fn ok(&self, seed: u32) -> bool { (self as *const Self as usize) % 4 == 0 && (0..100).all(|i| self.0[i] == byte(seed, i)) } }
#[repr(C, align(8))] #[derive(Clone, Copy)] pub struct P100_8([u8; 100]);
impl Pad for P100_8 { #[inline(never)] fn fill(seed: u32) -> Self { let mut b = [0u8; 100]; for i in 0..100 { b[i] = byte(seed, i); } P100_8(b) } #[inline(never)] fn ok(&self, seed: u32) -> bool { (self as *const Self as usize) % 8 == 0 && (0..100).all(|i| self.0[i] == byte(seed, i)) } }
#[repr(C, align(16))] #[derive(Clone, Copy)] pub struct P100_16([u8; 100]);
impl Pad for P100_16 { #[inline(never)] fn fill(seed: u32) -> Self { let mut b = [0u8; 100]; for i in 0..100 { b[i] = byte(seed, i); } P100_16(b) } #[inline(never)] fn ok(&self, seed: u32) -> bool { (self as *const Self as usize) % 16 == 0 && (0..100).all(|i| self.0[i] == byte(seed, i)) } }
#[repr(C, align(32))] #[derive(Clone, Copy)] pub struct P100_32([u8; 100]);
impl Pad for P100_32 { #[inline(never)] fn fill(seed: u32) -> Self { let mut b = [0u8; 100]; for i in 0..100 { b[i] = byte(seed, i); } P100_32(b) } #[inline(never)] fn ok(&self, seed: u32) -> bool { (self as *const Self as usize) % 32 == 0 && (0..100).all(|i| self.0[i] == byte(seed, i)) } }
#[repr(C, align(64))] #[derive(Clone, Copy)] pub struct P100_64([u8; 100]);
impl Pad for P100_64 { #[inline(never)] fn fill(seed: u32) -> Self { let mut b = [0u8; 100]; for i in 0..100 { b[i] = byte(seed, i); } P100_64(b) } #[inline(never)] fn ok(&self, seed: u32) -> bool { (self as *const Self as usize) % 64 == 0 && (0..100).all(|i| self.0[i] == byte(seed, i)) } }
#[repr(C, align(128))] #[derive(Clone, Copy)] pub struct P100_128([u8; 100]);
impl Pad for P100_128 { #[inline(never)] fn fill(seed: u32) -> Self { let mut b = [0u8; 100]; for i in 0..100 { b[i] = byte(seed, i); } P100_128(b) } #[inline(never)] fn ok(&self, seed: u32) -> bool { (self as *const Self as usize) % 128 == 0 && (0..100).all(|i| self.0[i] == byte(seed, i)) } }
#[repr(C, align(1))] #[derive(Clone, Copy)] pub struct P500_1([u8; 500]);
impl Pad for P500_1 { #[inline(never)] fn fill(seed: u32) -> Self { let mut b = [0u8; 500]; for i in 0..500 { b[i] = byte(seed, i); } P500_1(b) } #[inline(never)] fn ok(&self, seed: u32) -> bool { (self as *const Self as usize) % 1 == 0 && (0..500).all(|i| self.0[i] == byte(seed, i)) } }
#[repr(C, align(2))] #[derive(Clone, Copy)] pub struct P500_2([u8; 500]);
impl Pad for P500_2 { #[inline(never)] fn fill(seed: u32) -> Self { let mut b = [0u8; 500]; for i in 0..500 { b[i] = byte(seed, i); } P500_2(b) } #[inline(never)] fn ok(&self, seed: u32) -> bool { (self as *const Self as usize) % 2 == 0 && (0..500).all(|i| self.0[i] == byte(seed, i)) } }
#[repr(C, align(4))] #[derive(Clone, Copy)] pub struct P500_4([u8; 500]);
impl Pad for P500_4 { #[inline(never)] fn fill(seed: u32) -> Self { let mut b = [0u8; 500]; for i in 0..500 { b[i] = byte(seed, i); } P500_4(b) } #[inline(never)] fn ok(&self, seed: u32) -> bool { (self as *const Self as usize) % 4 == 0 && (0..500).all(|i| self.0[i] == byte(seed, i)) } }
#[repr(C, align(8))] #[derive(Clone, Copy)] pub struct P500_8([u8; 500]);
impl Pad for P500_8 { #[inline(never)] fn fill(seed: u32) -> Self { let mut b = [0u8; 500]; for i in 0..500 { b[i] = byte(seed, i); } P500_8(b) } #[inline(never)] fn ok(&self, seed: u32) -> bool { (self as *const Self as usize) % 8 == 0 && (0..500).all(|i| self.0[i] == byte(seed, i)) } }
#[repr(C, align(16))] #[derive(Clone, Copy)] pub struct P500_16([u8; 500]);
impl Pad for P500_16 { #[inline(never)] fn fill(seed: u32) -> Self { let mut b = [0u8; 500]; for i in 0..500 { b[i] = byte(seed, i); } P500_16(b) } #[inline(never)] fn ok(&self, seed: u32) -> bool { (self as *const Self as usize) % 16 == 0 && (0..500).all(|i| self.0[i] == byte(seed, i)) } }
#[repr(C, align(32))] #[derive(Clone, Copy)] pub struct P500_32([u8; 500]);
impl Pad for P500_32 { #[inline(never)] fn fill(seed: u32) -> Self { let mut b = [0u8; 500]; for i in 0..500 { b[i] = byte(seed, i); } P500_32(b) } #[inline(never)] fn ok(&self, seed: u32) -> bool { (self as *const Self as usize) % 32 == 0 && (0..500).all(|i| self.0[i] == byte(seed, i)) } }
#[repr(C, align(64))] #[derive(Clone, Copy)] pub struct P500_64([u8; 500]);
impl Pad for P500_64 { #[inline(never)] fn fill(seed: u32) -> Self { let mut b = [0u8; 500]; for i in 0..500 { b[i] = byte(seed, i); } P500_64(b) } #[inline(never)] fn ok(&self, seed: u32) -> bool { (self as *const Self as usize) % 64 == 0 && (0..500).all(|i| self.0[i] == byte(seed, i)) } }
#[repr(C, align(128))] #[derive(Clone, Copy)] pub struct P500_128([u8; 500]);
impl Pad for P500_128 { #[inline(never)] fn fill(seed: u32) -> Self { let mut b = [0u8; 500]; for i in 0..500 { b[i] = byte(seed, i); } P500_128(b) } #[inline(never)] fn ok(&self, seed: u32) -> bool { (self as *const Self as usize) % 128 == 0 && (0..500).all(|i| self.0[i] == byte(seed, i)) } }
#[repr(C, align(1))] #[derive(Clone, Copy)] pub struct P2000_1([u8; 2000]);
impl Pad for P2000_1 { #[inline(never)] fn fill(seed: u32) -> Self { let mut b = [0u8; 2000]; for i in 0..2000 { b[i] = byte(seed, i); } P2000_1(b) } #[inline(never)] fn ok(&self, seed: u32) -> bool { (self as *const Self as usize) % 1 == 0 && (0..2000).all(|i| self.0[i] == byte(seed, i)) } }
#[repr(C, align(2))] #[derive(Clone, Copy)] pub struct P2000_2([u8; 2000]);
impl Pad for P2000_2 { #[inline(never)] fn fill(seed: u32) -> Self { let mut b = [0u8; 2000]; for i in 0..2000 { b[i] = byte(seed, i); } P2000_2(b) } #[inline(never)] fn ok(&self, seed: u32) -> bool { (self as *const Self as usize) % 2 == 0 && (0..2000).all(|i| self.0[i] == byte(seed, i)) } }
#[repr(C, align(4))] #[derive(Clone, Copy)] pub struct P2000_4([u8; 2000]);
impl Pad for P2000_4 { #[inline(never)] fn fill(seed: u32) -> Self { let mut b = [0u8; 2000]; for i in 0..2000 { b[i] = byte(seed, i); } P2000_4(b) } #[inline(never)] fn ok(&self, seed: u32) -> bool { (self as *const Self as usize) % 4 == 0 && (0..2000).all(|i| self.0[i] == byte(seed, i)) } }
#[repr(C, align(8))] #[derive(Clone, Copy)] pub struct P2000_8([u8; 2000]);
impl Pad for P2000_8 { #[inline(never)] fn fill(seed: u32) -> Self { let mut b = [0u8; 2000]; for i in 0..2000 { b[i] = byte(seed, i); } P2000_8(b) } #[inline(never)] fn ok(&self, seed: u32) -> bool { (self as *const Self as usize) % 8 == 0 && (0..2000).all(|i| self.0[i] == byte(seed, i)) } }
#[repr(C, align(16))] #[derive(Clone, Copy)] pub struct P2000_16([u8; 2000]);
impl Pad for P2000_16 { #[inline(never)] fn fill(seed: u32) -> Self { let mut b = [0u8; 2000]; for i in 0..2000 { b[i] = byte(seed, i); } P2000_16(b) } #[inline(never)] fn ok(&self, seed: u32) -> bool { (self as *const Self as usize) % 16 == 0 && (0..2000).all(|i| self.0[i] == byte(seed, i)) } }
#[repr(C, align(32))] #[derive(Clone, Copy)] pub struct P2000_32([u8; 2000]);
impl Pad for P2000_32 { #[inline(never)] fn fill(seed: u32) -> Self { let mut b = [0u8; 2000]; for i in 0..2000 { b[i] = byte(seed, i); } P2000_32(b) } #[inline(never)] fn ok(&self, seed: u32) -> bool { (self as *const Self as usize) % 32 == 0 && (0..2000).all(|i| self.0[i] == byte(seed, i)) } }
#[repr(C, align(64))] #[derive(Clone, Copy)] pub struct P2000_64([u8; 2000]);
impl Pad for P2000_64 { #[inline(never)] fn fill(seed: u32) -> Self { let mut b = [0u8; 2000]; for i in 0..2000 { b[i] = byte(seed, i); } P2000_64(b) } #[inline(never)] fn ok(&self, seed: u32) -> bool { (self as *const Self as usize) % 64 == 0 && (0..2000).all(|i| self.0[i] == byte(seed, i)) } }
#[repr(C, align(128))] #[derive(Clone, Copy)] pub struct P2000_128([u8; 2000]);
impl Pad for P2000_128 { #[inline(never)] fn fill(seed: u32) -> Self { let mut b = [0u8; 2000]; for i in 0..2000 { b[i] = byte(seed, i); } P2000_128(b) } #[inline(never)] fn ok(&self, seed: u32) -> bool { (self as *const Self as usize) % 128 == 0 && (0..2000).all(|i| self.0[i] == byte(seed, i)) } }
#[repr(C, align(1))] #[derive(Clone, Copy)] pub struct P4096_1([u8; 4096]);
impl Pad for P4096_1 { #[inline(never)] fn fill(seed: u32) -> Self { let mut b = [0u8; 4096]; for i in 0..4096 { b[i] = byte(seed, i); } P4096_1(b) } #[inline(never)] fn ok(&self, seed: u32) -> bool { (self as *const Self as usize) % 1 == 0 && (0..4096).all(|i| self.0[i] == byte(seed, i)) } }
#[repr(C, align(2))] #[derive(Clone, Copy)] pub struct P4096_2([u8; 4096]);
impl Pad for P4096_2 { #[inline(never)] fn fill(seed: u32) -> Self { let mut b = [0u8; 4096]; for i in 0..4096 { b[i] = byte(seed, i); } P4096_2(b) } #[inline(never)] fn ok(&self, seed: u32) -> bool { (self as *const Self as usize) % 2 == 0 && (0..4096).all(|i| self.0[i] == byte(seed, i)) } }
#[repr(C, align(4))] #[derive(Clone, Copy)] pub struct P4096_4([u8; 4096]);
impl Pad for P4096_4 { #[inline(never)] fn fill(seed: u32) -> Self { let mut b = [0u8; 4096]; for i in 0..4096 { b[i] = byte(seed, i); } P4096_4(b) } #[inline(never)] fn ok(&self, seed: u32) -> bool { (self as *const Self as usize) % 4 == 0 && (0..4096).all(|i| self.0[i] == byte(seed, i)) } }
#[repr(C, align(8))] #[derive(Clone, Copy)] pub struct P4096_8([u8; 4096]);
impl Pad for P4096_8 { #[inline(never)] fn fill(seed: u32) -> Self { let mut b = [0u8; 4096]; for i in 0..4096 { b[i] = byte(seed, i); } P4096_8(b) } #[inline(never)] fn ok(&self, seed: u32) -> bool { (self as *const Self as usize) % 8 == 0 && (0..4096).all(|i| self.0[i] == byte(seed, i)) } }
#[repr(C, align(16))] #[derive(Clone, Copy)] pub struct P4096_16([u8; 4096]);
impl Pad for P4096_16 { #[inline(never)] fn fill(seed: u32) -> Self { let mut b = [0u8; 4096]; for i in 0..4096 { b[i] = byte(seed, i); } P4096_16(b) } #[inline(never)] fn ok(&self, seed: u32) -> bool { (self as *const Self as usize) % 16 == 0 && (0..4096).all(|i| self.0[i] == byte(seed, i)) } }
#[repr(C, align(32))] #[derive(Clone, Copy)] pub struct P4096_32([u8; 4096]);
impl Pad for P4096_32 { #[inline(never)] fn fill(seed: u32) -> Self { let mut b = [0u8; 4096]; for i in 0..4096 { b[i] = byte(seed, i); } P4096_32(b) } #[inline(never)] fn ok(&self, seed: u32) -> bool { (self as *const Self as usize) % 32 == 0 && (0..4096).all(|i| self.0[i] == byte(seed, i)) } }
#[repr(C, align(64))] #[derive(Clone, Copy)] pub struct P4096_64([u8; 4096]);
impl Pad for P4096_64 { #[inline(never)] fn fill(seed: u32) -> Self { let mut b = [0u8; 4096]; for i in 0..4096 { b[i] = byte(seed, i); } P4096_64(b) } #[inline(never)] fn ok(&self, seed: u32) -> bool { (self as *const Self as usize) % 64 == 0 && (0..4096).all(|i| self.0[i] == byte(seed, i)) } }
#[repr(C, align(128))] #[derive(Clone, Copy)] pub struct P4096_128([u8; 4096]);
impl Pad for P4096_128 { #[inline(never)] fn fill(seed: u32) -> Self { let mut b = [0u8; 4096]; for i in 0..4096 { b[i] = byte(seed, i); } P4096_128(b) } #[inline(never)] fn ok(&self, seed: u32) -> bool { (self as *const Self as usize) % 128 == 0 && (0..4096).all(|i| self.0[i] == byte(seed, i)) } }
pub fn dispatch<F: PadFn>(size: u8, align: u8, f: F) -> F::Out {
    match (size.min(7), align.min(7)) {
        (0, 0) => f.call::<P0_1>(),
        (0, 1) => f.call::<P0_2>(),
        (0, 2) => f.call::<P0_4>(),
        (0, 3) => f.call::<P0_8>(),
        (0, 4) => f.call::<P0_16>(),
        (0, 5) => f.call::<P0_32>(),
        (0, 6) => f.call::<P0_64>(),
        (0, 7) => f.call::<P0_128>(),
        (1, 0) => f.call::<P1_1>(),
        (1, 1) => f.call::<P1_2>(),
        (1, 2) => f.call::<P1_4>(),
        (1, 3) => f.call::<P1_8>(),
        (1, 4) => f.call::<P1_16>(),
        (1, 5) => f.call::<P1_32>(),
        (1, 6) => f.call::<P1_64>(),
        (1, 7) => f.call::<P1_128>(),
        (2, 0) => f.call::<P8_1>(),
        (2, 1) => f.call::<P8_2>(),
        (2, 2) => f.call::<P8_4>(),
        (2, 3) => f.call::<P8_8>(),
        (2, 4) => f.call::<P8_16>(),
        (2, 5) => f.call::<P8_32>(),
        (2, 6) => f.call::<P8_64>(),
        (2, 7) => f.call::<P8_128>(),
        (3, 0) => f.call::<P24_1>(),
        (3, 1) => f.call::<P24_2>(),
        (3, 2) => f.call::<P24_4>(),
        (3, 3) => f.call::<P24_8>(),
        (3, 4) => f.call::<P24_16>(),
        (3, 5) => f.call::<P24_32>(),
        (3, 6) => f.call::<P24_64>(),
        (3, 7) => f.call::<P24_128>(),
        (4, 0) => f.call::<P100_1>(),
        (4, 1) => f.call::<P100_2>(),
        (4, 2) => f.call::<P100_4>(),
        (4, 3) => f.call::<P100_8>(),
        (4, 4) => f.call::<P100_16>(),
        (4, 5) => f.call::<P100_32>(),
        (4, 6) => f.call::<P100_64>(),
        (4, 7) => f.call::<P100_128>(),
        (5, 0) => f.call::<P500_1>(),
        (5, 1) => f.call::<P500_2>(),
        (5, 2) => f.call::<P500_4>(),
        (5, 3) => f.call::<P500_8>(),
        (5, 4) => f.call::<P500_16>(),
        (5, 5) => f.call::<P500_32>(),
        (5, 6) => f.call::<P500_64>(),
        (5, 7) => f.call::<P500_128>(),
        (6, 0) => f.call::<P2000_1>(),
        (6, 1) => f.call::<P2000_2>(),
        (6, 2) => f.call::<P2000_4>(),
        (6, 3) => f.call::<P2000_8>(),
        (6, 4) => f.call::<P2000_16>(),
        (6, 5) => f.call::<P2000_32>(),
        (6, 6) => f.call::<P2000_64>(),
        (6, 7) => f.call::<P2000_128>(),
        (7, 0) => f.call::<P4096_1>(),
        (7, 1) => f.call::<P4096_2>(),
        (7, 2) => f.call::<P4096_4>(),
        (7, 3) => f.call::<P4096_8>(),
        (7, 4) => f.call::<P4096_16>(),
        (7, 5) => f.call::<P4096_32>(),
        (7, 6) => f.call::<P4096_64>(),
        (7, 7) => f.call::<P4096_128>(),
        _ => f.call::<P0_1>(),
    }
}
