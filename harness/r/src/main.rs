//! Layer R interpreter: runs DSL programs (docs/layer_r.md) on the REAL stakker crate through its
//! public API and prints one canonical event trace per case.
//!
//!   r_interp <cases-file>
//!
//! Everything runs on one thread, one Stakker alive at a time, in virtual time (BASE + ms).
#![allow(clippy::all)]
#![allow(dead_code)]

mod pads;
mod prog;

use pads::{Pad, PadFn};
use prog::*;
use stakker::*;
use std::cell::{Cell, RefCell};
use std::collections::{BTreeMap, HashSet};
use std::rc::Rc;
use std::time::{Duration, Instant};

// ---------------------------------------------------------------------------------------------
// per-case global state (harness side only)

thread_local! {
    static TRACE: RefCell<Vec<String>> = RefCell::new(Vec::new());
    static MUTE: Cell<bool> = Cell::new(false);
    static NUID: Cell<u32> = Cell::new(1);
    static ENV: RefCell<BTreeMap<u32, Handle>> = RefCell::new(BTreeMap::new());
    static LIVE: RefCell<BTreeMap<(u8, u32), i64>> = RefCell::new(BTreeMap::new());
    static DEFERRER: RefCell<Option<Deferrer>> = RefCell::new(None);
    static TVARS: RefCell<BTreeMap<(u8, u32), TKey>> = RefCell::new(BTreeMap::new());
    static TQ: RefCell<BTreeMap<(u8, u32), Rc<Cell<char>>>> = RefCell::new(BTreeMap::new());
    static ACTORS: RefCell<HashSet<u32>> = RefCell::new(HashSet::new());
    static FWDS: RefCell<HashSet<u32>> = RefCell::new(HashSet::new());
    static PROG: RefCell<Rc<Vec<Rc<CloSpec>>>> = RefCell::new(Rc::new(Vec::new()));
    static BASE: Cell<Option<Instant>> = Cell::new(None);
}

const LK_CLO: u8 = 0;
const LK_VAL: u8 = 1;
const LK_RET: u8 = 2;
const LK_NOTIFY: u8 = 3;
const LK_TOK: u8 = 4;
const LK_FWD: u8 = 5;
const LK_ORPH: u8 = 6;

fn ev(s: String) {
    if !MUTE.with(|m| m.get()) {
        TRACE.with(|t| t.borrow_mut().push(s));
    }
}
fn created(k: u8, id: u32) {
    LIVE.with(|l| *l.borrow_mut().entry((k, id)).or_insert(0) += 1);
}
fn consumed(k: u8, id: u32) {
    LIVE.with(|l| *l.borrow_mut().entry((k, id)).or_insert(0) -= 1);
}
fn base() -> Instant {
    BASE.with(|b| b.get().unwrap())
}
fn at(ms: i64) -> Instant {
    base() + Duration::from_millis(ms.max(0) as u64)
}
fn ms_of(i: Instant) -> i64 {
    i.saturating_duration_since(base()).as_millis() as i64
}
fn spec(i: usize) -> Rc<CloSpec> {
    PROG.with(|p| p.borrow()[i].clone())
}
fn deferrer() -> Option<Deferrer> {
    DEFERRER.with(|d| d.borrow().clone())
}

#[derive(Clone, Copy)]
enum TKey {
    F(FixedTimerKey),
    X(MaxTimerKey),
    N(MinTimerKey),
}

// ---------------------------------------------------------------------------------------------
// handles

struct OwnTag(u32);
impl Drop for OwnTag {
    fn drop(&mut self) {
        ev(format!("owndrop {}", self.0));
    }
}
struct OwnH {
    tag: OwnTag,
    own: ActorOwn<Act>,
}
struct AnonH {
    tag: OwnTag,
    anon: ActorOwnAnon,
}
struct TokH {
    t: u32,
    script: Vec<usize>,
}
impl Drop for TokH {
    fn drop(&mut self) {
        ev(format!("tokdrop {}", self.t));
        consumed(LK_TOK, self.t);
        for &c in &self.script {
            // a Drop impl has no scope of its own: captures come from the global environment
            let mut nofr = Frame {
                loc: Vec::new(),
                die: false,
            };
            let clo = make_clo(c, &mut nofr);
            sub(&clo, 'm');
            match deferrer() {
                Some(d) => d.defer(move |s| run_plain(s, clo)),
                None => {
                    ev("deferlost".to_string());
                    drop(clo);
                }
            }
        }
    }
}
struct FwdTok(u32);
impl Drop for FwdTok {
    fn drop(&mut self) {
        ev(format!("fwdfree {}", self.0));
        consumed(LK_FWD, self.0);
    }
}
#[derive(Clone)]
struct FwdH {
    f: u32,
    to: Option<(usize, u32)>, // closure spec and target actor of a to-actor forwarder
    fwd: Fwd<Msg>,
}
struct RetH {
    r: u32,
    ret: Ret<u32>,
}

enum Handle {
    Own(OwnH),
    Act(u32, Actor<Act>),
    Anon(AnonH),
    Ret(RetH),
    Fwd(FwdH),
    Tok(TokH),
}

pub struct Msg {
    clo: Option<Clo>,
    v: u32,
}

// ---------------------------------------------------------------------------------------------
// closure instances

struct Guard {
    uid: u32,
    ran: Cell<bool>,
    q: Rc<Cell<char>>, // queue the closure was handed to ('-' none)
    call: bool,        // an actor call (not a plain closure)
}
impl Guard {
    fn start(&self) {
        self.ran.set(true);
        consumed(LK_CLO, self.uid);
    }
}
impl Drop for Guard {
    fn drop(&mut self) {
        if !self.ran.get() {
            ev(format!("drop {} {} {}", self.uid, self.q.get(), self.call as u8));
            consumed(LK_CLO, self.uid);
        }
    }
}

pub struct Clo {
    guard: Guard,
    caps: Vec<(u32, Handle)>,
    spec: usize,
}

struct Frame {
    loc: Vec<(u32, Handle)>,
    die: bool,
}

fn new_uid(cid: u32) -> u32 {
    let uid = NUID.with(|n| {
        let v = n.get();
        n.set(v + 1);
        v
    });
    ev(format!("clo {} {}", uid, cid));
    created(LK_CLO, uid);
    uid
}

// echo of a submission: remember the queue in the instance and log it
fn sub(clo: &Clo, q: char) {
    clo.guard.q.set(q);
    ev(format!("sub {} {} {}", q, clo.guard.uid, clo.guard.call as u8));
}
fn sub_later(q: &Rc<Cell<char>>, uid: u32) {
    q.set('m');
    ev(format!("sub m {} 1", uid));
}

fn make_clo(ci: usize, fr: &mut Frame) -> Clo {
    make_clo2(ci, fr, false)
}
fn make_call(ci: usize, fr: &mut Frame) -> Clo {
    make_clo2(ci, fr, true)
}
fn make_clo2(ci: usize, fr: &mut Frame, call: bool) -> Clo {
    let sp = spec(ci);
    let uid_cid = sp.id;
    let mut caps = Vec::new();
    for &h in &sp.caps {
        if let Some(v) = take(fr, h) {
            caps.push((h, v));
        }
    }
    let uid = new_uid(uid_cid);
    Clo {
        guard: Guard {
            uid,
            ran: Cell::new(false),
            q: Rc::new(Cell::new('-')),
            call,
        },
        caps,
        spec: ci,
    }
}

fn make_call_nocaps(ci: usize) -> Clo {
    let sp = spec(ci);
    let uid = new_uid(sp.id);
    Clo {
        guard: Guard {
            uid,
            ran: Cell::new(false),
            q: Rc::new(Cell::new('-')),
            call: true,
        },
        caps: Vec::new(),
        spec: ci,
    }
}

// ---------------------------------------------------------------------------------------------
// scopes: frame locals first, then the global environment

fn take(fr: &mut Frame, h: u32) -> Option<Handle> {
    if let Some(p) = fr.loc.iter().position(|x| x.0 == h) {
        return Some(fr.loc.remove(p).1);
    }
    ENV.with(|e| e.borrow_mut().remove(&h))
}

fn with_handle<R>(fr: &Frame, h: u32, f: impl FnOnce(Option<&Handle>) -> R) -> R {
    if let Some(p) = fr.loc.iter().position(|x| x.0 == h) {
        return f(Some(&fr.loc[p].1));
    }
    ENV.with(|e| {
        let e = e.borrow();
        f(e.get(&h))
    })
}

fn bind(h: u32, v: Handle) {
    let old = ENV.with(|e| e.borrow_mut().insert(h, v));
    drop(old);
}

fn handle_actor2(fr: &Frame, h: u32) -> Option<(Actor<Act>, u32)> {
    with_handle(fr, h, |hv| match hv {
        Some(Handle::Own(o)) => Some((o.own.clone(), o.tag.0)),
        Some(Handle::Act(a, actor)) => Some((actor.clone(), *a)),
        _ => None,
    })
}
fn handle_actor(fr: &Frame, h: u32) -> Option<Actor<Act>> {
    handle_actor2(fr, h).map(|x| x.0)
}

fn bad(code: u32) {
    ev(format!("bad {}", code));
}

// ---------------------------------------------------------------------------------------------
// the scripted actor

struct ValTok(u32, bool); // (actor, orphan: returned by an init step that also asked to stop / fail)
impl Drop for ValTok {
    fn drop(&mut self) {
        if self.1 {
            ev(format!("orphdrop {}", self.0));
            consumed(LK_ORPH, self.0);
        } else {
            ev(format!("valdrop {}", self.0));
            consumed(LK_VAL, self.0);
        }
    }
}

pub struct Act {
    tok: ValTok,
    id: u32,
    held: Vec<(u32, Handle)>,
    slab: ActorOwnSlab<Act>,
}

impl Act {
    pub fn prep(cx: CX![], a: u32, clo: Clo, ready: bool) -> Option<Self> {
        let Clo { guard, caps, spec: sp } = clo;
        guard.start();
        ev(format!("prep {} {} {}", a, guard.uid, ms_of(cx.now())));
        let mut fr = Frame {
            loc: caps,
            die: false,
        };
        let body = spec(sp);
        interp(&body.body, &mut Ctx::Prep(cx, a), &mut fr);
        ev(format!("end {}", guard.uid));
        let die = fr.die;
        drop(fr);
        drop(guard);
        if ready {
            // with a stop / fail requested the value is never installed: apply_prep terminates the actor and
            // drops the value afterwards
            if die {
                ev(format!("orphnew {}", a));
                created(LK_ORPH, a);
            } else {
                ev(format!("ready {}", a));
                created(LK_VAL, a);
            }
            Some(Act {
                tok: ValTok(a, die),
                id: a,
                held: Vec::new(),
                slab: ActorOwnSlab::new(),
            })
        } else {
            None
        }
    }

    pub fn meth(&mut self, cx: CX![], clo: Clo) {
        let Clo { guard, caps, spec: sp } = clo;
        guard.start();
        ev(format!("meth {} {} {}", self.id, guard.uid, ms_of(cx.now())));
        let mut fr = Frame {
            loc: caps,
            die: false,
        };
        let body = spec(sp);
        interp(&body.body, &mut Ctx::Meth(cx, self), &mut fr);
        ev(format!("end {}", guard.uid));
        drop(fr);
        drop(guard);
    }

    // target of ret_to! (called for Some and for None)
    pub fn meth_ret(&mut self, cx: CX![], clo: Clo, _m: Option<u32>) {
        self.meth(cx, clo);
    }
    // target of ret_some_to!
    pub fn meth_some(&mut self, cx: CX![], clo: Clo, _m: u32) {
        self.meth(cx, clo);
    }
    // target of a notifier routed with ret_to!
    pub fn meth_cause(&mut self, cx: CX![], clo: Clo, _m: Option<StopCause>) {
        self.meth(cx, clo);
    }
    // target of fwd_to!
    pub fn meth_fwd(&mut self, cx: CX![], m: Msg) {
        if let Some(clo) = m.clo {
            self.meth(cx, clo);
        }
    }

    // macro forms that address the running actor through its own `cx` (closure arms: they name `Self`)
    fn self_call_closure(&mut self, cx: CX![], clo: Clo) {
        call!([cx], |this, cx| this.meth(cx, clo));
    }
    fn self_ret_to(&mut self, cx: CX![], clo: Clo) -> Ret<u32> {
        ret_to!([cx], |this, cx, m: Option<u32>| this.meth_ret(cx, clo, m))
    }
    fn self_ret_some_to(&mut self, cx: CX![], clo: Clo) -> Ret<u32> {
        ret_some_to!([cx], |this, cx, m: u32| this.meth_some(cx, clo, m))
    }
    fn self_fwd_to(&mut self, cx: CX![]) -> Fwd<Msg> {
        fwd_to!([cx], |this, cx, m: Msg| this.meth_fwd(cx, m))
    }
}

// A Ret handler built with ret_some_do!: the macro's closure only sees Some(v); the `None` case (the Ret was
// dropped) is the Drop of the captured state -- same events, same order
struct RetBody {
    r: u32,
    cv: Vec<(u32, Handle)>,
    body: Rc<Vec<Act_>>,
    fired: bool,
}
impl RetBody {
    fn fire(&mut self, m: Option<u32>) {
        self.fired = true;
        log_ret(self.r, &m);
        let mut fr = Frame {
            loc: std::mem::take(&mut self.cv),
            die: false,
        };
        let body = self.body.clone();
        interp(&body, &mut Ctx::None, &mut fr);
    }
}
impl Drop for RetBody {
    fn drop(&mut self) {
        if !self.fired {
            self.fire(None);
        }
    }
}

// ---------------------------------------------------------------------------------------------
// contexts

enum Ctx<'a, 'b> {
    Stk(&'a mut Stakker),
    Meth(&'a mut Cx<'b, Act>, &'a mut Act),
    Prep(&'a mut Cx<'b, Act>, u32),
    None,
}

impl<'a, 'b> Ctx<'a, 'b> {
    fn core(&mut self) -> Option<&mut Core> {
        match self {
            Ctx::Stk(s) => Some(s.access_core()),
            Ctx::Meth(cx, _) => Some(cx.access_core()),
            Ctx::Prep(cx, _) => Some(cx.access_core()),
            Ctx::None => None,
        }
    }
    fn log_id(&self) -> LogID {
        match self {
            Ctx::Meth(cx, _) => cx.id(),
            Ctx::Prep(cx, _) => cx.id(),
            _ => 0,
        }
    }
}

fn run_plain(s: &mut Stakker, clo: Clo) {
    let Clo { guard, caps, spec: sp } = clo;
    guard.start();
    ev(format!("run {} {} {}", guard.uid, ms_of(s.now()), guard.q.get()));
    let mut fr = Frame {
        loc: caps,
        die: false,
    };
    let body = spec(sp);
    interp(&body.body, &mut Ctx::Stk(s), &mut fr);
    ev(format!("end {}", guard.uid));
    drop(fr);
    drop(guard);
}

// ---------------------------------------------------------------------------------------------
// submission sites, generic over the capture padding

fn pad_check<P: Pad>(p: &P, uid: u32) {
    if !p.ok(uid) {
        ev(format!("bad 900 padcorrupt {}", uid));
    }
}

struct SiteDefer<'a> {
    core: &'a mut Core,
    clo: Clo,
}
impl<'a> PadFn for SiteDefer<'a> {
    type Out = ();
    fn call<P: Pad>(self) {
        let uid = self.clo.guard.uid;
        let pad = P::fill(uid);
        let clo = self.clo;
        self.core.defer(move |s| {
            pad_check(&pad, uid);
            run_plain(s, clo)
        });
    }
}
struct SiteDeferD {
    d: Deferrer,
    clo: Clo,
}
impl PadFn for SiteDeferD {
    type Out = ();
    fn call<P: Pad>(self) {
        let uid = self.clo.guard.uid;
        let pad = P::fill(uid);
        let clo = self.clo;
        self.d.defer(move |s| {
            pad_check(&pad, uid);
            run_plain(s, clo)
        });
    }
}
struct SiteLazy<'a> {
    core: &'a mut Core,
    clo: Clo,
}
impl<'a> PadFn for SiteLazy<'a> {
    type Out = ();
    fn call<P: Pad>(self) {
        let uid = self.clo.guard.uid;
        let pad = P::fill(uid);
        let clo = self.clo;
        self.core.lazy(move |s| {
            pad_check(&pad, uid);
            run_plain(s, clo)
        });
    }
}
struct SiteCall {
    actor: Actor<Act>,
    clo: Clo,
}
impl PadFn for SiteCall {
    type Out = ();
    fn call<P: Pad>(self) {
        let uid = self.clo.guard.uid;
        let pad = P::fill(uid);
        let clo = self.clo;
        let a2 = self.actor.clone();
        self.actor.defer(move |s| {
            a2.apply(s, move |st, cx| {
                pad_check(&pad, uid);
                st.meth(cx, clo)
            })
        });
    }
}
struct SiteCallPrep {
    actor: Actor<Act>,
    a: u32,
    ready: bool,
    clo: Clo,
}
impl PadFn for SiteCallPrep {
    type Out = ();
    fn call<P: Pad>(self) {
        let uid = self.clo.guard.uid;
        let pad = P::fill(uid);
        let clo = self.clo;
        let a2 = self.actor.clone();
        let (a, ready) = (self.a, self.ready);
        self.actor.defer(move |s| {
            a2.apply_prep(s, move |cx| {
                pad_check(&pad, uid);
                Act::prep(cx, a, clo, ready)
            })
        });
    }
}

fn default_pad(sp: &CloSpec) -> bool {
    sp.size == 0 && sp.align == 0
}

// ---------------------------------------------------------------------------------------------
// notifier / ret / fwd construction

fn cause_str(c: &StopCause) -> String {
    match c {
        StopCause::Stopped => "stop".to_string(),
        StopCause::Failed(e) => format!("fail:{}", e),
        StopCause::Killed(e) => format!("kill:{}", e),
        StopCause::Dropped => "drop".to_string(),
        StopCause::Lost => "lost".to_string(),
    }
}

fn log_notify(a: u32, m: &Option<StopCause>) {
    ev(format!(
        "notify {} {}",
        a,
        match m {
            Some(c) => cause_str(c),
            None => "none".to_string(),
        }
    ));
    consumed(LK_NOTIFY, a);
}

fn make_notifier(a: u32, n: &Notif, fr: &mut Frame) -> Ret<StopCause> {
    match n {
        Notif::Log => ret_do!(move |m: Option<StopCause>| log_notify(a, &m)),
        Notif::To(hp, c) => match handle_actor2(fr, *hp) {
            Some((parent, pid)) => {
                let clo = make_call(*c, fr);
                let uid = clo.guard.uid;
                let q = clo.guard.q.clone();
                ev(format!("target {} {} 0", uid, pid));
                let inner: Ret<StopCause> = ret_to!([parent], meth_cause(clo) as (StopCause));
                Ret::new(move |m: Option<StopCause>| {
                    log_notify(a, &m);
                    sub_later(&q, uid);
                    match m {
                        Some(c) => inner.ret(c),
                        None => drop(inner),
                    }
                })
            }
            None => {
                bad(20);
                ret_do!(move |m: Option<StopCause>| log_notify(a, &m))
            }
        },
    }
}

// ---------------------------------------------------------------------------------------------
// the interpreter of acts

fn tk_chr(k: Tk) -> char {
    match k {
        Tk::F => 'f',
        Tk::X => 'x',
        Tk::N => 'n',
    }
}

fn tk_code(k: Tk) -> u8 {
    match k {
        Tk::F => 0,
        Tk::X => 1,
        Tk::N => 2,
    }
}

fn level_of(l: u32) -> LogLevel {
    use std::convert::TryFrom;
    LogLevel::try_from(l as u8).unwrap_or(LogLevel::Off)
}

fn filter_of(lvls: &[u32]) -> LogFilter {
    let v: Vec<LogLevel> = lvls.iter().map(|l| level_of(*l)).collect();
    LogFilter::all(&v)
}

fn interp(acts: &[Act_], ctx: &mut Ctx<'_, '_>, fr: &mut Frame) {
    let mut i = 0;
    while i < acts.len() {
        if i + 1 < acts.len() && fused_create(&acts[i], &acts[i + 1], ctx, fr) {
            i += 2;
            continue;
        }
        do_act(&acts[i], ctx, fr);
        i += 1;
    }
}

fn is_bound(fr: &Frame, h: u32) -> bool {
    with_handle(fr, h, |hv| hv.is_some())
}

// The creation form is a function of the actor id (the model has one semantics for all of them):
//   actor  a%4: 0 actor_new!   1 ActorOwn::new(core, notify, parent_id)   2 actor!(c, Type::init(..), n)   3 actor!(c, <Type>::init(..), n)
//   slabadd a%4: 0,2 ActorOwnSlab::add   1 actor_in_slab!(self.slab, cx, Type::init(..), n)   3 actor_in_slab!(.., <Type>::init(..), n)
// The macro forms that create AND queue the first init call apply when the creation is directly followed by
// `callprep` on the fresh handle (default capture class, handle not captured by the init closure, not bound before).
fn fused_create(first: &Act_, second: &Act_, ctx: &mut Ctx<'_, '_>, fr: &mut Frame) -> bool {
    let (h, a, n, slab) = match first {
        Act_::Actor(h, a, n) => (*h, *a, n, false),
        Act_::SlabAdd(h, a, n) => (*h, *a, n, true),
        _ => return false,
    };
    let (ready, c) = match second {
        Act_::CallPrep(h2, ready, c) if *h2 == h => (*ready, *c),
        _ => return false,
    };
    let form = a % 4;
    let sp = spec(c);
    if !(form == 3 || (form == 2 && !slab) || (form == 1 && slab)) {
        return false;
    }
    if !default_pad(&sp) || sp.caps.contains(&h) || is_bound(fr, h) || ACTORS.with(|s| s.borrow().contains(&a)) {
        return false;
    }
    if slab {
        if !matches!(ctx, Ctx::Meth(_, _)) {
            return false;
        }
    } else if ctx.core().is_none() {
        return false;
    }
    let notify = make_notifier(a, n, fr);
    ACTORS.with(|s| s.borrow_mut().insert(a));
    // evaluated by the macros AFTER the actor exists, as the argument of the init call
    macro_rules! init_clo {
        () => {{
            ev(format!("actor {}", a));
            created(LK_NOTIFY, a);
            ev(format!("ownnew {}", a));
            let clo = make_call(c, fr);
            ev(format!("target {} {} 1", clo.guard.uid, a));
            sub(&clo, 'm');
            clo
        }};
    }
    if slab {
        let pid = match ctx {
            Ctx::Meth(_, st) => st.id,
            _ => unreachable!(),
        };
        let actor = match ctx {
            Ctx::Meth(cx, st) => {
                let mk = |fr: &mut Frame| {
                    ev(format!("actor {}", a));
                    created(LK_NOTIFY, a);
                    ev(format!("slabadd {} {}", pid, a));
                    let clo = make_call(c, fr);
                    ev(format!("target {} {} 1", clo.guard.uid, a));
                    sub(&clo, 'm');
                    clo
                };
                if form == 1 {
                    actor_in_slab!(st.slab, cx, Act::prep(a, mk(fr), ready), notify)
                } else {
                    actor_in_slab!(st.slab, cx, <Act>::prep(a, mk(fr), ready), notify)
                }
            }
            _ => unreachable!(),
        };
        bind(h, Handle::Act(a, actor));
    } else {
        let own = match ctx {
            Ctx::Stk(s) => {
                if form == 2 {
                    actor!(s, Act::prep(a, init_clo!(), ready), notify)
                } else {
                    actor!(s, <Act>::prep(a, init_clo!(), ready), notify)
                }
            }
            Ctx::Meth(cx, _) => {
                if form == 2 {
                    actor!(cx, Act::prep(a, init_clo!(), ready), notify)
                } else {
                    actor!(cx, <Act>::prep(a, init_clo!(), ready), notify)
                }
            }
            Ctx::Prep(cx, _) => {
                if form == 2 {
                    actor!(cx, Act::prep(a, init_clo!(), ready), notify)
                } else {
                    actor!(cx, <Act>::prep(a, init_clo!(), ready), notify)
                }
            }
            Ctx::None => unreachable!(),
        };
        bind(
            h,
            Handle::Own(OwnH {
                tag: OwnTag(a),
                own,
            }),
        );
    }
    true
}

fn do_act(act: &Act_, ctx: &mut Ctx<'_, '_>, fr: &mut Frame) {
    match act {
        Act_::Defer(c) => {
            if ctx.core().is_none() {
                return bad(1);
            }
            let clo = make_clo(*c, fr);
            sub(&clo, 'm');
            let sp = spec(*c);
            let core = ctx.core().unwrap();
            if default_pad(&sp) && sp.id % 2 == 1 {
                call!([core], |s| run_plain(s, clo));
            } else {
                pads::dispatch(sp.size, sp.align, SiteDefer { core, clo });
            }
        }
        Act_::DeferD(c) => {
            let clo = make_clo(*c, fr);
            sub(&clo, 'm');
            let sp = spec(*c);
            match deferrer() {
                Some(d) => pads::dispatch(sp.size, sp.align, SiteDeferD { d, clo }),
                None => {
                    ev("deferlost".to_string());
                    drop(clo)
                }
            }
        }
        Act_::Lazy(c) => {
            if ctx.core().is_none() {
                return bad(2);
            }
            let clo = make_clo(*c, fr);
            sub(&clo, 'l');
            let sp = spec(*c);
            let core = ctx.core().unwrap();
            if default_pad(&sp) {
                lazy!([core], |s| run_plain(s, clo));
            } else {
                pads::dispatch(sp.size, sp.align, SiteLazy { core, clo });
            }
        }
        Act_::Idle(c) => {
            if ctx.core().is_none() {
                return bad(3);
            }
            let clo = make_clo(*c, fr);
            sub(&clo, 'i');
            let core = ctx.core().unwrap();
            idle!([core], |s| run_plain(s, clo));
        }
        Act_::TAdd(k, v, t, c) => {
            if ctx.core().is_none() {
                return bad(4);
            }
            let clo = make_clo(*c, fr);
            sub(&clo, 't');
            ev(format!("tvar {} {} {}", tk_chr(*k), v, clo.guard.uid));
            TQ.with(|tq| tq.borrow_mut().insert((tk_code(*k), *v), clo.guard.q.clone()));
            let core = ctx.core().unwrap();
            let key = match k {
                Tk::F => TKey::F(at!(at(*t), [core], |s| run_plain(s, clo))),
                Tk::X => TKey::X(core.timer_max_add(at(*t), move |s| run_plain(s, clo))),
                Tk::N => TKey::N(core.timer_min_add(at(*t), move |s| run_plain(s, clo))),
            };
            TVARS.with(|tv| tv.borrow_mut().insert((tk_code(*k), *v), key));
        }
        Act_::After(v, d, c) => {
            if ctx.core().is_none() {
                return bad(5);
            }
            let clo = make_clo(*c, fr);
            sub(&clo, 't');
            ev(format!("tvar f {} {}", v, clo.guard.uid));
            TQ.with(|tq| tq.borrow_mut().insert((0, *v), clo.guard.q.clone()));
            let core = ctx.core().unwrap();
            let key = after!(Duration::from_millis((*d).max(0) as u64), [core], |s| run_plain(
                s, clo
            ));
            TVARS.with(|tv| tv.borrow_mut().insert((0, *v), TKey::F(key)));
        }
        Act_::TMac(k, v, t, c) => {
            if ctx.core().is_none() || *k == Tk::F {
                return bad(6);
            }
            let clo = make_clo(*c, fr);
            let core = ctx.core().unwrap();
            let old = TVARS.with(|tv| tv.borrow().get(&(tk_code(*k), *v)).copied());
            match k {
                Tk::X => {
                    let mut key = match old {
                        Some(TKey::X(key)) => key,
                        _ => MaxTimerKey::default(),
                    };
                    let before = core.timer_max_active(key);
                    if !before {
                        sub(&clo, 't');
                        ev(format!("tvar x {} {}", v, clo.guard.uid));
                        TQ.with(|tq| tq.borrow_mut().insert((1, *v), clo.guard.q.clone()));
                    }
                    timer_max!(&mut key, at(*t), [core], |s| run_plain(s, clo));
                    TVARS.with(|tv| tv.borrow_mut().insert((1, *v), TKey::X(key)));
                }
                _ => {
                    let mut key = match old {
                        Some(TKey::N(key)) => key,
                        _ => MinTimerKey::default(),
                    };
                    let before = core.timer_min_active(key);
                    if !before {
                        sub(&clo, 't');
                        ev(format!("tvar n {} {}", v, clo.guard.uid));
                        TQ.with(|tq| tq.borrow_mut().insert((2, *v), clo.guard.q.clone()));
                    }
                    timer_min!(&mut key, at(*t), [core], |s| run_plain(s, clo));
                    TVARS.with(|tv| tv.borrow_mut().insert((2, *v), TKey::N(key)));
                }
            }
        }
        Act_::TUpd(k, v, t) => {
            if ctx.core().is_none() || *k == Tk::F {
                return bad(7);
            }
            let core = ctx.core().unwrap();
            let old = TVARS.with(|tv| tv.borrow().get(&(tk_code(*k), *v)).copied());
            let b = match (k, old) {
                (Tk::X, Some(TKey::X(key))) => core.timer_max_upd(key, at(*t)),
                (Tk::X, _) => core.timer_max_upd(MaxTimerKey::default(), at(*t)),
                (Tk::N, Some(TKey::N(key))) => core.timer_min_upd(key, at(*t)),
                _ => core.timer_min_upd(MinTimerKey::default(), at(*t)),
            };
            ev(format!("bool 1 {}", b as u8));
        }
        Act_::TDel(k, v) => {
            if ctx.core().is_none() {
                return bad(8);
            }
            let core = ctx.core().unwrap();
            let old = TVARS.with(|tv| tv.borrow().get(&(tk_code(*k), *v)).copied());
            // a deleted timer's closure is dropped as one that sits in no queue any more
            let qc = TQ.with(|tq| tq.borrow().get(&(tk_code(*k), *v)).cloned());
            let saved = qc.as_ref().map(|c| c.replace('-'));
            let b = match (k, old) {
                (Tk::F, Some(TKey::F(key))) => core.timer_del(key),
                (Tk::F, _) => core.timer_del(FixedTimerKey::default()),
                (Tk::X, Some(TKey::X(key))) => core.timer_max_del(key),
                (Tk::X, _) => core.timer_max_del(MaxTimerKey::default()),
                (Tk::N, Some(TKey::N(key))) => core.timer_min_del(key),
                (Tk::N, _) => core.timer_min_del(MinTimerKey::default()),
            };
            if !b {
                // nothing was deleted: the closure (if it still exists) keeps its tag
                if let (Some(c), Some(v)) = (qc.as_ref(), saved) {
                    if c.get() == '-' {
                        c.set(v);
                    }
                }
            }
            ev(format!("tdel {} {} {}", tk_chr(*k), v, b as u8));
        }
        Act_::TAct(k, v) => {
            if ctx.core().is_none() || *k == Tk::F {
                return bad(9);
            }
            let core = ctx.core().unwrap();
            let old = TVARS.with(|tv| tv.borrow().get(&(tk_code(*k), *v)).copied());
            let b = match (k, old) {
                (Tk::X, Some(TKey::X(key))) => core.timer_max_active(key),
                (Tk::X, _) => core.timer_max_active(MaxTimerKey::default()),
                (Tk::N, Some(TKey::N(key))) => core.timer_min_active(key),
                _ => core.timer_min_active(MinTimerKey::default()),
            };
            ev(format!("bool 3 {}", b as u8));
        }
        Act_::Actor(h, a, n) => {
            if ctx.core().is_none() || ACTORS.with(|s| s.borrow().contains(a)) {
                return bad(10);
            }
            let notify = make_notifier(*a, n, fr);
            let own = if *a % 4 == 1 {
                // the plain function behind the macros
                let parid = ctx.log_id();
                ActorOwn::<Act>::new(ctx.core().unwrap(), notify, parid)
            } else {
                match ctx {
                    Ctx::Stk(s) => actor_new!(s, Act, notify),
                    Ctx::Meth(cx, _) => actor_new!(cx, Act, notify),
                    Ctx::Prep(cx, _) => actor_new!(cx, Act, notify),
                    Ctx::None => unreachable!(),
                }
            };
            ACTORS.with(|s| s.borrow_mut().insert(*a));
            ev(format!("actor {}", a));
            created(LK_NOTIFY, *a);
            ev(format!("ownnew {}", a));
            bind(
                *h,
                Handle::Own(OwnH {
                    tag: OwnTag(*a),
                    own,
                }),
            );
        }
        Act_::Call(h, c) => {
            let (actor, aid) = match handle_actor2(fr, *h) {
                Some(a) => a,
                None => return bad(11),
            };
            let clo = make_call(*c, fr);
            ev(format!("target {} {} 0", clo.guard.uid, aid));
            sub(&clo, 'm');
            let sp = spec(*c);
            if default_pad(&sp) {
                // the macro arm is a function of the closure id; the [cx] arms need the target to be the running actor
                let v = sp.id % 4;
                match ctx {
                    Ctx::Meth(cx, st) if v == 2 && st.id == aid => call!([cx], meth(clo)),
                    Ctx::Meth(cx, st) if v == 3 && st.id == aid => st.self_call_closure(cx, clo),
                    Ctx::Prep(cx, a) if v >= 2 && *a == aid => call!([cx], meth(clo)),
                    _ => {
                        if v == 1 && ctx.core().is_some() {
                            let core = ctx.core().unwrap();
                            call!([actor, core], meth(clo));
                        } else {
                            call!([actor], meth(clo));
                        }
                    }
                }
            } else {
                pads::dispatch(sp.size, sp.align, SiteCall { actor, clo });
            }
        }
        Act_::CallPrep(h, ready, c) => {
            let (actor, a) = match handle_actor2(fr, *h) {
                Some(x) => x,
                None => return bad(12),
            };
            let clo = make_call(*c, fr);
            ev(format!("target {} {} 1", clo.guard.uid, a));
            sub(&clo, 'm');
            let sp = spec(*c);
            let ready = *ready;
            if default_pad(&sp) {
                let v = sp.id % 4;
                match ctx {
                    Ctx::Prep(cx, me) if v == 3 && *me == a => call!([cx], Act::prep(a, clo, ready)),
                    Ctx::Prep(cx, me) if v == 2 && *me == a => call!([cx], <Act>::prep(a, clo, ready)),
                    _ => {
                        if v == 1 {
                            call!([actor], <Act>::prep(a, clo, ready));
                        } else if v == 2 && ctx.core().is_some() {
                            let core = ctx.core().unwrap();
                            call!([actor, core], Act::prep(a, clo, ready));
                        } else {
                            call!([actor], Act::prep(a, clo, ready));
                        }
                    }
                }
            } else {
                pads::dispatch(
                    sp.size,
                    sp.align,
                    SiteCallPrep {
                        actor,
                        a,
                        ready,
                        clo,
                    },
                );
            }
        }
        Act_::Stop => match ctx {
            Ctx::Meth(cx, st) => {
                ev(format!("req {} stop", st.id));
                stop!(cx);
                fr.die = true;
            }
            Ctx::Prep(cx, a) => {
                ev(format!("req {} stop", a));
                stop!(cx);
                fr.die = true;
            }
            _ => bad(13),
        },
        Act_::Fail(e) => match ctx {
            Ctx::Meth(cx, st) => {
                ev(format!("req {} fail:{}", st.id, e));
                fail!(cx, "{}", e);
                fr.die = true;
            }
            Ctx::Prep(cx, a) => {
                ev(format!("req {} fail:{}", a, e));
                fail!(cx, "{}", e);
                fr.die = true;
            }
            _ => bad(14),
        },
        Act_::Kill(h, e) => {
            let tmp = with_handle(fr, *h, |hv| match hv {
                Some(Handle::Own(o)) => Some((o.own.owned(), o.tag.0)),
                _ => None,
            });
            match (ctx, tmp) {
                (Ctx::Stk(s), Some((own, a))) => {
                    ev(format!("req {} kill:{}", a, e));
                    own.kill_string(s, format!("{}", e));
                    drop(own);
                }
                _ => bad(15),
            }
        }
        Act_::KillA(h, e) => {
            let e = *e;
            let ok = with_handle(fr, *h, |hv| match hv {
                Some(Handle::Own(o)) => {
                    ev(format!("req {} kill:{}", o.tag.0, e));
                    kill!(o.own, "{}", e);
                    true
                }
                _ => false,
            });
            if !ok {
                bad(16);
            }
        }
        Act_::Owned(h, h2) => {
            let r = with_handle(fr, *h, |hv| match hv {
                Some(Handle::Own(o)) => Some((o.own.owned(), o.tag.0)),
                _ => None,
            });
            match r {
                Some((own, a)) => {
                    ev(format!("ownnew {}", a));
                    bind(
                        *h2,
                        Handle::Own(OwnH {
                            tag: OwnTag(a),
                            own,
                        }),
                    );
                }
                None => bad(17),
            }
        }
        Act_::Clone(h, h2) => {
            let r = with_handle(fr, *h, |hv| match hv {
                Some(Handle::Own(o)) => Some(Handle::Act(o.tag.0, o.own.clone())),
                Some(Handle::Act(a, actor)) => Some(Handle::Act(*a, actor.clone())),
                Some(Handle::Fwd(f)) => Some(Handle::Fwd(f.clone())),
                _ => None,
            });
            match r {
                Some(v) => bind(*h2, v),
                None => bad(18),
            }
        }
        Act_::Anon(h, h2) => {
            let is_own = with_handle(fr, *h, |hv| matches!(hv, Some(Handle::Own(_))));
            if !is_own {
                return bad(19);
            }
            if let Some(Handle::Own(OwnH { tag, own })) = take(fr, *h) {
                bind(
                    *h2,
                    Handle::Anon(AnonH {
                        tag,
                        anon: own.anon(),
                    }),
                );
            }
        }
        Act_::Store(h) => match ctx {
            Ctx::Meth(_, st) => {
                if let Some(v) = take(fr, *h) {
                    st.held.push((*h, v));
                }
            }
            _ => bad(21),
        },
        Act_::DropH(h) => {
            let v = take(fr, *h);
            drop(v);
        }
        Act_::PDropH(h) => {
            // the same drop, performed by the unwinding of a panic that is caught right here
            // (std::thread::panicking() is true while the value's Drop impls run); resume_unwind does not call the panic hook
            let v = take(fr, *h);
            if let Some(v) = v {
                let r = std::panic::catch_unwind(std::panic::AssertUnwindSafe(move || {
                    let _held = v;
                    std::panic::resume_unwind(Box::new(0u8));
                }));
                drop(r);
            }
        }
        Act_::SlabAdd(h, a, n) => match ctx {
            Ctx::Meth(cx, st) => {
                if ACTORS.with(|s| s.borrow().contains(a)) {
                    return bad(22);
                }
                let notify = make_notifier(*a, n, fr);
                let parent = cx.this().clone();
                let core = cx.access_core();
                let actor = st.slab.add(core, parent, |this: &mut Act| &mut this.slab, notify);
                ACTORS.with(|s| s.borrow_mut().insert(*a));
                ev(format!("actor {}", a));
                created(LK_NOTIFY, *a);
                ev(format!("slabadd {} {}", st.id, a));
                bind(*h, Handle::Act(*a, actor));
            }
            _ => bad(22),
        },
        Act_::SlabLen => match ctx {
            Ctx::Meth(_, st) => ev(format!("slablen {} {}", st.id, st.slab.len())),
            _ => bad(23),
        },
        Act_::IsZombie(h) => match handle_actor2(fr, *h) {
            Some((a, aid)) => ev(format!("iszombie {} {}", aid, a.is_zombie() as u8)),
            None => bad(24),
        },
        Act_::NewRet(h, r, k) => {
            let r = *r;
            let mut retto: Option<(u32, u8)> = None;
            let ret: Ret<u32> = match k {
                RetK::Clos(caps, body) => {
                    let mut cv = Vec::new();
                    for &c in caps {
                        if let Some(v) = take(fr, c) {
                            cv.push((c, v));
                        }
                    }
                    let body = body.clone();
                    if r % 2 == 1 {
                        let rb = RetBody {
                            r,
                            cv,
                            body,
                            fired: false,
                        };
                        ret_some_do!(move |v: u32| {
                            let mut rb = rb;
                            rb.fire(Some(v))
                        })
                    } else {
                        ret_do!(move |m: Option<u32>| {
                            log_ret(r, &m);
                            let mut fr = Frame {
                                loc: cv,
                                die: false,
                            };
                            interp(&body, &mut Ctx::None, &mut fr);
                        })
                    }
                }
                RetK::To(ht, c) => {
                    let (actor, aid) = match handle_actor2(fr, *ht) {
                        Some(a) => a,
                        None => return bad(25),
                    };
                    let clo = make_call(*c, fr);
                    let uid = clo.guard.uid;
                    let q = clo.guard.q.clone();
                    ev(format!("target {} {} 0", uid, aid));
                    retto = Some((uid, 0));
                    let inner: Ret<u32> = match ctx {
                        Ctx::Meth(cx, st) if r % 3 == 2 && st.id == aid => st.self_ret_to(cx, clo),
                        _ => {
                            if r % 3 == 1 {
                                Ret::to_actor(actor, move |this: &mut Act, cx: &mut Cx<'_, Act>, m: Option<u32>| {
                                    this.meth_ret(cx, clo, m)
                                })
                            } else {
                                ret_to!([actor], meth_ret(clo) as (u32))
                            }
                        }
                    };
                    Ret::new(move |m: Option<u32>| {
                        log_ret(r, &m);
                        sub_later(&q, uid);
                        match m {
                            Some(v) => inner.ret(v),
                            None => drop(inner),
                        }
                    })
                }
                RetK::SomeTo(ht, c) => {
                    let (actor, aid) = match handle_actor2(fr, *ht) {
                        Some(a) => a,
                        None => return bad(25),
                    };
                    let clo = make_call(*c, fr);
                    let uid = clo.guard.uid;
                    let q = clo.guard.q.clone();
                    ev(format!("target {} {} 0", uid, aid));
                    retto = Some((uid, 1));
                    let inner: Ret<u32> = match ctx {
                        Ctx::Meth(cx, st) if r % 3 == 2 && st.id == aid => st.self_ret_some_to(cx, clo),
                        _ => {
                            if r % 3 == 1 {
                                Ret::some_to_actor(actor, move |this: &mut Act, cx: &mut Cx<'_, Act>, m: u32| {
                                    this.meth_some(cx, clo, m)
                                })
                            } else {
                                ret_some_to!([actor], meth_some(clo) as (u32))
                            }
                        }
                    };
                    Ret::new(move |m: Option<u32>| {
                        log_ret(r, &m);
                        match m {
                            Some(v) => {
                                sub_later(&q, uid);
                                inner.ret(v)
                            }
                            None => drop(inner),
                        }
                    })
                }
            };
            ev(format!("retnew {}", r));
            if let Some((uid, some)) = retto {
                ev(format!("retto {} {} {}", r, uid, some));
            }
            created(LK_RET, r);
            bind(*h, Handle::Ret(RetH { r, ret }));
        }
        Act_::RetSend(h, v) => {
            let is_ret = with_handle(fr, *h, |hv| matches!(hv, Some(Handle::Ret(_))));
            if !is_ret {
                return bad(26);
            }
            if let Some(Handle::Ret(RetH { r, ret })) = take(fr, *h) {
                ev(format!("retsent {} {}", r, v));
                ret!([ret], *v);
            }
        }
        Act_::NewFwd(h, f, k) => {
            if FWDS.with(|s| s.borrow().contains(f)) {
                return bad(27);
            }
            let f = *f;
            let fh = match k {
                FwdK::Clos(body) => {
                    let body = body.clone();
                    let tok = FwdTok(f);
                    ev(format!("fwdnew {}", f));
                    created(LK_FWD, f);
                    FwdH {
                        f,
                        to: None,
                        fwd: fwd_do!(move |m: Msg| {
                            let _keep = &tok;
                            ev(format!("fwd {} {}", f, m.v));
                            let mut fr = Frame {
                                loc: Vec::new(),
                                die: false,
                            };
                            interp(&body, &mut Ctx::None, &mut fr);
                        }),
                    }
                }
                FwdK::To(ht, c) => {
                    let (actor, aid) = match handle_actor2(fr, *ht) {
                        Some(a) => a,
                        None => return bad(27),
                    };
                    FwdH {
                        f,
                        to: Some((*c, aid)),
                        fwd: match ctx {
                            Ctx::Meth(cx, st) if f % 3 == 2 && st.id == aid => st.self_fwd_to(cx),
                            _ => {
                                if f % 3 == 1 {
                                    Fwd::to_actor(actor, move |this: &mut Act, cx: &mut Cx<'_, Act>, m: Msg| this.meth_fwd(cx, m))
                                } else {
                                    fwd_to!([actor], meth_fwd() as (Msg))
                                }
                            }
                        },
                    }
                }
            };
            FWDS.with(|s| s.borrow_mut().insert(f));
            bind(*h, Handle::Fwd(fh));
        }
        Act_::FwdSend(h, v) => {
            let fh = with_handle(fr, *h, |hv| match hv {
                Some(Handle::Fwd(f)) => Some(f.clone()),
                _ => None,
            });
            match fh {
                Some(fh) => {
                    let msg = match fh.to {
                        Some((c, aid)) => {
                            let clo = make_call_nocaps(c);
                            ev(format!("target {} {} 0", clo.guard.uid, aid));
                            sub(&clo, 'm');
                            Msg {
                                clo: Some(clo),
                                v: *v,
                            }
                        }
                        None => Msg { clo: None, v: *v },
                    };
                    fwd!([fh.fwd], msg);
                    drop(fh);
                }
                None => bad(28),
            }
        }
        Act_::NewTok(h, t, script) => {
            ev(format!("toknew {}", t));
            created(LK_TOK, *t);
            bind(
                *h,
                Handle::Tok(TokH {
                    t: *t,
                    script: script.clone(),
                }),
            );
        }
        Act_::Log(l) => {
            let id = ctx.log_id();
            match ctx.core() {
                Some(core) => {
                    ev(format!("logreq {} {}", id, l));
                    core.log(id, level_of(*l), "", format_args!("x"), |_| {})
                }
                None => bad(29),
            }
        }
        Act_::LogCheck(l) => match ctx.core() {
            Some(core) => ev(format!("logcheck {} {}", l, core.log_check(level_of(*l)) as u8)),
            None => bad(30),
        },
        Act_::Now => match ctx.core() {
            Some(core) => ev(format!("num 8 {}", ms_of(core.now()))),
            None => bad(31),
        },
        Act_::Start => match ctx.core() {
            Some(core) => ev(format!("num 9 {}", ms_of(core.start_instant()))),
            None => bad(32),
        },
        Act_::Shutdown => match ctx.core() {
            Some(core) => {
                ev(format!("bool 6 {}", core.not_shutdown() as u8));
                core.shutdown(StopCause::Stopped);
            }
            None => bad(33),
        },
        Act_::Rep(n, l) => {
            for _ in 0..*n {
                interp(l, ctx, fr);
            }
        }
    }
}

fn log_ret(r: u32, m: &Option<u32>) {
    ev(format!(
        "ret {} {}",
        r,
        match m {
            Some(v) => v.to_string(),
            None => "none".to_string(),
        }
    ));
    consumed(LK_RET, r);
}

// ---------------------------------------------------------------------------------------------
// top level

#[cfg(feature = "logger")]
fn install_logger(s: &mut Stakker, lvls: &[u32]) {
    struct V {
        parent: u64,
        marker: u32,
    }
    impl LogVisitor for V {
        fn kv_u64(&mut self, key: Option<&str>, val: u64) {
            if key == Some("parent") {
                self.parent = val;
            }
        }
        fn kv_i64(&mut self, _: Option<&str>, _: i64) {}
        fn kv_f64(&mut self, _: Option<&str>, _: f64) {}
        fn kv_bool(&mut self, _: Option<&str>, _: bool) {}
        fn kv_null(&mut self, key: Option<&str>) {
            match key {
                Some("failed") => self.marker = 1,
                Some("killed") => self.marker = 2,
                Some("dropped") => self.marker = 3,
                Some("lost") => self.marker = 4,
                _ => {}
            }
        }
        fn kv_str(&mut self, _: Option<&str>, _: &str) {}
        fn kv_fmt(&mut self, key: Option<&str>, _: &std::fmt::Arguments<'_>) {
            if key == Some("filter") {
                self.marker = 9;
            }
        }
        fn kv_map(&mut self, _: Option<&str>) {}
        fn kv_mapend(&mut self, _: Option<&str>) {}
        fn kv_arr(&mut self, _: Option<&str>) {}
        fn kv_arrend(&mut self, _: Option<&str>) {}
    }
    // VERIF_LOGGER_REENTER=1: the logger behaves like one that lazily starts a back-end while it handles a record: on
    // every Open record it allocates a LogID of its own through the public `Core::log_span_open` (nothing is delivered
    // for that nested call: the logger is taken out of Core while it runs).  Real-trace-only pass of ./check C20.
    let reenter = std::env::var("VERIF_LOGGER_REENTER").map(|v| v == "1").unwrap_or(false);
    s.set_logger(filter_of(lvls), move |core, r| {
        let mut v = V {
            parent: 0,
            marker: 0,
        };
        (r.kvscan)(&mut v);
        ev(format!("log {} {} {} {}", r.id, r.level as u32, v.parent, v.marker));
        if reenter && r.level == LogLevel::Open {
            let _ = core.log_span_open("verif-nested", 0, |_| {});
        }
    });
}
#[cfg(not(feature = "logger"))]
fn install_logger(_s: &mut Stakker, _lvls: &[u32]) {}

fn new_stakker(t: i64) -> Stakker {
    ev(format!("new {}", t));
    let s = Stakker::new(at(t));
    DEFERRER.with(|d| *d.borrow_mut() = Some(s.deferrer()));
    TVARS.with(|tv| tv.borrow_mut().clear());
    TQ.with(|tv| tv.borrow_mut().clear());
    s
}

fn drop_stakker(st: &mut Option<Stakker>) {
    if let Some(s) = st.take() {
        ev("dropbegin".to_string());
        drop(s);
        ev("dropend".to_string());
    }
}

fn drop_all() {
    loop {
        let v = ENV.with(|e| {
            let mut e = e.borrow_mut();
            let k = e.keys().next().copied();
            k.and_then(|k| e.remove(&k))
        });
        match v {
            Some(v) => drop(v),
            None => break,
        }
    }
}

fn run_case(ops: &[Top]) {
    let mut st: Option<Stakker> = None;
    let stp = &mut st;
    let r = std::panic::catch_unwind(std::panic::AssertUnwindSafe(|| {
        for op in ops {
            match op {
                Top::New(t) => {
                    drop_stakker(stp);
                    *stp = Some(new_stakker(*t));
                }
                Top::Run(t, idle) => match stp {
                    Some(s) => {
                        ev(format!("runbegin {} {}", t, *idle as u8));
                        let b = s.run(at(*t), *idle);
                        ev(format!("runret {}", b as u8));
                    }
                    None => bad(50),
                },
                Top::Do(acts) => {
                    let mut fr = Frame {
                        loc: Vec::new(),
                        die: false,
                    };
                    match stp {
                        Some(s) => interp(acts, &mut Ctx::Stk(s), &mut fr),
                        None => interp(acts, &mut Ctx::None, &mut fr),
                    }
                    drop(fr);
                }
                Top::DropStakker => drop_stakker(stp),
                Top::DropAll => drop_all(),
                Top::SetLogger(lvls) => match stp {
                    Some(s) => {
                        ev(lvls.iter().fold("setlogger".to_string(), |a, l| format!("{} {}", a, l)));
                        install_logger(s, lvls)
                    }
                    None => bad(51),
                },
                Top::SetFilter(lvls) => match stp {
                    Some(s) => {
                        ev(lvls.iter().fold("setfilter".to_string(), |a, l| format!("{} {}", a, l)));
                        s.set_log_filter(filter_of(lvls))
                    }
                    None => bad(52),
                },
            }
        }
        // epilogue (mirrors MEpilogue of the model)
        ev("epilogue".to_string());
        drop_stakker(stp);
        drop_all();
        for _ in 0..2 {
            *stp = Some(new_stakker(0));
            drop_stakker(stp);
            drop_all();
        }
    }));
    let status = match r {
        Ok(()) => "done".to_string(),
        Err(e) => {
            let msg = match e.downcast::<String>() {
                Ok(v) => *v,
                Err(e) => match e.downcast::<&str>() {
                    Ok(v) => v.to_string(),
                    Err(_) => "?".to_string(),
                },
            };
            ev(format!("panic {}", msg.replace('\n', " ")));
            "panic".to_string()
        }
    };
    // leaks: everything created and never consumed
    let live: Vec<((u8, u32), i64)> = LIVE.with(|l| l.borrow().iter().map(|(k, v)| (*k, *v)).collect());
    for ((k, id), n) in live {
        for _ in 0..n.max(0) {
            ev(format!("leak {} {}", k, id));
        }
        if n < 0 {
            ev(format!("bad 901 overconsumed {} {} {}", k, id, n));
        }
    }
    let lines = TRACE.with(|t| std::mem::take(&mut *t.borrow_mut()));
    let mut out = String::new();
    for l in lines {
        out.push_str(&l);
        out.push('\n');
    }
    out.push_str(&format!("endcase {}\n", status));
    print!("{}", out);
    // purge (muted): whatever is still parked in the global/thread-local defer queue or in our tables
    MUTE.with(|m| m.set(true));
    let _ = std::panic::catch_unwind(std::panic::AssertUnwindSafe(|| {
        if let Some(s) = st.take() {
            drop(s);
        }
        drop_all();
        for _ in 0..4 {
            let s = Stakker::new(base());
            drop(s);
        }
        drop_all();
        DEFERRER.with(|d| *d.borrow_mut() = None);
    }));
    MUTE.with(|m| m.set(false));
}

fn reset_case(prog: Rc<Vec<Rc<CloSpec>>>) {
    TRACE.with(|t| t.borrow_mut().clear());
    NUID.with(|n| n.set(1));
    LIVE.with(|l| l.borrow_mut().clear());
    TVARS.with(|l| l.borrow_mut().clear());
    TQ.with(|l| l.borrow_mut().clear());
    ACTORS.with(|l| l.borrow_mut().clear());
    FWDS.with(|l| l.borrow_mut().clear());
    PROG.with(|p| *p.borrow_mut() = prog);
}

fn main() {
    let args: Vec<String> = std::env::args().collect();
    if args.len() < 2 {
        eprintln!("usage: r_interp <cases-file>");
        std::process::exit(2);
    }
    std::panic::set_hook(Box::new(|_| {}));
    BASE.with(|b| b.set(Some(Instant::now())));
    let text = std::fs::read_to_string(&args[1]).expect("read cases");
    let mut name: Option<String> = None;
    let mut lines: Vec<String> = Vec::new();
    for line in text.lines() {
        let ws: Vec<&str> = line.split_whitespace().collect();
        if ws.is_empty() || ws[0] == "#" {
            continue;
        }
        if ws[0] == "case" && ws.len() == 2 {
            name = Some(ws[1].to_string());
            lines.clear();
        } else if ws[0] == "end" && ws.len() == 1 {
            if let Some(n) = name.take() {
                println!("case {}", n);
                match parse_case(&lines) {
                    Ok((ops, arena)) => {
                        reset_case(Rc::new(arena));
                        run_case(&ops);
                    }
                    Err(e) => println!("endcase parse-error {}", e),
                }
            }
        } else {
            lines.push(line.to_string());
        }
    }
}
