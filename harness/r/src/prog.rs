//! Program AST and parser of the line-oriented DSL text format (docs/layer_r.md).
use std::rc::Rc;

#[derive(Clone, Copy, PartialEq, Eq, Debug)]
pub enum Tk {
    F,
    X,
    N,
}

pub struct CloSpec {
    pub id: u32,
    pub size: u8,
    pub align: u8,
    pub caps: Vec<u32>,
    pub body: Rc<Vec<Act_>>,
}

pub enum Notif {
    Log,
    To(u32, usize),
}

pub enum RetK {
    Clos(Vec<u32>, Rc<Vec<Act_>>),
    To(u32, usize),
    SomeTo(u32, usize),
}

pub enum FwdK {
    Clos(Rc<Vec<Act_>>),
    To(u32, usize),
}

pub enum Act_ {
    Defer(usize),
    DeferD(usize),
    Lazy(usize),
    Idle(usize),
    TAdd(Tk, u32, i64, usize),
    After(u32, i64, usize),
    TMac(Tk, u32, i64, usize),
    TUpd(Tk, u32, i64),
    TDel(Tk, u32),
    TAct(Tk, u32),
    Actor(u32, u32, Notif),
    Call(u32, usize),
    CallPrep(u32, bool, usize),
    Stop,
    Fail(u32),
    Kill(u32, u32),
    KillA(u32, u32),
    Owned(u32, u32),
    Clone(u32, u32),
    Anon(u32, u32),
    Store(u32),
    DropH(u32),
    PDropH(u32),
    SlabAdd(u32, u32, Notif),
    SlabLen,
    IsZombie(u32),
    NewRet(u32, u32, RetK),
    RetSend(u32, u32),
    NewFwd(u32, u32, FwdK),
    FwdSend(u32, u32),
    NewTok(u32, u32, Vec<usize>),
    Log(u32),
    LogCheck(u32),
    Now,
    Start,
    Shutdown,
    Rep(u32, Rc<Vec<Act_>>),
}

pub enum Top {
    New(i64),
    Run(i64, bool),
    Do(Vec<Act_>),
    DropStakker,
    DropAll,
    SetLogger(Vec<u32>),
    SetFilter(Vec<u32>),
}

struct P<'a> {
    t: Vec<&'a str>,
    i: usize,
    arena: Vec<Rc<CloSpec>>,
}

type R<T> = Result<T, String>;

impl<'a> P<'a> {
    fn next(&mut self) -> R<&'a str> {
        if self.i >= self.t.len() {
            return Err("eof".into());
        }
        self.i += 1;
        Ok(self.t[self.i - 1])
    }
    fn peek(&self) -> &'a str {
        if self.i >= self.t.len() {
            ""
        } else {
            self.t[self.i]
        }
    }
    fn expect(&mut self, s: &str) -> R<()> {
        let x = self.next()?;
        if x != s {
            return Err(format!("expected {} got {}", s, x));
        }
        Ok(())
    }
    fn int(&mut self) -> R<i64> {
        let x = self.next()?;
        x.parse::<i64>().map_err(|_| format!("int: {}", x))
    }
    fn u(&mut self) -> R<u32> {
        Ok(self.int()? as u32)
    }
    fn b(&mut self) -> R<bool> {
        Ok(self.int()? != 0)
    }
    fn tk(&mut self) -> R<Tk> {
        match self.next()? {
            "f" => Ok(Tk::F),
            "x" => Ok(Tk::X),
            "n" => Ok(Tk::N),
            x => Err(format!("tk {}", x)),
        }
    }
    fn ulist(&mut self) -> R<Vec<u32>> {
        self.expect("[")?;
        let mut v = Vec::new();
        while self.peek() != "]" {
            v.push(self.u()?);
        }
        self.next()?;
        Ok(v)
    }
    fn acts(&mut self) -> R<Vec<Act_>> {
        self.expect("[")?;
        let mut v = Vec::new();
        while self.peek() != "]" {
            v.push(self.act()?);
        }
        self.next()?;
        Ok(v)
    }
    fn clos(&mut self) -> R<Vec<usize>> {
        self.expect("[")?;
        let mut v = Vec::new();
        while self.peek() != "]" {
            v.push(self.clo()?);
        }
        self.next()?;
        Ok(v)
    }
    fn clo(&mut self) -> R<usize> {
        self.expect("clo")?;
        let id = self.u()?;
        let size = self.u()? as u8;
        let align = self.u()? as u8;
        let caps = self.ulist()?;
        let body = Rc::new(self.acts()?);
        self.arena.push(Rc::new(CloSpec {
            id,
            size,
            align,
            caps,
            body,
        }));
        Ok(self.arena.len() - 1)
    }
    fn notif(&mut self) -> R<Notif> {
        match self.next()? {
            "-" => Ok(Notif::Log),
            "to" => {
                let h = self.u()?;
                Ok(Notif::To(h, self.clo()?))
            }
            x => Err(format!("notif {}", x)),
        }
    }
    fn act(&mut self) -> R<Act_> {
        Ok(match self.next()? {
            "defer" => Act_::Defer(self.clo()?),
            "deferd" => Act_::DeferD(self.clo()?),
            "lazy" => Act_::Lazy(self.clo()?),
            "idle" => Act_::Idle(self.clo()?),
            "tadd" => {
                let k = self.tk()?;
                let v = self.u()?;
                let t = self.int()?;
                Act_::TAdd(k, v, t, self.clo()?)
            }
            "after" => {
                let v = self.u()?;
                let d = self.int()?;
                Act_::After(v, d, self.clo()?)
            }
            "tmac" => {
                let k = self.tk()?;
                let v = self.u()?;
                let t = self.int()?;
                Act_::TMac(k, v, t, self.clo()?)
            }
            "tupd" => {
                let k = self.tk()?;
                let v = self.u()?;
                Act_::TUpd(k, v, self.int()?)
            }
            "tdel" => {
                let k = self.tk()?;
                Act_::TDel(k, self.u()?)
            }
            "tact" => {
                let k = self.tk()?;
                Act_::TAct(k, self.u()?)
            }
            "actor" => {
                let h = self.u()?;
                let a = self.u()?;
                Act_::Actor(h, a, self.notif()?)
            }
            "call" => {
                let h = self.u()?;
                Act_::Call(h, self.clo()?)
            }
            "callprep" => {
                let h = self.u()?;
                let r = self.b()?;
                Act_::CallPrep(h, r, self.clo()?)
            }
            "stop" => Act_::Stop,
            "fail" => Act_::Fail(self.u()?),
            "kill" => {
                let h = self.u()?;
                Act_::Kill(h, self.u()?)
            }
            "killa" => {
                let h = self.u()?;
                Act_::KillA(h, self.u()?)
            }
            "owned" => {
                let h = self.u()?;
                Act_::Owned(h, self.u()?)
            }
            "clone" => {
                let h = self.u()?;
                Act_::Clone(h, self.u()?)
            }
            "anon" => {
                let h = self.u()?;
                Act_::Anon(h, self.u()?)
            }
            "store" => Act_::Store(self.u()?),
            "droph" => Act_::DropH(self.u()?),
            "pdrop" => Act_::PDropH(self.u()?),
            "slabadd" => {
                let h = self.u()?;
                let a = self.u()?;
                Act_::SlabAdd(h, a, self.notif()?)
            }
            "slablen" => Act_::SlabLen,
            "iszombie" => Act_::IsZombie(self.u()?),
            "newret" => {
                let h = self.u()?;
                let r = self.u()?;
                let k = match self.next()? {
                    "clos" => {
                        let caps = self.ulist()?;
                        RetK::Clos(caps, Rc::new(self.acts()?))
                    }
                    "to" => {
                        let ht = self.u()?;
                        RetK::To(ht, self.clo()?)
                    }
                    "someto" => {
                        let ht = self.u()?;
                        RetK::SomeTo(ht, self.clo()?)
                    }
                    x => return Err(format!("retk {}", x)),
                };
                Act_::NewRet(h, r, k)
            }
            "retsend" => {
                let h = self.u()?;
                Act_::RetSend(h, self.u()?)
            }
            "newfwd" => {
                let h = self.u()?;
                let f = self.u()?;
                let k = match self.next()? {
                    "clos" => FwdK::Clos(Rc::new(self.acts()?)),
                    "to" => {
                        let ht = self.u()?;
                        FwdK::To(ht, self.clo()?)
                    }
                    x => return Err(format!("fwdk {}", x)),
                };
                Act_::NewFwd(h, f, k)
            }
            "fwdsend" => {
                let h = self.u()?;
                Act_::FwdSend(h, self.u()?)
            }
            "newtok" => {
                let h = self.u()?;
                let t = self.u()?;
                Act_::NewTok(h, t, self.clos()?)
            }
            "log" => Act_::Log(self.u()?),
            "logcheck" => Act_::LogCheck(self.u()?),
            "now" => Act_::Now,
            "start" => Act_::Start,
            "shutdown" => Act_::Shutdown,
            "rep" => {
                let n = self.u()?;
                Act_::Rep(n, Rc::new(self.acts()?))
            }
            x => return Err(format!("act {}", x)),
        })
    }
    fn top(&mut self) -> R<Top> {
        Ok(match self.next()? {
            "new" => Top::New(self.int()?),
            "run" => {
                let t = self.int()?;
                Top::Run(t, self.b()?)
            }
            "do" => Top::Do(self.acts()?),
            "dropstakker" => Top::DropStakker,
            "dropall" => Top::DropAll,
            "setlogger" => Top::SetLogger(self.ulist()?),
            "setfilter" => Top::SetFilter(self.ulist()?),
            x => return Err(format!("top {}", x)),
        })
    }
}

pub fn parse_case(lines: &[String]) -> Result<(Vec<Top>, Vec<Rc<CloSpec>>), String> {
    let mut ops = Vec::new();
    let mut arena = Vec::new();
    for l in lines {
        let mut p = P {
            t: l.split_whitespace().collect(),
            i: 0,
            arena: std::mem::take(&mut arena),
        };
        ops.push(p.top()?);
        arena = p.arena;
    }
    Ok((ops, arena))
}
