// Generates $OUT_DIR/queues.rs: module wrappers around the REAL src/queue/flat.rs and src/queue/boxed.rs
// of the repository under verification (env VERIF_REPO, default /repo).
use std::env;
use std::fs;
use std::path::PathBuf;

fn main() {
    println!("cargo:rerun-if-changed=build.rs");
    println!("cargo:rerun-if-env-changed=VERIF_REPO");
    let repo = env::var("VERIF_REPO").unwrap_or_else(|_| "/repo".to_string());
    let repo = fs::canonicalize(&repo).unwrap_or_else(|e| panic!("VERIF_REPO={}: {}", repo, e));
    let flat = repo.join("src/queue/flat.rs");
    let boxed = repo.join("src/queue/boxed.rs");
    for p in [&flat, &boxed] {
        assert!(p.is_file(), "missing {}", p.display());
        println!("cargo:rerun-if-changed={}", p.display());
    }
    let text = format!(
        "#[path = {:?}]\npub mod flat;\n#[path = {:?}]\npub mod boxed;\n",
        flat.to_str().unwrap(),
        boxed.to_str().unwrap()
    );
    let out = PathBuf::from(env::var("OUT_DIR").unwrap()).join("queues.rs");
    fs::write(&out, text).unwrap();
}
