//! Layer Q correspondence harness: runs the REAL `src/queue/flat.rs` and `src/queue/boxed.rs` of the repository
//! under verification (env VERIF_REPO at build time, default /repo; see build.rs) on case files and prints the
//! canonical trace that `exec/q_driver.ml` prints for the extracted Coq model.
//!
//!   q_harness flat  <casefile>     FnOnceQueue of flat.rs  (prints `geom` lines)
//!   q_harness boxed <casefile>     FnOnceQueue of boxed.rs (no `geom` lines)
//!   q_harness meta                 chain item size and size/align of the closure of every nominal class
//!
//! Case file format and canonical output: see the header of /verif/exec/q_driver.ml.
#![allow(dead_code)]
#![allow(unused_macros)]
#![allow(clippy::all)]

use std::alloc::{GlobalAlloc, Layout, System};
use std::cell::RefCell;
use std::collections::HashMap;
use std::fmt::Write as FmtWrite;
use std::io::Write;
use std::panic::{catch_unwind, AssertUnwindSafe};
use std::rc::Rc;
use std::sync::atomic::{AtomicUsize, Ordering};

// pub mod flat; pub mod boxed;  (the real sources, through #[path] = "<repo>/src/queue/...")
include!(concat!(env!("OUT_DIR"), "/queues.rs"));

// ---------------------------------------------------------------------------------------------
// Allocator: the case decides `address mod 128` of every HVec buffer
// ---------------------------------------------------------------------------------------------

/// `base mod 128` of the next buffer-like allocation (multiple of 8, 0..=120); set before every push.
static RESIDUE: AtomicUsize = AtomicUsize::new(0);

struct ShiftAlloc;

#[inline]
fn shifted(layout: &Layout) -> bool {
    layout.align() == 8 && layout.size() >= 1024 && layout.size().is_power_of_two()
}

unsafe impl GlobalAlloc for ShiftAlloc {
    unsafe fn alloc(&self, layout: Layout) -> *mut u8 {
        if shifted(&layout) {
            let big = Layout::from_size_align_unchecked(layout.size() + 128, 128);
            let p = System.alloc(big);
            if p.is_null() {
                return p;
            }
            p.add(RESIDUE.load(Ordering::Relaxed) & 120)
        } else {
            System.alloc(layout)
        }
    }
    unsafe fn dealloc(&self, ptr: *mut u8, layout: Layout) {
        if shifted(&layout) {
            let big = Layout::from_size_align_unchecked(layout.size() + 128, 128);
            System.dealloc(ptr.sub(ptr as usize & 127), big)
        } else {
            System.dealloc(ptr, layout)
        }
    }
    // realloc / alloc_zeroed: the default implementations (through alloc/dealloc above)
}

#[global_allocator]
static GLOBAL: ShiftAlloc = ShiftAlloc;

// ---------------------------------------------------------------------------------------------
// Payload bytes, identity, hash
// ---------------------------------------------------------------------------------------------

const S_LIST: [usize; 48] = [
    0, 1, 2, 3, 4, 7, 8, 9, 15, 16, 17, 24, 31, 32, 33, 48, 63, 64, 65, 100, 127, 128, 129, 255, 256, 257, 511, 512,
    1000, 1023, 1024, 1025, 2047, 2048, 4095, 4096,
    // just below a power of two: req + 32 (the chained-queue item) crosses the next growth boundary
    2016, 2024, 2032, 2040, 4064, 4072, 4080, 4088,
    // 2^k - align for the large alignments: the alignment slack of `req` decides whether the next buffer size suffices
    1920, 1984, 3968, 4032,
];
const A_LIST: [usize; 8] = [1, 2, 4, 8, 16, 32, 64, 128];

/// effective size of the nominal class (S, A): S rounded up to a multiple of A
const fn rnd(s: usize, a: usize) -> usize {
    (s + a - 1) / a * a
}

fn gen_bytes(tag: u32, n: usize, seed: u32) -> Vec<u8> {
    let mut b = vec![0u8; n];
    let mut x = seed;
    for i in 0..n {
        x = x.wrapping_mul(1103515245).wrapping_add(12345) & 0x7fff_ffff;
        b[i] = ((x >> 16) & 0xff) as u8;
    }
    for i in 0..n.min(4) {
        b[i] = (tag >> (8 * i)) as u8;
    }
    b
}

fn fnv(b: &[u8]) -> u32 {
    let mut h: u32 = 0x811c9dc5;
    for &x in b {
        h = (h ^ x as u32).wrapping_mul(16777619);
    }
    h
}

/// identity of a closure, recovered from its own captured bytes (and its type parameter K when N < 4)
fn ident(b: &[u8], k: u8) -> u32 {
    let n = b.len();
    let mut tag = 0u32;
    for i in 0..n.min(4) {
        tag |= (b[i] as u32) << (8 * i);
    }
    if n < 4 {
        tag |= (k as u32) << (8 * n);
    }
    tag
}

thread_local! {
    /// closures dropped un-run (a dropped closure has no access to the context)
    static DROPS: RefCell<Vec<String>> = RefCell::new(Vec::new());
}

fn record_drop(b: &[u8], a: usize, k: u8) {
    let line = format!("drop {} {} {} {:08x}", ident(b, k), b.len(), a, fnv(b));
    let _ = DROPS.try_with(|d| d.borrow_mut().push(line));
}

fn take_drops() -> Vec<String> {
    DROPS.with(|d| std::mem::take(&mut *d.borrow_mut()))
}

// ---------------------------------------------------------------------------------------------
// The closure family
// ---------------------------------------------------------------------------------------------

pub trait Pay: Sized + 'static {
    const A: usize;
    const N: usize;
    const KK: u8;
    fn from_bytes(b: &[u8]) -> Self;
    fn bytes(&self) -> &[u8];
}

macro_rules! payloads {
    ($($name:ident $a:literal),*) => { $(
        #[repr(C, align($a))]
        pub struct $name<const N: usize, const K: u8>([u8; N]);
        impl<const N: usize, const K: u8> Drop for $name<N, K> {
            fn drop(&mut self) {
                record_drop(&self.0, $a, K);
            }
        }
        impl<const N: usize, const K: u8> Pay for $name<N, K> {
            const A: usize = $a;
            const N: usize = N;
            const KK: u8 = K;
            fn from_bytes(b: &[u8]) -> Self {
                let mut x = [0u8; N];
                x.copy_from_slice(b);
                $name(x)
            }
            fn bytes(&self) -> &[u8] {
                &self.0
            }
        }
    )* };
}
payloads!(P1 1, P2 2, P4 4, P8 8, P16 16, P32 32, P64 64, P128 128);

macro_rules! pay_ty {
    (1, $n:expr, $k:expr) => { P1<{ $n }, { $k }> };
    (2, $n:expr, $k:expr) => { P2<{ $n }, { $k }> };
    (4, $n:expr, $k:expr) => { P4<{ $n }, { $k }> };
    (8, $n:expr, $k:expr) => { P8<{ $n }, { $k }> };
    (16, $n:expr, $k:expr) => { P16<{ $n }, { $k }> };
    (32, $n:expr, $k:expr) => { P32<{ $n }, { $k }> };
    (64, $n:expr, $k:expr) => { P64<{ $n }, { $k }> };
    (128, $n:expr, $k:expr) => { P128<{ $n }, { $k }> };
}

/// What to do with the payload type of a class (push a closure of it / measure it).
pub trait Visit {
    type R;
    fn visit<P: Pay>(self) -> Self::R;
}

macro_rules! class_row {
    ($s:ident, $a:ident, $k:ident, $v:ident; $sv:tt; [$($av:tt)*]) => { $(
        if $s == $sv && $a == $av && $k == 0 {
            return Some($v.visit::<pay_ty!($av, rnd($sv, $av), 0)>());
        }
    )* };
}
macro_rules! class_table {
    ($s:ident, $a:ident, $k:ident, $v:ident; [$($sv:tt)*] $al:tt) => { $(
        class_row!($s, $a, $k, $v; $sv; $al);
    )* };
}
// classes of effective size N < 4: K = 1, 2, 3 are further closure types (K = 0 is in the main table)
macro_rules! small_row {
    ($s:ident, $a:ident, $k:ident, $v:ident; $sv:tt $av:tt; [$($kv:tt)*]) => { $(
        if $s == $sv && $a == $av && $k == $kv {
            return Some($v.visit::<pay_ty!($av, rnd($sv, $av), $kv)>());
        }
    )* };
}
macro_rules! small_table {
    ($s:ident, $a:ident, $k:ident, $v:ident; $(($sv:tt $av:tt))*) => { $(
        small_row!($s, $a, $k, $v; $sv $av; [1 2 3]);
    )* };
}

/// The big generated match on (S, A, K).  None: not a class.
pub fn dispatch<V: Visit>(s: usize, a: usize, k: u8, v: V) -> Option<V::R> {
    class_table!(s, a, k, v;
        [0 1 2 3 4 7 8 9 15 16 17 24 31 32 33 48 63 64 65 100 127 128 129 255 256 257 511 512
         1000 1023 1024 1025 2047 2048 4095 4096
         2016 2024 2032 2040 4064 4072 4080 4088
         1920 1984 3968 4032]
        [1 2 4 8 16 32 64 128]);
    small_table!(s, a, k, v;
        (0 1) (0 2) (0 4) (0 8) (0 16) (0 32) (0 64) (0 128) (1 1) (2 1) (3 1) (1 2) (2 2));
    None
}

// ---------------------------------------------------------------------------------------------
// Case files
// ---------------------------------------------------------------------------------------------

pub struct Def {
    s: usize,
    a: usize,
    n: usize,
    k: u8,
    bytes: Vec<u8>,
}

#[derive(Clone, Copy)]
pub struct PushReq {
    q: usize,
    boxed: bool,
    tag: u32,
    base: u64,
}

pub enum Op {
    Push(PushReq),
    Exec(usize),
    Empty(usize),
    Drop(usize),
}

pub struct Case {
    name: String,
    nq: usize,
    defs: HashMap<u32, Def>,
    scripts: HashMap<u32, Vec<PushReq>>,
    ops: Vec<(String, Op)>,
}

fn parse_cases(text: &str) -> Result<Vec<Rc<Case>>, String> {
    fn num<T: std::str::FromStr>(w: &str, ln: usize) -> Result<T, String> {
        w.parse::<T>().map_err(|_| format!("line {}: bad number `{}`", ln, w))
    }
    fn pushreq(w: &[&str], ln: usize) -> Result<PushReq, String> {
        let boxed = match w[1] {
            "0" => false,
            "1" => true,
            _ => return Err(format!("line {}: box must be 0 or 1", ln)),
        };
        let base: u64 = num(w[3], ln)?;
        if base % 8 != 0 {
            return Err(format!("line {}: base must be a multiple of 8", ln));
        }
        Ok(PushReq { q: num(w[0], ln)?, boxed, tag: num(w[2], ln)?, base })
    }
    fn finish(c: Case, ln: usize) -> Result<Rc<Case>, String> {
        if c.nq < 1 || c.nq > 4 {
            return Err(format!("line {}: case {}: nq must be 1..4", ln, c.name));
        }
        let chk = |p: &PushReq| -> Result<(), String> {
            if p.q >= c.nq {
                return Err(format!("case {}: queue {} out of range", c.name, p.q));
            }
            if !c.defs.contains_key(&p.tag) {
                return Err(format!("case {}: closure {} is not defined", c.name, p.tag));
            }
            Ok(())
        };
        for (t, ps) in c.scripts.iter() {
            if !c.defs.contains_key(t) {
                return Err(format!("case {}: script of undefined closure {}", c.name, t));
            }
            for p in ps {
                chk(p)?;
            }
        }
        for (_, op) in c.ops.iter() {
            match op {
                Op::Push(p) => chk(p)?,
                Op::Exec(q) | Op::Empty(q) | Op::Drop(q) => {
                    if *q >= c.nq {
                        return Err(format!("case {}: queue {} out of range", c.name, q));
                    }
                }
            }
        }
        Ok(Rc::new(c))
    }

    let mut cases = Vec::new();
    let mut cur: Option<Case> = None;
    for (i, raw) in text.lines().enumerate() {
        let ln = i + 1;
        let w: Vec<&str> = raw.split_whitespace().collect();
        if w.is_empty() || w[0].starts_with('#') {
            continue;
        }
        if w[0] == "case" {
            if cur.is_some() {
                return Err(format!("line {}: `case` inside a case", ln));
            }
            if w.len() != 2 {
                return Err(format!("line {}: case <name>", ln));
            }
            cur = Some(Case { name: w[1].to_string(), nq: 0, defs: HashMap::new(), scripts: HashMap::new(), ops: Vec::new() });
            continue;
        }
        let c = match cur.as_mut() {
            Some(c) => c,
            None => return Err(format!("line {}: `{}` outside a case", ln, w[0])),
        };
        let argc = match w[0] {
            "end" => 0,
            "nq" | "exec" | "empty" | "drop" => 1,
            "def" | "push" => 4,
            "script" => 5,
            _ => return Err(format!("line {}: unknown keyword `{}`", ln, w[0])),
        };
        if w.len() != argc + 1 {
            return Err(format!("line {}: `{}` takes {} fields", ln, w[0], argc));
        }
        match w[0] {
            "end" => {
                cases.push(finish(cur.take().unwrap(), ln)?);
            }
            "nq" => c.nq = num(w[1], ln)?,
            "def" | "script" if !c.ops.is_empty() => {
                return Err(format!("line {}: def/script after the first op", ln));
            }
            "def" => {
                let tag: u32 = num(w[1], ln)?;
                let s: usize = num(w[2], ln)?;
                let a: usize = num(w[3], ln)?;
                let seed: u32 = num(w[4], ln)?;
                if !S_LIST.contains(&s) || !A_LIST.contains(&a) {
                    return Err(format!("line {}: ({}, {}) is not a nominal class", ln, s, a));
                }
                let n = rnd(s, a);
                let k = if n < 4 {
                    if (tag as u64) >= 1u64 << (8 * n + 2) {
                        return Err(format!("line {}: tag {} too large for a closure of {} bytes", ln, tag, n));
                    }
                    (tag >> (8 * n)) as u8
                } else {
                    0
                };
                if c.defs.insert(tag, Def { s, a, n, k, bytes: gen_bytes(tag, n, seed) }).is_some() {
                    return Err(format!("line {}: closure {} defined twice", ln, tag));
                }
            }
            "script" => {
                let tag: u32 = num(w[1], ln)?;
                c.scripts.entry(tag).or_default().push(pushreq(&w[2..], ln)?);
            }
            "push" => {
                let p = pushreq(&w[1..], ln)?;
                c.ops.push((w.join(" "), Op::Push(p)));
            }
            "exec" => c.ops.push((w.join(" "), Op::Exec(num(w[1], ln)?))),
            "empty" => c.ops.push((w.join(" "), Op::Empty(num(w[1], ln)?))),
            "drop" => c.ops.push((w.join(" "), Op::Drop(num(w[1], ln)?))),
            _ => unreachable!(),
        }
    }
    if let Some(c) = cur {
        return Err(format!("case {}: missing `end`", c.name));
    }
    Ok(cases)
}

// ---------------------------------------------------------------------------------------------
// Runner modules: one per queue implementation, each with its own concrete context type
// ---------------------------------------------------------------------------------------------

macro_rules! runner {
    ($m:ident, $qm:ident, $geom:expr) => {
        pub mod $m {
            use super::*;
            use std::mem::ManuallyDrop;

            pub(crate) type Queue = crate::$qm::FnOnceQueue<Ctx>;

            /// The context the closures run against; it owns the queues, so a running closure can push onto
            /// the OTHER queues (the one being executed is taken out of `qs` for the duration, as in Stakker).
            pub struct Ctx {
                qs: Vec<Queue>,
                out: String,
                case: Rc<Case>,
                cur: Option<usize>,
            }

            /// The closure of a class: captures ONLY `payload`.
            #[inline(always)]
            pub fn mk<P: Pay>(payload: P) -> impl FnOnce(&mut Ctx) + 'static {
                move |ctx: &mut Ctx| {
                    let p = payload;
                    ctx.on_run(p.bytes(), P::A, P::KK);
                    std::mem::forget(p);
                }
            }

            struct PushV<'a> {
                queue: &'a mut Queue,
                boxed: bool,
                bytes: &'a [u8],
            }
            impl<'a> Visit for PushV<'a> {
                type R = ();
                #[inline]
                fn visit<P: Pay>(self) {
                    let f = mk::<P>(P::from_bytes(self.bytes));
                    let (sz, al) = (std::mem::size_of_val(&f), std::mem::align_of_val(&f));
                    if sz != P::N || al != P::A {
                        panic!("closure layout ({}, {}) is not the class layout ({}, {})", sz, al, P::N, P::A);
                    }
                    if self.boxed {
                        self.queue.push_box(Box::new(f));
                    } else {
                        self.queue.push(f);
                    }
                }
            }

            pub struct MetaV;
            impl Visit for MetaV {
                type R = (usize, usize);
                fn visit<P: Pay>(self) -> (usize, usize) {
                    let f = mk::<P>(P::from_bytes(&vec![0u8; P::N]));
                    let r = (std::mem::size_of_val(&f), std::mem::align_of_val(&f));
                    std::mem::forget(f);
                    r
                }
            }

            impl Ctx {
                fn new(case: Rc<Case>) -> Ctx {
                    let qs = (0..case.nq).map(|_| Queue::new()).collect();
                    Ctx { qs, out: String::new(), case, cur: None }
                }

                /// push / push_box of the closure `tag` (top-level or from a running closure)
                fn push(&mut self, p: PushReq) {
                    if self.cur == Some(p.q) {
                        panic!("push onto the queue being executed");
                    }
                    let case = self.case.clone();
                    let d = case.defs.get(&p.tag).expect("undefined closure");
                    RESIDUE.store((p.base % 128) as usize, Ordering::Relaxed);
                    let v = PushV { queue: &mut self.qs[p.q], boxed: p.boxed, bytes: &d.bytes };
                    dispatch(d.s, d.a, d.k, v).expect("not a class");
                }

                /// called by a running closure with the bytes it holds
                fn on_run(&mut self, b: &[u8], a: usize, k: u8) {
                    let tag = ident(b, k);
                    let case = self.case.clone();
                    let good = match case.defs.get(&tag) {
                        Some(d) => d.a == a && d.bytes.as_slice() == b,
                        None => false,
                    };
                    let _ = writeln!(self.out, "run {} {} {} {:08x}{}", tag, b.len(), a, fnv(b), if good { "" } else { " BAD" });
                    if let Some(ps) = case.scripts.get(&tag) {
                        for p in ps {
                            self.push(*p);
                        }
                    }
                }

                fn report_drops(&mut self) {
                    let mut d = take_drops();
                    d.sort();
                    let _ = writeln!(self.out, "dropped {}", d.len());
                    for l in d {
                        self.out.push_str(&l);
                        self.out.push('\n');
                    }
                }
            }

            fn body(ctx: &mut Ctx, case: &Case, w: &mut dyn Write) {
                let geom: fn(&Queue) -> Option<(usize, usize, usize)> = $geom;
                let _ = writeln!(w, "case {}", case.name);
                for (k, (line, op)) in case.ops.iter().enumerate() {
                    let _ = writeln!(w, "op {} {}", k, line);
                    let _ = w.flush();
                    match op {
                        Op::Push(p) => ctx.push(*p),
                        Op::Exec(i) => {
                            let i = *i;
                            // on a panic the queue is leaked, not dropped (its state may be corrupt)
                            let mut q = ManuallyDrop::new(std::mem::replace(&mut ctx.qs[i], Queue::new()));
                            ctx.cur = Some(i);
                            q.execute(ctx);
                            ctx.cur = None;
                            assert!(ctx.qs[i].is_empty(), "placeholder queue is not empty");
                            ctx.qs[i] = ManuallyDrop::into_inner(q);
                        }
                        Op::Empty(i) => {
                            let e = ctx.qs[*i].is_empty();
                            let _ = writeln!(ctx.out, "empty {}", e as u8);
                        }
                        Op::Drop(i) => {
                            drop(std::mem::replace(&mut ctx.qs[*i], Queue::new()));
                            ctx.report_drops();
                        }
                    }
                    // never expected: closures dropped by something else than `drop` (would show up as a difference)
                    if DROPS.with(|d| !d.borrow().is_empty()) {
                        ctx.report_drops();
                    }
                    let _ = w.write_all(ctx.out.as_bytes());
                    ctx.out.clear();
                    for (qi, q) in ctx.qs.iter().enumerate() {
                        if let Some((base, len, cap)) = geom(q) {
                            let _ = writeln!(w, "geom {} {} {} {}", qi, base % 128, len, cap);
                        }
                    }
                }
                for q in std::mem::take(&mut ctx.qs) {
                    drop(q);
                }
                let _ = writeln!(w, "end {}", take_drops().len());
            }

            pub fn run_case(case: &Rc<Case>, w: &mut dyn Write) {
                take_drops();
                let mut ctx = Ctx::new(case.clone());
                let r = catch_unwind(AssertUnwindSafe(|| body(&mut ctx, case, &mut *w)));
                if r.is_err() {
                    let _ = w.write_all(ctx.out.as_bytes());
                    let _ = writeln!(w, "panic");
                    let _ = writeln!(w, "end -");
                    // the queues may be corrupt: leak them
                    std::mem::forget(ctx);
                    take_drops();
                }
                let _ = w.flush();
            }
        }
    };
}

runner!(flat_run, flat, |q| Some(q.verif_geometry()));
runner!(boxed_run, boxed, |_q| None);

// ---------------------------------------------------------------------------------------------

fn usage() -> ! {
    eprintln!("usage: q_harness flat <casefile> | q_harness boxed <casefile> | q_harness meta");
    std::process::exit(2)
}

fn main() {
    std::panic::set_hook(Box::new(|_| {}));
    let args: Vec<String> = std::env::args().collect();
    let stdout = std::io::stdout();
    let mut w = std::io::BufWriter::with_capacity(1 << 16, stdout.lock());
    match args.get(1).map(|s| s.as_str()) {
        Some("meta") if args.len() == 2 => {
            let _ = writeln!(w, "chain_item_size {}", std::mem::size_of::<(*mut (), flat::FnOnceQueue<()>)>());
            for &s in S_LIST.iter() {
                for &a in A_LIST.iter() {
                    let (sz, al) = dispatch(s, a, 0, flat_run::MetaV).expect("class list and class table differ");
                    let _ = writeln!(w, "class {} {} {} {}", s, a, sz, al);
                }
            }
        }
        Some(mode @ ("flat" | "boxed")) if args.len() == 3 => {
            let text = match std::fs::read_to_string(&args[2]) {
                Ok(t) => t,
                Err(e) => {
                    eprintln!("q_harness: {}: {}", args[2], e);
                    std::process::exit(2)
                }
            };
            let cases = match parse_cases(&text) {
                Ok(c) => c,
                Err(e) => {
                    eprintln!("q_harness: {}: {}", args[2], e);
                    std::process::exit(2)
                }
            };
            if mode == "flat" {
                // Stakker::new does this once; a failure is reported as a line the model never prints
                if catch_unwind(|| flat::FnOnceQueue::<()>::sanity_check()).is_err() {
                    let _ = writeln!(w, "sanity_check panic");
                }
            }
            for c in cases.iter() {
                if mode == "flat" {
                    flat_run::run_case(c, &mut w);
                } else {
                    boxed_run::run_case(c, &mut w);
                }
            }
        }
        _ => usage(),
    }
    let _ = w.flush();
}
