// pass-through "shim": stakker::verif_std is plain std (used by the layers that need no scheduling)
pub use ::std::*;
