// Scheduler shim for the verification of stakker's `sync` module (Layer W).
//
// This file is `include!`d into the stakker crate as `stakker::verif_std` when the crate is
// built with `--cfg uazu_stakker_verif` (env UAZU_STAKKER_VERIF_STD points here).  The three
// files src/sync/{waker,channel,thread}.rs then say `use crate::verif_std as std;`, so every
// `std::...` path in them resolves into this module.
//
// Everything is re-exported from the real `std` except
//   sync::atomic::AtomicUsize   (wraps the real one; every operation is a controller step)
//   sync::{Mutex, MutexGuard, Condvar}
//   thread::spawn
//
// PASS-THROUGH: while the controller is inactive (the default), or on a thread that is not
// registered with the controller, every one of these behaves exactly like the std type it
// wraps (one relaxed load of a flag and one thread-local read of overhead).
//
// CONTROLLED MODE (between `ctl::begin` and `ctl::end`): registered threads are real OS threads
// but exactly one of them runs at a time (a baton).  A thread gives up the baton at a *yield
// point*, which sits immediately BEFORE every intercepted operation.  One scheduling decision =
// one step = the intercepted operation plus the thread-local code that follows it up to the next
// yield point.  Threads whose next operation is a `lock` of a mutex held by another thread, or
// that sit in `Condvar::wait` without having been notified, are not schedulable.  If no thread is
// schedulable while some thread has not finished, that is a deadlock: the abort hook is called with
// the event log and the process exits.

pub use ::std::*;

#[allow(dead_code)]
pub mod ctl {
    use ::std::cell::Cell;
    use ::std::collections::HashMap;
    use ::std::sync::atomic::{AtomicBool, Ordering};
    use ::std::sync::{Condvar, Mutex, MutexGuard};

    /// One logged event.  `kind`:
    ///   "A"  atomic op      obj=address a=old b=new text="<op> <ordering>"
    ///   "L"  mutex lock     obj=mutex address
    ///   "U"  mutex unlock   obj=mutex address
    ///   "CW" condvar wait (release mutex, enter wait set)   obj=condvar a=mutex
    ///   "CR" condvar wake-up (re-acquire mutex)             obj=condvar a=mutex
    ///   "N"  notify         obj=condvar a=number of controlled waiters released
    ///   "S"  thread start
    ///   "J"  join_all
    ///   "I"  wait_idle
    ///   "E"  thread exit (logged inside the thread's last step; not for thread 0)
    ///   "X"  abort (deadlock / step limit)   text=reason
    ///   anything else: harness events logged through `yield_event` / `note`
    #[derive(Clone, Debug)]
    pub struct Event {
        pub step: u64,
        pub tid: usize,
        pub kind: &'static str,
        pub obj: usize,
        pub a: usize,
        pub b: usize,
        pub text: String,
    }

    #[derive(Clone, Debug)]
    pub enum Sched {
        /// Run these thread ids in this order; entries naming a thread that is not schedulable are
        /// skipped (counted in `Report::skipped`); afterwards seeded random choice.
        Tids(Vec<usize>),
        /// Priority schedule (PCT): always run the schedulable thread of highest priority; at the
        /// given step numbers the thread chosen at that step drops below every other priority.
        /// Threads beyond `prio.len()` get priority 1000 - tid.
        Pct { prio: Vec<u64>, change: Vec<u64> },
    }

    #[derive(Clone, Debug)]
    pub struct Config {
        pub sched: Sched,
        pub seed: u64,
        pub max_steps: u64,
    }

    #[derive(Clone, Debug, Default)]
    pub struct Report {
        pub events: Vec<Event>,
        /// the thread id chosen at each step (step numbers start at 1; main's code before its
        /// first yield point belongs to "step 0")
        pub tids: Vec<usize>,
        pub skipped: u64,
        pub aborted: Option<String>,
        pub threads: usize,
    }

    #[derive(Clone, Copy, PartialEq, Debug)]
    enum Next {
        Any,
        Lock(usize),
        Join, // schedulable once every other thread has finished
        Idle, // schedulable when no other thread is schedulable (all finished or blocked)
    }

    #[derive(Clone, Copy, PartialEq, Debug)]
    enum St {
        Running,
        Ready(Next),
        CvWait(usize, usize), // (condvar, mutex): in the wait set, not notified
        Finished,
    }

    struct Ctl {
        active: bool,
        th: Vec<St>,
        current: Option<usize>,
        owner: HashMap<usize, usize>,
        cfg: Config,
        pos: usize,
        prio: Vec<u64>,
        nchange: u64,
        rng: u64,
        step: u64,
        rep: Report,
        done: bool,
        hook: Option<Box<dyn FnOnce(&Report) + Send>>,
    }

    static ACTIVE: AtomicBool = AtomicBool::new(false);
    static CTL: Mutex<Option<Ctl>> = Mutex::new(None);
    static CV: Condvar = Condvar::new();

    thread_local! {
        static TID: Cell<Option<usize>> = const { Cell::new(None) };
    }

    fn lock_ctl() -> MutexGuard<'static, Option<Ctl>> {
        CTL.lock().unwrap_or_else(|e| e.into_inner())
    }

    /// Thread id of the calling thread if the controller is active and the thread is registered.
    #[inline]
    pub fn tid() -> Option<usize> {
        if !ACTIVE.load(Ordering::Relaxed) {
            return None;
        }
        TID.try_with(|t| t.get()).ok().flatten()
    }

    pub fn is_active() -> bool {
        ACTIVE.load(Ordering::Relaxed)
    }

    impl Ctl {
        fn enabled0(&self, t: usize) -> bool {
            match self.th[t] {
                St::Ready(Next::Any) | St::Ready(Next::Idle) => true,
                St::Ready(Next::Lock(m)) => !self.owner.contains_key(&m),
                St::Ready(Next::Join) => (0..self.th.len()).all(|u| u == t || self.th[u] == St::Finished),
                _ => false,
            }
        }

        fn log(&mut self, tid: usize, kind: &'static str, obj: usize, a: usize, b: usize, text: String) {
            let step = self.step;
            self.rep.events.push(Event { step, tid, kind, obj, a, b, text });
        }

        fn enabled(&self, t: usize) -> bool {
            match self.th[t] {
                St::Ready(Next::Any) => true,
                St::Ready(Next::Lock(m)) => !self.owner.contains_key(&m),
                St::Ready(Next::Join) => (0..self.th.len()).all(|u| u == t || self.th[u] == St::Finished),
                St::Ready(Next::Idle) => (0..self.th.len()).all(|u| u == t || !self.enabled0(u)),
                _ => false,
            }
        }

        fn next_rand(&mut self) -> u64 {
            // xorshift64*
            let mut x = self.rng;
            x ^= x >> 12;
            x ^= x << 25;
            x ^= x >> 27;
            self.rng = x;
            x.wrapping_mul(0x2545F4914F6CDD1D)
        }

        fn prio_of(&mut self, t: usize) -> u64 {
            while self.prio.len() <= t {
                let k = self.prio.len() as u64;
                self.prio.push(100_000u64.saturating_sub(k));
            }
            self.prio[t]
        }

        /// Choose the next thread to run.  Returns Err(reason) on deadlock / step limit.
        fn pick_next(&mut self) -> Result<(), String> {
            self.current = None;
            let en: Vec<usize> = (0..self.th.len()).filter(|&t| self.enabled(t)).collect();
            if en.is_empty() {
                if self.th.iter().all(|s| *s == St::Finished) {
                    self.done = true;
                    return Ok(());
                }
                return Err("deadlock".to_string());
            }
            if self.step >= self.cfg.max_steps {
                return Err("steplimit".to_string());
            }
            let mut choice = None;
            match &self.cfg.sched {
                Sched::Tids(v) => {
                    while self.pos < v.len() {
                        let t = v[self.pos];
                        self.pos += 1;
                        if en.contains(&t) {
                            choice = Some(t);
                            break;
                        }
                        self.rep.skipped += 1;
                    }
                    if choice.is_none() {
                        let k = (self.next_rand() % en.len() as u64) as usize;
                        choice = Some(en[k]);
                    }
                }
                Sched::Pct { change, .. } => {
                    let change = change.clone();
                    let mut best = en[0];
                    for &t in &en {
                        if self.prio_of(t) > self.prio_of(best) {
                            best = t;
                        }
                    }
                    if change.contains(&(self.step + 1)) {
                        self.nchange += 1;
                        let low = 1000u64.saturating_sub(self.nchange);
                        self.prio_of(best);
                        self.prio[best] = low;
                    }
                    choice = Some(best);
                }
            }
            let t = choice.unwrap();
            self.step += 1;
            self.rep.tids.push(t);
            self.th[t] = St::Running;
            self.current = Some(t);
            Ok(())
        }
    }

    fn abort(mut g: MutexGuard<'static, Option<Ctl>>, reason: String) -> ! {
        let (hook, rep) = {
            let c = g.as_mut().unwrap();
            let step = c.step;
            c.rep.events.push(Event { step, tid: 0, kind: "X", obj: 0, a: 0, b: 0, text: reason.clone() });
            c.rep.aborted = Some(reason.clone());
            c.rep.threads = c.th.len();
            (c.hook.take(), c.rep.clone())
        };
        drop(g);
        match hook {
            Some(h) => {
                h(&rep);
                ::std::process::exit(0)
            }
            None => {
                eprintln!("verif_std::ctl: {} with no abort hook", reason);
                ::std::process::exit(101)
            }
        }
    }

    /// Give up the baton with `next` as the operation the thread is about to perform; returns when
    /// the thread has been scheduled again (and, for Lock, the mutex is free).
    fn yield_with(me: usize, next: Next) {
        let mut g = lock_ctl();
        {
            let c = match g.as_mut() {
                Some(c) if c.active => c,
                _ => return,
            };
            c.th[me] = St::Ready(next);
            if let Err(r) = c.pick_next() {
                abort(g, r);
            }
        }
        CV.notify_all();
        wait_baton(g, me);
    }

    fn wait_baton(mut g: MutexGuard<'static, Option<Ctl>>, me: usize) {
        loop {
            match g.as_ref() {
                Some(c) if c.active => {
                    if c.current == Some(me) {
                        return;
                    }
                }
                _ => return,
            }
            g = CV.wait(g).unwrap_or_else(|e| e.into_inner());
        }
    }

    // ---- API for the harness -------------------------------------------------------------

    /// Activate the controller and register the calling thread as thread 0 (it holds the baton).
    /// `hook` is called (on whichever thread detects it) with the report when the run is aborted
    /// because of a deadlock or the step limit; the process exits afterwards.
    pub fn begin(cfg: Config, hook: Box<dyn FnOnce(&Report) + Send>) {
        let mut g = lock_ctl();
        let prio = match &cfg.sched {
            Sched::Pct { prio, .. } => prio.clone(),
            _ => Vec::new(),
        };
        let seed = cfg.seed;
        *g = Some(Ctl {
            active: true,
            th: vec![St::Running],
            current: Some(0),
            owner: HashMap::new(),
            cfg,
            pos: 0,
            prio,
            nchange: 0,
            rng: seed.wrapping_mul(0x9E3779B97F4A7C15) | 1,
            step: 0,
            rep: Report::default(),
            done: false,
            hook: Some(hook),
        });
        TID.with(|t| t.set(Some(0)));
        ACTIVE.store(true, Ordering::SeqCst);
    }

    /// The calling thread (thread 0) has finished its script: let every other thread run to
    /// completion, deactivate the controller and return the report.
    pub fn end() -> Report {
        let me = match tid() {
            Some(t) => t,
            None => return Report::default(),
        };
        let mut g = lock_ctl();
        {
            let c = g.as_mut().unwrap();
            c.th[me] = St::Finished;
            if let Err(r) = c.pick_next() {
                abort(g, r);
            }
        }
        CV.notify_all();
        loop {
            if g.as_ref().unwrap().done {
                break;
            }
            g = CV.wait(g).unwrap_or_else(|e| e.into_inner());
        }
        let mut c = g.take().unwrap();
        ACTIVE.store(false, Ordering::SeqCst);
        TID.with(|t| t.set(None));
        drop(g);
        CV.notify_all();
        c.rep.threads = c.th.len();
        c.rep
    }

    /// A harness-level yield point that starts a new step and logs an event in it.
    pub fn yield_event(kind: &'static str, text: String) {
        if let Some(me) = tid() {
            yield_with(me, Next::Any);
            let mut g = lock_ctl();
            if let Some(c) = g.as_mut() {
                c.log(me, kind, 0, 0, 0, text);
            }
        }
    }

    /// A yield point that is schedulable only when every other registered thread has finished
    /// (logs a "J" event).  If some other thread can never finish this ends in a deadlock abort.
    pub fn join_all() {
        if let Some(me) = tid() {
            yield_with(me, Next::Join);
            let mut g = lock_ctl();
            if let Some(c) = g.as_mut() {
                c.log(me, "J", 0, 0, 0, String::new());
            }
        }
    }

    /// A yield point that is schedulable only when no other registered thread is schedulable (every
    /// other thread has finished or is blocked); logs an "I" event.
    pub fn wait_idle() {
        if let Some(me) = tid() {
            yield_with(me, Next::Idle);
            let mut g = lock_ctl();
            if let Some(c) = g.as_mut() {
                c.log(me, "I", 0, 0, 0, String::new());
            }
        }
    }

    /// Log a harness-level event inside the current step (no yield).
    pub fn note(kind: &'static str, text: String) {
        if let Some(me) = tid() {
            let mut g = lock_ctl();
            if let Some(c) = g.as_mut() {
                c.log(me, kind, 0, 0, 0, text);
            }
        }
    }

    // ---- used by the wrappers below ------------------------------------------------------

    pub(super) fn atomic_pre() -> Option<usize> {
        let me = tid()?;
        yield_with(me, Next::Any);
        Some(me)
    }

    pub(super) fn atomic_post(me: usize, obj: usize, op: &str, ord: Ordering, old: usize, new: usize) {
        let mut g = lock_ctl();
        if let Some(c) = g.as_mut() {
            c.log(me, "A", obj, old, new, format!("{} {:?}", op, ord));
        }
    }

    pub(super) fn lock_pre(m: usize) -> Option<usize> {
        let me = tid()?;
        yield_with(me, Next::Lock(m));
        let mut g = lock_ctl();
        if let Some(c) = g.as_mut() {
            c.owner.insert(m, me);
            c.log(me, "L", m, 0, 0, String::new());
        }
        Some(me)
    }

    /// Called with the baton, before the real guard is released.
    pub(super) fn unlock_pre(me: usize) {
        if tid() == Some(me) {
            yield_with(me, Next::Any);
        }
    }

    /// Called after the real guard has been released.
    pub(super) fn unlock_post(me: usize, m: usize) {
        if tid() == Some(me) {
            let mut g = lock_ctl();
            if let Some(c) = g.as_mut() {
                c.owner.remove(&m);
                c.log(me, "U", m, 0, 0, String::new());
            }
        }
    }

    pub(super) fn cv_wait_pre(me: usize) {
        if tid() == Some(me) {
            yield_with(me, Next::Any);
        }
    }

    /// The real guard has been released: enter the wait set, pass the baton, come back when
    /// notified and the mutex is free; the mutex is then owned again.
    pub(super) fn cv_wait(me: usize, cv: usize, m: usize) {
        if tid() != Some(me) {
            return;
        }
        let mut g = lock_ctl();
        {
            let c = match g.as_mut() {
                Some(c) if c.active => c,
                _ => return,
            };
            c.owner.remove(&m);
            c.log(me, "CW", cv, m, 0, String::new());
            c.th[me] = St::CvWait(cv, m);
            if let Err(r) = c.pick_next() {
                abort(g, r);
            }
        }
        CV.notify_all();
        wait_baton(g, me);
        let mut g = lock_ctl();
        if let Some(c) = g.as_mut() {
            c.owner.insert(m, me);
            c.log(me, "CR", cv, m, 0, String::new());
        }
    }

    pub(super) fn notify(cv: usize, all: bool) {
        if let Some(me) = tid() {
            yield_with(me, Next::Any);
            let mut g = lock_ctl();
            if let Some(c) = g.as_mut() {
                let mut n = 0;
                for t in 0..c.th.len() {
                    if let St::CvWait(cv2, m) = c.th[t] {
                        if cv2 == cv && (all || n == 0) {
                            c.th[t] = St::Ready(Next::Lock(m));
                            n += 1;
                        }
                    }
                }
                c.log(me, "N", cv, n, 0, String::new());
            }
        }
    }

    pub(super) fn register_child() -> Option<usize> {
        tid()?;
        let mut g = lock_ctl();
        let c = g.as_mut()?;
        c.th.push(St::Ready(Next::Any));
        Some(c.th.len() - 1)
    }

    pub(super) fn child_start(me: usize) {
        TID.with(|t| t.set(Some(me)));
        let g = lock_ctl();
        wait_baton(g, me);
        let mut g = lock_ctl();
        if let Some(c) = g.as_mut() {
            c.log(me, "S", 0, 0, 0, String::new());
        }
    }

    pub(super) fn child_exit(me: usize) {
        let was = tid();
        let _ = TID.try_with(|t| t.set(None));
        if was != Some(me) {
            return;
        }
        let mut g = lock_ctl();
        {
            let c = match g.as_mut() {
                Some(c) if c.active => c,
                _ => return,
            };
            c.log(me, "E", 0, 0, 0, String::new());
            c.th[me] = St::Finished;
            if let Err(r) = c.pick_next() {
                abort(g, r);
            }
        }
        drop(g);
        CV.notify_all();
    }
}

pub mod thread {
    pub use ::std::thread::*;

    /// `std::thread::spawn`; when called by a controlled thread the new thread is registered
    /// with the controller (thread ids are handed out in spawn order) and runs only with the baton.
    pub fn spawn<F, T>(f: F) -> ::std::thread::JoinHandle<T>
    where
        F: FnOnce() -> T + Send + 'static,
        T: Send + 'static,
    {
        match super::ctl::register_child() {
            None => ::std::thread::spawn(f),
            Some(child) => ::std::thread::spawn(move || {
                super::ctl::child_start(child);
                let r = ::std::panic::catch_unwind(::std::panic::AssertUnwindSafe(f));
                super::ctl::child_exit(child);
                match r {
                    Ok(v) => v,
                    Err(e) => ::std::panic::resume_unwind(e),
                }
            }),
        }
    }
}

pub mod sync {
    pub use ::std::sync::*;

    use ::std::fmt;
    use ::std::ops::{Deref, DerefMut};
    // (named through the glob re-export above; a private `use` here would hide them from users)
    use ::std::sync::PoisonError as PErr;
    use ::std::sync::TryLockError as TLErr;

    pub mod atomic {
        pub use ::std::sync::atomic::*;

        /// `std::sync::atomic::AtomicUsize`; on a controlled thread every operation is preceded by
        /// a yield point and logged as (address, op, old -> new).
        #[derive(Default)]
        #[repr(transparent)]
        pub struct AtomicUsize(::std::sync::atomic::AtomicUsize);

        macro_rules! rmw {
            ($name:ident, $new:expr) => {
                #[inline]
                pub fn $name(&self, val: usize, order: Ordering) -> usize {
                    let t = super::super::ctl::atomic_pre();
                    let old = self.0.$name(val, order);
                    if let Some(me) = t {
                        let f: fn(usize, usize) -> usize = $new;
                        super::super::ctl::atomic_post(me, self.addr(), stringify!($name), order, old, f(old, val));
                    }
                    old
                }
            };
        }

        impl AtomicUsize {
            #[inline]
            pub const fn new(v: usize) -> Self {
                Self(::std::sync::atomic::AtomicUsize::new(v))
            }
            #[inline]
            fn addr(&self) -> usize {
                self as *const Self as usize
            }
            #[inline]
            pub fn into_inner(self) -> usize {
                self.0.into_inner()
            }
            #[inline]
            pub fn get_mut(&mut self) -> &mut usize {
                self.0.get_mut()
            }
            #[inline]
            pub fn load(&self, order: Ordering) -> usize {
                let t = super::super::ctl::atomic_pre();
                let v = self.0.load(order);
                if let Some(me) = t {
                    super::super::ctl::atomic_post(me, self.addr(), "load", order, v, v);
                }
                v
            }
            #[inline]
            pub fn store(&self, val: usize, order: Ordering) {
                let t = super::super::ctl::atomic_pre();
                if let Some(me) = t {
                    // only one controlled thread runs at a time, so reading the old value for
                    // the log does not change what the store does
                    let old = self.0.load(Ordering::Relaxed);
                    self.0.store(val, order);
                    super::super::ctl::atomic_post(me, self.addr(), "store", order, old, val);
                } else {
                    self.0.store(val, order);
                }
            }
            rmw!(swap, |_o, v| v);
            rmw!(fetch_or, |o, v| o | v);
            rmw!(fetch_and, |o, v| o & v);
            rmw!(fetch_xor, |o, v| o ^ v);
            rmw!(fetch_add, |o, v| o.wrapping_add(v));
            rmw!(fetch_sub, |o, v| o.wrapping_sub(v));
            rmw!(fetch_max, |o, v| o.max(v));
            rmw!(fetch_min, |o, v| o.min(v));
            #[inline]
            pub fn compare_exchange(&self, current: usize, new: usize, success: Ordering, failure: Ordering) -> Result<usize, usize> {
                let t = super::super::ctl::atomic_pre();
                let r = self.0.compare_exchange(current, new, success, failure);
                if let Some(me) = t {
                    match r {
                        Ok(old) => super::super::ctl::atomic_post(me, self.addr(), "cas_ok", success, old, new),
                        Err(old) => super::super::ctl::atomic_post(me, self.addr(), "cas_fail", failure, old, old),
                    }
                }
                r
            }
            #[inline]
            pub fn compare_exchange_weak(&self, current: usize, new: usize, success: Ordering, failure: Ordering) -> Result<usize, usize> {
                if super::super::ctl::tid().is_some() {
                    // no spurious failures under the controller (keeps runs deterministic)
                    self.compare_exchange(current, new, success, failure)
                } else {
                    self.0.compare_exchange_weak(current, new, success, failure)
                }
            }
        }

        impl ::std::fmt::Debug for AtomicUsize {
            fn fmt(&self, f: &mut ::std::fmt::Formatter<'_>) -> ::std::fmt::Result {
                ::std::fmt::Debug::fmt(&self.0, f)
            }
        }

        impl From<usize> for AtomicUsize {
            fn from(v: usize) -> Self {
                Self::new(v)
            }
        }
    }

    /// `std::sync::Mutex`; lock and unlock are controller steps on a controlled thread.
    #[derive(Default)]
    pub struct Mutex<T: ?Sized> {
        inner: ::std::sync::Mutex<T>,
    }

    pub struct MutexGuard<'a, T: ?Sized + 'a> {
        g: Option<::std::sync::MutexGuard<'a, T>>,
        m: &'a Mutex<T>,
        tid: Option<usize>,
    }

    impl<T> Mutex<T> {
        #[inline]
        pub const fn new(t: T) -> Self {
            Self { inner: ::std::sync::Mutex::new(t) }
        }
        pub fn into_inner(self) -> LockResult<T> {
            self.inner.into_inner()
        }
    }

    impl<T: ?Sized> Mutex<T> {
        #[inline]
        fn addr(&self) -> usize {
            self as *const Self as *const u8 as usize
        }

        pub fn lock(&self) -> LockResult<MutexGuard<'_, T>> {
            let tid = super::ctl::lock_pre(self.addr());
            match self.inner.lock() {
                Ok(g) => Ok(MutexGuard { g: Some(g), m: self, tid }),
                Err(p) => Err(PErr::new(MutexGuard { g: Some(p.into_inner()), m: self, tid })),
            }
        }

        pub fn try_lock(&self) -> TryLockResult<MutexGuard<'_, T>> {
            // not used by the modelled sources; never a controller step
            match self.inner.try_lock() {
                Ok(g) => Ok(MutexGuard { g: Some(g), m: self, tid: None }),
                Err(TLErr::Poisoned(p)) => {
                    Err(TLErr::Poisoned(PErr::new(MutexGuard { g: Some(p.into_inner()), m: self, tid: None })))
                }
                Err(TLErr::WouldBlock) => Err(TLErr::WouldBlock),
            }
        }

        pub fn is_poisoned(&self) -> bool {
            self.inner.is_poisoned()
        }

        pub fn get_mut(&mut self) -> LockResult<&mut T> {
            self.inner.get_mut()
        }
    }

    impl<T> From<T> for Mutex<T> {
        fn from(t: T) -> Self {
            Self::new(t)
        }
    }

    impl<T: ?Sized + fmt::Debug> fmt::Debug for Mutex<T> {
        fn fmt(&self, f: &mut fmt::Formatter<'_>) -> fmt::Result {
            fmt::Debug::fmt(&self.inner, f)
        }
    }

    impl<T: ?Sized> Deref for MutexGuard<'_, T> {
        type Target = T;
        #[inline]
        fn deref(&self) -> &T {
            self.g.as_ref().expect("verif_std: guard in use")
        }
    }

    impl<T: ?Sized> DerefMut for MutexGuard<'_, T> {
        #[inline]
        fn deref_mut(&mut self) -> &mut T {
            self.g.as_mut().expect("verif_std: guard in use")
        }
    }

    impl<T: ?Sized> Drop for MutexGuard<'_, T> {
        fn drop(&mut self) {
            match self.tid {
                Some(me) => {
                    super::ctl::unlock_pre(me);
                    drop(self.g.take());
                    super::ctl::unlock_post(me, self.m.addr());
                }
                None => drop(self.g.take()),
            }
        }
    }

    impl<T: ?Sized + fmt::Debug> fmt::Debug for MutexGuard<'_, T> {
        fn fmt(&self, f: &mut fmt::Formatter<'_>) -> fmt::Result {
            fmt::Debug::fmt(&**self, f)
        }
    }

    impl<T: ?Sized + fmt::Display> fmt::Display for MutexGuard<'_, T> {
        fn fmt(&self, f: &mut fmt::Formatter<'_>) -> fmt::Result {
            fmt::Display::fmt(&**self, f)
        }
    }

    /// `std::sync::Condvar`.  On a controlled thread `wait` is two steps (release the mutex and
    /// enter the wait set; re-acquire after a notify) and the notifies are one step each; there
    /// are no spurious wake-ups under the controller.
    #[derive(Default)]
    pub struct Condvar {
        inner: ::std::sync::Condvar,
    }

    impl Condvar {
        #[inline]
        pub const fn new() -> Self {
            Self { inner: ::std::sync::Condvar::new() }
        }

        #[inline]
        fn addr(&self) -> usize {
            self as *const Self as usize
        }

        pub fn wait<'a, T>(&self, mut guard: MutexGuard<'a, T>) -> LockResult<MutexGuard<'a, T>> {
            match guard.tid {
                Some(me) if super::ctl::tid() == Some(me) => {
                    super::ctl::cv_wait_pre(me);
                    drop(guard.g.take());
                    super::ctl::cv_wait(me, self.addr(), guard.m.addr());
                    match guard.m.inner.lock() {
                        Ok(g) => {
                            guard.g = Some(g);
                            Ok(guard)
                        }
                        Err(p) => {
                            guard.g = Some(p.into_inner());
                            Err(PErr::new(guard))
                        }
                    }
                }
                _ => {
                    let g = guard.g.take().expect("verif_std: guard in use");
                    match self.inner.wait(g) {
                        Ok(g) => {
                            guard.g = Some(g);
                            Ok(guard)
                        }
                        Err(p) => {
                            guard.g = Some(p.into_inner());
                            Err(PErr::new(guard))
                        }
                    }
                }
            }
        }

        pub fn wait_while<'a, T, F>(&self, mut guard: MutexGuard<'a, T>, mut condition: F) -> LockResult<MutexGuard<'a, T>>
        where
            F: FnMut(&mut T) -> bool,
        {
            while condition(&mut *guard) {
                guard = match self.wait(guard) {
                    Ok(g) => g,
                    Err(p) => return Err(p),
                };
            }
            Ok(guard)
        }

        pub fn notify_all(&self) {
            super::ctl::notify(self.addr(), true);
            self.inner.notify_all();
        }

        pub fn notify_one(&self) {
            super::ctl::notify(self.addr(), false);
            self.inner.notify_one();
        }
    }

    impl fmt::Debug for Condvar {
        fn fmt(&self, f: &mut fmt::Formatter<'_>) -> fmt::Result {
            fmt::Debug::fmt(&self.inner, f)
        }
    }
}
