// placeholder pass-through shim (replaced by the Layer W scheduler shim)
pub use ::std::*;
