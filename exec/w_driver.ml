(* Driver around the extracted Layer W model (coq/extracted/w_model.ml).

   usage:  w_driver            < jobs

   Jobs on stdin:
     JOB <id>
     thread <tid> <cmd> ; <cmd> ; ...        (same syntax as harness/w conc_drv case files)
     tids <t> <t> ...                        (the schedule: thread id chosen at each step)
     RUN                                     -> prints the model trace of the run
     obs <line of a trace>                   (lines as printed by conc_drv or by RUN; ghost lines are ignored)
     MON                                     -> evaluates the extracted monitors C11..C14 on the `obs` lines of
                                                this job; prints "JOB <id>" and "MON C11=<0|1> C12=.. C13=.. C14=.." 
   Output per job:  "JOB <id>", then one line per event in the format of conc_drv
     "<step> <tid> <kind> <obj> <a> <b> <text>"   (objects by structural name: top, S<bm>, L<bm>.<a>, DL, CH<c>, PQ<p>, CV<p>;
     ghost events have a kind starting with '#'), then "END ...".
*)
open W_model

(* ---- numbers ---- *)
let rec pos_of_int (n : int) : positive =
  if n = 1 then XH else if n land 1 = 0 then XO (pos_of_int (n lsr 1)) else XI (pos_of_int (n lsr 1))
let z_of_int (n : int) : z = if n = 0 then Z0 else if n > 0 then Zpos (pos_of_int n) else Zneg (pos_of_int (-n))
let rec int_of_pos (p : positive) : int =
  match p with XH -> 1 | XO q -> 2 * int_of_pos q | XI q -> 2 * int_of_pos q + 1
let int_of_z (x : z) : int = match x with Z0 -> 0 | Zpos p -> int_of_pos p | Zneg p -> - (int_of_pos p)
let z_to_string (x : z) : string =
  match x with
  | Z0 -> "0"
  | _ ->
    let neg, p = (match x with Zneg p -> true, Zpos p | _ -> false, x) in
    let base = z_of_int 1000000000 in
    let rec go v acc =
      match v with
      | Z0 -> acc
      | _ ->
        let q = Z.div v base and r = Z.modulo v base in
        go q (int_of_z r :: acc) in
    let chunks = go p [] in
    let s = match chunks with
      | [] -> "0"
      | c :: rest -> string_of_int c ^ String.concat "" (List.map (Printf.sprintf "%09d") rest) in
    (if neg then "-" else "") ^ s
let z_of_string (s : string) : z =
  let neg = String.length s > 0 && s.[0] = '-' in
  let s = if neg then String.sub s 1 (String.length s - 1) else s in
  let ten = z_of_int 10 in
  let v = ref Z0 in
  String.iter (fun c -> v := Z.add (Z.mul !v ten) (z_of_int (Char.code c - 48))) s;
  if neg then Z.opp !v else !v
let rec nat_of_int (n : int) : nat = if n <= 0 then O else S (nat_of_int (n - 1))
let rec int_of_nat (n : nat) : int = match n with O -> 0 | S k -> 1 + int_of_nat k
let zs = z_to_string
let zi = int_of_z

(* ---- parsing ---- *)
let split s = List.filter (fun x -> x <> "") (String.split_on_char ' ' (String.trim s))

let parse_cmd (s : string) : cmd =
  match split s with
  | ["wake"; w] -> CWake (z_of_string w)
  | ["drop"; w] -> CDropW (z_of_string w)
  | ["send"; c; m] -> CSend (z_of_string c, z_of_string m)
  | ["send"; m] -> CLSend (z_of_string m)
  | ["lsend"; m] -> CLSend (z_of_string m)
  | ["closed"; c] -> CClosed (z_of_string c)
  | ["new"; w] -> CNew (z_of_string w)
  | ["fill"; n] -> CFill (z_of_string n)
  | ["poll"] -> CPoll
  | ["pollif"] -> CPollIf
  | ["spawn"] -> CSpawn
  | ["join"] -> CJoin
  | ["waitidle"] -> CWaitIdle
  | ["cnew"; c] -> CCNew (z_of_string c)
  | ["cdrop"; c] -> CCDrop (z_of_string c)
  | ["pnew"; p] -> CPNew (z_of_string p)
  | ["psend"; p; m] -> CPSend (z_of_string p, z_of_string m)
  | ["pdrop"; p] -> CPDrop (z_of_string p)
  | ["recv"] -> CRecv
  | ["cancel"] -> CCancel
  | ["panic"] -> CPanic
  | _ -> failwith ("bad command: " ^ s)

let cmd_text (c : cmd) : string =
  match c with
  | CWake w -> "wake " ^ zs w
  | CDropW w -> "drop " ^ zs w
  | CSend (c, m) -> "send " ^ zs c ^ " " ^ zs m
  | CClosed c -> "closed " ^ zs c
  | CNew w -> "new " ^ zs w
  | CFill n -> "fill " ^ zs n
  | CPoll -> "poll"
  | CPollIf -> "pollif"
  | CSpawn -> "spawn"
  | CJoin -> "join"
  | CWaitIdle -> "waitidle"
  | CCNew c -> "cnew " ^ zs c
  | CCDrop c -> "cdrop " ^ zs c
  | CPNew p -> "pnew " ^ zs p
  | CPSend (p, m) -> "psend " ^ zs p ^ " " ^ zs m
  | CPDrop p -> "pdrop " ^ zs p
  | CRecv -> "recv"
  | CLSend m -> "lsend " ^ zs m
  | CCancel -> "cancel"
  | CPanic -> "panic"

let ret_text (v : retv) : string =
  match v with
  | RUnit -> "-" | RBad -> "bad" | RShared -> "shared"
  | RBool true -> "1" | RBool false -> "0"
  | RVal v -> zs v | RNoneV -> "none"

let word_name (w : word) : string =
  match w with WTop -> "top" | WSum bm -> "S" ^ zs bm | WLeaf (bm, a) -> "L" ^ zs bm ^ "." ^ zs a
let mtx_name (m : mtx) : string =
  match m with MDL -> "DL" | MCh c -> "CH" ^ zs c | MPq p -> "PQ" ^ zs p
let hk_name (h : hkind) : string =
  match h with HPlain w -> "w" ^ zs w | HReserved -> "reserved" | HChan c -> "c" ^ zs c | HPipe p -> "p" ^ zs p
let ord_name (o : z) : string =
  match zi o with 0 -> "Relaxed" | 1 -> "Release" | 2 -> "Acquire" | 3 -> "AcqRel" | 4 -> "SeqCst" | _ -> "?"
let b01 (b : bool) = if b then "1" else "0"

(* kind obj a b text *)
let event_fields (e : wevent) : (string * string * string * string * string) option =
  match e with
  | EStart -> Some ("S", "0", "0", "0", "")
  | ECmd c -> Some ("C", "0", "0", "0", cmd_text c)
  | ERet v -> Some ("R", "0", "0", "0", ret_text v)
  | EAtomic (w, op, o, n, ord) ->
    Some ("A", word_name w, zs o, zs n, (match op with FetchOr -> "fetch_or" | Swap -> "swap") ^ " " ^ ord_name ord)
  | ELock m -> Some ("L", mtx_name m, "0", "0", "")
  | EUnlock m -> Some ("U", mtx_name m, "0", "0", "")
  | ECvWait p -> Some ("CW", "CV" ^ zs p, "PQ" ^ zs p, "0", "")
  | ECvWake p -> Some ("CR", "CV" ^ zs p, "PQ" ^ zs p, "0", "")
  | ENotifyCv (p, n) -> Some ("N", "CV" ^ zs p, zs n, "0", "")
  | ECallback -> Some ("NOTIFY", "0", "0", "0", "")
  | EHandler (HPlain w, d) -> Some ("H", "0", "0", "0", zs w ^ " " ^ b01 d)
  | EHandler (h, d) -> Some ("#H", "0", "0", "0", hk_name h ^ " " ^ b01 d)
  | EFwd (c, m) -> Some ("F", "0", "0", "0", zs c ^ " " ^ zs m)
  | EFwdRecv (p, m) -> Some ("FR", "0", "0", "0", zs p ^ " " ^ zs m)
  | ETerm (p, b) -> Some ("T", "0", "0", "0", zs p ^ " " ^ (if b then "boom" else "none"))
  | EJoin -> Some ("J", "0", "0", "0", "")
  | EIdle -> Some ("I", "0", "0", "0", "")
  | EExit -> Some ("E", "0", "0", "0", "")
  | EPub (h, ok) -> Some ("#PUB", "0", "0", "0", hk_name h ^ " " ^ b01 ok)
  | EDel (bit, h) -> Some ("#DEL", "0", "0", "0", zs bit ^ " " ^ hk_name h)
  | EAdd (bit, h) -> Some ("#ADD", "0", "0", "0", zs bit ^ " " ^ hk_name h)
  | EStutter -> Some ("STUTTER", "0", "0", "0", "")
  | EErr -> Some ("ERR", "0", "0", "0", "")

let () =
  let scripts : (int, cmd list) Hashtbl.t = Hashtbl.create 8 in
  let tids = ref [] in
  let jobid = ref "" in
  let obs : (nat * wevent) list ref = ref [] in
  let aborted = ref false in
  let curcmd : (int, cmd) Hashtbl.t = Hashtbl.create 8 in
  (try
     while true do
       let line = input_line stdin in
       let line = String.trim line in
       if line = "" || line.[0] = '#' then ()
       else
         let key, rest =
           match String.index_opt line ' ' with
           | Some i -> String.sub line 0 i, String.sub line (i + 1) (String.length line - i - 1)
           | None -> line, "" in
         match key with
         | "JOB" -> jobid := String.trim rest; Hashtbl.reset scripts; tids := []; obs := []; aborted := false;
           Hashtbl.reset curcmd
         | "obs" ->
           (match split rest with
            | _step :: t :: kind :: _obj :: _a :: _b :: text ->
              let ti = int_of_string t in
              let tn = nat_of_int ti in
              let push e = obs := (tn, e) :: !obs in
              let zz x = z_of_string x in
              (match kind, text with
               | "C", _ -> let c = parse_cmd (String.concat " " text) in Hashtbl.replace curcmd ti c; push (ECmd c)
               | "R", [v] ->
                 let cur = (try Some (Hashtbl.find curcmd ti) with Not_found -> None) in
                 Hashtbl.remove curcmd ti;
                 let rv = (match v, cur with
                     | "-", _ -> RUnit | "bad", _ -> RBad | "shared", _ -> RShared | "none", _ -> RNoneV
                     | x, Some CRecv -> RVal (zz x)
                     | "1", _ -> RBool true | "0", _ -> RBool false
                     | x, _ -> RVal (zz x)) in
                 push (ERet rv)
               | "NOTIFY", _ -> push ECallback
               | "H", [w; d] -> push (EHandler (HPlain (zz w), d = "1"))
               | "F", [c; m] -> push (EFwd (zz c, zz m))
               | "FR", [p; m] -> push (EFwdRecv (zz p, zz m))
               | "T", [p; v] -> push (ETerm (zz p, v <> "none"))
               | "J", _ -> push EJoin
               | "I", _ -> push EIdle
               | "E", _ -> push EExit
               | "S", _ -> push EStart
               | "X", _ -> aborted := true
               | "A", _ -> push (EAtomic (WTop, Swap, Z0, Z0, Z0))
               | "L", _ -> push (ELock MDL)
               | "U", _ -> push (EUnlock MDL)
               | "CW", _ -> push (ECvWait Z0)
               | "CR", _ -> push (ECvWake Z0)
               | "N", _ -> push (ENotifyCv (Z0, Z0))
               | _, _ -> ())
            | _ -> ())
         | "MON" ->
           let tr = List.rev !obs in
           Printf.printf "JOB %s\nMON C11=%s C12=%s C13=%s C14=%s\n" !jobid
             (b01 (c11_ok tr !aborted)) (b01 (c12_ok tr !aborted)) (b01 (c13_ok tr !aborted)) (b01 (c14_ok tr !aborted));
           flush stdout
         | "thread" ->
           let rest = String.trim rest in
           let t, sc =
             (match String.index_opt rest ' ' with
              | Some i -> String.sub rest 0 i, String.sub rest (i + 1) (String.length rest - i - 1)
              | None -> rest, "") in
           let cmds = List.filter (fun x -> String.trim x <> "") (String.split_on_char ';' sc) in
           Hashtbl.replace scripts (int_of_string t) (List.map parse_cmd cmds)
         | "tids" -> tids := List.map int_of_string (split rest)
         | "RUN" ->
           Printf.printf "JOB %s\n" !jobid;
           let scr (t : nat) : cmd list = (try Hashtbl.find scripts (int_of_nat t) with Not_found -> []) in
           let st = ref (winit scr) in
           let step = ref 0 in
           List.iter (fun t ->
               incr step;
               let (st1, evs) = wstep !st (nat_of_int t) in
               st := st1;
               List.iter (fun e ->
                   match event_fields e with
                   | Some (k, o, a, b, tx) -> Printf.printf "%d %d %s %s %s %s %s\n" !step t k o a b tx
                   | None -> ()) evs) !tids;
           let n = int_of_nat (!st).nthr in
           let unfinished = ref [] and en = ref [] in
           for u = n - 1 downto 0 do
             (if not (finished !st (nat_of_int u)) then unfinished := u :: !unfinished);
             (if enabled !st (nat_of_int u) then en := u :: !en)
           done;
           Printf.printf "END threads=%d steps=%d unfinished=%s enabled=%s pubok=%s ordering_ok=%s\n" n !step
             (String.concat "," (List.map string_of_int !unfinished))
             (String.concat "," (List.map string_of_int !en))
             (b01 (!st).gpubok) (b01 ordering_ok);
           flush stdout
         | _ -> ()
     done
   with End_of_file -> ())
