(* Driver around the extracted Layer T model (coq/extracted/t_model.ml).

   usage:  t_driver model   < cases     -> for every op: result line, then a state-dump line
           t_driver monitor < observed  -> for every op: verdict bits of the monitors on the OBSERVED results

   case format (shared with harness/t):
     case <name>
     <op> ...                         (in monitor mode each op line is followed by one line `= <observed result>`)
     end
   ops:  add NS CB | after DUR CB | addmax NS CB | addmin NS CB | del KEY | delmax KEY | delmin KEY
         modmax KEY NS | modmin KEY NS | actmax KEY | actmin KEY | run NS | ne | nw NS | nwm NS MAXDUR 0|1 | now
         pokeseq V | pokegnn KEY V
   KEY:  `k<i>` = the key returned by op number i (0-based) of this case, or `default`
   results: K slot g | B 0/1 | F id... | E none|ns | D ns | U | PANIC
*)
open T_model

(* ---- Z <-> decimal strings via arbitrary precision on the Coq representation ---- *)
let rec pos_of_int (n : int) : positive =
  if n = 1 then XH else if n land 1 = 0 then XO (pos_of_int (n lsr 1)) else XI (pos_of_int (n lsr 1))
let z_of_int (n : int) : z = if n = 0 then Z0 else if n > 0 then Zpos (pos_of_int n) else Zneg (pos_of_int (-n))
let rec int_of_pos (p : positive) : int =
  match p with XH -> 1 | XO q -> 2 * int_of_pos q | XI q -> 2 * int_of_pos q + 1
(* decimal printing without overflow: repeated division by 10^9 on the Coq Z *)
let z_to_string (x : z) : string =
  match x with
  | Z0 -> "0"
  | _ ->
    let neg, p = (match x with Zneg p -> true, Zpos p | _ -> false, x) in
    let base = z_of_int 1000000000 in
    let rec go v acc =
      match v with
      | Z0 -> acc
      | _ ->
        let q = Z.div v base and r = Z.modulo v base in
        let ri = (match r with Z0 -> 0 | Zpos p -> int_of_pos p | Zneg _ -> 0) in
        go q (ri :: acc) in
    let chunks = go p [] in
    let s = match chunks with
      | [] -> "0"
      | c :: rest -> string_of_int c ^ String.concat "" (List.map (Printf.sprintf "%09d") rest) in
    (if neg then "-" else "") ^ s
let z_of_string (s : string) : z =
  let neg = String.length s > 0 && s.[0] = '-' in
  let s = if neg then String.sub s 1 (String.length s - 1) else s in
  let ten = z_of_int 10 in
  let v = ref Z0 in
  String.iter (fun c -> v := Z.add (Z.mul !v ten) (z_of_int (Char.code c - 48))) s;
  if neg then Z.opp !v else !v

let zs = z_to_string

(* ---- parsing ---- *)
let split s = List.filter (fun x -> x <> "") (String.split_on_char ' ' (String.trim s))

(* a key reference of the wrong key type cannot be written in Rust; both drivers treat it as the Default key *)
type keyv = char * z * z
let resolve_k (want : char) (keys : (int, keyv) Hashtbl.t) (k : string) : z * z * z =
  let none = (z_of_int (-1), Z0, Z0) in
  if k = "default" then none
  else
    let i = int_of_string (String.sub k 1 (String.length k - 1)) in
    (try let (c, s, g) = Hashtbl.find keys i in if c = want || want = '*' then (z_of_int i, s, g) else none
     with Not_found -> none)

(* result of the most recent `ne` op of the case (used by `runne OFF FALLBACK`) *)
let last_ne : z option ref = ref None

let parse_op keys (ws : string list) : top =
  let z = z_of_string in
  match ws with
  | ["runne"; off; fb] ->
    (match !last_ne with Some t -> ORun (Z.add t (z off)) | None -> ORun (z fb))
  | ["add"; ns; cb] -> OAdd (z ns, z cb)
  | ["after"; d; cb] -> OAfter (z d, z cb)
  | ["addmax"; ns; cb] -> OAddMax (z ns, z cb)
  | ["addmin"; ns; cb] -> OAddMin (z ns, z cb)
  | ["del"; k] -> let (r, s, g) = resolve_k 'F' keys k in ODel (r, s, g)
  | ["delmax"; k] -> let (r, s, g) = resolve_k 'M' keys k in ODelMax (r, s, g)
  | ["delmin"; k] -> let (r, s, g) = resolve_k 'N' keys k in ODelMin (r, s, g)
  | ["modmax"; k; ns] -> let (r, s, g) = resolve_k 'M' keys k in OModMax (r, s, g, z ns)
  | ["modmin"; k; ns] -> let (r, s, g) = resolve_k 'N' keys k in OModMin (r, s, g, z ns)
  | ["actmax"; k] -> let (r, s, g) = resolve_k 'M' keys k in OActMax (r, s, g)
  | ["actmin"; k] -> let (r, s, g) = resolve_k 'N' keys k in OActMin (r, s, g)
  | ["run"; ns] -> ORun (z ns)
  | ["ne"] -> ONextExpiry
  | ["nw"; ns] -> ONextWait (z ns)
  | ["nwm"; ns; m; p] -> ONextWaitMax (z ns, z m, p = "1")
  | ["now"] -> ONow
  | ["pokeseq"; v] -> OPokeSeq (z v)
  | ["pokegnn"; k; v] -> let (_, s, _) = resolve_k '*' keys k in OPokeGnn (s, z v)
  | _ -> failwith ("bad op: " ^ String.concat " " ws)

let out_to_string (o : tout) : string =
  match o with
  | RKey (s, g) -> Printf.sprintf "K %s %s" (zs s) (zs g)
  | RBool b -> if b then "B 1" else "B 0"
  | RFired l -> String.concat " " ("F" :: List.map zs l)
  | ROptNs None -> "E none"
  | ROptNs (Some t) -> "E " ^ zs t
  | RNs d -> "D " ^ zs d
  | RUnit -> "U"

let parse_out (ws : string list) : tout option =
  let z = z_of_string in
  match ws with
  | ["PANIC"] -> None
  | ["K"; s; g] -> Some (RKey (z s, z g))
  | ["B"; b] -> Some (RBool (b = "1"))
  | "F" :: l -> Some (RFired (List.map z l))
  | ["E"; "none"] -> Some (ROptNs None)
  | ["E"; t] -> Some (ROptNs (Some (z t)))
  | ["D"; d] -> Some (RNs (z d))
  | ["U"] -> Some RUnit
  | _ -> failwith ("bad result: " ^ String.concat " " ws)

let dump (s : tstate) : string =
  let b = Buffer.create 256 in
  Buffer.add_string b (Printf.sprintf "S now=%s seq=%s free=%s queue=" (zs s.now) (zs s.seq)
                         (match s.var_free with None -> "-" | Some v -> zs v));
  List.iter (fun ((w, sl), _) -> Buffer.add_string b (zs w ^ ":" ^ zs sl ^ ",")) s.queue;
  Buffer.add_string b " var=";
  List.iter (fun vs ->
      Buffer.add_string b (zs vs.gnn);
      (match vs.item with
       | VMax (e, c) -> Buffer.add_string b (":M:" ^ zs e ^ ":" ^ zs c)
       | VMin (e, c) -> Buffer.add_string b (":N:" ^ zs e ^ ":" ^ zs c)
       | VFree None -> Buffer.add_string b ":F:-"
       | VFree (Some n) -> Buffer.add_string b (":F:" ^ zs n));
      Buffer.add_char b ',') s.var;
  Buffer.contents b

let record_key keys idx (op : top) (o : tout) =
  (match op, o with
   | ONextExpiry, ROptNs r -> last_ne := r
   | _ -> ());
  match o with
  | RKey (s, g) ->
    let c = (match op with OAddMax _ -> 'M' | OAddMin _ -> 'N' | _ -> 'F') in
    Hashtbl.replace keys idx (c, s, g)
  | _ -> ()

let run_model () =
  let st = ref t_init and keys = Hashtbl.create 64 and idx = ref 0 and dead = ref false in
  (try
     while true do
       let line = input_line stdin in
       match split line with
       | [] -> ()
       | "case" :: name ->
         st := t_init; Hashtbl.reset keys; idx := 0; dead := false; last_ne := None;
         print_endline ("case " ^ String.concat " " name)
       | ["end"] -> print_endline "end"
       | ["defer"; _] ->
         (* a plain deferred call: no effect on the timer model (its ordering against timer callbacks is
            checked on the real trace by the harness) *)
         if !dead then print_endline "SKIP" else (print_endline "U"; print_endline (dump !st));
         incr idx
       | ws ->
         if !dead then print_endline "SKIP"
         else begin
           let op = parse_op keys ws in
           (match tstep !st op with
            | None -> dead := true; print_endline "PANIC"
            | Some (s1, out) ->
              st := s1; record_key keys !idx op out;
              print_endline (out_to_string out);
              print_endline (dump s1))
         end;
         incr idx
     done
   with End_of_file -> ())

let vbits (v : verdict) =
  let c b = if b then '1' else '0' in
  Printf.sprintf "V c07=%c c08=%c c09=%c c10=%c c15=%c c19=%c" (c v.v07) (c v.v08) (c v.v09) (c v.v10) (c v.v15) (c v.v19)

let run_monitor () =
  let ms = ref s_init and keys = Hashtbl.create 64 and idx = ref 0 and dead = ref false in
  let pending_op = ref None in
  (try
     while true do
       let line = input_line stdin in
       match split line with
       | [] -> ()
       | "case" :: name ->
         ms := s_init; Hashtbl.reset keys; idx := 0; dead := false; pending_op := None; last_ne := None;
         print_endline ("case " ^ String.concat " " name)
       | ["end"] -> print_endline "end"
       | "=" :: res ->
         (match !pending_op with
          | None -> failwith "result without op"
          | Some ws ->
            pending_op := None;
            if !dead || res = ["SKIP"] then print_endline "SKIP"
            else if List.hd ws = "defer" then begin
              (* keep the monitor's op counter in step with the key references: a neutral observation *)
              let (s1, v) = mon_step !ms (ONextWaitMax (Z0, Z0, true)) (Some (RNs Z0)) in
              ms := s1; print_endline (vbits v)
            end
            else begin
              let op = parse_op keys ws in
              let out = parse_out res in
              (match out with Some o -> record_key keys !idx op o | None -> dead := true);
              let (s1, v) = mon_step !ms op out in
              ms := s1;
              print_endline (vbits v)
            end;
            incr idx)
       | ws -> pending_op := Some ws
     done
   with End_of_file -> ())

let () =
  match Sys.argv with
  | [| _; "model" |] -> run_model ()
  | [| _; "monitor" |] -> run_monitor ()
  | _ -> prerr_endline "usage: t_driver model|monitor"; exit 2
