(* the extracted monitors evaluated on traces: (name, predicate) *)
let all : (string * (R_model.ev list -> bool)) list = []
