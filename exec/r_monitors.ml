(* the extracted monitors evaluated on traces: (name, predicate) *)
open R_model
let all : (string * (ev list -> bool)) list =
  [ "C01", c01_ok; "C02", c02_ok; "C03", (fun t -> c03_ok t && c03_dropped_ok t && c03_none_ok t); "C04", c04_ok; "C05", (fun t -> c05_ok t && c05_calls_ok t);
    "C06", c06_ok; "C15", c15_ok; "C16", c16_ok; "C20", c20_ok ]
