(* Driver around the extracted Layer R model (coq/extracted/r_model.ml).

   r_driver exec  <cases-file> [fuel] [inline]   run the model on every case, print canonical traces
   r_driver mon   <trace-file>                   evaluate the extracted monitors on (real) traces

   Case files and trace files use the line-oriented formats described in docs/layer_r.md. *)
open R_model

(* ---------- numbers ---------- *)
let rec pos_of_int (i : int) : positive =
  if i = 1 then XH else if i land 1 = 1 then XI (pos_of_int (i lsr 1)) else XO (pos_of_int (i lsr 1))
let n_of_int i = if i <= 0 then N0 else Npos (pos_of_int i)
let z_of_int i = if i = 0 then Z0 else if i > 0 then Zpos (pos_of_int i) else Zneg (pos_of_int (-i))
let rec int_of_pos = function XH -> 1 | XO p -> 2 * int_of_pos p | XI p -> 2 * int_of_pos p + 1
let int_of_n = function N0 -> 0 | Npos p -> int_of_pos p
let int_of_z = function Z0 -> 0 | Zpos p -> int_of_pos p | Zneg p -> - (int_of_pos p)
let rec nat_of_int i acc = if i <= 0 then acc else nat_of_int (i - 1) (S acc)

(* ---------- tokenizer / parser for programs ---------- *)
exception Parse of string

type toks = { mutable l : string list }
let next t = match t.l with [] -> raise (Parse "eof") | x :: r -> t.l <- r; x
let peek t = match t.l with [] -> "" | x :: _ -> x
let expect t s = let x = next t in if x <> s then raise (Parse ("expected " ^ s ^ " got " ^ x))
let int t = let x = next t in try int_of_string x with _ -> raise (Parse ("int: " ^ x))
let pn t = n_of_int (int t)
let pz t = z_of_int (int t)
let pb t = (int t) <> 0
let plist t f =
  expect t "[";
  let rec go acc = if peek t = "]" then (ignore (next t); List.rev acc) else go (f t :: acc) in
  go []
let ptk t = match next t with "f" -> TFixed | "x" -> TMax | "n" -> TMin | x -> raise (Parse ("tk " ^ x))

let rec pact t : act =
  match next t with
  | "defer" -> ADefer (pclo t)
  | "deferd" -> ADeferD (pclo t)
  | "lazy" -> ALazy (pclo t)
  | "idle" -> AIdle (pclo t)
  | "tadd" -> let k = ptk t in let v = pn t in let tm = pz t in ATimerAdd (k, v, tm, pclo t)
  | "after" -> let v = pn t in let d = pz t in AAfter (v, d, pclo t)
  | "tmac" -> let k = ptk t in let v = pn t in let tm = pz t in ATimerMac (k, v, tm, pclo t)
  | "tupd" -> let k = ptk t in let v = pn t in ATimerUpd (k, v, pz t)
  | "tdel" -> let k = ptk t in ATimerDel (k, pn t)
  | "tact" -> let k = ptk t in ATimerActive (k, pn t)
  | "actor" -> let h = pn t in let a = pn t in ANewActor (h, a, pnotif t)
  | "call" -> let h = pn t in ACall (h, pclo t)
  | "callprep" -> let h = pn t in let r = pb t in ACallPrep (h, pclo t, r)
  | "stop" -> AStop
  | "fail" -> AFail (pn t)
  | "kill" -> let h = pn t in AKill (h, pn t)
  | "killa" -> let h = pn t in AKillAsync (h, pn t)
  | "owned" -> let h = pn t in AOwned (h, pn t)
  | "clone" -> let h = pn t in AClone (h, pn t)
  | "anon" -> let h = pn t in AAnon (h, pn t)
  | "store" -> AStore (pn t)
  | "droph" -> ADropH (pn t)
  | "pdrop" -> ADropH (pn t)   (* dropped while unwinding from a caught panic: the same semantics *)
  | "slabadd" -> let h = pn t in let a = pn t in ASlabAdd (h, a, pnotif t)
  | "slablen" -> ASlabLen
  | "iszombie" -> AIsZombie (pn t)
  | "newret" -> let h = pn t in let r = pn t in
      (match next t with
       | "clos" -> let caps = plist t pn in ANewRet (h, r, RClos (caps, plist t pact))
       | "to" -> let ht = pn t in ANewRet (h, r, RTo (ht, pclo t))
       | "someto" -> let ht = pn t in ANewRet (h, r, RSomeTo (ht, pclo t))
       | x -> raise (Parse ("retk " ^ x)))
  | "retsend" -> let h = pn t in ARetSend (h, pn t)
  | "newfwd" -> let h = pn t in let f = pn t in
      (match next t with
       | "clos" -> ANewFwd (h, f, FClos (plist t pact))
       | "to" -> let ht = pn t in ANewFwd (h, f, FTo (ht, pclo t))
       | x -> raise (Parse ("fwdk " ^ x)))
  | "fwdsend" -> let h = pn t in AFwdSend (h, pn t)
  | "newtok" -> let h = pn t in let tk = pn t in ANewTok (h, tk, plist t pclo)
  | "log" -> ALog (pz t)
  | "logcheck" -> ALogCheck (pz t)
  | "now" -> ANow
  | "start" -> AStart
  | "shutdown" -> AShutdown
  | "rep" -> let n = pn t in ARep (n, plist t pact)
  | x -> raise (Parse ("act " ^ x))
and pclo t : clo =
  expect t "clo";
  let id = pn t in let sz = pn t in let al = pn t in
  let caps = plist t pn in
  Clo (id, sz, al, caps, plist t pact)
and pnotif t = match next t with
  | "-" -> None
  | "to" -> let h = pn t in Some (h, pclo t)
  | x -> raise (Parse ("notif " ^ x))

let ptop t : top =
  match next t with
  | "new" -> TNew (pz t)
  | "run" -> let tm = pz t in TRun (tm, pb t)
  | "do" -> TDo (plist t pact)
  | "dropstakker" -> TDropStakker
  | "dropall" -> TDropAll
  | "setlogger" -> TSetLogger (plist t pz)
  | "setfilter" -> TSetFilter (plist t pz)
  | x -> raise (Parse ("top " ^ x))

let split_ws s = List.filter (fun x -> x <> "") (String.split_on_char ' ' (String.trim s))

(* ---------- printing events ---------- *)
let scause = function
  | CStop -> "stop" | CFail e -> Printf.sprintf "fail:%d" (int_of_n e)
  | CKill e -> Printf.sprintf "kill:%d" (int_of_n e) | CDrop -> "drop"
let stk = function TFixed -> "f" | TMax -> "x" | TMin -> "n"
let ptk_s = function "f" -> TFixed | "x" -> TMax | "n" -> TMin | x -> raise (Parse ("tk " ^ x))
let sq = function QMain -> "m" | QLazy -> "l" | QIdle -> "i" | QTimer -> "t"
let sb b = if b then "1" else "0"
let i = int_of_n
let zi = int_of_z
let sev = function
  | ENew t -> Printf.sprintf "new %d" (zi t)
  | ERunBegin (t, b) -> Printf.sprintf "runbegin %d %s" (zi t) (sb b)
  | ERunRet b -> "runret " ^ sb b
  | EDropBegin -> "dropbegin" | EDropFields -> "~dropfields" | EDropEnd -> "dropend" | EEpilogue -> "epilogue"
  | EClo (u, c) -> Printf.sprintf "clo %d %d" (i u) (i c)
  | ETarget (u, a, b) -> Printf.sprintf "target %d %d %s" (i u) (i a) (sb b)
  | ERetTo (r, u, b) -> Printf.sprintf "retto %d %d %s" (i r) (i u) (sb b)
  | ERetSent (r, v) -> Printf.sprintf "retsent %d %d" (i r) (i v)
  | EIsZombie (a, b) -> Printf.sprintf "iszombie %d %s" (i a) (sb b)
  | ESlabAdd (p, a) -> Printf.sprintf "slabadd %d %d" (i p) (i a)
  | ESlabLen (p, n) -> Printf.sprintf "slablen %d %d" (i p) (zi n)
  | ESetLogger l -> String.concat " " ("setlogger" :: List.map (fun x -> string_of_int (zi x)) l)
  | ESetFilter l -> String.concat " " ("setfilter" :: List.map (fun x -> string_of_int (zi x)) l)
  | ELogReq (id, l) -> Printf.sprintf "logreq %d %d" (zi id) (zi l)
  | ELogCheck (l, b) -> Printf.sprintf "logcheck %d %s" (zi l) (sb b)
  | ESub (q, u, c) -> Printf.sprintf "sub %s %d %s" (sq q) (i u) (sb c)
  | ERun (u, n, q) -> Printf.sprintf "run %d %d %s" (i u) (zi n) (sq q)
  | EMeth (a, u, n) -> Printf.sprintf "meth %d %d %d" (i a) (i u) (zi n)
  | EPrep (a, u, n) -> Printf.sprintf "prep %d %d %d" (i a) (i u) (zi n)
  | EEnd u -> Printf.sprintf "end %d" (i u)
  | EDrop (u, q, c) -> Printf.sprintf "drop %d %s %s" (i u) (match q with Some q -> sq q | None -> "-") (sb c)
  | EActor a -> Printf.sprintf "actor %d" (i a)
  | EOwnNew a -> Printf.sprintf "ownnew %d" (i a)
  | EOwnDrop a -> Printf.sprintf "owndrop %d" (i a)
  | EReady a -> Printf.sprintf "ready %d" (i a)
  | EReq (a, c) -> Printf.sprintf "req %d %s" (i a) (scause c)
  | ENotify (a, c) -> Printf.sprintf "notify %d %s" (i a) (match c with Some c -> scause c | None -> "none")
  | EValDrop a -> Printf.sprintf "valdrop %d" (i a)
  | EOrphNew a -> Printf.sprintf "orphnew %d" (i a)
  | EOrphDrop a -> Printf.sprintf "orphdrop %d" (i a)
  | ERetNew r -> Printf.sprintf "retnew %d" (i r)
  | ERet (r, m) -> Printf.sprintf "ret %d %s" (i r) (match m with Some v -> string_of_int (i v) | None -> "none")
  | EFwdNew f -> Printf.sprintf "fwdnew %d" (i f)
  | EFwd (f, v) -> Printf.sprintf "fwd %d %d" (i f) (i v)
  | EFwdFree f -> Printf.sprintf "fwdfree %d" (i f)
  | ETokNew t -> Printf.sprintf "toknew %d" (i t)
  | ETokDrop t -> Printf.sprintf "tokdrop %d" (i t)
  | ELog (id, l, p, m) -> Printf.sprintf "log %d %d %d %d" (zi id) (zi l) (zi p) (i m)
  | ETimerVar (k, v, u) -> Printf.sprintf "tvar %s %d %d" (stk k) (i v) (i u)
  | ETimerDel (k, v, b) -> Printf.sprintf "tdel %s %d %s" (stk k) (i v) (sb b)
  | EBool (t, b) -> Printf.sprintf "bool %d %s" (i t) (sb b)
  | ENum (t, n) -> Printf.sprintf "num %d %d" (i t) (zi n)
  | ELeak (k, id) -> Printf.sprintf "leak %d %d" (i k) (i id)
  | EBad c -> Printf.sprintf "bad %d" (i c)
  | EModel (c, a) -> Printf.sprintf "~model %d %d" (i c) (i a)

(* ---------- parsing events (for the monitors on real traces) ---------- *)
let pcause s =
  if s = "stop" then CStop else if s = "drop" then CDrop
  else match String.split_on_char ':' s with
    | ["fail"; e] -> CFail (n_of_int (int_of_string e))
    | ["kill"; e] -> CKill (n_of_int (int_of_string e))
    | _ -> raise (Parse ("cause " ^ s))
let pq = function "m" -> QMain | "l" -> QLazy | "i" -> QIdle | "t" -> QTimer | x -> raise (Parse ("q " ^ x))
let pev (ws : string list) : ev option =
  let n s = n_of_int (int_of_string s) and z s = z_of_int (int_of_string s) and b s = s <> "0" in
  match ws with
  | ["new"; t] -> Some (ENew (z t))
  | ["runbegin"; t; i] -> Some (ERunBegin (z t, b i))
  | ["runret"; x] -> Some (ERunRet (b x))
  | ["dropbegin"] -> Some EDropBegin | ["~dropfields"] -> Some EDropFields
  | ["dropend"] -> Some EDropEnd | ["epilogue"] -> Some EEpilogue
  | ["clo"; u; c] -> Some (EClo (n u, n c))
  | ["sub"; q; u; c] -> Some (ESub (pq q, n u, b c))
  | ["target"; u; a; x] -> Some (ETarget (n u, n a, b x))
  | ["retto"; r; u; x] -> Some (ERetTo (n r, n u, b x))
  | ["retsent"; r; v] -> Some (ERetSent (n r, n v))
  | ["iszombie"; a; x] -> Some (EIsZombie (n a, b x))
  | ["slabadd"; p; a] -> Some (ESlabAdd (n p, n a))
  | ["slablen"; p; x] -> Some (ESlabLen (n p, z x))
  | "setlogger" :: l -> Some (ESetLogger (List.map z l))
  | "setfilter" :: l -> Some (ESetFilter (List.map z l))
  | ["logreq"; id; l] -> Some (ELogReq (z id, z l))
  | ["logcheck"; l; x] -> Some (ELogCheck (z l, b x))
  | ["run"; u; t; q] -> Some (ERun (n u, z t, pq q))
  | ["meth"; a; u; t] -> Some (EMeth (n a, n u, z t))
  | ["prep"; a; u; t] -> Some (EPrep (n a, n u, z t))
  | ["end"; u] -> Some (EEnd (n u))
  | ["drop"; u; q; c] -> Some (EDrop (n u, (if q = "-" then None else Some (pq q)), b c))
  | ["actor"; a] -> Some (EActor (n a))
  | ["ownnew"; a] -> Some (EOwnNew (n a))
  | ["owndrop"; a] -> Some (EOwnDrop (n a))
  | ["ready"; a] -> Some (EReady (n a))
  | ["req"; a; c] -> Some (EReq (n a, pcause c))
  | ["notify"; a; c] -> Some (ENotify (n a, if c = "none" then None else Some (pcause c)))
  | ["valdrop"; a] -> Some (EValDrop (n a))
  | ["orphnew"; a] -> Some (EOrphNew (n a))
  | ["orphdrop"; a] -> Some (EOrphDrop (n a))
  | ["retnew"; r] -> Some (ERetNew (n r))
  | ["ret"; r; m] -> Some (ERet (n r, if m = "none" then None else Some (n m)))
  | ["fwdnew"; f] -> Some (EFwdNew (n f))
  | ["fwd"; f; v] -> Some (EFwd (n f, n v))
  | ["fwdfree"; f] -> Some (EFwdFree (n f))
  | ["toknew"; t] -> Some (ETokNew (n t))
  | ["tokdrop"; t] -> Some (ETokDrop (n t))
  | ["log"; id; l; p; m] -> Some (ELog (z id, z l, z p, n m))
  | ["tvar"; k; v; u] -> Some (ETimerVar (ptk_s k, n v, n u))
  | ["tdel"; k; v; x] -> Some (ETimerDel (ptk_s k, n v, b x))
  | ["bool"; t; x] -> Some (EBool (n t, b x))
  | ["num"; t; x] -> Some (ENum (n t, z x))
  | ["leak"; k; id] -> Some (ELeak (n k, n id))
  | ["bad"; c] -> Some (EBad (n c))
  | ["~model"; c; a] -> Some (EModel (n c, n a))
  | _ -> None

(* ---------- monitors ---------- *)
let monitors : (string * (ev list -> bool)) list = R_monitors.all

let print_monitors tr =
  List.iter (fun (name, f) -> Printf.printf "mon %s %s\n" name (sb (f tr))) monitors

(* ---------- main ---------- *)
let read_lines file =
  let ic = open_in file in
  let rec go acc = match input_line ic with
    | l -> go (l :: acc)
    | exception End_of_file -> close_in ic; List.rev acc in
  go []

let exec_file file fuel dk =
  let lines = read_lines file in
  let fuel_nat = nat_of_int fuel O in
  let cur = ref None and ops = ref [] in
  List.iter (fun line ->
    match split_ws line with
    | [] -> ()
    | "#" :: _ -> ()
    | ["case"; name] -> cur := Some name; ops := []
    | ["end"] ->
        (match !cur with
         | Some name ->
             Printf.printf "case %s\n" name;
             (try
               let prog = List.rev_map (fun ws -> let t = { l = ws } in ptop t) !ops in
               let res = exec dk fuel_nat prog in
               let tr, status = match res with Done t -> t, "done" | OutOfFuel t -> t, "fuel" in
               List.iter (fun e -> print_endline (sev e)) tr;
               print_monitors tr;
               Printf.printf "endcase %s\n" status
             with Parse m -> Printf.printf "endcase parse-error %s\n" m);
             cur := None
         | None -> ())
    | ws -> ops := ws :: !ops) lines

let mon_file file =
  let lines = read_lines file in
  let evs = ref [] in
  List.iter (fun line ->
    match split_ws line with
    | ["case"; name] -> Printf.printf "case %s\n" name; evs := []
    | "endcase" :: st ->
        print_monitors (List.rev !evs);
        Printf.printf "endcase %s\n" (String.concat " " st)
    | ws -> (match (try pev ws with _ -> None) with Some e -> evs := e :: !evs | None -> ())) lines

let () =
  match Array.to_list Sys.argv with
  | _ :: "exec" :: file :: rest ->
      let fuel = (match rest with f :: _ -> int_of_string f | [] -> 400000) in
      let dk = (match rest with _ :: "inline" :: _ -> DInline | _ -> DGlobal) in
      exec_file file fuel dk
  | _ :: "mon" :: file :: _ -> mon_file file
  | _ -> prerr_endline "usage: r_driver exec <cases> [fuel] [inline] | mon <traces>"; exit 2
