(* Driver around the extracted Layer Q model (coq/extracted/q_model.ml).

   usage:  q_driver flat  <casefile>    model of src/queue/flat.rs  (prints `geom` lines, evaluates the geom_ok monitor)
           q_driver boxed <casefile>    model of src/queue/boxed.rs (no `geom` lines)
           q_driver monitor <file>      applies the monitor geom_ok to the `geom <q> <base> <len> <cap>` lines of a
                                        (real) trace; prints `MONITOR geom_ok false line <n>` for each failing line

   The Rust harness /verif/harness/q (binary q_harness) reads the same case files and prints the same canonical output
   for the REAL code.

   Case file (many cases per file; `#` lines and blank lines ignored; def/script lines before the first op line):
     case <name>
     nq <n>                                   number of queues (1..4), all start as FnOnceQueue::new()
     def <tag> <S> <A> <seed>                 closure definition: tag u32, (S,A) a nominal class, seed u32
     script <tag> <q> <box:0|1> <tag2> <base> when closure <tag> runs it pushes closure <tag2> onto queue <q>
     push <q> <box:0|1> <tag> <base>          top-level push (box=1: push_box); base = allocator answer, multiple of 8
     exec <q> | empty <q> | drop <q>
     end
   Effective size N = S rounded up to a multiple of A.  Payload bytes: LCG(seed) bytes, the first min(4,N) bytes
   overwritten by the little-endian tag; for N < 4 the tag must be < 2^(8N+2) (its upper 2 bits select the type).

   Canonical output:
     case <name>
     op <k> <op line>
       exec:  run <tag> <N> <A> <fnv32 hex>[ BAD]   per closure run, in order
       empty: empty <0|1>
       drop:  dropped <n>, then n lines `drop <tag> <N> <A> <hash>` sorted bytewise
       (flat only) after every op, for every queue: geom <q> <base mod 128> <len> <cap>
     end <m>            m = closures dropped when all queues are dropped at the end
   If the model returns an error: `error <constructor>` then `end -`. *)
open Q_model

(* ---- OCaml int <-> Coq numbers (all values fit in 62 bits) ---- *)
let rec pos_of_int (n : int) : positive =
  if n <= 1 then XH else if n land 1 = 0 then XO (pos_of_int (n lsr 1)) else XI (pos_of_int (n lsr 1))
let z_of_int (n : int) : z = if n = 0 then Z0 else if n > 0 then Zpos (pos_of_int n) else Zneg (pos_of_int (-n))
let rec int_of_pos (p : positive) : int =
  match p with XH -> 1 | XO q -> 2 * int_of_pos q | XI q -> 2 * int_of_pos q + 1
let int_of_z (x : z) : int = match x with Z0 -> 0 | Zpos p -> int_of_pos p | Zneg p -> - (int_of_pos p)
let nat_of_int (n : int) : nat = let rec go n acc = if n <= 0 then acc else go (n - 1) (S acc) in go n O

(* the 256 byte values, shared *)
let zbyte : z array = Array.init 256 z_of_int
let two32 = 1 lsl 32

let err_name (e : err) : string =
  match e with
  | EOverflow -> "EOverflow" | ELayout -> "ELayout" | EAssertExpand -> "EAssertExpand" | ENoSpace -> "ENoSpace"
  | ENestedExpand -> "ENestedExpand" | EDebugAssert -> "EDebugAssert" | EBounds -> "EBounds" | EBadCell -> "EBadCell"
  | EBadChain -> "EBadChain" | EFuel -> "EFuel" | ENestedSelf -> "ENestedSelf" | EBadQueue -> "EBadQueue"

(* ---- payload bytes, hash ---- *)
let s_list = [0;1;2;3;4;7;8;9;15;16;17;24;31;32;33;48;63;64;65;100;127;128;129;255;256;257;511;512;
              1000;1023;1024;1025;2047;2048;4095;4096;
              2016;2024;2032;2040;4064;4072;4080;4088;
              1920;1984;3968;4032]
let a_list = [1;2;4;8;16;32;64;128]
let rnd s a = (s + a - 1) / a * a

let gen_bytes (tag : int) (n : int) (seed : int) : int array =
  let b = Array.make n 0 in
  let x = ref (seed land 0x7fffffff) in
  for i = 0 to n - 1 do
    x := (!x * 1103515245 + 12345) land 0x7fffffff;
    b.(i) <- (!x lsr 16) land 0xff
  done;
  for i = 0 to (min 4 n) - 1 do b.(i) <- (tag lsr (8 * i)) land 0xff done;
  b

let fnv_step h b = ((h lxor b) * 16777619) land 0xffffffff
let fnv_array (b : int array) : int = Array.fold_left fnv_step 0x811c9dc5 b
let fnv_zlist (l : z list) : int = List.fold_left (fun h x -> fnv_step h (int_of_z x)) 0x811c9dc5 l

(* ---- cases ---- *)
type def = { d_n : int; d_a : int; d_hash : int; d_direct : entry; d_boxed : entry }
type preq = { r_q : int; r_boxed : bool; r_tag : int; r_base : int }
type cop = CPush of preq | CExec of int | CEmpty of int | CDrop of int
type case = {
  name : string;
  mutable nq : int;
  defs : (int, def) Hashtbl.t;
  scripts : (int, preq list) Hashtbl.t;     (* reversed while parsing *)
  mutable ops : (string * cop) list;         (* reversed while parsing *)
}

exception Bad of string
let fail ln fmt = Printf.ksprintf (fun s -> raise (Bad (Printf.sprintf "line %d: %s" ln s))) fmt

let zeros16 : z list = List.init 16 (fun _ -> Z0)

let parse_file (path : string) : case list =
  let ic = open_in path in
  let cases = ref [] and cur = ref None and ln = ref 0 in
  let all_digits w = w <> "" && (let ok = ref true in String.iter (fun ch -> if ch < '0' || ch > '9' then ok := false) w; !ok) in
  let num w = match (if all_digits w then int_of_string_opt w else None) with
    | Some v when v >= 0 -> v
    | _ -> fail !ln "bad number `%s`" w in
  let u32 w = let v = num w in if v >= two32 then fail !ln "bad number `%s`" w else v in
  let preq q b t base =
    let boxed = (match b with "0" -> false | "1" -> true | _ -> fail !ln "box must be 0 or 1") in
    let base = num base in
    if base land 7 <> 0 then fail !ln "base must be a multiple of 8";
    { r_q = num q; r_boxed = boxed; r_tag = u32 t; r_base = base } in
  let finish (c : case) =
    if c.nq < 1 || c.nq > 4 then fail !ln "case %s: nq must be 1..4" c.name;
    let chk p =
      if p.r_q >= c.nq then fail !ln "case %s: queue %d out of range" c.name p.r_q;
      if not (Hashtbl.mem c.defs p.r_tag) then fail !ln "case %s: closure %d is not defined" c.name p.r_tag in
    let chq q = if q >= c.nq then fail !ln "case %s: queue %d out of range" c.name q in
    Hashtbl.iter (fun t ps ->
        if not (Hashtbl.mem c.defs t) then fail !ln "case %s: script of undefined closure %d" c.name t;
        List.iter chk ps) c.scripts;
    List.iter (fun (_, o) -> match o with CPush p -> chk p | CExec q | CEmpty q | CDrop q -> chq q) c.ops;
    c.ops <- List.rev c.ops;
    Hashtbl.filter_map_inplace (fun _ ps -> Some (List.rev ps)) c.scripts;
    cases := c :: !cases in
  (try
     while true do
       let raw = input_line ic in
       incr ln;
       let w = List.filter (fun x -> x <> "")
           (String.split_on_char ' ' (String.map (fun ch -> if ch = '\t' || ch = '\r' then ' ' else ch) raw)) in
       match w with
       | [] -> ()
       | k :: _ when k.[0] = '#' -> ()
       | ["case"; name] ->
         if !cur <> None then fail !ln "`case` inside a case";
         cur := Some { name; nq = 0; defs = Hashtbl.create 64; scripts = Hashtbl.create 16; ops = [] }
       | k :: args ->
         let c = (match !cur with Some c -> c | None -> fail !ln "`%s` outside a case" k) in
         let line = String.concat " " w in
         (match k, args with
          | "end", [] -> finish c; cur := None
          | "nq", [n] -> c.nq <- num n
          | ("def" | "script"), _ when c.ops <> [] -> fail !ln "def/script after the first op"
          | "def", [tag; s; a; seed] ->
            let tag = u32 tag and s = num s and a = num a and seed = u32 seed in
            if not (List.mem s s_list && List.mem a a_list) then fail !ln "(%d, %d) is not a nominal class" s a;
            let n = rnd s a in
            if n < 4 && tag >= 1 lsl (8 * n + 2) then fail !ln "tag %d too large for a closure of %d bytes" tag n;
            if Hashtbl.mem c.defs tag then fail !ln "closure %d defined twice" tag;
            let bytes = gen_bytes tag n seed in
            let data = Array.fold_right (fun b acc -> zbyte.(b) :: acc) bytes [] in
            let zn = z_of_int n and za = z_of_int a in
            Hashtbl.replace c.defs tag
              { d_n = n; d_a = a; d_hash = fnv_array bytes;
                d_direct = { e_id = z_of_int tag; e_size = zn; e_align = za; e_data = data };
                d_boxed = { e_id = z_of_int (tag + two32); e_size = zn; e_align = za; e_data = zeros16 } }
          | "script", [tag; q; b; tag2; base] ->
            let tag = u32 tag in
            let p = preq q b tag2 base in
            let old = (try Hashtbl.find c.scripts tag with Not_found -> []) in
            Hashtbl.replace c.scripts tag (p :: old)
          | "push", [q; b; tag; base] -> c.ops <- (line, CPush (preq q b tag base)) :: c.ops
          | "exec", [q] -> c.ops <- (line, CExec (num q)) :: c.ops
          | "empty", [q] -> c.ops <- (line, CEmpty (num q)) :: c.ops
          | "drop", [q] -> c.ops <- (line, CDrop (num q)) :: c.ops
          | ("end" | "nq" | "def" | "script" | "push" | "exec" | "empty" | "drop"), _ ->
            fail !ln "`%s`: wrong number of fields" k
          | _ -> fail !ln "unknown keyword `%s`" k)
     done
   with End_of_file -> close_in ic);
  (match !cur with Some c -> raise (Bad (Printf.sprintf "case %s: missing `end`" c.name)) | None -> ());
  List.rev !cases

(* ---- evaluation ---- *)
let pushreq_of (c : case) (p : preq) : pushreq =
  let d = Hashtbl.find c.defs p.r_tag in
  { p_queue = nat_of_int p.r_q; p_boxed = p.r_boxed; p_entry = (if p.r_boxed then d.d_boxed else d.d_direct);
    p_base = z_of_int p.r_base }

(* the line describing a run / drop event of entry e, and whether what the model read back is what was pushed
   (direct closure: the bytes of its def; push_box: the 16-byte / align 8 / all-zero stand-in of the fat pointer) *)
let describe (c : case) (e : entry) : string * bool =
  let id = int_of_z e.e_id in
  if id < two32 then begin
    let good = (match Hashtbl.find_opt c.defs id with
        | Some d -> int_of_z e.e_align = d.d_a && e.e_size = d.d_direct.e_size && e.e_data = d.d_direct.e_data
        | None -> false) in
    (Printf.sprintf "%d %d %d %08x" id (int_of_z e.e_size) (int_of_z e.e_align) (fnv_zlist e.e_data), good)
  end else begin
    let tag = id - two32 in
    let good = int_of_z e.e_size = 16 && int_of_z e.e_align = 8 && e.e_data = zeros16 in
    match Hashtbl.find_opt c.defs tag with
    | Some d -> (Printf.sprintf "%d %d %d %08x" tag d.d_n d.d_a d.d_hash, good)
    | None -> (Printf.sprintf "%d %d %d %08x" tag (int_of_z e.e_size) (int_of_z e.e_align) (fnv_zlist e.e_data), false)
  end

let run_case (type s) (impl : s qimpl) (geom : (s -> (z * z) * z) option) (c : case) : unit =
  let out = Buffer.create 65536 in
  let flush_out () = print_string (Buffer.contents out); Buffer.clear out; flush stdout in
  let scripts : (int, pushreq list) Hashtbl.t = Hashtbl.create 16 in
  Hashtbl.iter (fun t ps -> Hashtbl.replace scripts t (List.map (pushreq_of c) ps)) c.scripts;
  let prog (e : entry) : pushreq list =
    let id = int_of_z e.e_id in
    match Hashtbl.find_opt scripts (id land (two32 - 1)) with Some l -> l | None -> [] in
  let line kind e =
    let (s, good) = describe c e in
    Buffer.add_string out kind; Buffer.add_char out ' '; Buffer.add_string out s;
    if not good then Buffer.add_string out " BAD";
    Buffer.add_char out '\n' in
  let drops (evs : ev list) =
    let ls = List.filter_map (fun v -> match v with
        | EvDrop e ->
          (* a direct closure that is dropped cannot check its bytes in the harness either: no BAD on those *)
          let (s, good) = describe c e in
          Some ("drop " ^ s ^ (if good || int_of_z e.e_id < two32 then "" else " BAD"))
        | _ -> None) evs in
    List.sort compare ls in
  Printf.bprintf out "case %s\n" c.name;
  let st = ref (init impl (nat_of_int c.nq)) in
  let failed = ref false in
  let fail_with e = Printf.bprintf out "error %s\nend -\n" (err_name e); failed := true in
  let rec go k ops =
    match ops with
    | [] -> ()
    | (text, o) :: rest ->
      Printf.bprintf out "op %d %s\n" k text;
      let mop = (match o with
          | CPush p -> OPush (pushreq_of c p)
          | CExec q -> OExecute (nat_of_int q)
          | CEmpty q -> OIsEmpty (nat_of_int q)
          | CDrop q -> ODrop (nat_of_int q)) in
      (match step impl prog !st mop with
       | Err e -> fail_with e
       | Ok (evs, st') ->
         st := st';
         (match o with
          | CDrop _ ->
            let ls = drops evs in
            Printf.bprintf out "dropped %d\n" (List.length ls);
            List.iter (fun l -> Buffer.add_string out l; Buffer.add_char out '\n') ls
          | _ ->
            List.iter (fun v -> match v with
                | EvRun e -> line "run" e
                | EvDrop e -> line "drop" e
                | EvEmpty b -> Buffer.add_string out (if b then "empty 1\n" else "empty 0\n")) evs);
         (match geom with
          | None -> ()
          | Some g ->
            List.iteri (fun qi s ->
                let ((base, len), cap) = g s in
                Printf.bprintf out "geom %d %d %d %d\n" qi ((int_of_z base) land 127) (int_of_z len) (int_of_z cap);
                if not (geom_ok ((base, len), cap)) then Printf.bprintf out "MONITOR geom_ok false %d\n" qi) !st);
         if Buffer.length out > 60000 then flush_out ();
         go (k + 1) rest)
  in
  go 0 c.ops;
  if not !failed then begin
    (* all queues are finally dropped, 0 .. nq-1 *)
    let m = ref 0 in
    (try
       List.iter (fun s -> match impl.q_drop s with
           | Ok es -> m := !m + List.length es
           | Err e -> fail_with e; raise Exit) !st
     with Exit -> ());
    if not !failed then Printf.bprintf out "end %d\n" !m
  end;
  flush_out ()

let monitor_file (path : string) : unit =
  let ic = open_in path in
  let ln = ref 0 in
  (try
     while true do
       let raw = input_line ic in
       incr ln;
       match List.filter (fun x -> x <> "") (String.split_on_char ' ' (String.trim raw)) with
       | ["geom"; _; base; len; cap] ->
         (match int_of_string_opt base, int_of_string_opt len, int_of_string_opt cap with
          | Some b, Some l, Some c ->
            if not (geom_ok ((z_of_int b, z_of_int l), z_of_int c)) then Printf.printf "MONITOR geom_ok false line %d\n" !ln
          | _ -> Printf.printf "MONITOR geom_ok false line %d\n" !ln)
       | _ -> ()
     done
   with End_of_file -> close_in ic);
  flush stdout

let usage () =
  prerr_endline "usage: q_driver flat <casefile> | q_driver boxed <casefile> | q_driver monitor <file>";
  exit 2

let () =
  match Array.to_list Sys.argv with
  | [_; ("flat" | "boxed") as mode; path] ->
    let cases = (try parse_file path with
        | Bad m -> prerr_endline ("q_driver: " ^ path ^ ": " ^ m); exit 2
        | Sys_error m -> prerr_endline ("q_driver: " ^ m); exit 2) in
    List.iter (fun c ->
        if mode = "flat" then run_case flat_impl (Some fq_geometry) c
        else run_case boxed_impl None c) cases
  | [_; "monitor"; path] ->
    (try monitor_file path with Sys_error m -> prerr_endline ("q_driver: " ^ m); exit 2)
  | _ -> usage ()
