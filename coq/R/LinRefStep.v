(** Layer R proofs: the REFERENCE census, part 3: the law of every micro-op, the invariant, its consequences. *)
From Coq Require Import ZArith NArith List Bool Lia.
From Stk Require Import Lib.U Gen.SrcCount Gen.SrcCore Gen.SrcLog R.Syntax R.Rt R.Shape R.Count R.Own R.Lin R.LinRef R.LinRefLaw.
Import ListNotations.
Local Open Scope Z_scope.

Arguments submit : simpl never.
Arguments push_main : simpl never.
Arguments timer_add : simpl never.
Arguments emit : simpl never.
Arguments upd_actor : simpl never.
Arguments ref_clone : simpl never.
Arguments new_actor : simpl never.
Arguments log_rec : simpl never.
Arguments tok_script : simpl never.
Arguments target_ev : simpl never.
Arguments push_frame : simpl never.

Ltac inj_R Q := match type of Q with (_, _) = (_, _) => injection Q as ? ?; subst | _ => idtac end.

Lemma acts_R l s pre s' x : rf x -> PJ (fun _ => 0) s -> handle (MActs l) s = (pre, s') -> LW x 0 s pre s'.
Proof.
  intros RF P. destruct (P x RF) as [R0 J0]. unfold LW. cbn [handle].
  destruct l as [|a l]; [intros Q; inj_R Q; cbn [hmops]; lia|]. destruct (do_act a s) as [p s1] eqn:E. intros Q; inj_R Q.
  destruct (do_act_R _ _ _ _ x RF P E) as (A & B & C). rewrite hmops_app. cbn [hmops hmop]. lia.
Qed.

Lemma cact_hind x a y : rf x -> cact x a y = hind x (HR a) * a_rc y.
Proof. destruct x as [b|b|g]; unfold cact, hind; cbn [hres_eqb]; try contradiction; intros _; try lia. destruct (N.eqb b a); lia. Qed.

Lemma ctr_HR_some x s a y : aget (actors s) a = Some y -> hind x (HR a) = 1 -> ctr x s = a_rc y.
Proof.
  intros E I1. destruct x as [b|b|g]; unfold hind in I1; cbn [hres_eqb] in I1; try discriminate.
  destruct (N.eqb b a) eqn:Q; [|discriminate]. apply N.eqb_eq in Q. subst b. unfold ctr. rewrite E. reflexivity.
Qed.

(* ranges of all stored counts *)
Lemma rc_range w s a y : PJ w s -> aget (actors s) a = Some y -> 0 <= a_rc y <= MX.
Proof. intros P E. destruct (P (HR a) I) as [R _]. unfold ctr in R. rewrite E in R. exact R. Qed.
Lemma frc_range w s f o : PJ w s -> aget (fwds s) f = Some o -> 0 <= frc o <= MX.
Proof. intros P E. destruct (P (HF f) I) as [R _]. unfold ctr in R. rewrite E in R. exact R. Qed.

Lemma dropval_fwd_R f s pre s' x : rf x -> PJ (fun x => hind x (HF f)) s -> drop_val (HFwd f) s = (pre, s') -> LW x (hind x (HF f)) s pre s'.
Proof.
  intros RF P. destruct (P x RF) as [R0 J0]. pose proof (hst_H x s) as HS. pose proof (hst_nn x s) as SN. pose proof (hind_range x (HF f)) as HFR.
  unfold LW, drop_val. destruct (aget (fwds s) f) as [[rc k tg]|] eqn:F; [|intros Q; inversion Q; subst; rewrite H_emit, ctr_emit; cbn [hmops]; lia].
  pose proof (frc_range _ _ _ _ P F) as RR. cbn [frc] in RR.
  destruct (minrc_drop rc) as [[v' z]|] eqn:MD; [|intros Q; inversion Q; subst; rewrite H_emit, ctr_emit; cbn [hmops]; lia].
  pose proof (drop_cases rc v' z RR MD) as DC.
  assert (HS1 : H x (set_fwds s (aset (fwds s) f (FwdObj v' k tg))) = H x s - hfw x (FwdObj rc k tg) + hfw x (FwdObj v' k tg) + hind x (HF f) * rc - hind x (HF f) * v').
  { rewrite (H_fwd_some x s f _ _ F), !cfw_hind. reflexivity. }
  assert (CS1 : ctr x (set_fwds s (aset (fwds s) f (FwdObj v' k tg))) = ctr x s - hind x (HF f) * rc + hind x (HF f) * v').
  { rewrite (ctr_fwd_some x s f _ _ F), !cfw_hind. reflexivity. }
  assert (C1 : hind x (HF f) = 1 -> ctr x s = rc) by (intros E; apply (ctr_HF_some x s f _ F E)).
  assert (HFW : hfw x (FwdObj rc k tg) - hfw x (FwdObj v' k tg) =
                match k, tg with FTo _ _, Some a => if z then hind x (HR a) else 0 | _, _ => 0 end).
  { destruct k as [b|h0 c]; [cbn [hfw]; lia|]. destruct tg as [a|]; [|cbn [hfw]; lia]. cbn [hfw].
    destruct DC as [(-> & -> & ->)|(-> & [(-> & ->)|[(-> & ->)|(B & ->)]])];
      repeat match goal with |- context [?p <? ?q] => destruct (Z.ltb_spec p q) end; unfold MX in *; lia. }
  destruct z.
  - destruct DC as [(-> & -> & _)|(D & _)]; [|discriminate D].
    destruct k as [b|h0 c]; [|destruct tg as [a|]]; intros Q; inversion Q; subst pre s'; rewrite ?H_emit, ?ctr_emit, HS1, CS1; cbn [hmops hmop];
      destruct (hind01 x (HF f)) as [E|E]; rewrite E in *; try specialize (C1 eq_refl); unfold MX in *; lia.
  - destruct DC as [(_ & _ & D)|(_ & DC)]; [discriminate D|].
    intros Q; inversion Q; subst pre s'. rewrite HS1, CS1. cbn [hmops].
    assert (HFW0 : hfw x (FwdObj rc k tg) - hfw x (FwdObj v' k tg) = 0) by (rewrite HFW; destruct k; [|destruct tg]; reflexivity).
    destruct (hind01 x (HF f)) as [E|E]; rewrite E in *; try specialize (C1 eq_refl); unfold MX in *; lia.
Qed.

Ltac gen_R x RF := intros Q; inj_R Q; law_R x RF; try lia.

Lemma dropref_R a s pre s' x : rf x -> PJ (fun x => hind x (HR a)) s -> drop_ref a s = (pre, s') -> LW x (hind x (HR a)) s pre s'.
Proof.
  intros RF P. destruct (P x RF) as [R0 J0]. pose proof (hst_H x s) as HS. pose proof (hst_nn x s) as SN. pose proof (hind_range x (HR a)) as HRR.
  assert (TRIV : forall e, LW x (hind x (HR a)) s [] (emit s e)) by (intros e; unfold LW; rewrite H_emit, ctr_emit; cbn [hmops]; lia).
  unfold drop_ref. destruct (aget (actors s) a) as [y|] eqn:A; [|intros Q; inversion Q; subst; apply TRIV].
  destruct (a_freed y); [intros Q; inversion Q; subst; apply TRIV|].
  pose proof (rc_range _ _ _ _ P A) as RR.
  destruct (minrc_drop (a_rc y)) as [[v z]|] eqn:MD; [|intros Q; inversion Q; subst; apply TRIV].
  pose proof (drop_cases _ v z RR MD) as DC.
  assert (C1 : hind x (HR a) = 1 -> ctr x s = a_rc y) by (intros E; apply (ctr_HR_some x s a y A E)).
  destruct z.
  - destruct DC as [(RC & -> & _)|(D & _)]; [|discriminate D].
    set (x1 := mkActor SZombie (oz (count_set_state (a_strong y) STATE_ZOMBIE)) 0 None (a_logid y) true).
    destruct (state_drops a (a_state y) (emit (upd_actor s a x1) (EModel M_FREE_ACTOR a))) as [dl s2] eqn:SD.
    destruct (state_drops_h x _ _ _ _ _ SD) as [-> DH]. intros Q; inversion Q; subst pre s'. unfold LW.
    rewrite H_emit, ctr_emit, (H_upd_some x s a _ _ A), (ctr_upd_some x s a _ _ A), !(cact_hind _ _ _ RF), hmops_app, DH.
    assert (HN : hmops x (match a_notify y with Some nt => [MRetInvoke nt None] | None => [] end) = hnotopt x (a_notify y)).
    { destruct (a_notify y); cbn [hmops hmop hnotopt]; lia. }
    rewrite HN. unfold hactor at 1. cbn [a_rc x1]. assert (HX1 : hactor x x1 = 0) by reflexivity. rewrite HX1, RC.
    destruct (hind01 x (HR a)) as [E|E]; rewrite E in *; try specialize (C1 eq_refl); unfold MX in *; lia.
  - destruct DC as [(_ & _ & D)|(_ & DC)]; [discriminate D|].
    intros Q; inversion Q; subst pre s'. unfold LW.
    rewrite (H_upd_some x s a _ _ A), (ctr_upd_some x s a _ _ A), !(cact_hind _ _ _ RF), hactor_with_rc. cbn [a_rc with_rc hmops].
    destruct (hind01 x (HR a)) as [E|E]; rewrite E in *; try specialize (C1 eq_refl); unfold MX in *; lia.
Qed.

Lemma cact_rc x a y y' : rf x -> a_rc y' = a_rc y -> cact x a y' = cact x a y.
Proof. intros RF E. rewrite !(cact_hind _ _ _ RF), E. reflexivity. Qed.

Lemma terminate_R a c s pre s' x : rf x -> PJ (fun _ => 0) s -> terminate a c s = (pre, s') -> LW x 0 s pre s'.
Proof.
  intros RF P. destruct (P x RF) as [R0 J0].
  unfold terminate. destruct (aget (actors s) a) as [y|] eqn:A; [|intros Q; inversion Q; subst; unfold LW; rewrite H_emit, ctr_emit; cbn [hmops]; lia].
  set (x1 := mkActor SZombie (oz (count_set_state (a_strong y) STATE_ZOMBIE)) (a_rc y) None (a_logid y) (a_freed y)).
  set (s0 := if a_freed y then emit s (EModel M_UAF a) else s).
  assert (A0 : aget (actors s0) a = Some y) by (unfold s0; destruct (a_freed y); exact A).
  assert (H0 : H x s0 = H x s) by (unfold s0; destruct (a_freed y); reflexivity).
  assert (C0 : ctr x s0 = ctr x s) by (unfold s0; destruct (a_freed y); reflexivity).
  destruct (state_drops a (a_state y) (upd_actor s0 a x1)) as [dl s1] eqn:SD.
  destruct (state_drops_h x _ _ _ _ _ SD) as [-> DH].
  assert (HS1 : H x (upd_actor s0 a x1) = H x s - hactor x y).
  { rewrite (H_upd_some x s0 a _ _ A0), H0, (cact_rc x a y x1 RF eq_refl). assert (HX1 : hactor x x1 = 0) by reflexivity. lia. }
  assert (CS1 : ctr x (upd_actor s0 a x1) = ctr x s).
  { rewrite (ctr_upd_some x s0 a _ _ A0), C0, (cact_rc x a y x1 RF eq_refl). lia. }
  unfold LW. destruct (a_notify y) as [nt|] eqn:NT; intros Q; inversion Q; subst pre s'; rewrite HS1, CS1, ?hmops_app, DH; unfold hactor; rewrite NT;
    cbn [hmops hmop hnotopt]; lia.
Qed.

Lemma toready_R a s pre s' x : rf x -> PJ (fun _ => 0) s -> handle (MToReady a) s = (pre, s') -> LW x 0 s pre s'.
Proof.
  intros RF P. destruct (P x RF) as [R0 J0]. cbn [handle].
  assert (TRIV : forall e, LW x 0 s [] (emit s e)) by (intros e; unfold LW; rewrite H_emit, ctr_emit; cbn [hmops]; lia).
  destruct (aget (actors s) a) as [y|] eqn:A; [|intros Q; inversion Q; subst; apply TRIV].
  destruct (a_state y) as [held|sh slab nx|] eqn:SA; try (intros Q; inversion Q; subst; apply TRIV).
  set (x1 := mkActor (SReady [] [] 0%N) (oz (count_set_state (a_strong y) STATE_READY)) (a_rc y) (a_notify y) (a_logid y) (a_freed y)).
  intros Q; inversion Q; subst pre s'. unfold LW.
  rewrite H_emit, ctr_emit, (H_upd_some x s a _ _ A), (ctr_upd_some x s a _ _ A), (cact_rc x a y x1 RF eq_refl), hmops_runitems, (hactor_unf x y _ SA).
  assert (HX1 : hactor x x1 = hnotopt x (a_notify y)) by reflexivity. rewrite HX1. cbn [hstate]. lia.
Qed.

Ltac nn_R :=
  repeat match goal with
  | |- context [hind ?x ?y] => lazymatch goal with _ : 0 <= hind x y <= 1 |- _ => fail | _ => pose proof (hind_range x y) end
  | |- context [henv ?x ?l] => lazymatch goal with _ : 0 <= henv x l |- _ => fail | _ => pose proof (henv_nn x l) end
  | |- context [hq ?x ?l] => lazymatch goal with _ : 0 <= hq x l |- _ => fail | _ => pose proof (hq_nn x l) end
  | |- context [hcc ?x ?l] => lazymatch goal with _ : 0 <= hcc x l |- _ => fail | _ => pose proof (hcc_nn x l) end
  | |- context [hret ?x ?l] => lazymatch goal with _ : 0 <= hret x l |- _ => fail | _ => pose proof (hret_nn x l) end
  | |- context [hv ?x ?l] => lazymatch goal with _ : 0 <= hv x l |- _ => fail | _ => pose proof (hv_nn x l) end
  | |- context [hci ?x ?l] => lazymatch goal with _ : 0 <= hci x l |- _ => fail | _ => pose proof (hci_nn x l) end
  | |- context [htim ?x ?l] => lazymatch goal with _ : 0 <= htim x l |- _ => fail | _ => pose proof (htim_nn x l) end
  | |- context [hslab ?x ?l] => lazymatch goal with _ : 0 <= hslab x l |- _ => fail | _ => pose proof (hslab_nn x l) end
  end.

Ltac qrw :=
  repeat match goal with
  | H : mainq ?s = _ |- context [mainq ?s] => rewrite H
  | H : lazyq ?s = _ |- context [lazyq ?s] => rewrite H
  | H : idleq ?s = _ |- context [idleq ?s] => rewrite H
  end; cbn [hq].

Ltac gen2_R x RF := intros Q; inj_R Q; law_R x RF; qrw; nn_R; try lia.

Lemma runitem_R c s pre s' x : rf x -> PJ (fun x => hci x c) s -> run_item c s = (pre, s') -> LW x (hci x c) s pre s'.
Proof.
  intros RF P. destruct (P x RF) as [R0 J0]. pose proof (hst_H x s) as HS. pose proof (hst_nn x s) as SN.
  unfold LW, run_item. destruct c as [u i kd caps q]. rewrite hci_eq. destruct kd; repeat dest_match; gen2_R x RF.
  match goal with E : nth_error ?slab _ = Some (SOcc ?child) |- _ => pose proof (hslab_list_set_vac x slab _ snext _ E) as LV; cbn [hslab] in LV end.
  rewrite (hind_rf_O _ _ RF) in LV. lia.
Qed.

Lemma dropown_R a lg s pre s' x : rf x -> PJ (fun x => hind x (HO a) + hind x (HR a)) s -> drop_own a lg s = (pre, s') ->
  LW x (hind x (HO a) + hind x (HR a)) s pre s'.
Proof.
  intros RF P. destruct (P x RF) as [R0 J0]. pose proof (hst_H x s) as HS. pose proof (hst_nn x s) as SN.
  rewrite (hind_rf_O _ _ RF) in *.
  unfold LW, drop_own. destruct lg; repeat dest_match; gen2_R x RF.
Qed.

Lemma retinvoke_R r m0 s pre s' x : rf x -> PJ (fun x => hret x r) s -> ret_invoke r m0 s = (pre, s') -> LW x (hret x r) s pre s'.
Proof.
  intros RF P. destruct (P x RF) as [R0 J0]. pose proof (hst_H x s) as HS. pose proof (hst_nn x s) as SN.
  unfold LW, ret_invoke. destruct r as [rid k]. rewrite hret_eq in *. destruct k; repeat dest_match; gen2_R x RF.
Qed.

Lemma dropval_R v s pre s' x : rf x -> PJ (fun x => hv x v) s -> drop_val v s = (pre, s') -> LW x (hv x v) s pre s'.
Proof.
  intros RF P. destruct v as [a|a|a|r|f|t sc].
  - destruct (P x RF) as [R0 J0]. unfold LW, drop_val. gen2_R x RF.
  - destruct (P x RF) as [R0 J0]. unfold LW, drop_val. gen2_R x RF.
  - destruct (P x RF) as [R0 J0]. unfold LW, drop_val. gen2_R x RF.
  - destruct (P x RF) as [R0 J0]. unfold LW, drop_val. gen2_R x RF.
  - rewrite hv_fwd. apply dropval_fwd_R; auto.
  - destruct (P x RF) as [R0 J0]. unfold LW, drop_val. gen2_R x RF.
Qed.

Lemma endbody_R u f s pre s' x : rf x -> PJ (fun _ => 0) s -> handle (MEndBody u f) s = (pre, s') -> LW x 0 s pre s'.
Proof.
  intros RF P. destruct (P x RF) as [R0 J0]. unfold LW. cbn [handle].
  destruct (frames s) as [|fr rest] eqn:FR; intros Q; inj_R Q; [law_R x RF; lia|].
  rewrite H_set_frames, H_emit, ctr_set_frames, ctr_emit, hmops_app, hmops_drops. change (frames (emit s (EEnd u))) with (frames s). rewrite FR. cbn [hfrs].
  assert (T : hmops x (match f with
     | FNone => []
     | FMeth a => match f_die fr with Some c => [MTerminate a c] | None => [] end
     | FPrep a ready => match f_die fr with
                        | Some c => if ready then [MOrphNew a; MTerminate a c; MOrphDrop a] else [MTerminate a c]
                        | None => if ready then [MToReady a] else [] end end) = 0).
  { destruct f; [|destruct (f_die fr)|destruct (f_die fr); destruct ready]; reflexivity. }
  rewrite T. lia.
Qed.

Lemma phases_R m s pre s' x : rf x -> PJ (fun _ => 0) s ->
  match m with MTop _ | MPopFrame | MNew _ | MRunIdle _ | MRunMain _ | MLoop _ | MDrain _ | MDropFields | MDropEnd | MDropAll | MEpilogue | MLeaks
             | MLogClose _ _ | MValDrop _ | MDelDone _ _ | MOrphNew _ | MOrphDrop _ => True | _ => False end ->
  handle m s = (pre, s') -> LW x 0 s pre s'.
Proof.
  intros RF P SP. destruct (P x RF) as [R0 J0]. pose proof (hst_H x s) as HS. pose proof (hst_nn x s) as SN.
  unfold LW. destruct m; try contradiction; cbn [handle].
  - unfold do_top. destruct o; repeat dest_match; gen2_R x RF.
  - destruct (frames s) as [|fr rest] eqn:FR; gen2_R x RF.
  - gen2_R x RF.
  - gen2_R x RF.
  - gen2_R x RF.
  - gen2_R x RF.
  - destruct (aget (actors s) a); gen2_R x RF.
  - (* MNew *) unfold fresh_stakker. intros Q; inj_R Q. law_R x RF. change (mainq (emit s (ENew t))) with (mainq s).
    destruct (dk s); rewrite ?hmops_dropitems; cbn [hmops hq map]; nn_R; lia.
  - (* MRunIdle *) destruct idle; [destruct (idleq s) as [|c0 r0] eqn:IQ|]; gen2_R x RF.
  - (* MRunMain *)
    destruct (t >? now (set_mainq s [])).
    + destruct (fire t (set_now (set_mainq s []) t)) as [fired s2] eqn:FI. intros Q; inj_R Q.
      pose proof (H_fire x _ _ _ _ FI) as HF. pose proof (ctr_fire x _ _ _ _ FI) as CF. law_R x RF.
      rewrite ?hmops_runitems, ?hq_app. cbn [hq] in *. nn_R. lia.
    + intros Q; inj_R Q. law_R x RF. rewrite ?hmops_runitems. cbn [hq]. nn_R. lia.
  - (* MLoop *) destruct (mainq s) as [|c0 r0] eqn:MQ; [destruct (lazyq s) as [|c1 r1] eqn:LQ|].
    + destruct (t >? recreate s); gen2_R x RF.
    + intros Q; inj_R Q. law_R x RF. rewrite ?hmops_app, ?hmops_runitems. cbn [hq hmops hmop]. rewrite ?hmops_runitems. qrw. nn_R. lia.
    + intros Q; inj_R Q. law_R x RF. rewrite ?hmops_app, ?hmops_runitems. cbn [hq hmops hmop]. rewrite ?hmops_runitems. qrw. nn_R. lia.
  - (* MDrain *) destruct (i >=? TEARDOWN_ROUNDS).
    + destruct (is_nil (mainq s)); gen2_R x RF.
    + destruct (mainq s) as [|c0 r0] eqn:MQ; [gen2_R x RF|]. intros Q; inj_R Q. law_R x RF.
      rewrite ?hmops_app, ?hmops_dropitems. cbn [hq hmops hmop]. rewrite ?hmops_dropitems. qrw. nn_R. lia.
  - (* MDropFields *) cbv zeta. intros Q; inj_R Q.
    assert (G : forall s0, H x s0 = H x s -> ctr x s0 = ctr x s -> lazyq s0 = lazyq s -> idleq s0 = idleq s -> timers s0 = timers s ->
      0 <= ctr x (emit (set_tvars (set_timers (set_idleq (set_lazyq s0 []) []) []) []) EDropFields) <= MX /\
      (ctr x s = MX -> ctr x (emit (set_tvars (set_timers (set_idleq (set_lazyq s0 []) []) []) []) EDropFields) = MX) /\
      (ctr x (emit (set_tvars (set_timers (set_idleq (set_lazyq s0 []) []) []) []) EDropFields) = MX \/
       hmops x (map MDropItem (lazyq s0 ++ idleq s0 ++ map ti_ci (ti_sort (timers s0))) ++ [MDropEnd]) +
       H x (emit (set_tvars (set_timers (set_idleq (set_lazyq s0 []) []) []) []) EDropFields) <= 0 + H x s)).
    { intros s0 E1 E2 E3 E4 E5. rewrite H_emit, H_set_tvars, H_set_timers, H_set_idleq, H_set_lazyq, hmops_app, hmops_dropitems, !hq_app, hq_map_ti, htim_sort.
      change (idleq (set_lazyq s0 [])) with (idleq s0). change (timers (set_idleq (set_lazyq s0 []) [])) with (timers s0).
      rewrite ctr_emit, ctr_set_tvars, ctr_set_timers, ctr_set_idleq, ctr_set_lazyq, E1, E2, E3, E4, E5. cbn [hq htim hmops hmop].
      split; [exact R0|]. split; [auto|]. right. lia. }
    destruct (ambiguous (timers s)); apply G; reflexivity.
  - (* MDropEnd *) destruct (is_nil (mainq s)); gen2_R x RF.
  - (* MDropAll *) destruct (amin (env s)) as [[h v]|] eqn:AM; [|gen2_R x RF]. intros Q; inj_R Q. law_R x RF.
    pose proof (henv_aget x _ _ _ (amin_aget _ _ _ AM)). lia.
  - gen2_R x RF.
  - (* MLeaks *) intros Q; inj_R Q. rewrite H_set_tr, ctr_set_tr, H_class_flags, ctr_class_flags. cbn [hmops]. lia.
Qed.
