(** Layer R proofs: C04, the queue-position clause of the Notify-Dropped check.  Part 1: the main queue is only
    appended to, except when a run takes its batch or a Stakker drops / replaces it. *)
From Coq Require Import ZArith NArith List Bool Lia.
From Stk Require Import R.LinEvs R.LinC03K R.Lin R.LinAct R.LinLaw R.LinStep R.C06cProofs R.C02Proofs.
From Stk Require Import Lib.U Gen.SrcCount Gen.SrcCore Gen.SrcLog R.Syntax R.Rt R.Mon R.Shape R.Eff R.Tags R.Mono R.Count
  R.Nest R.C15Proofs R.C20Proofs R.Calls R.CallInv R.Own R.OwnLaw R.OwnVis R.C04Mon R.C04Base R.C04A R.C04Ceq R.C04SK R.C04A2 R.C04A3 R.C04B R.C04B2 R.C04T.
Import ListNotations.
Local Open Scope Z_scope.

Arguments submit : simpl never.
Arguments push_main : simpl never.
Arguments timer_add : simpl never.
Arguments emit : simpl never.
Arguments upd_actor : simpl never.
Arguments ref_clone : simpl never.
Arguments new_actor : simpl never.
Arguments log_rec : simpl never.
Arguments tok_script : simpl never.
Arguments target_ev : simpl never.
Arguments push_frame : simpl never.

Definition mqa (s s' : st) : Prop := exists add, mainq s' = mainq s ++ add.

Lemma mqa_refl s : mqa s s. Proof. exists []. rewrite app_nil_r. reflexivity. Qed.
Lemma mqa_trans s1 s2 s3 : mqa s1 s2 -> mqa s2 s3 -> mqa s1 s3.
Proof. intros [a A] [b B]. exists (a ++ b). rewrite B, A, app_assoc. reflexivity. Qed.
Lemma mqa_same s s' : mainq s' = mainq s -> mqa s s'.
Proof. intros E. exists []. rewrite app_nil_r. exact E. Qed.
Lemma mqa_push s c : mqa s (push_main s c).
Proof. exists [c]. reflexivity. Qed.
Lemma mqa_submit s q c : mqa s (submit s q c).
Proof. unfold submit. destruct q; try (apply mqa_same; reflexivity). eexists [_]. reflexivity. Qed.
Lemma mqa_tok_script script : forall s0 s, mqa s0 s -> mqa s0 (tok_script s script).
Proof.
  unfold tok_script. induction script as [|c r IH]; intros s0 s H; [exact H|]. cbn [fold_left].
  destruct (inst_env c KPlain s) as [ci s1] eqn:I. apply IH.
  apply (mqa_trans _ s1); [|apply mqa_submit].
  apply (mqa_trans _ s); [exact H|]. apply mqa_same.
  unfold inst_env in I. destruct (take_env_caps (clo_caps c) s) as [caps s2] eqn:T. inversion I; subst.
  rewrite mainq_emit, mainq_set_nuid. eapply mainq_take_env_caps; eauto.
Qed.

Ltac mqa_tac :=
  repeat first
    [ match goal with |- mqa ?x ?y => constr_eq x y; apply mqa_refl end
    | match goal with C : mqa ?x ?y |- mqa ?x2 ?y2 => constr_eq x x2; constr_eq y y2; exact C end
    | match goal with
      | |- mqa _ (emit ?s _) => apply (mqa_trans _ s); [ | apply mqa_same; apply mainq_emit ]
      | |- mqa _ (push_main ?s _) => apply (mqa_trans _ s); [ | apply mqa_push ]
      | |- mqa _ (submit ?s _ _) => apply (mqa_trans _ s); [ | apply mqa_submit ]
      | |- mqa _ (push_frame ?s _ _) => apply (mqa_trans _ s); [ | apply mqa_same; apply mainq_push_frame ]
      | |- mqa _ (timer_add ?s _ _ _ _) => apply (mqa_trans _ s); [ | apply mqa_same; apply mainq_timer_add ]
      | |- mqa _ (target_ev ?s _) => apply (mqa_trans _ s); [ | apply mqa_same; apply mainq_target_ev ]
      | |- mqa _ (log_rec ?s _ _ _ _) => apply (mqa_trans _ s); [ | apply mqa_same; apply mainq_log_rec ]
      | |- mqa _ (ref_clone ?s _) => apply (mqa_trans _ s); [ | apply mqa_same; apply mainq_ref_clone ]
      | |- mqa _ (new_actor ?s _ _ _ _) => apply (mqa_trans _ s); [ | apply mqa_same; apply mainq_new_actor ]
      | |- mqa _ (upd_actor ?s _ _) => apply (mqa_trans _ s); [ | apply mqa_same; apply mainq_upd_actor ]
      | |- mqa _ (tok_script ?s _) => apply mqa_tok_script
      | |- mqa _ (set_alive ?s _) => apply (mqa_trans _ s); [ | apply mqa_same; apply mainq_set_alive ]
      | |- mqa _ (set_now ?s _) => apply (mqa_trans _ s); [ | apply mqa_same; apply mainq_set_now ]
      | |- mqa _ (set_start ?s _) => apply (mqa_trans _ s); [ | apply mqa_same; apply mainq_set_start ]
      | |- mqa _ (set_lazyq ?s _) => apply (mqa_trans _ s); [ | apply mqa_same; apply mainq_set_lazyq ]
      | |- mqa _ (set_idleq ?s _) => apply (mqa_trans _ s); [ | apply mqa_same; apply mainq_set_idleq ]
      | |- mqa _ (set_timers ?s _) => apply (mqa_trans _ s); [ | apply mqa_same; apply mainq_set_timers ]
      | |- mqa _ (set_tnext ?s _) => apply (mqa_trans _ s); [ | apply mqa_same; apply mainq_set_tnext ]
      | |- mqa _ (set_tvars ?s _) => apply (mqa_trans _ s); [ | apply mqa_same; apply mainq_set_tvars ]
      | |- mqa _ (set_recreate ?s _) => apply (mqa_trans _ s); [ | apply mqa_same; apply mainq_set_recreate ]
      | |- mqa _ (set_fwds ?s _) => apply (mqa_trans _ s); [ | apply mqa_same; apply mainq_set_fwds ]
      | |- mqa _ (set_env ?s _) => apply (mqa_trans _ s); [ | apply mqa_same; apply mainq_set_env ]
      | |- mqa _ (set_frames ?s _) => apply (mqa_trans _ s); [ | apply mqa_same; apply mainq_set_frames ]
      | |- mqa _ (set_nuid ?s _) => apply (mqa_trans _ s); [ | apply mqa_same; apply mainq_set_nuid ]
      | |- mqa _ (set_logseq ?s _) => apply (mqa_trans _ s); [ | apply mqa_same; apply mainq_set_logseq ]
      | |- mqa _ (set_logfilter ?s _) => apply (mqa_trans _ s); [ | apply mqa_same; apply mainq_set_logfilter ]
      | |- mqa _ (set_haslogger ?s _) => apply (mqa_trans _ s); [ | apply mqa_same; apply mainq_set_haslogger ]
      | |- mqa _ (set_shut ?s _) => apply (mqa_trans _ s); [ | apply mqa_same; apply mainq_set_shut ]
      | |- mqa _ (set_tr ?s _) => apply (mqa_trans _ s); [ | apply mqa_same; apply mainq_set_tr ]
      | |- mqa _ (if ?b then _ else _) => destruct b
      | |- mqa _ (match ?b with Some _ => _ | None => _ end) => destruct b
      | |- mqa _ ?s' =>
          match goal with
          | E : take ?s _ = (_, s') |- _ => apply (mqa_trans _ s); [ | apply mqa_same; apply (mainq_take _ _ _ _ E) ]
          | E : take_caps _ ?s = (_, s') |- _ => apply (mqa_trans _ s); [ | apply mqa_same; apply (mainq_take_caps _ _ _ _ E) ]
          | E : bind ?s _ _ = (_, s') |- _ => apply (mqa_trans _ s); [ | apply mqa_same; apply (mainq_bind _ _ _ _ _ E) ]
          | E : bad ?s _ = (_, s') |- _ => apply (mqa_trans _ s); [ | apply mqa_same; apply (mainq_bad _ _ _ _ E) ]
          | E : inst _ _ ?s = (_, s') |- _ => apply (mqa_trans _ s); [ | apply mqa_same; apply (mainq_inst _ _ _ _ _ E) ]
          | E : inst_call _ _ ?s = (_, s') |- _ => apply (mqa_trans _ s); [ | apply mqa_same; apply (mainq_inst_call _ _ _ _ _ E) ]
          | E : inst_nocaps _ _ ?s = (_, s') |- _ => apply (mqa_trans _ s); [ | apply mqa_same; apply (mainq_inst_nocaps _ _ _ _ _ E) ]
          | E : mk_notifier ?s _ _ = (_, s') |- _ => apply (mqa_trans _ s); [ | apply mqa_same; apply (mainq_mk_notifier _ _ _ _ _ E) ]
          end
      end ].


Ltac mqa_all := solve [intros Q; try injp Q; mqa_tac].

Lemma do_act_mqa act s pre s' : do_act act s = (pre, s') -> mqa s s'.
Proof. unfold do_act. destruct act; try solve [repeat dest_match; mqa_all]. Qed.

Definition batchop (m : mop) : bool :=
  match m with MRunMain _ | MLoop _ | MDrain _ | MNew _ => true | _ => false end.

Lemma handle_mqa m s pre s' : batchop m = false -> handle m s = (pre, s') -> mqa s s'.
Proof.
  intros NB. destruct m; try discriminate NB; cbn [handle].
  - unfold do_top. destruct o; repeat dest_match; mqa_all.
  - destruct l as [|act l]; [mqa_all|].
    destruct (do_act act s) as [p s1] eqn:E. intros Q; injp Q. eapply do_act_mqa; eauto.
  - destruct (frames s) as [|fr rest]; mqa_all.
  - destruct (frames s) as [|fr rest]; mqa_all.
  - unfold run_item. destruct c as [u i kd caps q]. destruct kd; repeat dest_match; mqa_all.
  - unfold drop_item. destruct c as [u i kd caps q]. destruct kd; mqa_all.
  - mqa_all.
  - unfold drop_val. destruct v; repeat dest_match; mqa_all.
  - unfold drop_own. repeat dest_match; mqa_all.
  - unfold drop_ref. destruct (aget (actors s) a) as [y|] eqn:A; [|mqa_all].
    destruct (a_freed y); [mqa_all|]. destruct (minrc_drop (a_rc y)) as [[v z]|]; [|mqa_all].
    destruct z; [|mqa_all].
    destruct (state_drops a (a_state y) _) as [dl s2] eqn:SD. intros Q; injp Q.
    destruct (state_drops_h (HO 0) _ _ _ _ _ SD) as [-> _]. mqa_tac.
  - unfold ret_invoke. destruct r as [rid k]. destruct k; repeat dest_match; mqa_all.
  - mqa_all.
  - mqa_all.
  - mqa_all.
  - mqa_all.
  - unfold terminate. destruct (aget (actors s) a) as [y|] eqn:A; [|mqa_all].
    destruct (state_drops a (a_state y) _) as [dl s1] eqn:SD.
    destruct (state_drops_h (HO 0) _ _ _ _ _ SD) as [-> _].
    destruct (a_notify y); intros Q; injp Q; mqa_tac.
  - destruct (aget (actors s) a); mqa_all.
  - destruct (aget (actors s) a) as [y|] eqn:A; [|mqa_all]. destruct (a_state y); mqa_all.
  - destruct idle; [destruct (idleq s)|]; mqa_all.
  - cbv zeta. mqa_all.
  - repeat dest_match; mqa_all.
  - repeat dest_match; mqa_all.
  - mqa_all.
  - intros Q; injp Q. apply mqa_same. cbn [mainq set_tr]. apply C04A.mainq_class_flags.
Qed.
