(** Layer R proofs: C04, the queue-position clause of the Notify-Dropped check.  Part 1: the main queue is only
    appended to, except when a run takes its batch or a Stakker drops / replaces it. *)
From Coq Require Import ZArith NArith List Bool Lia.
From Stk Require Import R.LinEvs R.LinC03K R.Lin R.LinAct R.LinLaw R.LinStep R.C06cProofs R.C02Proofs.
From Stk Require Import Lib.U Gen.SrcCount Gen.SrcCore Gen.SrcLog R.Syntax R.Rt R.Mon R.Shape R.Eff R.Tags R.Mono R.Count
  R.Nest R.C15Proofs R.C20Proofs R.Calls R.CallInv R.Own R.OwnLaw R.OwnVis R.C04Mon R.C04Base R.C04A R.C04Ceq R.C04SK R.C04A2 R.C04A3 R.C04B R.C04B2 R.C04T.
Import ListNotations.
Local Open Scope Z_scope.

Arguments submit : simpl never.
Arguments push_main : simpl never.
Arguments timer_add : simpl never.
Arguments emit : simpl never.
Arguments upd_actor : simpl never.
Arguments ref_clone : simpl never.
Arguments new_actor : simpl never.
Arguments log_rec : simpl never.
Arguments tok_script : simpl never.
Arguments target_ev : simpl never.
Arguments push_frame : simpl never.

Definition mqa (s s' : st) : Prop := exists add, mainq s' = mainq s ++ add.

Lemma mqa_refl s : mqa s s. Proof. exists []. rewrite app_nil_r. reflexivity. Qed.
Lemma mqa_trans s1 s2 s3 : mqa s1 s2 -> mqa s2 s3 -> mqa s1 s3.
Proof. intros [a A] [b B]. exists (a ++ b). rewrite B, A, app_assoc. reflexivity. Qed.
Lemma mqa_same s s' : mainq s' = mainq s -> mqa s s'.
Proof. intros E. exists []. rewrite app_nil_r. exact E. Qed.
Lemma mqa_push s c : mqa s (push_main s c).
Proof. exists [c]. reflexivity. Qed.
Lemma mqa_submit s q c : mqa s (submit s q c).
Proof. unfold submit. destruct q; try (apply mqa_same; reflexivity). eexists [_]. reflexivity. Qed.
Lemma mqa_tok_script script : forall s0 s, mqa s0 s -> mqa s0 (tok_script s script).
Proof.
  unfold tok_script. induction script as [|c r IH]; intros s0 s H; [exact H|]. cbn [fold_left].
  destruct (inst_env c KPlain s) as [ci s1] eqn:I. apply IH.
  apply (mqa_trans _ s1); [|apply mqa_submit].
  apply (mqa_trans _ s); [exact H|]. apply mqa_same.
  unfold inst_env in I. destruct (take_env_caps (clo_caps c) s) as [caps s2] eqn:T. inversion I; subst.
  rewrite mainq_emit, mainq_set_nuid. eapply mainq_take_env_caps; eauto.
Qed.

Ltac mqa_tac :=
  repeat first
    [ match goal with |- mqa ?x ?y => constr_eq x y; apply mqa_refl end
    | match goal with C : mqa ?x ?y |- mqa ?x2 ?y2 => constr_eq x x2; constr_eq y y2; exact C end
    | match goal with
      | |- mqa _ (emit ?s _) => apply (mqa_trans _ s); [ | apply mqa_same; apply mainq_emit ]
      | |- mqa _ (push_main ?s _) => apply (mqa_trans _ s); [ | apply mqa_push ]
      | |- mqa _ (submit ?s _ _) => apply (mqa_trans _ s); [ | apply mqa_submit ]
      | |- mqa _ (push_frame ?s _ _) => apply (mqa_trans _ s); [ | apply mqa_same; apply mainq_push_frame ]
      | |- mqa _ (timer_add ?s _ _ _ _) => apply (mqa_trans _ s); [ | apply mqa_same; apply mainq_timer_add ]
      | |- mqa _ (target_ev ?s _) => apply (mqa_trans _ s); [ | apply mqa_same; apply mainq_target_ev ]
      | |- mqa _ (log_rec ?s _ _ _ _) => apply (mqa_trans _ s); [ | apply mqa_same; apply mainq_log_rec ]
      | |- mqa _ (ref_clone ?s _) => apply (mqa_trans _ s); [ | apply mqa_same; apply mainq_ref_clone ]
      | |- mqa _ (new_actor ?s _ _ _ _) => apply (mqa_trans _ s); [ | apply mqa_same; apply mainq_new_actor ]
      | |- mqa _ (upd_actor ?s _ _) => apply (mqa_trans _ s); [ | apply mqa_same; apply mainq_upd_actor ]
      | |- mqa _ (tok_script ?s _) => apply mqa_tok_script
      | |- mqa _ (set_alive ?s _) => apply (mqa_trans _ s); [ | apply mqa_same; apply mainq_set_alive ]
      | |- mqa _ (set_now ?s _) => apply (mqa_trans _ s); [ | apply mqa_same; apply mainq_set_now ]
      | |- mqa _ (set_start ?s _) => apply (mqa_trans _ s); [ | apply mqa_same; apply mainq_set_start ]
      | |- mqa _ (set_lazyq ?s _) => apply (mqa_trans _ s); [ | apply mqa_same; apply mainq_set_lazyq ]
      | |- mqa _ (set_idleq ?s _) => apply (mqa_trans _ s); [ | apply mqa_same; apply mainq_set_idleq ]
      | |- mqa _ (set_timers ?s _) => apply (mqa_trans _ s); [ | apply mqa_same; apply mainq_set_timers ]
      | |- mqa _ (set_tnext ?s _) => apply (mqa_trans _ s); [ | apply mqa_same; apply mainq_set_tnext ]
      | |- mqa _ (set_tvars ?s _) => apply (mqa_trans _ s); [ | apply mqa_same; apply mainq_set_tvars ]
      | |- mqa _ (set_recreate ?s _) => apply (mqa_trans _ s); [ | apply mqa_same; apply mainq_set_recreate ]
      | |- mqa _ (set_fwds ?s _) => apply (mqa_trans _ s); [ | apply mqa_same; apply mainq_set_fwds ]
      | |- mqa _ (set_env ?s _) => apply (mqa_trans _ s); [ | apply mqa_same; apply mainq_set_env ]
      | |- mqa _ (set_frames ?s _) => apply (mqa_trans _ s); [ | apply mqa_same; apply mainq_set_frames ]
      | |- mqa _ (set_nuid ?s _) => apply (mqa_trans _ s); [ | apply mqa_same; apply mainq_set_nuid ]
      | |- mqa _ (set_logseq ?s _) => apply (mqa_trans _ s); [ | apply mqa_same; apply mainq_set_logseq ]
      | |- mqa _ (set_logfilter ?s _) => apply (mqa_trans _ s); [ | apply mqa_same; apply mainq_set_logfilter ]
      | |- mqa _ (set_haslogger ?s _) => apply (mqa_trans _ s); [ | apply mqa_same; apply mainq_set_haslogger ]
      | |- mqa _ (set_shut ?s _) => apply (mqa_trans _ s); [ | apply mqa_same; apply mainq_set_shut ]
      | |- mqa _ (set_tr ?s _) => apply (mqa_trans _ s); [ | apply mqa_same; apply mainq_set_tr ]
      | |- mqa _ (if ?b then _ else _) => destruct b
      | |- mqa _ (match ?b with Some _ => _ | None => _ end) => destruct b
      | |- mqa _ ?s' =>
          match goal with
          | E : take ?s _ = (_, s') |- _ => apply (mqa_trans _ s); [ | apply mqa_same; apply (mainq_take _ _ _ _ E) ]
          | E : take_caps _ ?s = (_, s') |- _ => apply (mqa_trans _ s); [ | apply mqa_same; apply (mainq_take_caps _ _ _ _ E) ]
          | E : bind ?s _ _ = (_, s') |- _ => apply (mqa_trans _ s); [ | apply mqa_same; apply (mainq_bind _ _ _ _ _ E) ]
          | E : bad ?s _ = (_, s') |- _ => apply (mqa_trans _ s); [ | apply mqa_same; apply (mainq_bad _ _ _ _ E) ]
          | E : inst _ _ ?s = (_, s') |- _ => apply (mqa_trans _ s); [ | apply mqa_same; apply (mainq_inst _ _ _ _ _ E) ]
          | E : inst_call _ _ ?s = (_, s') |- _ => apply (mqa_trans _ s); [ | apply mqa_same; apply (mainq_inst_call _ _ _ _ _ E) ]
          | E : inst_nocaps _ _ ?s = (_, s') |- _ => apply (mqa_trans _ s); [ | apply mqa_same; apply (mainq_inst_nocaps _ _ _ _ _ E) ]
          | E : mk_notifier ?s _ _ = (_, s') |- _ => apply (mqa_trans _ s); [ | apply mqa_same; apply (mainq_mk_notifier _ _ _ _ _ E) ]
          end
      end ].


Ltac mqa_all := solve [intros Q; try injp Q; mqa_tac].

Lemma do_act_mqa act s pre s' : do_act act s = (pre, s') -> mqa s s'.
Proof. unfold do_act. destruct act; try solve [repeat dest_match; mqa_all]. Qed.

Definition batchop (m : mop) : bool :=
  match m with MRunMain _ | MLoop _ | MDrain _ | MNew _ => true | _ => false end.

Lemma handle_mqa m s pre s' : batchop m = false -> handle m s = (pre, s') -> mqa s s'.
Proof.
  intros NB. destruct m; try discriminate NB; cbn [handle].
  - unfold do_top. destruct o; repeat dest_match; mqa_all.
  - destruct l as [|act l]; [mqa_all|].
    destruct (do_act act s) as [p s1] eqn:E. intros Q; injp Q. eapply do_act_mqa; eauto.
  - destruct (frames s) as [|fr rest]; mqa_all.
  - destruct (frames s) as [|fr rest]; mqa_all.
  - unfold run_item. destruct c as [u i kd caps q]. destruct kd; repeat dest_match; mqa_all.
  - unfold drop_item. destruct c as [u i kd caps q]. destruct kd; mqa_all.
  - mqa_all.
  - unfold drop_val. destruct v; repeat dest_match; mqa_all.
  - unfold drop_own. repeat dest_match; mqa_all.
  - unfold drop_ref. destruct (aget (actors s) a) as [y|] eqn:A; [|mqa_all].
    destruct (a_freed y); [mqa_all|]. destruct (minrc_drop (a_rc y)) as [[v z]|]; [|mqa_all].
    destruct z; [|mqa_all].
    destruct (state_drops a (a_state y) _) as [dl s2] eqn:SD. intros Q; injp Q.
    destruct (state_drops_h (HO 0) _ _ _ _ _ SD) as [-> _]. mqa_tac.
  - unfold ret_invoke. destruct r as [rid k]. destruct k; repeat dest_match; mqa_all.
  - mqa_all.
  - mqa_all.
  - mqa_all.
  - mqa_all.
  - unfold terminate. destruct (aget (actors s) a) as [y|] eqn:A; [|mqa_all].
    destruct (state_drops a (a_state y) _) as [dl s1] eqn:SD.
    destruct (state_drops_h (HO 0) _ _ _ _ _ SD) as [-> _].
    destruct (a_notify y); intros Q; injp Q; mqa_tac.
  - destruct (aget (actors s) a); mqa_all.
  - destruct (aget (actors s) a) as [y|] eqn:A; [|mqa_all]. destruct (a_state y); mqa_all.
  - destruct idle; [destruct (idleq s)|]; mqa_all.
  - cbv zeta. mqa_all.
  - repeat dest_match; mqa_all.
  - repeat dest_match; mqa_all.
  - mqa_all.
  - intros Q; injp Q. apply mqa_same. cbn [mainq set_tr]. apply C04A.mainq_class_flags.
Qed.

(* ------------------------------------------------------------------ *)
(** * Calls enter the main queue only from an act or a Ret invocation *)

Definition notcall (c : citem) : Prop := ~ callk c.

Definition mqc (s s' : st) : Prop := forall c, In c (mainq s') -> In c (mainq s) \/ notcall c.

Lemma mqc_refl s : mqc s s. Proof. intros c H; auto. Qed.
Lemma mqc_trans s1 s2 s3 : mqc s1 s2 -> mqc s2 s3 -> mqc s1 s3.
Proof. intros A B c H. destruct (B c H) as [H2|N]; auto. Qed.
Lemma mqc_same s s' : mainq s' = mainq s -> mqc s s'.
Proof. intros E c H. rewrite E in H. auto. Qed.
Lemma mqc_push s c : notcall c -> mqc s (push_main s c).
Proof. intros N d H. unfold push_main in H. cbn [mainq set_mainq] in H. apply in_app_or in H as [H|[<-|[]]]; auto. Qed.
Lemma notcall_setq c q : notcall c -> notcall (ci_setq c q).
Proof. intros N H. apply N. destruct c; exact H. Qed.
Lemma mqc_submit s q c : notcall c -> mqc s (submit s q c).
Proof.
  intros N. unfold submit. destruct q; try (apply mqc_same; reflexivity).
  intros d H. unfold push_main in H. cbn [mainq set_mainq] in H. apply in_app_or in H as [H|[<-|[]]]; [left; exact H | right; apply notcall_setq; exact N].
Qed.
Lemma mqc_nil s s' : mainq s' = [] -> mqc s s'.
Proof. intros E c H. rewrite E in H. destruct H. Qed.
Lemma mqc_tok_script script : forall s0 s, mqc s0 s -> mqc s0 (tok_script s script).
Proof.
  unfold tok_script. induction script as [|c r IH]; intros s0 s H; [exact H|]. cbn [fold_left].
  destruct (inst_env c KPlain s) as [ci s1] eqn:I. apply IH.
  apply (mqc_trans _ s1).
  - apply (mqc_trans _ s); [exact H|]. apply mqc_same.
    unfold inst_env in I. destruct (take_env_caps (clo_caps c) s) as [caps s2] eqn:T. inversion I; subst.
    rewrite mainq_emit, mainq_set_nuid. eapply mainq_take_env_caps; eauto.
  - apply mqc_submit. unfold inst_env in I. destruct (take_env_caps (clo_caps c) s) as [caps s2]. inversion I; subst.
    intros H0. exact H0.
Qed.

Ltac nc_tac := first [ (intros HH; exact HH) | (unfold notcall, callk; simpl; tauto) ].

Ltac mqc_tac :=
  repeat first
    [ match goal with |- mqc ?x ?y => constr_eq x y; apply mqc_refl end
    | match goal with C : mqc ?x ?y |- mqc ?x2 ?y2 => constr_eq x x2; constr_eq y y2; exact C end
    | match goal with
      | |- mqc _ (emit ?s _) => apply (mqc_trans _ s); [ | apply mqc_same; apply mainq_emit ]
      | |- mqc _ (push_main ?s _) => apply (mqc_trans _ s); [ | apply mqc_push; nc_tac ]
      | |- mqc _ (submit ?s _ _) => apply (mqc_trans _ s); [ | apply mqc_submit; nc_tac ]
      | |- mqc _ (push_frame ?s _ _) => apply (mqc_trans _ s); [ | apply mqc_same; apply mainq_push_frame ]
      | |- mqc _ (timer_add ?s _ _ _ _) => apply (mqc_trans _ s); [ | apply mqc_same; apply mainq_timer_add ]
      | |- mqc _ (target_ev ?s _) => apply (mqc_trans _ s); [ | apply mqc_same; apply mainq_target_ev ]
      | |- mqc _ (log_rec ?s _ _ _ _) => apply (mqc_trans _ s); [ | apply mqc_same; apply mainq_log_rec ]
      | |- mqc _ (ref_clone ?s _) => apply (mqc_trans _ s); [ | apply mqc_same; apply mainq_ref_clone ]
      | |- mqc _ (new_actor ?s _ _ _ _) => apply (mqc_trans _ s); [ | apply mqc_same; apply mainq_new_actor ]
      | |- mqc _ (upd_actor ?s _ _) => apply (mqc_trans _ s); [ | apply mqc_same; apply mainq_upd_actor ]
      | |- mqc _ (tok_script ?s _) => apply mqc_tok_script
      | |- mqc _ (set_mainq _ []) => apply mqc_nil; reflexivity
      | |- mqc _ (set_alive ?s _) => apply (mqc_trans _ s); [ | apply mqc_same; apply mainq_set_alive ]
      | |- mqc _ (set_now ?s _) => apply (mqc_trans _ s); [ | apply mqc_same; apply mainq_set_now ]
      | |- mqc _ (set_start ?s _) => apply (mqc_trans _ s); [ | apply mqc_same; apply mainq_set_start ]
      | |- mqc _ (set_lazyq ?s _) => apply (mqc_trans _ s); [ | apply mqc_same; apply mainq_set_lazyq ]
      | |- mqc _ (set_idleq ?s _) => apply (mqc_trans _ s); [ | apply mqc_same; apply mainq_set_idleq ]
      | |- mqc _ (set_timers ?s _) => apply (mqc_trans _ s); [ | apply mqc_same; apply mainq_set_timers ]
      | |- mqc _ (set_tnext ?s _) => apply (mqc_trans _ s); [ | apply mqc_same; apply mainq_set_tnext ]
      | |- mqc _ (set_tvars ?s _) => apply (mqc_trans _ s); [ | apply mqc_same; apply mainq_set_tvars ]
      | |- mqc _ (set_recreate ?s _) => apply (mqc_trans _ s); [ | apply mqc_same; apply mainq_set_recreate ]
      | |- mqc _ (set_fwds ?s _) => apply (mqc_trans _ s); [ | apply mqc_same; apply mainq_set_fwds ]
      | |- mqc _ (set_env ?s _) => apply (mqc_trans _ s); [ | apply mqc_same; apply mainq_set_env ]
      | |- mqc _ (set_frames ?s _) => apply (mqc_trans _ s); [ | apply mqc_same; apply mainq_set_frames ]
      | |- mqc _ (set_nuid ?s _) => apply (mqc_trans _ s); [ | apply mqc_same; apply mainq_set_nuid ]
      | |- mqc _ (set_logseq ?s _) => apply (mqc_trans _ s); [ | apply mqc_same; apply mainq_set_logseq ]
      | |- mqc _ (set_logfilter ?s _) => apply (mqc_trans _ s); [ | apply mqc_same; apply mainq_set_logfilter ]
      | |- mqc _ (set_haslogger ?s _) => apply (mqc_trans _ s); [ | apply mqc_same; apply mainq_set_haslogger ]
      | |- mqc _ (set_shut ?s _) => apply (mqc_trans _ s); [ | apply mqc_same; apply mainq_set_shut ]
      | |- mqc _ (set_tr ?s _) => apply (mqc_trans _ s); [ | apply mqc_same; apply mainq_set_tr ]
      | |- mqc _ (if ?b then _ else _) => destruct b
      | |- mqc _ (match ?b with Some _ => _ | None => _ end) => destruct b
      | |- mqc _ ?s' =>
          match goal with
          | E : take ?s _ = (_, s') |- _ => apply (mqc_trans _ s); [ | apply mqc_same; apply (mainq_take _ _ _ _ E) ]
          | E : take_caps _ ?s = (_, s') |- _ => apply (mqc_trans _ s); [ | apply mqc_same; apply (mainq_take_caps _ _ _ _ E) ]
          | E : bind ?s _ _ = (_, s') |- _ => apply (mqc_trans _ s); [ | apply mqc_same; apply (mainq_bind _ _ _ _ _ E) ]
          | E : bad ?s _ = (_, s') |- _ => apply (mqc_trans _ s); [ | apply mqc_same; apply (mainq_bad _ _ _ _ E) ]
          | E : inst _ _ ?s = (_, s') |- _ => apply (mqc_trans _ s); [ | apply mqc_same; apply (mainq_inst _ _ _ _ _ E) ]
          | E : inst_call _ _ ?s = (_, s') |- _ => apply (mqc_trans _ s); [ | apply mqc_same; apply (mainq_inst_call _ _ _ _ _ E) ]
          | E : inst_nocaps _ _ ?s = (_, s') |- _ => apply (mqc_trans _ s); [ | apply mqc_same; apply (mainq_inst_nocaps _ _ _ _ _ E) ]
          | E : mk_notifier ?s _ _ = (_, s') |- _ => apply (mqc_trans _ s); [ | apply mqc_same; apply (mainq_mk_notifier _ _ _ _ _ E) ]
          end
      end ].


Ltac mqc_all := solve [intros Q; try injp Q; mqc_tac].

Lemma handle_mqc m s pre s' :
  (forall l, m <> MActs l) -> (forall r mm, m <> MRetInvoke r mm) -> handle m s = (pre, s') -> mqc s s'.
Proof.
  intros NA NR. destruct m; cbn [handle].
  - unfold do_top. destruct o; repeat dest_match; mqc_all.
  - exfalso. eapply NA; reflexivity.
  - destruct (frames s) as [|fr rest]; mqc_all.
  - destruct (frames s) as [|fr rest]; mqc_all.
  - unfold run_item. destruct c as [u i kd caps q]. destruct kd; repeat dest_match; mqc_all.
  - unfold drop_item. destruct c as [u i kd caps q]. destruct kd; mqc_all.
  - mqc_all.
  - unfold drop_val. destruct v; repeat dest_match; mqc_all.
  - unfold drop_own. repeat dest_match; mqc_all.
  - unfold drop_ref. destruct (aget (actors s) a) as [y|] eqn:A; [|mqc_all].
    destruct (a_freed y); [mqc_all|]. destruct (minrc_drop (a_rc y)) as [[v z]|]; [|mqc_all].
    destruct z; [|mqc_all].
    destruct (state_drops a (a_state y) _) as [dl s2] eqn:SD. intros Q; injp Q.
    destruct (state_drops_h (HO 0) _ _ _ _ _ SD) as [-> _]. mqc_tac.
  - exfalso. eapply NR; reflexivity.
  - mqc_all.
  - mqc_all.
  - mqc_all.
  - mqc_all.
  - unfold terminate. destruct (aget (actors s) a) as [y|] eqn:A; [|mqc_all].
    destruct (state_drops a (a_state y) _) as [dl s1] eqn:SD.
    destruct (state_drops_h (HO 0) _ _ _ _ _ SD) as [-> _].
    destruct (a_notify y); intros Q; injp Q; mqc_tac.
  - destruct (aget (actors s) a); mqc_all.
  - destruct (aget (actors s) a) as [y|] eqn:A; [|mqc_all]. destruct (a_state y); mqc_all.
  - unfold fresh_stakker. mqc_all.
  - destruct idle; [destruct (idleq s)|]; mqc_all.
  - destruct (t >? now (set_mainq s [])).
    + destruct (fire t (set_now (set_mainq s []) t)) as [fired s2] eqn:FI. unfold fire in FI. injection FI as ? ?; subst.
      mqc_all.
    + mqc_all.
  - repeat dest_match; mqc_all.
  - repeat dest_match; mqc_all.
  - cbv zeta. mqc_all.
  - repeat dest_match; mqc_all.
  - repeat dest_match; mqc_all.
  - mqc_all.
  - intros Q; injp Q. apply mqc_same. cbn [mainq set_tr]. apply C04A.mainq_class_flags.
Qed.

(* ------------------------------------------------------------------ *)
(** * Held queues are left alone by acts and Ret invocations *)

Lemma held_a_same s s' a : actors s' = actors s -> held_a s' a = held_a s a.
Proof. unfold held_a. intros ->. reflexivity. Qed.

Lemma keff_held s s' : keff s s' -> forall a, held_a s' a = held_a s a.
Proof.
  intros E. induction E; intros b; auto.
  - rewrite <- IHE. apply held_a_same. reflexivity.
  - rewrite <- IHE. apply held_a_same. apply H.
  - rewrite <- IHE. destruct H0 as (HH & _). eapply held_a_aset_same; eauto.
  - rewrite <- IHE. unfold held_a. destruct (N.eq_dec a b) as [<-|NE].
    + destruct (new_actor_get s1 a nt parent vis) as (y & A & S & _). rewrite A, H. unfold held_of. rewrite S. reflexivity.
    + rewrite new_actor_other by auto. reflexivity.
  - rewrite <- IHE. apply held_a_same. unfold submit. reflexivity.
  - rewrite <- IHE. apply held_a_same. unfold submit. destruct q; reflexivity.
  - rewrite <- IHE. apply held_a_same. reflexivity.
  - rewrite <- IHE. apply held_a_same. reflexivity.
Qed.

Lemma opres_held s s' a : opres s s' -> held_a s' a = held_a s a.
Proof.
  intros P. unfold held_a. specialize (P a). destruct (aget (actors s) a) as [y|].
  - destruct P as (y' & A' & (_ & S & _)). rewrite A'. unfold held_of. rewrite S. reflexivity.
  - rewrite P. reflexivity.
Qed.

Lemma ret_invoke_held r mm s pre s' a : ret_invoke r mm s = (pre, s') -> held_a s' a = held_a s a.
Proof.
  unfold ret_invoke. destruct r as [rid k]. destruct k as [caps bd|p ci|p ci|p inner|p key inner].
  - intros Q; injp Q. apply held_a_same. reflexivity.
  - intros Q; injp Q. apply held_a_same. unfold submit. reflexivity.
  - destruct mm; intros Q; injp Q; apply held_a_same; unfold submit; reflexivity.
  - destruct inner as [[p0 ci]|]; intros Q; injp Q; apply held_a_same; unfold submit; reflexivity.
  - destruct mm; intros Q; injp Q; [|reflexivity].
    rewrite (held_a_same (ref_clone s p) _ a) by reflexivity. apply opres_held. apply opres_ref_clone.
Qed.

Lemma drop_own_add a lg s pre s' : drop_own a lg s = (pre, s') ->
  mainq s' = mainq s \/ mainq s' = mainq s ++ [CI 0 0 (KTerm a) [] None].
Proof.
  unfold drop_own. repeat dest_match; intros Q; injp Q;
    unfold push_main; cbn [mainq set_mainq]; rewrite ?mainq_ref_clone, ?mainq_upd_actor, ?mainq_emit; auto.
Qed.

(* ------------------------------------------------------------------ *)
(** * The snapshot taken when the last visible owner goes *)

Lemma upd04_snap s e : o_snap (upd04 s e) =
  match e with
  | EOwnDrop a => if (cnt_of s a - 1 =? 0) && negb (nmem a (o_slabkid s)) then nset (o_snap s) a (lst_of (o_pend s) a) else o_snap s
  | _ => o_snap s
  end.
Proof. destruct e; try reflexivity; cbn [upd04]; dmatch. Qed.

Lemma snap_neutral evs t : forallb pbB evs = true -> o_snap (st04 (evs ++ t)) = o_snap (st04 t).
Proof.
  induction evs as [|e evs IH]; intros F; [reflexivity|]. simpl in F. apply andb_prop in F as [F1 F2].
  cbn [app st04]. rewrite upd04_snap, IH by auto. destruct e; try reflexivity. discriminate F1.
Qed.

Lemma nremove_keep u v l : In v l -> v <> u -> In v (nremove u l).
Proof.
  induction l as [|y l IH]; simpl; auto. intros [->|H] NE.
  - destruct (N.eqb u v) eqn:E; [apply N.eqb_eq in E; congruence | left; reflexivity].
  - destruct (N.eqb u y); [exact H | right; auto].
Qed.

Lemma conT_pos_app x evs t : 0 < conT x t -> 0 < conT x (evs ++ t).
Proof. intros H. rewrite conT_app. pose proof (conT_nn x evs). lia. Qed.

Lemma snap_pend_or_done t : forall a u, In u (lst_of (o_snap (st04 t)) a) ->
  In u (lst_of (o_pend (st04 t)) a) \/ 0 < conT (RClo u) t.
Proof.
  induction t as [|e r IH]; intros a u H; [destruct H|].
  cbn [st04] in *. rewrite upd04_snap in H. rewrite upd04_pend.
  assert (MONO : 0 < conT (RClo u) r -> 0 < conT (RClo u) (e :: r)).
  { intros P. change (e :: r) with ([e] ++ r). apply conT_pos_app. exact P. }
  assert (KEEP : In u (lst_of (o_snap (st04 r)) a) ->
                 (forall l, In u l -> In u (lst_of (o_pend (st04 r)) a) -> True) ->
                 In u (lst_of (o_pend (st04 r)) a) \/ 0 < conT (RClo u) r) by (intros X _; apply IH; exact X).
  destruct e; try (destruct (IH a u H) as [P|P]; [left; exact P | right; apply MONO; exact P]).
  - (* ESub *)
    destruct (IH a u H) as [P|P]; [|right; apply MONO; exact P]. left.
    destruct q; try exact P. destruct (nget (o_tgt (st04 r)) uid) as [b|]; [|exact P].
    rewrite lst_nset. destruct (N.eqb b a) eqn:Q; [apply N.eqb_eq in Q; subst; apply in_or_app; left; exact P | exact P].
  - (* EMeth *)
    destruct (IH a u H) as [P|P]; [|right; apply MONO; exact P].
    destruct (nget (o_tgt (st04 r)) uid) as [b|]; [|left; exact P].
    destruct (N.eq_dec u uid) as [->|NE].
    + right. cbn [conT con1]. rewrite ind_refl. pose proof (conT_nn (RClo uid) r). lia.
    + left. rewrite lst_nset. destruct (N.eqb b a) eqn:Q; [apply N.eqb_eq in Q; subst; apply nremove_keep; auto | exact P].
  - (* EDrop *)
    destruct (IH a u H) as [P|P]; [|right; apply MONO; exact P].
    destruct (nget (o_tgt (st04 r)) uid) as [b|]; [|left; exact P].
    destruct (N.eq_dec u uid) as [->|NE].
    + right. cbn [conT con1]. rewrite ind_refl. pose proof (conT_nn (RClo uid) r). lia.
    + left. rewrite lst_nset. destruct (N.eqb b a) eqn:Q; [apply N.eqb_eq in Q; subst; apply nremove_keep; auto | exact P].
  - (* EOwnDrop *)
    destruct ((cnt_of (st04 r) a0 - 1 =? 0) && negb (nmem a0 (o_slabkid (st04 r)))).
    + rewrite lst_nset in H. destruct (N.eq_dec a a0) as [->|NE].
      * rewrite N.eqb_refl in H. left. exact H.
      * assert (Q1 : N.eqb a a0 = false) by (apply N.eqb_neq; exact NE).
        assert (Q2 : N.eqb a0 a = false) by (apply N.eqb_neq; intros X; apply NE; symmetry; exact X).
        rewrite ?Q1, ?Q2 in H. destruct (IH a u H) as [P|P]; [left; exact P | right; apply MONO; exact P].
    + destruct (IH a u H) as [P|P]; [left; exact P | right; apply MONO; exact P].
Qed.

(* ------------------------------------------------------------------ *)
(** * Calls behind a pending terminate(Dropped) *)

Definition beh (a : N) (k : list mop) (s : st) (u : N) : Prop :=
  (exists k1 mk k2, k = k1 ++ mk :: k2 /\ markm a mk /\ (In u (kru a k2) \/ In u (qru a (mainq s)))) \/
  (exists q1 c q2, mainq s = q1 ++ c :: q2 /\ ci_kind c = KTerm a /\ In u (qru a q2)).

Lemma kru_loc a k u : In u (kru a k) -> 1 <= cmops (RClo u) k.
Proof. intros H. apply kcu_census. eapply kru_in_kcu; eauto. Qed.
Lemma qru_loc a l u : In u (qru a l) -> 1 <= cq (RClo u) l.
Proof. intros H. apply qcu_census. eapply qru_in_qcu; eauto. Qed.

Lemma held_loc a s u : In u (qru a (held_a s a)) -> 1 <= cacts (RClo u) (actors s).
Proof.
  unfold held_a. destruct (aget (actors s) a) as [y|] eqn:A; [|intros []]. intros H.
  apply hcu_census. unfold hcu. apply in_flat_map. exists (a, y). split; [apply aget_In; exact A|].
  simpl. eapply qru_in_qcu; eauto.
Qed.

(* a token behind a marker is somewhere in the configuration *)
Lemma beh_loc a k s u : beh a k s u -> 1 <= LinStep.cnt (RClo u) k s.
Proof.
  unfold LinStep.cnt, cst. pose proof (cmops_nn (RClo u) k). pose proof (cq_nn (RClo u) (mainq s)). pose proof (cq_nn (RClo u) (lazyq s)).
  pose proof (cq_nn (RClo u) (idleq s)). pose proof (ctim_nn (RClo u) (timers s)). pose proof (cacts_nn (RClo u) (actors s)).
  pose proof (cenv_nn (RClo u) (env s)). pose proof (cfrs_nn (RClo u) (frames s)). pose proof (cnu_nn (RClo u) (nuid s)).
  intros [(k1 & mk & k2 & -> & _ & [T|T])|(q1 & c & q2 & E & _ & T)].
  - pose proof (kru_loc _ _ _ T). rewrite cmops_app in *. simpl in *. pose proof (cmops_nn (RClo u) k1). pose proof (cmop_nn (RClo u) mk). lia.
  - pose proof (qru_loc _ _ _ T). lia.
  - pose proof (qru_loc _ _ _ T) as L. rewrite E, cq_app in *. simpl. pose proof (cq_nn (RClo u) q1). pose proof (cci_nn (RClo u) c). lia.
Qed.

Lemma app_split {X} (a b c : list X) x d : a ++ b = c ++ x :: d ->
  (exists p2, a = c ++ x :: p2 /\ d = p2 ++ b) \/ (exists c', c = a ++ c' /\ b = c' ++ x :: d).
Proof.
  revert c. induction a as [|y a IH]; intros c E; simpl in E.
  - right. exists c. auto.
  - destruct c as [|z c]; simpl in E.
    + inversion E; subst. left. exists a. auto.
    + inversion E; subst. destruct (IH c H1) as [(p2 & -> & ->)|(c' & -> & ->)]; [left; exists p2; auto | right; exists c'; auto].
Qed.

(* behind the marker that a marker at the head turns into, nothing of the pushed micro-ops is a call to a *)
Lemma marks_tail a m s pre s' k1 mk p2 :
  KS s -> markm a m -> handle m s = (pre, s') -> pre = k1 ++ mk :: p2 -> markm a mk -> kru a p2 = [].
Proof.
  intros KK MB. destruct m; try (destruct MB; fail); cbn [handle].
  - (* MRunItem (KTerm a) *)
    simpl in MB. unfold run_item. destruct c as [u i kd caps q]. simpl in MB. subst kd. intros Q; injp Q. intros E MK.
    destruct k1 as [|x k1]; inversion E; subst; [reflexivity|].
    destruct k1 as [|x2 k1]; inversion H1; subst; [destruct MK | destruct k1; discriminate].
  - (* MRetInvoke *)
    destruct m as [[v|[| | |]]|]; try (destruct MB; fail). simpl in MB.
    unfold ret_invoke. destruct r as [rid k]. destruct k as [caps bd|p ci|p ci|p inner|p key inner]; try (destruct MB; fail).
    + destruct inner as [[p0 ci]|]; intros Q; injp Q; intros E; destruct k1; discriminate E.
    + intros Q; injp Q. intros E MK. destruct k1 as [|x k1]; inversion E; subst; [reflexivity|].
      destruct k1 as [|x2 k1]; inversion H1; subst; [destruct MK | destruct k1; discriminate].
  - (* MTerminate a CDrop *)
    destruct c; try (destruct MB; fail). simpl in MB. subst a0. unfold terminate.
    destruct (aget (actors s) a) as [y|] eqn:A; [|intros Q; injp Q; intros E; destruct k1; discriminate E].
    destruct (state_drops a (a_state y) _) as [dl s1] eqn:SD.
    destruct (a_notify y) as [nt|]; intros Q; injp Q; intros E MK.
    + apply app_split in E as [(q2 & E1 & E2)|(c' & E1 & E2)].
      * exfalso. eapply (state_drops_nomark a); [exact SD | rewrite E1; apply in_or_app; right; left; reflexivity | exact MK].
      * destruct c' as [|x c']; inversion E2; subst; [destruct MK|].
        destruct c' as [|x2 c']; inversion H1; subst; [reflexivity | destruct c'; discriminate].
    + exfalso. eapply (state_drops_nomark a); [exact SD | rewrite E; apply in_or_app; right; left; reflexivity | exact MK].
Qed.

Lemma qru_app_in a l1 l2 u : In u (qru a (l1 ++ l2)) -> In u (qru a l1) \/ In u (qru a l2).
Proof. rewrite qru_app. apply in_app_or. Qed.

Lemma qru_item a l u : In u (qru a l) -> exists c, In c l /\ rcb a c = true /\ ci_uid c = u.
Proof.
  unfold qru. intros H. apply in_flat_map in H as (c & IC & IU). unfold ru in IU. destruct (rcb a c) eqn:R; [|destruct IU].
  destruct IU as [<-|[]]. eauto.
Qed.

Lemma rcb_callk a c : rcb a c = true -> callk c.
Proof. unfold rcb, callk. destruct (ci_kind c); try discriminate. intros _. exact I. Qed.

(* moving behind: a call to a that is pending in the old configuration and sits behind a marker in the new one sat
   behind a marker already *)
Lemma beh_step a u m k0 s pre s' :
  KS s -> QTags s -> FD s -> WF (m :: k0) s -> Lin (pre ++ k0) s' ->
  batchop m = false -> handle m s = (pre, s') ->
  In u (pendlist a (m :: k0) s) -> beh a (pre ++ k0) s' u -> beh a (m :: k0) s u.
Proof.
  intros KK QT F W LN NB E PL BH.
  destruct (handle_mqa _ _ _ _ NB E) as [add MQ].
  (* a call to a appended to the main queue in this step cannot be our pending one *)
  assert (NEW : In u (qru a add) -> False).
  { intros IA. destruct (qru_item _ _ _ IA) as (c' & IC & RC & CU).
    pose proof (qru_loc _ _ _ IA) as LA.
    pose proof (Lin_uid_once _ _ u LN) as ONCE. unfold LinStep.cnt, cst in ONCE. rewrite MQ, cq_app, cmops_app in ONCE.
    pose proof (cmops_nn (RClo u) pre). pose proof (cmops_nn (RClo u) k0). pose proof (cq_nn (RClo u) (mainq s)).
    pose proof (cq_nn (RClo u) (lazyq s')). pose proof (cq_nn (RClo u) (idleq s')). pose proof (ctim_nn (RClo u) (timers s')).
    pose proof (cacts_nn (RClo u) (actors s')). pose proof (cenv_nn (RClo u) (env s')). pose proof (cfrs_nn (RClo u) (frames s')).
    pose proof (cnu_nn (RClo u) (nuid s')).
    assert (SRC : (exists l, m = MActs l) \/ (exists r mm, m = MRetInvoke r mm) \/ 1 <= cq (RClo u) (mainq s)).
    { assert (D : (exists l, m = MActs l) \/ (exists r mm, m = MRetInvoke r mm) \/
                  ((forall l, m <> MActs l) /\ (forall r mm, m <> MRetInvoke r mm))).
      { destruct m; try (right; right; split; [intros ? Q; discriminate Q | intros ? ? Q; discriminate Q]).
        - left. eauto.
        - right. left. eauto. }
      destruct D as [D|[D|[NA NR]]]; [left; exact D | right; left; exact D | right; right].
      pose proof (handle_mqc _ _ _ _ NA NR E) as C.
      destruct (C c') as [IM|NC]; [rewrite MQ; apply in_or_app; right; exact IC | | exfalso; apply NC; eapply rcb_callk; eauto].
      apply qcu_census. unfold qcu. apply in_flat_map. exists c'. split; [exact IM|].
      eapply ru_in_cu. unfold ru. rewrite RC. left. exact CU. }
    destruct SRC as [(l & ->)|[(r & mm & ->)|DB]]; [| |lia].
    - (* an act *)
      assert (HS : forall b, held_a s' b = held_a s b).
      { destruct l as [|act l]; [cbn [handle] in E; injp E; reflexivity|].
        assert (KC : kclass (MActs (act :: l)) = true) by reflexivity.
        destruct (kclass_kout _ _ _ _ _ KC W QT E) as [KE _]. apply keff_held. exact KE. }
      unfold pendlist in PL. rewrite kru_cons in PL. cbn [mru app] in PL.
      apply in_app_or in PL as [PL|PL]; [|apply in_app_or in PL as [PL|PL]].
      + rewrite <- HS in PL. pose proof (held_loc _ _ _ PL). lia.
      + pose proof (kru_loc _ _ _ PL). lia.
      + pose proof (qru_loc _ _ _ PL). lia.
    - (* a Ret invocation *)
      cbn [handle] in E.
      unfold pendlist in PL. rewrite kru_cons in PL. cbn [mru app] in PL.
      apply in_app_or in PL as [PL|PL]; [|apply in_app_or in PL as [PL|PL]].
      + rewrite <- (ret_invoke_held _ _ _ _ _ a E) in PL. pose proof (held_loc _ _ _ PL). lia.
      + pose proof (kru_loc _ _ _ PL). lia.
      + pose proof (qru_loc _ _ _ PL). lia. }
  destruct BH as [(k1 & mk & k2 & EK & MK & T)|(q1 & c & q2 & EQ & CK & T)].
  - apply app_split in EK as [(p2 & EP & E2)|(c' & E1 & E0)].
    + (* the marker is among the pushed micro-ops: the head was a marker *)
      assert (INP : In mk pre) by (rewrite EP; apply in_or_app; right; left; reflexivity).
      destruct (handle_marks a _ _ _ _ KK QT F E mk INP MK) as [MB|((t & TT) & _)]; [|destruct TT; subst m; discriminate NB].
      left. exists [], m, k0. split; [reflexivity|]. split; [exact MB|].
      destruct T as [T|T].
      * subst k2. rewrite kru_app, (marks_tail _ _ _ _ _ _ _ _ KK MB E EP MK) in T. left. exact T.
      * rewrite MQ in T. apply qru_app_in in T as [T|T]; [right; exact T | exfalso; exact (NEW T)].
    + (* the marker was in the continuation already *)
      left. exists (m :: c'), mk, k2. split; [simpl; rewrite E0; reflexivity|]. split; [exact MK|].
      destruct T as [T|T]; [left; exact T|]. rewrite MQ in T. apply qru_app_in in T as [T|T]; [right; exact T | exfalso; exact (NEW T)].
  - (* the marker is the queued item *)
    rewrite MQ in EQ. apply app_split in EQ as [(p2 & EP & E2)|(c' & E1 & E0)].
    + right. exists q1, c, p2. split; [exact EP|]. split; [exact CK|]. subst q2.
      apply qru_app_in in T as [T|T]; [exact T | exfalso; exact (NEW T)].
    + (* it was queued in this very step: the last owner drop, nothing behind it *)
      exfalso. assert (INC : In c (mainq s')) by (rewrite MQ, E0; apply in_or_app; right; apply in_or_app; right; left; reflexivity).
      assert (D : (exists a0 lg, m = MDropOwn a0 lg) \/ forall a0 lg, m <> MDropOwn a0 lg).
      { destruct m; try (right; intros ? ? Q; discriminate Q). left; eauto. }
      destruct D as [(a0 & lg & ->)|D].
      * cbn [handle] in E. destruct (drop_own_add _ _ _ _ _ E) as [A|A]; rewrite MQ in A.
        -- assert (AE : add = []) by (apply (app_inv_head (mainq s)); rewrite app_nil_r; exact A). rewrite AE in E0. destruct c'; discriminate E0.
        -- apply app_inv_head in A. rewrite A in E0. destruct c' as [|x c']; inversion E0 as [[X1 X2]]; [subst q2; destruct T | destruct c'; discriminate].
      * destruct (handle_mqk _ _ _ _ D E c INC) as [IM|NT]; [|eapply NT; eauto].
        (* the same item value also in the old queue: the token after it would be counted twice *)
        destruct (qru_item _ _ _ T) as (ct & ICT & RCT & CUT).
        assert (INA : In ct add) by (rewrite E0; apply in_or_app; right; right; exact ICT).
        apply NEW. unfold qru. apply in_flat_map. exists ct. split; [exact INA|]. unfold ru. rewrite RCT. left. exact CUT.
Qed.

(* ------------------------------------------------------------------ *)
(** * Batch micro-ops: the main queue moves to the continuation in order, or is dropped *)

Lemma tops_nomark a k mk : tops k = true -> In mk k -> ~ markm a mk.
Proof. intros T IN. unfold tops in T. rewrite forallb_forall in T. specialize (T _ IN). destruct mk; try discriminate T; intros []. Qed.

Lemma batch_rest a m k0 : shape (m :: k0) -> batchop m = true -> (forall mk, In mk k0 -> ~ markm a mk) /\ kru a k0 = [].
Proof.
  intros [p [PH _]] B. unfold phase_of in PH. destruct m; try discriminate B; simpl in PH.
  - (* MNew *) destruct (tops k0) eqn:TP; [|discriminate]. split; [intros mk; apply tops_nomark; auto | apply kru_tops; auto].
  - (* MRunMain *)
    destruct k0 as [|m1 k1]; [discriminate|]. destruct m1; try discriminate PH.
    destruct ((t =? t0) && tops k1) eqn:TP; [|discriminate]. apply andb_prop in TP as [_ TP]. split.
    + intros mk [<-|IN]; [intros [] | eapply tops_nomark; eauto].
    + rewrite kru_cons. simpl. apply kru_tops; auto.
  - destruct (tops k0) eqn:TP; [|discriminate]. split; [intros mk; apply tops_nomark; auto | apply kru_tops; auto].
  - destruct (tops k0) eqn:TP; [|discriminate]. split; [intros mk; apply tops_nomark; auto | apply kru_tops; auto].
Qed.

Lemma map_runitem_split (l : list citem) k1 mk p2 : map MRunItem l = k1 ++ mk :: p2 ->
  exists l1 c l2, l = l1 ++ c :: l2 /\ mk = MRunItem c /\ p2 = map MRunItem l2.
Proof.
  revert k1. induction l as [|x l IH]; intros k1 E; simpl in E.
  - destruct k1; discriminate.
  - destruct k1 as [|y k1]; simpl in E.
    + inversion E; subst. exists [], x, l. auto.
    + inversion E; subst. destruct (IH _ H1) as (l1 & c & l2 & -> & -> & ->). exists (x :: l1), c, l2. auto.
Qed.

Lemma nomark_in_dropitems a l mk : In mk (map MDropItem l) -> ~ markm a mk.
Proof. intros IN. apply in_map_iff in IN as (c & <- & _). intros []. Qed.

Lemma beh_batch a u m k0 s pre s' :
  shape (m :: k0) -> QTags s -> batchop m = true -> handle m s = (pre, s') ->
  beh a (pre ++ k0) s' u -> beh a (m :: k0) s u.
Proof.
  intros SH QT B E BH. destruct (batch_rest a _ _ SH B) as [NM K0].
  (* a marker among run items of a list [main ++ plain] with the token behind it *)
  assert (RUN : forall main plain rest, mainq s = main -> Forall (fun c => ci_call c = false) plain -> kru a rest = [] ->
                (forall mk, In mk rest -> ~ markm a mk) ->
                forall k1 mk k2, map MRunItem (main ++ plain) ++ rest = k1 ++ mk :: k2 -> markm a mk -> In u (kru a k2) ->
                beh a (m :: k0) s u).
  { intros main plain rest MQ PL KR NR k1 mk k2 EK MK T.
    apply app_split in EK as [(p2 & EP & E2)|(c' & E1 & E0)].
    - apply map_runitem_split in EP as (l1 & c & l2 & EL & -> & ->). simpl in MK.
      apply app_split in EL as [(q2 & EM & E3)|(c2 & E4 & E5)].
      + right. exists l1, c, q2. split; [rewrite MQ; exact EM|]. split; [exact MK|].
        subst k2 l2. rewrite kru_app, kru_runitems, qru_app, KR, (qru_plain a plain PL), !app_nil_r in T. exact T.
      + exfalso. rewrite Forall_forall in PL. eapply plain_notterm; [apply PL; rewrite E5; apply in_or_app; right; left; reflexivity | exact MK].
    - exfalso. eapply NR; [rewrite E0; apply in_or_app; right; left; reflexivity | exact MK]. }
  destruct m; try discriminate B; cbn [handle] in E.
  - (* MNew *)
    injp E. exfalso. destruct BH as [(k1 & mk & k2 & EK & MK & T)|(q1 & c & q2 & EQ & _)].
    + apply app_split in EK as [(p2 & EP & _)|(c' & _ & E0)].
      * eapply nomark_in_dropitems; [rewrite EP; apply in_or_app; right; left; reflexivity | exact MK].
      * eapply NM; [rewrite E0; apply in_or_app; right; left; reflexivity | exact MK].
    + unfold fresh_stakker in EQ. cbn [mainq set_shut set_haslogger set_logfilter set_logseq set_recreate set_tvars set_start set_now set_alive set_mainq] in EQ.
      destruct q1; discriminate EQ.
  - (* MRunMain *)
    assert (FT : forall t0, Forall (fun c => ci_call c = false) (map ti_ci (ti_sort (filter (ti_due t0) (timers s))))).
    { intros t0. apply Forall_forall. intros c Hc. apply in_map_iff in Hc as (y & <- & Hy).
      apply ti_sort_in in Hy. apply filter_In in Hy as [Hy _].
      pose proof (qt_timers _ QT) as TT. eapply Forall_forall in TT; [destruct TT as [C _]; exact C | apply in_map; exact Hy]. }
    destruct (t >? now (set_mainq s [])).
    + destruct (fire t (set_now (set_mainq s []) t)) as [fired s2] eqn:FI. unfold fire in FI. injection FI as ? ?; subst. injp E.
      destruct BH as [(k1 & mk & k2 & EK & MK & [T|T])|(q1 & c & q2 & EQ & _)].
      * eapply (RUN (mainq s) _ k0 eq_refl (FT t) K0 NM); eauto.
      * exfalso. destruct (ambiguous _); cbn [mainq set_timers set_now set_mainq emit set_tr] in T; destruct T.
      * exfalso. destruct (ambiguous _); cbn [mainq set_timers set_now set_mainq emit set_tr] in EQ; destruct q1; discriminate EQ.
    + injp E. destruct BH as [(k1 & mk & k2 & EK & MK & [T|T])|(q1 & c & q2 & EQ & _)].
      * rewrite <- (app_nil_r (mainq s)) in EK. eapply (RUN (mainq s) [] k0 eq_refl (Forall_nil _) K0 NM); eauto.
      * destruct T.
      * destruct q1; discriminate EQ.
  - (* MLoop *)
    destruct (mainq s) as [|c0 l] eqn:MQ.
    + destruct (lazyq s) as [|c1 l1] eqn:LQ; injp E.
      * exfalso. destruct BH as [(k1 & mk & k2 & EK & MK & _)|(q1 & c & q2 & EQ & _)].
        -- simpl in EK. eapply NM; [rewrite EK; apply in_or_app; right; left; reflexivity | exact MK].
        -- assert (MS : forall e, mainq (emit (if t >? recreate s then set_recreate s (t + RECREATE_SECS * 1000) else s) e) = mainq s)
             by (intros e; destruct (t >? recreate s); reflexivity).
           rewrite MS, MQ in EQ. destruct q1; discriminate EQ.
      * exfalso. destruct BH as [(k1 & mk & k2 & EK & MK & _)|(q1 & c & q2 & EQ & _)].
        -- rewrite <- app_assoc in EK. apply app_split in EK as [(p2 & EP & _)|(c' & _ & E0)].
           ++ apply map_runitem_split in EP as (l2 & c & l3 & EL & -> & _). simpl in MK.
              pose proof (qt_lazy _ QT) as TL. rewrite LQ in TL. rewrite Forall_forall in TL.
              destruct (TL c) as [C _]; [rewrite EL; apply in_or_app; right; left; reflexivity|]. eapply plain_notterm; eauto.
           ++ destruct c' as [|x c']; simpl in E0; [inversion E0; subst; destruct MK|]. inversion E0 as [[X1 X2]].
              eapply NM; [rewrite X2; apply in_or_app; right; left; reflexivity | exact MK].
        -- cbn [mainq set_lazyq] in EQ. rewrite MQ in EQ. destruct q1; discriminate EQ.
    + injp E. destruct BH as [(k1 & mk & k2 & EK & MK & [T|T])|(q1 & c & q2 & EQ & _)].
      * rewrite <- app_assoc in EK. rewrite <- (app_nil_r (c0 :: l)) in EK.
        eapply (RUN (c0 :: l) [] ([MLoop t] ++ k0) eq_refl (Forall_nil _)); eauto.
        intros mk0 [<-|IN]; [intros [] | apply NM; exact IN].
      * destruct T.
      * destruct q1; discriminate EQ.
  - (* MDrain *)
    destruct (i >=? TEARDOWN_ROUNDS).
    + injp E. destruct BH as [(k1 & mk & k2 & EK & MK & _)|(q1 & c & q2 & EQ & CK & T)].
      * exfalso. destruct k1 as [|x k1]; simpl in EK; [inversion EK; subst; destruct MK|]. inversion EK as [[X1 X2]].
        eapply NM; [rewrite X2; apply in_or_app; right; left; reflexivity | exact MK].
      * right. exists q1, c, q2. split; [|auto]. destruct (is_nil (mainq s)); exact EQ.
    + destruct (mainq s) as [|c0 l] eqn:MQ; injp E.
      * exfalso. destruct BH as [(k1 & mk & k2 & EK & MK & _)|(q1 & c & q2 & EQ & _)].
        -- destruct k1 as [|x k1]; simpl in EK; [inversion EK; subst; destruct MK|]. inversion EK as [[X1 X2]].
           eapply NM; [rewrite X2; apply in_or_app; right; left; reflexivity | exact MK].
        -- rewrite MQ in EQ. destruct q1; discriminate EQ.
      * exfalso. destruct BH as [(k1 & mk & k2 & EK & MK & _)|(q1 & c & q2 & EQ & _)].
        -- rewrite <- app_assoc in EK. apply app_split in EK as [(p2 & EP & _)|(c' & _ & E0)].
           ++ eapply nomark_in_dropitems; [rewrite EP; apply in_or_app; right; left; reflexivity | exact MK].
           ++ destruct c' as [|x c']; simpl in E0; [inversion E0; subst; destruct MK|]. inversion E0 as [[X1 X2]].
              eapply NM; [rewrite X2; apply in_or_app; right; left; reflexivity | exact MK].
        -- destruct q1; discriminate EQ.
Qed.

(* ------------------------------------------------------------------ *)
(** * The invariant and the theorem *)

Definition chkN2 (s : s04) (e : ev) : bool :=
  match e with ENotify a (Some CDrop) => disjoint (lst_of (o_snap s) a) (lst_of (o_pend s) a) | _ => true end.

Lemma chkN2_pb s e : pbN e = true -> chkN2 s e = true.
Proof. destruct e; try reflexivity. destruct c as [[| | |]|]; try reflexivity. discriminate. Qed.

Definition N2 (k : list mop) (s : st) : Prop :=
  forall a u, In u (lst_of (o_snap (st04 (tr s))) a) -> In u (lst_of (o_pend (st04 (tr s))) a) -> ~ beh a k s u.

Lemma pend_is_pendlist k s a : I2 k s -> tfresh (tr s) -> lst_of (o_pend (st04 (tr s))) a = pendlist a k s.
Proof.
  intros (_ & m2 & MM & JJ) T. destruct (pend_rel _ T m2 MM) as [RP _]. rewrite RP. apply (C02Proofs.o_pend _ _ _ JJ).
Qed.

Lemma snap_step a m s pre s' : handle m s = (pre, s') -> m <> MDropOwn a true ->
  lst_of (o_snap (st04 (tr s'))) a = lst_of (o_snap (st04 (tr s))) a.
Proof.
  intros E NE. destruct (handle_evB _ _ _ _ E) as [(evs & TE & FE)|(e & PE & (s1 & (evs1 & T1 & F1) & (evs2 & T2 & F2)) & EV)].
  - rewrite TE, snap_neutral by auto. reflexivity.
  - assert (TE : tr s' = evs2 ++ e :: evs1 ++ tr s) by (rewrite T2; unfold emit; cbn [tr set_tr]; rewrite T1; reflexivity).
    rewrite TE, snap_neutral by auto. cbn [st04]. rewrite upd04_snap.
    destruct e; try discriminate PE; try (rewrite snap_neutral by auto; reflexivity).
    cbn [evok] in EV. destruct (_ && _); [|rewrite snap_neutral by auto; reflexivity].
    rewrite lst_nset. destruct (N.eqb a0 a) eqn:Q; [apply N.eqb_eq in Q; subst; contradiction | rewrite snap_neutral by auto; reflexivity].
Qed.

Lemma disjoint_intro a b : (forall x, In x a -> ~ In x b) -> disjoint a b = true.
Proof.
  intros H. unfold disjoint. apply forallb_forall. intros x Hx. apply negb_true_iff.
  destruct (nmem x b) eqn:M; auto. apply C04B2.nmem_In in M. exfalso. eapply H; eauto.
Qed.

Theorem step_N2 m k0 s pre s' :
  IB (m :: k0) s -> IB (pre ++ k0) s' -> tfresh (tr s) -> Z.of_nat (length (tr s)) < CMAX - 1 ->
  handle m s = (pre, s') -> N2 (m :: k0) s -> N2 (pre ++ k0) s'.
Proof.
  intros IBO IBN TF LEN E NN a u H1 H2 BH.
  destruct IBO as ((SH & T & W & KK & LN & II & OO & F & MM & _) & _).
  destruct IBN as ((_ & _ & _ & _ & LN' & _) & _).
  pose proof T as T'. apply Tags_split in T' as [QT _].
  pose proof (OI_prem _ _ _ (proj1 KK) OO LEN) as [SR HB LIM].
  assert (D : (exists lg, m = MDropOwn a lg) \/ forall lg, m <> MDropOwn a lg).
  { destruct m; try (right; intros ? Q; discriminate Q). destruct (N.eq_dec a0 a) as [->|NE]; [left; eauto | right; intros lg Q; inversion Q; congruence]. }
  destruct D as [(lg & ->)|D].
  - (* an owner drop of a: no deferred terminate of a is pending, the one queued now is last *)
    cbn [handle] in E.
    assert (B : 0 < ctr (HO a) s < CMAX).
    { pose proof (HB a) as HA. cbn [hmop] in HA. rewrite hind_refl in HA. pose proof (hst_nn (HO a) s). pose proof (LIM a).
      pose proof (hind_range (HO a) (HR a)). lia. }
    assert (NOM : ~ mk a (MDropOwn a lg :: k0) s).
    { intros MK. destruct (MM a MK) as (Z & _). lia. }
    destruct BH as [(k1 & mk0 & k2 & EK & MK & _)|(q1 & c & q2 & EQ & CK & TK)].
    + apply app_split in EK as [(p2 & EP & _)|(c' & _ & E0)].
      * assert (INP : In mk0 pre) by (rewrite EP; apply in_or_app; right; left; reflexivity).
        assert (EH : handle (MDropOwn a lg) s = (pre, s')) by exact E.
        destruct (handle_marks a _ _ _ _ (proj1 KK) QT F EH mk0 INP MK) as [MB|((t & [Q|Q]) & _)]; [destruct MB | discriminate Q | discriminate Q].
      * apply NOM. left. exists mk0. split; [right; rewrite E0; apply in_or_app; right; left; reflexivity | exact MK].
    + destruct (drop_own_add _ _ _ _ _ E) as [A|A].
      * apply NOM. right. exists c. split; [rewrite <- A, EQ; apply in_or_app; right; left; reflexivity | exact CK].
      * rewrite A in EQ. apply app_split in EQ as [(p2 & EP & _)|(c' & _ & E0)].
        -- apply NOM. right. exists c. split; [rewrite EP; apply in_or_app; right; left; reflexivity | exact CK].
        -- destruct c' as [|x c']; inversion E0 as [[X1 X2]]; [subst q2; destruct TK | destruct c'; discriminate].
  - (* the snapshot of a is unchanged *)
    rewrite (snap_step a _ _ _ _ E (D true)) in H1.
    assert (LOC : 1 <= LinStep.cnt (RClo u) (pre ++ k0) s') by (eapply beh_loc; eauto).
    destruct (snap_pend_or_done _ _ _ H1) as [P|P].
    + rewrite (pend_is_pendlist _ _ a II TF) in P.
      assert (OLD : ~ beh a (m :: k0) s u) by (apply NN; [exact H1 | rewrite (pend_is_pendlist _ _ a II TF); exact P]).
      apply OLD. destruct (batchop m) eqn:BO.
      * eapply beh_batch; eauto.
      * eapply beh_step; eauto. apply KK.
    + pose proof (handle_ext _ _ _ _ E) as [evs EX].
      assert (P' : 0 < conT (RClo u) (tr s')) by (rewrite EX; apply conT_pos_app; exact P).
      pose proof (Lin_uid_consumed _ _ u LN' P'). lia.
Qed.

Definition INV (k : list mop) (s : st) : Prop := IB k s /\ tfresh (tr s) /\ N2 k s /\ okx chkN2 (tr s) = true.

Lemma INV_init p : INV (map MTop p ++ [MEpilogue]) (init DGlobal).
Proof.
  split; [apply IB_init|]. split; [exact I|]. split; [|reflexivity]. intros a u H. destruct H.
Qed.

Theorem step_INV k s k' s' :
  Z.of_nat (length (tr s)) < CMAX - 1 -> INV k s -> step k s = Some (k', s') -> INV k' s'.
Proof.
  intros LEN (IBO & TF & NN & OK) ST.
  pose proof (step_IB _ _ _ _ LEN IBO ST) as IBN.
  assert (W : WF k s) by (destruct IBO as ((_ & _ & W & _) & _); exact W).
  pose proof (step_tfresh _ _ _ _ W TF ST) as TF'.
  destruct k as [|m k0]; [discriminate|]. simpl in ST. destruct (handle m s) as [pre s1] eqn:E. inversion ST; subst.
  split; [exact IBN|]. split; [exact TF'|]. split; [eapply step_N2; eauto|].
  destruct (handle_evN _ _ _ _ E) as [EV|(a & (rid & inner & ->) & EV)].
  - rewrite (okx_evs_in chkN2 pbN _ _ chkN2_pb EV). exact OK.
  - rewrite (okx_evs_in chkN2 pbN _ _ chkN2_pb EV). unfold emit. cbn [tr set_tr okx chkN2]. rewrite OK, andb_true_r.
    apply disjoint_intro. intros u H1 H2.
    destruct IBO as ((_ & _ & _ & KK & _ & II & _) & _).
    apply (NN a u H1 H2). rewrite (pend_is_pendlist _ _ a II TF) in H2.
    unfold pendlist in H2. rewrite kru_cons in H2. cbn [mru app] in H2.
    assert (HE : held_a s a = []).
    { destruct KK as [_ MK]. inversion MK as [|? ? M0' _]; subst. simpl in M0'.
      destruct (M0' a eq_refl) as (x & AX & ZX). unfold held_a, held_of. rewrite AX, ZX. reflexivity. }
    rewrite HE in H2. cbn [qru flat_map app] in H2.
    left. eexists [], _, k0. split; [reflexivity|]. split; [simpl; reflexivity|].
    apply in_app_or in H2 as [H2|H2]; [left | right]; exact H2.
Qed.

Lemma run_INV fuel : forall k s t,
  INV k s -> run fuel k s = Done t -> Z.of_nat (length t) < CMAX - 1 -> okx chkN2 (rev t) = true.
Proof.
  induction fuel as [|f IH]; intros k s t I H LEN; simpl in H.
  - destruct k; [|discriminate]. inversion H; subst. rewrite rev_involutive. apply I.
  - destruct (step k s) as [[k' s']|] eqn:ST.
    + eapply IH; [|exact H | exact LEN]. eapply step_INV; [|exact I | exact ST].
      pose proof (run_len _ _ _ _ H) as L1. pose proof (ext_len _ _ (step_ext _ _ _ _ ST)). lia.
    + inversion H; subst. rewrite rev_involutive. apply I.
Qed.

(** The termination takes the drop's place in the main queue: when an actor is notified Dropped, every call to it that
    was pending when its last visible owner went has been processed (started or discarded). *)
Theorem C04_drop_takes_queue_place_proved : forall (p : list top) (fuel : nat) (t : list ev),
  exec DGlobal fuel p = Done t -> Z.of_nat (length t) < CMAX - 1 -> okx chkN2 (rev t) = true.
Proof. intros p fuel t H LEN. unfold exec in H. eapply run_INV; [apply INV_init | exact H | exact LEN]. Qed.

(* the whole Notify-Dropped check *)
Lemma okx_and f g t : okx (fun s e => f s e && g s e) t = okx f t && okx g t.
Proof.
  induction t as [|e r IH]; [reflexivity|]. cbn [okx]. rewrite IH.
  destruct (f (st04 r) e), (g (st04 r) e), (okx f r), (okx g r); reflexivity.
Qed.

Lemma chkN_split t : okx chkN t = okx chkN1 t && okx chkN2 t.
Proof.
  rewrite <- okx_and. induction t as [|e r IH]; [reflexivity|]. cbn [okx]. rewrite IH. f_equal.
  destruct e; try reflexivity. destruct c as [[| | |]|]; reflexivity.
Qed.

Theorem C04_notify_check_proved : forall (p : list top) (fuel : nat) (t : list ev),
  exec DGlobal fuel p = Done t -> Z.of_nat (length t) < CMAX - 1 -> okx chkN (rev t) = true.
Proof.
  intros p fuel t H LEN. rewrite chkN_split, (C04_never_while_owned_proved p fuel t H LEN), (C04_drop_takes_queue_place_proved p fuel t H LEN). reflexivity.
Qed.

Print Assumptions C04_notify_check_proved.
