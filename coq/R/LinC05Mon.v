(** Layer R proofs: the C05 monitor is the product of three independent monitors
      A (core):   every Ret is created once, sent at most once, invoked exactly once with the value sent
                  (None otherwise), right after the send; nothing leaks;
      B (calls):  the call closure of a ret_to!-style Ret is queued at most once, only after the Ret was
                  invoked (with Some for ret_some_to!), and runs only after it was queued;
      C (timers): a deleted timer has released its closure.
    [C05_split]: C05_ok t = okA t && okB t && okC t. *)
From Coq Require Import ZArith NArith List Bool Lia.
From Stk Require Import Lib.U R.Syntax R.Rt R.Mon R.C15Proofs.
Import ListNotations.
Local Open Scope Z_scope.

Record sA := mkA { a_new : list N; a_sent : list (N * N); a_inv : list (N * option N); a_prev : option ev }.
Record sB := mkB { b_to : list (N * (N * bool)); b_callsub : list N; b_inv : list (N * option N) }.
Record sC := mkC { c_tvar : list ((tk * N) * N); c_tlive : list N }.

Definition adjA (s : sA) (e : ev) : bool :=
  match a_prev s with
  | Some (ERetSent r v) => match e with ERet r' (Some v') => N.eqb r r' && N.eqb v v' | _ => false end
  | _ => true
  end.

Definition stepA (s : sA) (e : ev) : option sA :=
  if negb (adjA s e) then None else
  let s := mkA (a_new s) (a_sent s) (a_inv s) (Some e) in
  match e with
  | ERetNew r => guard (negb (nmem r (a_new s))) (mkA (r :: a_new s) (a_sent s) (a_inv s) (a_prev s))
  | ERetSent r v =>
      guard (nmem r (a_new s) && match nget (a_sent s) r with None => true | _ => false end
             && match nget (a_inv s) r with None => true | _ => false end)
            (mkA (a_new s) (nset (a_sent s) r v) (a_inv s) (a_prev s))
  | ERet r m =>
      guard (nmem r (a_new s) && match nget (a_inv s) r with None => true | _ => false end
             && opt_n_eqb m (nget (a_sent s) r))
            (mkA (a_new s) (a_sent s) (nset (a_inv s) r m) (a_prev s))
  | ELeak k _ => if N.eqb k LK_RET then None else Some s
  | _ => Some s
  end.

Definition stepB (s : sB) (e : ev) : option sB :=
  match e with
  | ERetTo r u b => Some (mkB (nset (b_to s) r (u, b)) (b_callsub s) (b_inv s))
  | ERet r m => Some (mkB (b_to s) (b_callsub s) (nset (b_inv s) r m))
  | ESub QMain u _ =>
      match ret_of_call (b_to s) u with
      | Some (r, some) =>
          guard (negb (nmem u (b_callsub s)) &&
                 match nget (b_inv s) r with
                 | Some (Some _) => true
                 | Some None => negb some
                 | None => false
                 end)
                (mkB (b_to s) (u :: b_callsub s) (b_inv s))
      | None => Some s
      end
  | EMeth _ u _ =>
      match ret_of_call (b_to s) u with
      | Some _ => guard (nmem u (b_callsub s)) s
      | None => Some s
      end
  | _ => Some s
  end.

Definition stepC (s : sC) (e : ev) : option sC :=
  match e with
  | ESub QTimer u _ => Some (mkC (c_tvar s) (u :: c_tlive s))
  | ETimerVar k v u => Some (mkC (((k, v), u) :: c_tvar s) (c_tlive s))
  | ERun u _ _ | EDrop u _ _ => Some (mkC (c_tvar s) (nremove u (c_tlive s)))
  | ETimerDel k v true => guard (match tv_get (c_tvar s) k v with Some u => negb (nmem u (c_tlive s)) | None => true end) s
  | _ => Some s
  end.

Definition iA : sA := mkA [] [] [] None.
Definition iB : sB := mkB [] [] [].
Definition iC : sC := mkC [] [].

Definition finA (s : sA) : bool :=
  forallb (fun r => match nget (a_inv s) r with Some _ => true | None => false end) (a_new s)
  && match a_prev s with Some (ERetSent _ _) => false | _ => true end.

Definition okA (t : list ev) : bool := fold_mon stepA finA iA t.
Definition okB (t : list ev) : bool := fold_mon stepB (fun _ => true) iB t.
Definition okC (t : list ev) : bool := fold_mon stepC (fun _ => true) iC t.

Definition join (a : sA) (b : sB) (c : sC) : s05 :=
  mk05 (a_new a) (a_sent a) (a_inv a) (b_to b) (b_callsub b) (a_prev a) (c_tvar c) (c_tlive c).

Lemma step05_join a b c e :
  b_inv b = a_inv a ->
  step05 (join a b c) e =
    match stepA a e with
    | None => None
    | Some a' => match stepB b e with
                 | None => None
                 | Some b' => match stepC c e with
                              | None => None
                              | Some c' => Some (join a' b' c')
                              end
                 end
    end /\
  (forall a' b', stepA a e = Some a' -> stepB b e = Some b' -> b_inv b' = a_inv a').
Proof.
  intros BI. destruct a as [an asn ai ap]. destruct b as [bt bc bi]. destruct c as [cv cl]. simpl in BI. subst bi.
  unfold step05, stepA, join, adjA. cbn [r_prev a_prev r_new r_sent r_inv r_to r_callsub r_tvar r_tlive a_new a_sent a_inv b_to b_callsub b_inv c_tvar c_tlive].
  set (adj := match ap with Some (ERetSent r v) => match e with ERet r' (Some v') => N.eqb r r' && N.eqb v v' | _ => false end | _ => true end).
  destruct adj; cbn [negb]; [|split; [reflexivity | discriminate]].
  destruct e; cbn [stepB stepC b_to b_callsub b_inv c_tvar c_tlive]; unfold guard;
    repeat (match goal with
            | |- context [match ?x with _ => _ end] => destruct x
            | |- context [if ?x then _ else _] => destruct x
            end);
    (split; [reflexivity | try discriminate; intros a' b' Q1 Q2; inversion Q1; inversion Q2; reflexivity]).
Qed.

Lemma monr_join t : forall a b c,
  monr stepA iA t = Some a -> monr stepB iB t = Some b -> monr stepC iC t = Some c ->
  monr step05 i05 t = Some (join a b c) /\ b_inv b = a_inv a.
Proof.
  induction t as [|e t IH]; simpl; intros a b c HA HB HC.
  - inversion HA; inversion HB; inversion HC; subst. split; reflexivity.
  - destruct (monr stepA iA t) as [a0|]; [|discriminate].
    destruct (monr stepB iB t) as [b0|]; [|discriminate].
    destruct (monr stepC iC t) as [c0|]; [|discriminate].
    destruct (IH a0 b0 c0 eq_refl eq_refl eq_refl) as [M BI].
    rewrite M. destruct (step05_join a0 b0 c0 e BI) as [S1 S2]. rewrite S1, HA, HB, HC. split; auto.
Qed.

Theorem C05_split t : okA t = true -> okB t = true -> okC t = true -> C05_ok t = true.
Proof.
  unfold okA, okB, okC, C05_ok. rewrite <- (rev_involutive t). rewrite !fold_mon_rev.
  destruct (monr stepA iA (rev t)) as [a|] eqn:HA; [|discriminate].
  destruct (monr stepB iB (rev t)) as [b|] eqn:HB; [|discriminate].
  destruct (monr stepC iC (rev t)) as [c|] eqn:HC; [|discriminate].
  destruct (monr_join _ _ _ _ HA HB HC) as [M _]. rewrite M. intros F _ _. exact F.
Qed.
