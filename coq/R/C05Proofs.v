(** Layer R proofs: C05 (a Ret handler is invoked exactly once: Some on ret, None on drop) -- the theorem.

    [C05_proved]: for every program, fuel and deferrer kind, if the machine terminates with trace [t], the Ret ids
    created in [t] are pairwise distinct ([NoDup (ret_ids t)]: the DSL lets a program name two Rets alike, the
    monitor identifies Rets by id) and [t] reports no leaked closure, actor value or notifier
    ([no_container_leak t]: Rets captured by an object that is itself leaked -- known findings F5 / F7, reference
    cycles, leftovers of the inline deferrer -- are never dropped), then [C05_ok t = true].

    The monitor is the product of three monitors (LinC05Mon.v); their invariants are LinC05Core.v (A: created
    once, invoked exactly once with the value sent or None, nothing leaked), LinC05B.v (B: the call behind a
    ret_to! Ret) and LinC05C.v (C: timer deletion).  All rest on the linearity census of Lin*.v. *)
From Coq Require Import ZArith NArith List Bool Lia.
From Stk Require Import Lib.U Gen.SrcCount Gen.SrcCore Gen.SrcLog R.Syntax R.Rt R.Mon R.Shape R.Eff R.Tags R.Mono R.C15Proofs.
From Stk Require Import R.Lin R.LinAct R.LinLaw R.LinStep R.LinEvs R.LinTail R.LinLive R.LinEmb R.LinNin R.LinDel.
From Stk Require Import R.LinC05Mon R.LinC05A R.LinC05Pass R.LinC05Core R.LinC05B R.LinC05C.
Import ListNotations.
Local Open Scope Z_scope.

Definition J05 (k : list mop) (s : st) : Prop :=
  (exists mA, monr stepA iA (tr s) = Some mA /\ RA mA k s) /\
  (exists mB, monr stepB iB (tr s) = Some mB /\ RB mB k s) /\
  (exists mC, monr stepC iC (tr s) = Some mC /\ RC mC k s).

Definition I05 (k : list mop) (s : st) : Prop :=
  BadT (tr s) \/ (LostC k s /\ k <> []) \/ J05 k s.

(* a lost container is reported by MLeaks *)
Lemma LostC_leaks k0 s pre s' :
  handle MLeaks s = (pre, s') -> LostC (MLeaks :: k0) s -> BadT (tr s').
Proof.
  intros E (y & C & B). cbn [handle] in E. inversion E; subst pre s'; clear E.
  destruct (class_flags_tr s) as (fl & TR1 & FM & _).
  destruct (tok_container y C) as (p & TK & LK).
  right. exists (fst p), (snd p). split; auto.
  change (tr (set_tr (class_flags s) (rev (leaks (rev (tr (class_flags s)))) ++ tr (class_flags s))))
    with (rev (leaks (rev (tr (class_flags s)))) ++ tr (class_flags s)).
  apply in_or_app. left. apply -> in_rev. unfold leaks. apply in_map_iff. exists p. split; auto.
  apply (live_reported y p (tr (class_flags s)) TK).
  rewrite TR1, creT_app, conT_app. destruct (model_evs y _ FM) as (A1 & A2 & _). rewrite A1, A2.
  unfold bal, W in B. pose proof (cmops_nn y (MLeaks :: k0)). pose proof (cst_nn y s). lia.
Qed.

(* outside MNew the balance of a container is exact: a loss after the step is a loss before *)
Lemma LostC_back mo k0 s pre s' :
  Lin (mo :: k0) s -> handle mo s = (pre, s') -> (forall t, mo <> MNew t) -> LostC (pre ++ k0) s' -> LostC (mo :: k0) s.
Proof.
  intros L E NN (y & C & B). exists y. split; auto.
  pose proof (handle_law _ _ _ _ y (Lin_NB _ _ _ L) NN E) as G.
  assert (EM : emb y mo = 0).
  { destruct mo; try reflexivity. destruct r as [rid [| | | |]]; try reflexivity; destruct y; try contradiction; apply ind_neq; discriminate. }
  unfold bal in *. rewrite cmops_app in B. simpl. lia.
Qed.

Theorem step_I05 k s k' s' :
  shape k -> Tags k s -> Lin k s -> Tail k s -> DD k s -> I05 k s -> step k s = Some (k', s') -> I05 k' s'.
Proof.
  intros SH TG L T D I H.
  destruct I as [B|[[LC NE]|(JA & JB & JC)]].
  - left. eapply BadT_ext; eauto. eapply step_ext; eauto.
  - (* a container is already lost *)
    destruct k as [|mo k0]; [congruence|]. pose proof H as H0. simpl in H.
    destruct (handle mo s) as [pre s1] eqn:E. inversion H; subst; clear H.
    assert (ML : mo = MLeaks \/ mo <> MLeaks) by (destruct mo; auto; right; discriminate).
    destruct ML as [->|NM].
    + left. eapply LostC_leaks; eauto.
    + right. left. split; [eapply LostC_step; eauto | eapply tail_nonempty; eauto].
  - destruct JA as (mA & MA & RAm). destruct JB as (mB & MB & RBm). destruct JC as (mC & MC & RCm).
    assert (IA0 : IA k s) by (right; eauto).
    destruct (step_IA _ _ _ _ L T IA0 H) as [B|(mA' & MA' & RA')]; [left; exact B|].
    destruct (step_RC _ _ _ _ _ L D TG H MC RCm) as (mC' & MC' & RC').
    destruct (step_RB _ _ _ _ _ _ L H MA (ex_intro _ mA' MA') MB RBm) as [(mB' & MB' & RB')|LC].
    + right. right. repeat split; eauto.
    + destruct k as [|mo k0]; [discriminate|]. pose proof H as H0. simpl in H.
      destruct (handle mo s) as [pre s1] eqn:E. inversion H; subst; clear H.
      assert (ML : mo = MLeaks \/ mo <> MLeaks) by (destruct mo; auto; right; discriminate).
      destruct ML as [->|NM].
      * left. eapply LostC_leaks; eauto. eapply LostC_back; eauto. intros t Q; discriminate Q.
      * right. left. split; [exact LC | eapply tail_nonempty; eauto].
Qed.

Lemma I05_init d p : I05 (map MTop p ++ [MEpilogue]) (init d).
Proof.
  right. right. split; [|split].
  - destruct (IA_init d p) as [[(r & B)|(kd & id & [] & _)]|X]; [simpl in B; lia | exact X].
  - exists iB. split; [reflexivity | apply RB_init].
  - exists iC. split; [reflexivity | apply RC_init].
Qed.

Lemma run_inv05 fuel : forall k s t,
  shape k -> Tags k s -> Lin k s -> FL k s -> Tail k s -> DD k s -> I05 k s -> run fuel k s = Done t ->
  exists s', t = rev (tr s') /\
    (BadT (tr s') \/ exists mA mB mC, monr stepA iA (tr s') = Some mA /\ finA mA = true /\
                                      monr stepB iB (tr s') = Some mB /\ monr stepC iC (tr s') = Some mC).
Proof.
  induction fuel as [|f IH]; intros k s t SH TG L F T D I H; simpl in H.
  - destruct k; [|discriminate]. inversion H; subst. exists s. split; auto.
    destruct I as [B|[[_ NE]|((mA & MA & RAm) & (mB & MB & _) & (mC & MC & _))]]; [left; auto | congruence |].
    right. exists mA, mB, mC. repeat split; auto. apply (ra_fin _ _ _ RAm eq_refl).
  - destruct (step k s) as [[k' s']|] eqn:ST.
    + eapply IH; [ eapply step_shape; eauto | eapply step_tags; eauto | eapply step_Lin; eauto | eapply step_FL; eauto
                 | eapply step_Tail; eauto | eapply step_DD; eauto | eapply step_I05; eauto | exact H ].
    + inversion H; subst. exists s. split; auto. destruct k as [|m0 k1]; [|simpl in ST; destruct (handle m0 s); discriminate ST].
      destruct I as [B|[[_ NE]|((mA & MA & RAm) & (mB & MB & _) & (mC & MC & _))]]; [left; auto | congruence |].
      right. exists mA, mB, mC. repeat split; auto. apply (ra_fin _ _ _ RAm eq_refl).
Qed.

(** C05 for every program whose Ret ids are distinct and whose run leaks no closure, actor value or notifier *)
Theorem C05_proved : forall (d : dkind) (p : list top) (fuel : nat) (t : list ev),
  exec d fuel p = Done t -> NoDup (ret_ids t) -> no_container_leak t -> C05_ok t = true.
Proof.
  intros d p fuel t H ND NL. unfold exec in H.
  destruct (run_inv05 fuel _ _ _ (shape_init p) (tags_init d p) (Lin_init d p) (FL_init d p) (Tail_init d p) (DD_init d p) (I05_init d p) H)
    as (s' & -> & [[(r & B)|(kd & id & IN & LK)]|(mA & mB & mC & MA & FA & MB & MC)]).
  - exfalso. pose proof (NoDup_creT r _ ND). lia.
  - exfalso. rewrite (NL kd id) in LK; [discriminate|]. apply -> in_rev. exact IN.
  - apply C05_split.
    + unfold okA. rewrite fold_mon_rev, MA. exact FA.
    + unfold okB. rewrite fold_mon_rev, MB. reflexivity.
    + unfold okC. rewrite fold_mon_rev, MC. reflexivity.
Qed.

Print Assumptions C05_proved.

(* ------------------------------------------------------------------ *)
(** * The hypotheses are decidable on a trace; non-vacuity; the known findings at model level *)

Definition ncl_b (t : list ev) : bool :=
  forallb (fun e => match e with ELeak kd _ => negb (leak_kind kd) | _ => true end) t.

Lemma ncl_of_b t : ncl_b t = true -> no_container_leak t.
Proof.
  unfold ncl_b, no_container_leak. rewrite forallb_forall. intros H kd id IN. specialize (H _ IN). simpl in H.
  destruct (leak_kind kd); [discriminate | reflexivity].
Qed.

Fixpoint nodup_b (l : list N) : bool :=
  match l with [] => true | x :: r => negb (nmem x r) && nodup_b r end.

Lemma nodup_of_b l : nodup_b l = true -> NoDup l.
Proof.
  induction l as [|x r IH]; simpl; [constructor|]. intros H. apply andb_prop in H as [H1 H2].
  constructor; auto. intros IN. apply nmem_in in IN. rewrite IN in H1. discriminate.
Qed.

Definition hyp05 (t : list ev) : bool := nodup_b (ret_ids t) && ncl_b t.

Corollary C05_checked d p fuel t : exec d fuel p = Done t -> hyp05 t = true -> C05_ok t = true.
Proof.
  intros H Y. apply andb_prop in Y as [Y1 Y2]. eapply C05_proved; eauto; [apply nodup_of_b | apply ncl_of_b]; auto.
Qed.

(* Rets sent, dropped with a discarded call to a Zombie, held in a Prep queue of an actor that is killed, captured
   by a timer closure that is deleted, by a lazy closure dropped with the Stakker, and a ret_some_to! Ret dropped *)
Definition c05_prog : list top :=
  [TNew 0;
   TDo [ANewActor 1 1 None; ACallPrep 1 (Clo 1 0 0 [] []) true;
        ANewRet 10 1 (RClos [] []); ARetSend 10 7;
        ANewRet 11 2 (RClos [] []); ACall 1 (Clo 2 0 0 [11%N] [AStop]);
        ANewRet 12 3 (RClos [] []); ACall 1 (Clo 3 0 0 [12%N] []);
        ANewActor 2 2 None; ANewRet 13 4 (RClos [] []); ACall 2 (Clo 4 0 0 [13%N] []);
        ANewRet 14 5 (RClos [] []); ATimerMac TMax 1 50 (Clo 5 0 0 [14%N] []);
        ANewRet 15 6 (RClos [] []); ALazy (Clo 6 0 0 [15%N] []);
        ANewRet 16 7 (RSomeTo 1 (Clo 7 0 0 [] [])); ANewRet 17 8 (RTo 1 (Clo 8 0 0 [] [])); ARetSend 17 3];
   TRun 2 false;
   TDo [AKill 2 9; ATimerDel TMax 1; ADropH 16];
   TDropStakker].

Example C05_nontrivial :
  exists t, exec DGlobal 2000 c05_prog = Done t /\ hyp05 t = true /\ C05_ok t = true /\
            In (ERet 1 (Some 7%N)) t /\ In (ERet 3 None) t /\ In (ERet 4 None) t /\ In (ERet 5 None) t /\
            In (ERet 6 None) t /\ In (ERet 7 None) t /\ In (ERet 8 (Some 3%N)) t /\ In (ETimerDel TMax 1 true) t.
Proof.
  eexists. split; [vm_compute; reflexivity|]. split; [vm_compute; reflexivity|]. split; [vm_compute; reflexivity|].
  repeat split; vm_compute; tauto.
Qed.

(* known finding F5 (a Prep actor with a held call at teardown): the held closure, its token and its Ret leak *)
Definition f5_prog : list top :=
  [TNew 0; TDo [ANewActor 1 1 None; ANewTok 2 1 []; ANewRet 3 1 (RClos [] []); ACall 1 (Clo 1 0 0 [2%N; 3%N] [])];
   TRun 2 false; TDo [ADropH 1]; TDropStakker].

Example C05_F5_refuted :
  exists t, exec DGlobal 2000 f5_prog = Done t /\ In (EModel M_PREPHELD 1) t /\ In (ELeak LK_CLO 1) t /\
            ncl_b t = false /\ C05_ok t = false.
Proof. eexists. split; [vm_compute; reflexivity|]. repeat split; vm_compute; tauto. Qed.

(* known finding F7 (an unterminated parent owning a child whose notifier refers back to it), with a Ret in the parent *)
Definition f7_prog : list top :=
  [TNew 0; TDo [ANewActor 1 1 None; ACallPrep 1 (Clo 1 0 0 [] []) true; ANewRet 5 1 (RClos [] []);
                ACall 1 (Clo 2 0 0 [5%N] [AStore 5; ASlabAdd 3 2 None; ACallPrep 3 (Clo 3 0 0 [] []) true])];
   TRun 2 false; TDo [ADropH 1]; TDropStakker].

Example C05_F7_refuted :
  exists t, exec DGlobal 2000 f7_prog = Done t /\ In (EModel M_CHILDCYCLE 1) t /\ In (ELeak LK_VAL 1) t /\
            ncl_b t = false /\ C05_ok t = false.
Proof. eexists. split; [vm_compute; reflexivity|]. repeat split; vm_compute; tauto. Qed.

(* not in any class of the model: an actor that keeps an Actor reference to itself and loses its owner after the last run *)
Definition selfcycle_prog : list top :=
  [TNew 0; TDo [ANewActor 1 1 None; ACallPrep 1 (Clo 1 0 0 [] []) true; AClone 1 9; ANewRet 3 1 (RClos [] []);
                ACall 1 (Clo 2 0 0 [9%N; 3%N] [AStore 9; AStore 3])];
   TRun 2 false; TDo [ADropH 1]; TDropStakker].

Example C05_selfcycle_refuted :
  exists t, exec DGlobal 2000 selfcycle_prog = Done t /\
            existsb (fun e => match e with EModel c _ => N.eqb c M_PREPHELD || N.eqb c M_CHILDCYCLE | _ => false end) t = false /\
            In (ELeak LK_VAL 1) t /\ ncl_b t = false /\ C05_ok t = false.
Proof. eexists. split; [vm_compute; reflexivity|]. repeat split; vm_compute; tauto. Qed.

(* not in any class: with the inline deferrer, a closure deferred by a Drop handler after the last Stakker is gone *)
Definition inline_left_prog : list top :=
  [TNew 0; TDo [ANewRet 1 1 (RClos [] [ANewTok 5 1 [Clo 1 0 0 [6%N] []]; ANewRet 6 2 (RClos [] [])])]].

Example C05_inline_leftover_refuted :
  exists t, exec DInline 2000 inline_left_prog = Done t /\
            existsb (fun e => match e with EModel _ _ => true | _ => false end) t = false /\
            In (ELeak LK_CLO 1) t /\ ncl_b t = false /\ C05_ok t = false.
Proof. eexists. split; [vm_compute; reflexivity|]. repeat split; vm_compute; tauto. Qed.

(* the DSL lets a program give two Rets the same id: the monitor (which identifies Rets by id) rejects the trace *)
Example C05_dup_id_refuted :
  exists t, exec DGlobal 2000 [TNew 0; TDo [ANewRet 1 1 (RClos [] []); ANewRet 2 1 (RClos [] [])]] = Done t /\
            nodup_b (ret_ids t) = false /\ ncl_b t = true /\ C05_ok t = false.
Proof. eexists. split; [vm_compute; reflexivity|]. repeat split; vm_compute; reflexivity. Qed.
