(** Layer R proofs: C05 (a Ret handler is invoked exactly once: Some on ret, None on drop).

    Architecture: the C05 monitor is the product of three monitors (LinC05Mon.v).  For the core monitor A the
    invariant [IA] relates the monitor state on the trace so far to the configuration through the census of
    Lin.v: a Ret that occurs in the configuration is created, not yet invoked and not yet sent (except the one
    being delivered at the head of the continuation); by linearity its invocation removes its only occurrence. *)
From Coq Require Import ZArith NArith List Bool Lia.
From Stk Require Import Lib.U Gen.SrcCount Gen.SrcCore Gen.SrcLog R.Syntax R.Rt R.Mon R.Shape R.Eff R.Tags R.Mono R.C15Proofs.
From Stk Require Import R.Lin R.LinAct R.LinLaw R.LinStep R.LinEvs R.LinTail R.LinLive R.LinC05Mon R.LinC05A R.LinC05Pass.
Import ListNotations.
Local Open Scope Z_scope.

(* ------------------------------------------------------------------ *)
(** * The relation for monitor A *)

Definition pend (k : list mop) (r v : N) : Prop :=
  exists rk k0, k = MRetInvoke (Ret r rk) (Some (MNum v)) :: k0.

Definition container (y : res) : Prop := match y with RClo _ | RVal _ | RNot _ => True | _ => False end.

(* a container that was created is neither present nor consumed: it will be reported as leaked *)
Definition LostC (k : list mop) (s : st) : Prop := exists y, container y /\ bal y k s < 0.

Record RA (m : sA) (k : list mop) (s : st) : Prop := mkRA {
  ra_sent : forall r v, nget (a_sent m) r = Some v -> nget (a_inv m) r = Some (Some v) \/ pend k r v;
  ra_prev : forall r v, a_prev m = Some (ERetSent r v) -> pend k r v;
  ra_tail : existsb mnum (tl k) = false;
  ra_head : forall r rk v k0, k = MRetInvoke (Ret r rk) (Some (MNum v)) :: k0 ->
                              a_prev m = Some (ERetSent r v) /\ nget (a_sent m) r = Some v;
  ra_bal : forall r, bal (RRet r) k s < 0 -> LostC k s;
  ra_fin : k = [] -> finA m = true }.

Definition leak_kind (kd : N) : bool := N.eqb kd LK_CLO || N.eqb kd LK_VAL || N.eqb kd LK_NOTIFY.

(* the two hypotheses of the theorem, on the trace so far *)
Definition BadT (t : list ev) : Prop :=
  (exists r, 2 <= creT (RRet r) t) \/ (exists kd id, In (ELeak kd id) t /\ leak_kind kd = true).

Definition IA (k : list mop) (s : st) : Prop :=
  BadT (tr s) \/ exists m, monr stepA iA (tr s) = Some m /\ RA m k s.

(* ------------------------------------------------------------------ *)
(** * Stability of the escape clauses *)

Lemma creT_ext x s s' : ext s s' -> creT x (tr s) <= creT x (tr s').
Proof. intros [evs E]. rewrite E, creT_app. pose proof (creT_nn x evs). lia. Qed.

Lemma BadT_ext s s' : ext s s' -> BadT (tr s) -> BadT (tr s').
Proof.
  intros E [[r H]|(kd & id & H & L)].
  - left. exists r. pose proof (creT_ext (RRet r) _ _ E). lia.
  - right. exists kd, id. split; auto. eapply ext_in; eauto.
Qed.

Lemma LostC_step k s k' s' : Lin k s -> step k s = Some (k', s') -> LostC k s -> LostC k' s'.
Proof. intros L H (y & C & B). exists y. split; auto. pose proof (step_bal _ _ _ _ y L H). lia. Qed.

Lemma emb_ret r m : emb (RRet r) m = 0.
Proof. destruct m; simpl; try reflexivity. destruct r0 as [rid [| | | |]]; try reflexivity; apply ind_neq; discriminate. Qed.

Lemma cci_pos_real x c : 0 < cci x c -> realk (ci_kind c) = true.
Proof. intros H. destruct (realk (ci_kind c)) eqn:E; auto. rewrite (cci_unreal x c E) in H. lia. Qed.

Lemma cci_self c : realk (ci_kind c) = true -> 1 <= cci (RClo (ci_uid c)) c.
Proof. intros R. rewrite (cci_real _ c R), ind_refl. pose proof (cenv_nn (RClo (ci_uid c)) (ci_caps c)). lia. Qed.

Lemma cq_pos_clo x l : 0 < cq x l -> exists u, 0 < cq (RClo u) l.
Proof.
  induction l as [|c l IH]; simpl; [lia|]. intros H.
  pose proof (cci_nn x c). pose proof (cq_nn x l).
  destruct (Z.ltb 0 (cci x c)) eqn:E.
  - apply Z.ltb_lt in E. exists (ci_uid c). pose proof (cci_self c (cci_pos_real _ _ E)). pose proof (cq_nn (RClo (ci_uid c)) l). lia.
  - apply Z.ltb_ge in E. destruct IH as [u U]; [lia|]. exists u. pose proof (cci_nn (RClo u) c). lia.
Qed.

(** the balance of a Ret is constant unless a container is lost *)
Lemma bal_ret_step k s k' s' r :
  Lin k s -> step k s = Some (k', s') -> (bal (RRet r) k s < 0 -> LostC k s) ->
  bal (RRet r) k' s' < 0 -> LostC k' s'.
Proof.
  intros L H OLD NEG.
  destruct (Z.ltb (bal (RRet r) k s) 0) eqn:B.
  { apply Z.ltb_lt in B. eapply LostC_step; eauto. }
  apply Z.ltb_ge in B.
  destruct k as [|mo k0]; [discriminate|]. simpl in H.
  destruct (handle mo s) as [pre s1] eqn:E. inversion H; subst; clear H.
  assert (D : (exists t, mo = MNew t) \/ forall t, mo <> MNew t).
  { destruct mo; try (right; intros t0 Q; discriminate Q). left; eauto. }
  unfold bal in *. rewrite cmops_app in NEG. simpl in B.
  destruct D as [[t ->]|NN].
  - pose proof (new_law _ _ _ _ (RRet r) E) as G. simpl in B.
    destruct (dk s) eqn:DK; [lia|].
    assert (P : 0 < cq (RRet r) (mainq s)) by lia.
    destruct (cq_pos_clo _ _ P) as [u U]. exists (RClo u). split; [exact I|].
    pose proof (new_law _ _ _ _ (RClo u) E) as G2. rewrite DK in G2.
    pose proof (lin_le _ _ L (RClo u)) as LE. unfold bal in *. rewrite cmops_app. simpl in LE. lia.
  - pose proof (handle_law _ _ _ _ (RRet r) (Lin_NB _ _ _ L) NN E) as G. rewrite emb_ret in G. lia.
Qed.
