(** Layer R proofs: every occurrence of the pair object [REmb r u b] (a ret_to!-style Ret r holding the call
    closure u) is an occurrence of the closure instance u (or of an ill-kinded value): pointwise over all
    nested values. *)
From Coq Require Import ZArith NArith List Bool Lia.
From Stk Require Import Lib.U R.Syntax R.Rt R.Lin.
Import ListNotations.
Local Open Scope Z_scope.

Section EmbLe.
Transparent cv cret crk cci.
Variables (r u : N) (b : bool).

Let go (x : res) := (fix go (l : list (N * hval)) : Z := match l with [] => 0 | p :: l' => match p with (_, v) => cv x v + go l' end end).

Definition selfc (c : citem) : Z := if realk (ci_kind c) then ind (RClo u) (RClo (ci_uid c)) else 0.

Lemma selfc_nn c : 0 <= selfc c.
Proof. unfold selfc. destruct (realk (ci_kind c)); [apply ind_range | lia]. Qed.

Lemma pair_case rid (ci : citem) (f : bool) :
  cci (REmb r u b) ci + selfc ci <= cci (RClo u) ci + cci RBad ci ->
  ind (REmb r u b) (REmb rid (ci_uid ci) f) + cci (REmb r u b) ci
  <= cci (RClo u) ci + (badif RBad (realk (ci_kind ci)) + cci RBad ci).
Proof.
  intros IH. pose proof (ind_range (REmb r u b) (REmb rid (ci_uid ci) f)) as RG. pose proof (selfc_nn ci). unfold selfc in *.
  destruct (realk (ci_kind ci)) eqn:RK.
  - simpl badif.
    destruct (Z.ltb 0 (ind (REmb r u b) (REmb rid (ci_uid ci) f))) eqn:Q.
    + apply Z.ltb_lt in Q. apply ind_pos in Q. injection Q as E1 E2 E3. rewrite <- E2 in IH. rewrite ind_refl in IH. lia.
    + apply Z.ltb_ge in Q. lia.
  - unfold badif. rewrite ind_refl. rewrite (cci_unreal _ ci RK) in *. rewrite (cci_unreal (RClo u) ci RK), (cci_unreal RBad ci RK). lia.
Qed.

Fixpoint cv_emb (v : hval) {struct v} : cv (REmb r u b) v <= cv (RClo u) v + cv RBad v
with cret_emb (x : ret) {struct x} : cret (REmb r u b) x <= cret (RClo u) x + cret RBad x
with crk_emb (rid : N) (k : rkind) {struct k} : crk (REmb r u b) rid k <= crk (RClo u) rid k + crk RBad rid k
with cci_emb (c : citem) {struct c} : cci (REmb r u b) c + selfc c <= cci (RClo u) c + cci RBad c.
Proof.
  - destruct v; simpl; try lia. pose proof (cret_emb r0). pose proof (badif_nn RBad (ukind r0)).
    unfold badif at 1 2. rewrite !ind_neq by discriminate. destruct (ukind r0); lia.
  - destruct x as [rid k]. simpl. apply crk_emb.
  - destruct k as [caps bd|a ci|a ci|a inner|p key inner].
    + simpl. rewrite !ind_neq by discriminate.
      assert (go (REmb r u b) caps <= go (RClo u) caps + go RBad caps).
      { induction caps as [|[h v] l IH]; [simpl; lia|]. pose proof (cv_emb v). simpl in *. lia. }
      unfold go in *. lia.
    + simpl. rewrite (ind_neq (REmb r u b) (RRet rid)), (ind_neq (RClo u) (RRet rid)), (ind_neq (RClo u) (REmb rid (ci_uid ci) false)),
        (ind_neq RBad (RRet rid)), (ind_neq RBad (REmb rid (ci_uid ci) false)) by discriminate.
      unfold badif at 1 2. rewrite !(ind_neq _ RBad) by discriminate.
      pose proof (pair_case rid ci false (cci_emb ci)). destruct (realk (ci_kind ci)); lia.
    + simpl. rewrite (ind_neq (REmb r u b) (RRet rid)), (ind_neq (RClo u) (RRet rid)), (ind_neq (RClo u) (REmb rid (ci_uid ci) true)),
        (ind_neq RBad (RRet rid)), (ind_neq RBad (REmb rid (ci_uid ci) true)) by discriminate.
      unfold badif at 1 2. rewrite !(ind_neq _ RBad) by discriminate.
      pose proof (pair_case rid ci true (cci_emb ci)). destruct (realk (ci_kind ci)); lia.
    + simpl. rewrite !ind_neq by discriminate. destruct inner as [[p ci]|]; [|lia].
      pose proof (cci_emb ci). pose proof (selfc_nn ci). pose proof (badif_nn RBad (realk (ci_kind ci))).
      unfold badif at 1 2. rewrite !(ind_neq _ RBad) by discriminate. destruct (realk (ci_kind ci)); lia.
    + simpl. apply cret_emb.
  - destruct c as [u0 i kd caps q]. unfold selfc. simpl. destruct (realk kd); [|lia].
    rewrite (ind_neq (REmb r u b) (RClo u0)), (ind_neq RBad (RClo u0)) by discriminate.
    assert (go (REmb r u b) caps <= go (RClo u) caps + go RBad caps).
    { induction caps as [|[h v] l IH]; [simpl; lia|]. pose proof (cv_emb v). simpl in *. lia. }
    unfold go in *. lia.
Qed.

(* a real closure with uid u is one more occurrence of u than the pairs inside its captures *)
Lemma cci_emb_self c : realk (ci_kind c) = true -> ci_uid c = u -> cci (REmb r u b) c + 1 <= cci (RClo u) c + cci RBad c.
Proof. intros RK E. pose proof (cci_emb c). unfold selfc in *. rewrite RK, E, ind_refl in *. lia. Qed.

Lemma cci_emb_le c : cci (REmb r u b) c <= cci (RClo u) c + cci RBad c.
Proof. pose proof (cci_emb c). pose proof (selfc_nn c). lia. Qed.

End EmbLe.

Lemma cenv_emb r u b l : cenv (REmb r u b) l <= cenv (RClo u) l + cenv RBad l.
Proof. induction l as [|p l IH]; simpl; [lia|]. pose proof (cv_emb r u b (snd p)). lia. Qed.
Lemma cq_emb r u b l : cq (REmb r u b) l <= cq (RClo u) l + cq RBad l.
Proof. induction l as [|p l IH]; simpl; [lia|]. pose proof (cci_emb_le r u b p). lia. Qed.
Lemma ctim_emb r u b l : ctim (REmb r u b) l <= ctim (RClo u) l + ctim RBad l.
Proof. induction l as [|p l IH]; simpl; [lia|]. pose proof (cci_emb_le r u b (ti_ci p)). lia. Qed.
Lemma cfrs_emb r u b l : cfrs (REmb r u b) l <= cfrs (RClo u) l + cfrs RBad l.
Proof. induction l as [|p l IH]; simpl; [lia|]. pose proof (cenv_emb r u b (f_loc p)). lia. Qed.
Lemma cacts_emb r u b l : cacts (REmb r u b) l <= cacts (RClo u) l + cacts RBad l.
Proof.
  induction l as [|[a y] l IH]; simpl; [lia|]. unfold cactor. simpl.
  assert (cstate (REmb r u b) a (a_state y) <= cstate (RClo u) a (a_state y) + cstate RBad a (a_state y)).
  { destruct (a_state y); simpl; [apply cq_emb | | lia]. rewrite !ind_neq by discriminate. pose proof (cenv_emb r u b sh). lia. }
  assert (cnotopt (REmb r u b) (a_notify y) <= cnotopt (RClo u) (a_notify y) + cnotopt RBad (a_notify y)).
  { destruct (a_notify y) as [nt|]; simpl; [|lia]. pose proof (cret_emb r u b nt). pose proof (badif_nn RBad (nkind nt)).
    unfold badif at 1 2. rewrite !(ind_neq _ RBad) by discriminate. destruct (nkind nt); lia. }
  lia.
Qed.
Lemma cst_emb r u b s : cst (REmb r u b) s <= cst (RClo u) s + cst RBad s.
Proof.
  unfold cst. pose proof (cq_emb r u b (mainq s)). pose proof (cq_emb r u b (lazyq s)). pose proof (cq_emb r u b (idleq s)).
  pose proof (ctim_emb r u b (timers s)). pose proof (cacts_emb r u b (actors s)). pose proof (cenv_emb r u b (env s)).
  pose proof (cfrs_emb r u b (frames s)). simpl. lia.
Qed.
Lemma cmop_emb r u b m : cmop (REmb r u b) m <= cmop (RClo u) m + cmop RBad m.
Proof.
  destruct m; simpl; try lia; try apply cci_emb_le; try apply cv_emb.
  - pose proof (cci_emb_le r u b c). pose proof (badif_nn RBad (realk (ci_kind c))).
    unfold badif at 1 2. rewrite !(ind_neq _ RBad) by discriminate. destruct (realk (ci_kind c)); lia.
  - pose proof (cret_emb r u b r0). pose proof (cmsg_nn RBad r0 m).
    assert (cmsg (REmb r u b) r0 m = 0 /\ cmsg (RClo u) r0 m = 0).
    { destruct m as [[v|c]|]; simpl; unfold badif; rewrite ?(ind_neq _ RBad) by discriminate; split; try reflexivity;
        try (destruct (ukind r0); reflexivity); destruct (nkind r0); reflexivity. }
    lia.
  - rewrite !ind_neq by discriminate. lia.
Qed.
Lemma cmops_emb r u b k : cmops (REmb r u b) k <= cmops (RClo u) k + cmops RBad k.
Proof. induction k as [|m k IH]; simpl; [lia|]. pose proof (cmop_emb r u b m). lia. Qed.
