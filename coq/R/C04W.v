(** Layer R proofs: C04, the census of slab-removal items.

    [KSlabRm p key] items are made by the wrapper notifier of a slab child ([RKSlab p key inner], invoked with a
    cause); they sit in the queues, in held queues and in the continuation.  [tmops x k + T x s] counts those of
    x = (p, key).  The law of this file:
        tmops x pre + T x s' + use x m s = tmop x m + T x s + gen x m
    ([gen]: the wrapper of x is invoked with a cause; [use]: such an item is run or dropped). *)
From Coq Require Import ZArith NArith List Bool Lia.
From Stk Require Import Lib.U Gen.SrcCount Gen.SrcCore Gen.SrcLog R.Syntax R.Rt R.Shape R.Count R.Own R.OwnLaw R.OwnVis.
Import ListNotations.
Local Open Scope Z_scope.

Arguments submit : simpl never.
Arguments push_main : simpl never.
Arguments timer_add : simpl never.
Arguments emit : simpl never.
Arguments upd_actor : simpl never.
Arguments ref_clone : simpl never.
Arguments new_actor : simpl never.
Arguments log_rec : simpl never.
Arguments tok_script : simpl never.
Arguments target_ev : simpl never.
Arguments push_frame : simpl never.

Definition kb (x : N * N) (q k' : N) : Z := if (N.eqb (fst x) q && N.eqb (snd x) k')%bool then 1 else 0.

Definition tkind (x : N * N) (k : ckind) : Z := match k with KSlabRm q k' => kb x q k' | _ => 0 end.
Definition tci (x : N * N) (c : citem) : Z := tkind x (ci_kind c).
Fixpoint tq (x : N * N) (l : list citem) : Z := match l with [] => 0 | c :: r => tci x c + tq x r end.
Fixpoint ttim (x : N * N) (l : list titem) : Z := match l with [] => 0 | t :: r => tci x (ti_ci t) + ttim x r end.
Definition tstate (x : N * N) (sa : astate) : Z := match sa with SPrep held => tq x held | _ => 0 end.
Fixpoint tacts (x : N * N) (l : list (N * actor)) : Z :=
  match l with [] => 0 | p :: r => tstate x (a_state (snd p)) + tacts x r end.
Definition T (x : N * N) (s : st) : Z :=
  tq x (mainq s) + tq x (lazyq s) + tq x (idleq s) + ttim x (timers s) + tacts x (actors s).
Definition tmop (x : N * N) (m : mop) : Z := match m with MRunItem c | MDropItem c => tci x c | _ => 0 end.
Fixpoint tmops (x : N * N) (l : list mop) : Z := match l with [] => 0 | m :: r => tmop x m + tmops x r end.

Definition tuse (x : N * N) (c : citem) (s : st) : Z :=
  match ci_kind c with
  | KSlabRm q k' =>
      match aget (actors s) q with
      | Some y => match a_state y with SPrep _ => 0 | _ => kb x q k' end
      | None => kb x q k'
      end
  | _ => 0
  end.
Definition use (x : N * N) (m : mop) (s : st) : Z :=
  match m with MRunItem c => tuse x c s | MDropItem c => tci x c | _ => 0 end.
Definition gen (x : N * N) (m : mop) : Z :=
  match m with MRetInvoke (Ret _ (RKSlab q k' _)) (Some _) => kb x q k' | _ => 0 end.

(* ------------------------------------------------------------------ *)
(** * Lists *)

Lemma kb_range x q k' : 0 <= kb x q k' <= 1. Proof. unfold kb. destruct (_ && _)%bool; lia. Qed.
Lemma tci_nn x c : 0 <= tci x c.
Proof. unfold tci, tkind. destruct (ci_kind c); try lia. apply kb_range. Qed.
Lemma tq_nn x l : 0 <= tq x l.
Proof. induction l as [|c l IH]; simpl; [lia|]. pose proof (tci_nn x c). lia. Qed.
Lemma ttim_nn x l : 0 <= ttim x l.
Proof. induction l as [|c l IH]; simpl; [lia|]. pose proof (tci_nn x (ti_ci c)). lia. Qed.
Lemma tstate_nn x sa : 0 <= tstate x sa.
Proof. destruct sa; simpl; try lia. apply tq_nn. Qed.
Lemma tacts_nn x l : 0 <= tacts x l.
Proof. induction l as [|p l IH]; simpl; [lia|]. pose proof (tstate_nn x (a_state (snd p))). lia. Qed.
Lemma T_nn x s : 0 <= T x s.
Proof.
  unfold T. pose proof (tq_nn x (mainq s)). pose proof (tq_nn x (lazyq s)). pose proof (tq_nn x (idleq s)).
  pose proof (ttim_nn x (timers s)). pose proof (tacts_nn x (actors s)). lia.
Qed.
Lemma tmop_nn x m : 0 <= tmop x m.
Proof. destruct m; simpl; try lia; apply tci_nn. Qed.
Lemma tmops_nn x l : 0 <= tmops x l.
Proof. induction l as [|m l IH]; simpl; [lia|]. pose proof (tmop_nn x m). lia. Qed.

Lemma tq_app x a b : tq x (a ++ b) = tq x a + tq x b. Proof. induction a; simpl; lia. Qed.
Lemma ttim_app x a b : ttim x (a ++ b) = ttim x a + ttim x b. Proof. induction a; simpl; lia. Qed.
Lemma tmops_app x a b : tmops x (a ++ b) = tmops x a + tmops x b. Proof. induction a; simpl; lia. Qed.

Lemma tmops_drops x l : tmops x (drops l) = 0.
Proof. unfold drops. induction l as [|p l IH]; simpl; lia. Qed.
Lemma tmops_slab_drops x l : tmops x (slab_drops l) = 0.
Proof. induction l as [|[c|n] l IH]; simpl; lia. Qed.
Lemma tmops_runitems x l : tmops x (map MRunItem l) = tq x l. Proof. induction l; simpl; lia. Qed.
Lemma tmops_dropitems x l : tmops x (map MDropItem l) = tq x l. Proof. induction l; simpl; lia. Qed.
Lemma tq_map_ti x l : tq x (map ti_ci l) = ttim x l. Proof. induction l; simpl; lia. Qed.

Lemma tacts_aset_some x l p y z : aget l p = Some z ->
  tacts x (aset l p y) + tstate x (a_state z) = tacts x l + tstate x (a_state y).
Proof.
  induction l as [|[j u] l IH]; simpl; [discriminate|]. destruct (N.eqb p j) eqn:E.
  - intros F; inversion F; subst. simpl. lia.
  - intros F. specialize (IH F). simpl. lia.
Qed.
Lemma tacts_aset_none x l p y : aget l p = None -> tacts x (aset l p y) = tacts x l + tstate x (a_state y).
Proof.
  induction l as [|[j u] l IH]; simpl; [intros _; lia|]. destruct (N.eqb p j); [discriminate|].
  intros F. specialize (IH F). simpl. lia.
Qed.
Lemma tacts_aget_le x l p z : aget l p = Some z -> tstate x (a_state z) <= tacts x l.
Proof.
  induction l as [|[j u] l IH]; simpl; [discriminate|]. destruct (N.eqb p j) eqn:E.
  - intros F; inversion F; subst. pose proof (tacts_nn x l). lia.
  - intros F. specialize (IH F). pose proof (tstate_nn x (a_state u)). lia.
Qed.

Lemma ttim_insert x y l : ttim x (ti_insert y l) = tci x (ti_ci y) + ttim x l.
Proof. induction l as [|z l IH]; simpl; [lia|]. destruct (ti_le y z); simpl; lia. Qed.
Lemma ttim_sort x l : ttim x (ti_sort l) = ttim x l.
Proof. unfold ti_sort. induction l as [|z l IH]; simpl; [lia|]. rewrite ttim_insert. lia. Qed.
Lemma ttim_filter x f l : ttim x (filter f l) + ttim x (filter (fun y => negb (f y)) l) = ttim x l.
Proof. induction l as [|z l IH]; simpl; [lia|]. destruct (f z); simpl; lia. Qed.
Lemma ttim_remove x l i t : ti_find l i = Some t -> ttim x (ti_remove l i) + tci x (ti_ci t) = ttim x l.
Proof.
  induction l as [|z l IH]; simpl; [discriminate|]. destruct (N.eqb (ti_tid z) i).
  - intros E; inversion E; subst. lia.
  - intros E. specialize (IH E). simpl. lia.
Qed.
Lemma ttim_update x l i t f : ti_find l i = Some t -> ti_ci (f t) = ti_ci t -> ttim x (ti_update l i f) = ttim x l.
Proof.
  induction l as [|z l IH]; simpl; [discriminate|]. destruct (N.eqb (ti_tid z) i).
  - intros E F; inversion E; subst. simpl. rewrite F. lia.
  - intros E F. specialize (IH E F). simpl. lia.
Qed.

Lemma tci_setq x c q : tci x (ci_setq c q) = tci x c. Proof. destruct c; reflexivity. Qed.
Lemma tci_unq x c : tci x (ci_unq c) = tci x c. Proof. destruct c; reflexivity. Qed.
Lemma tci_as_call x p c arg : tci x (as_call p c arg) = 0. Proof. destruct c; reflexivity. Qed.
Lemma tkind_as_call x p c arg : tkind x (ci_kind (as_call p c arg)) = 0. Proof. destruct c; reflexivity. Qed.

(* ------------------------------------------------------------------ *)
(** * State operations *)

Lemma T_same x s s' :
  mainq s' = mainq s -> lazyq s' = lazyq s -> idleq s' = idleq s -> timers s' = timers s -> actors s' = actors s ->
  T x s' = T x s.
Proof. intros A B C D E. unfold T. rewrite A, B, C, D, E. reflexivity. Qed.

Lemma T_emit x s e : T x (emit s e) = T x s. Proof. reflexivity. Qed.
Lemma T_set_alive x s v : T x (set_alive s v) = T x s. Proof. reflexivity. Qed.
Lemma T_set_now x s v : T x (set_now s v) = T x s. Proof. reflexivity. Qed.
Lemma T_set_start x s v : T x (set_start s v) = T x s. Proof. reflexivity. Qed.
Lemma T_set_tnext x s v : T x (set_tnext s v) = T x s. Proof. reflexivity. Qed.
Lemma T_set_tvars x s v : T x (set_tvars s v) = T x s. Proof. reflexivity. Qed.
Lemma T_set_recreate x s v : T x (set_recreate s v) = T x s. Proof. reflexivity. Qed.
Lemma T_set_nuid x s v : T x (set_nuid s v) = T x s. Proof. reflexivity. Qed.
Lemma T_set_logseq x s v : T x (set_logseq s v) = T x s. Proof. reflexivity. Qed.
Lemma T_set_logfilter x s v : T x (set_logfilter s v) = T x s. Proof. reflexivity. Qed.
Lemma T_set_haslogger x s v : T x (set_haslogger s v) = T x s. Proof. reflexivity. Qed.
Lemma T_set_shut x s v : T x (set_shut s v) = T x s. Proof. reflexivity. Qed.
Lemma T_set_env x s v : T x (set_env s v) = T x s. Proof. reflexivity. Qed.
Lemma T_set_frames x s v : T x (set_frames s v) = T x s. Proof. reflexivity. Qed.
Lemma T_set_fwds x s v : T x (set_fwds s v) = T x s. Proof. reflexivity. Qed.
Lemma T_set_tr x s v : T x (set_tr s v) = T x s. Proof. reflexivity. Qed.
Lemma T_push_frame x s c loc : T x (push_frame s c loc) = T x s. Proof. reflexivity. Qed.

Lemma T_set_mainq x s v : T x (set_mainq s v) = T x s - tq x (mainq s) + tq x v.
Proof. unfold T. stsimp. lia. Qed.
Lemma T_set_lazyq x s v : T x (set_lazyq s v) = T x s - tq x (lazyq s) + tq x v.
Proof. unfold T. stsimp. lia. Qed.
Lemma T_set_idleq x s v : T x (set_idleq s v) = T x s - tq x (idleq s) + tq x v.
Proof. unfold T. stsimp. lia. Qed.
Lemma T_set_timers x s v : T x (set_timers s v) = T x s - ttim x (timers s) + ttim x v.
Proof. unfold T. stsimp. lia. Qed.

Lemma T_push_main x s ci : T x (push_main s ci) = T x s + tci x ci.
Proof. unfold push_main. rewrite T_set_mainq, tq_app. simpl. lia. Qed.

Lemma T_submit x s q ci : q <> QTimer -> T x (submit s q ci) = T x s + tci x ci.
Proof.
  intros NQ. unfold submit. destruct q; try congruence.
  - rewrite T_push_main, T_emit, tci_setq. lia.
  - rewrite T_set_lazyq, tq_app, T_emit. unfold emit. stsimp. simpl. rewrite tci_setq. lia.
  - rewrite T_set_idleq, tq_app, T_emit. unfold emit. stsimp. simpl. rewrite tci_setq. lia.
Qed.

Lemma T_timer_add x s k v t ci : T x (timer_add s k v t ci) = T x s + tci x ci.
Proof.
  unfold timer_add. rewrite T_set_tvars, T_set_tnext, T_set_timers, ttim_app, !T_emit. unfold emit. stsimp. simpl.
  rewrite tci_setq. lia.
Qed.

Lemma T_upd_some x s p y z : aget (actors s) p = Some z ->
  T x (upd_actor s p y) = T x s - tstate x (a_state z) + tstate x (a_state y).
Proof. intros E. unfold T, upd_actor. stsimp. pose proof (tacts_aset_some x _ _ y _ E). lia. Qed.
Lemma T_upd_none x s p y : aget (actors s) p = None -> T x (upd_actor s p y) = T x s + tstate x (a_state y).
Proof. intros E. unfold T, upd_actor. stsimp. pose proof (tacts_aset_none x _ _ y E). lia. Qed.

Lemma T_log_rec x s a b c d : T x (log_rec s a b c d) = T x s.
Proof. unfold log_rec. destruct (allows s b && haslogger s); reflexivity. Qed.
Lemma T_target_ev x s ci : T x (target_ev s ci) = T x s.
Proof. unfold target_ev. destruct ci as [u i kd caps q]. destruct kd; reflexivity. Qed.

Lemma T_ref_clone x s p : T x (ref_clone s p) = T x s.
Proof.
  unfold ref_clone. destruct (aget (actors s) p) as [y|] eqn:E.
  - destruct (a_freed y).
    + rewrite (T_upd_some x _ p _ y) by (unfold emit; stsimp; exact E). rewrite T_emit. simpl. lia.
    + rewrite (T_upd_some x _ p _ y) by exact E. simpl. lia.
  - reflexivity.
Qed.

Lemma take_T x s h o s' : take s h = (o, s') -> T x s' = T x s.
Proof.
  unfold take. destruct (frames s) as [|fr rest].
  - destruct (aget (env s) h); intros Q; inversion Q; reflexivity.
  - destruct (aget (f_loc fr) h); [intros Q; inversion Q; reflexivity|].
    destruct (aget (env s) h); intros Q; inversion Q; reflexivity.
Qed.
Lemma take_caps_T x ids : forall s l s', take_caps ids s = (l, s') -> T x s' = T x s.
Proof.
  induction ids as [|h r IH]; simpl; intros s l s' E.
  - inversion E; reflexivity.
  - destruct (take s h) as [[v|] s1] eqn:TK.
    + destruct (take_caps r s1) as [l2 s2] eqn:T2. inversion E; subst. rewrite (IH _ _ _ T2). eapply take_T; eauto.
    + rewrite (IH _ _ _ E). eapply take_T; eauto.
Qed.
Lemma take_env_caps_T x ids : forall s l s', take_env_caps ids s = (l, s') -> T x s' = T x s.
Proof.
  induction ids as [|h r IH]; simpl; intros s l s' E.
  - inversion E; reflexivity.
  - destruct (aget (env s) h).
    + destruct (take_env_caps r (set_env s (adel (env s) h))) as [l2 s2] eqn:T2. inversion E; subst. rewrite (IH _ _ _ T2). reflexivity.
    + eapply IH; eauto.
Qed.
Lemma bind_T x s h v l s' : bind s h v = (l, s') -> T x s' = T x s /\ tmops x l = 0.
Proof. unfold bind. destruct (aget (env s) h) as [old|]; intros Q; inversion Q; split; reflexivity. Qed.
Lemma bad_T x s c l s' : bad s c = (l, s') -> T x s' = T x s /\ tmops x l = 0.
Proof. unfold bad. intros Q; inversion Q; subst. split; reflexivity. Qed.

Lemma inst_T x c mk s ci s' : inst c mk s = (ci, s') -> T x s' = T x s /\ ci_kind ci = mk (clo_body c).
Proof.
  unfold inst. destruct (take_caps (clo_caps c) s) as [caps s1] eqn:TK. intros Q; inversion Q; subst.
  rewrite T_emit, T_set_nuid, (take_caps_T x _ _ _ _ TK). split; reflexivity.
Qed.
Lemma inst_call_T x c mk s ci s' : inst_call c mk s = (ci, s') -> T x s' = T x s /\ ci_kind ci = mk (clo_body c).
Proof.
  unfold inst_call. destruct (inst c mk s) as [ci1 s1] eqn:I. intros Q; inversion Q; subst.
  rewrite T_target_ev. eapply inst_T; eauto.
Qed.
Lemma inst_nocaps_T x c mk s ci s' : inst_nocaps c mk s = (ci, s') -> T x s' = T x s /\ ci_kind ci = mk (clo_body c).
Proof. unfold inst_nocaps. intros Q; inversion Q; subst. split; reflexivity. Qed.
Lemma inst_env_T x c mk s ci s' : inst_env c mk s = (ci, s') -> T x s' = T x s /\ ci_kind ci = mk (clo_body c).
Proof.
  unfold inst_env. destruct (take_env_caps (clo_caps c) s) as [caps s1] eqn:TK. intros Q; inversion Q; subst.
  rewrite T_emit, T_set_nuid, (take_env_caps_T x _ _ _ _ TK). split; reflexivity.
Qed.

Lemma T_tok_script x script : forall s, T x (tok_script s script) = T x s.
Proof.
  unfold tok_script. induction script as [|c r IH]; intros s; [reflexivity|]. cbn [fold_left].
  destruct (inst_env c KPlain s) as [ci s1] eqn:I. rewrite IH, T_submit by discriminate.
  destruct (inst_env_T x _ _ _ _ _ I) as [A B]. unfold tci. rewrite B. simpl. lia.
Qed.

Lemma mk_notifier_T x s p n nt s' : mk_notifier s p n = (nt, s') -> T x s' = T x s.
Proof.
  unfold mk_notifier. destruct n as [[hp c]|].
  - destruct (lookup s hp) as [v|].
    + destruct (handle_actor v) as [q|].
      * destruct (inst_call c (fun b0 => KMeth q b0 None) (ref_clone s q)) as [ci s2] eqn:I.
        intros Q; inversion Q; subst. destruct (inst_call_T x _ _ _ _ _ I) as [A _]. rewrite A. apply T_ref_clone.
      * intros Q; inversion Q; subst. reflexivity.
    + intros Q; inversion Q; subst. reflexivity.
  - intros Q; inversion Q; subst. reflexivity.
Qed.

Lemma T_new_actor x s p nt parent vis : aget (actors s) p = None -> T x (new_actor s p nt parent vis) = T x s.
Proof.
  intros E. unfold new_actor.
  set (id := oz (log_id_next (logseq s))).
  set (s2 := log_rec (set_logseq s id) id LOGLEVEL_OPEN parent 0).
  assert (A2 : aget (actors s2) p = None) by (unfold s2; rewrite log_rec_actors; exact E).
  assert (V2 : T x s2 = T x s) by (unfold s2; rewrite T_log_rec; reflexivity).
  destruct vis; rewrite ?T_emit, (T_upd_none x s2 p _ A2), V2; simpl; lia.
Qed.

Lemma state_drops_t x p sa s l s' : state_drops p sa s = (l, s') -> s' = s /\ tmops x l = tstate x sa.
Proof.
  unfold state_drops. destruct sa; intros Q; inversion Q; subst; split; auto; simpl.
  - apply tmops_dropitems.
  - rewrite tmops_app, tmops_drops, tmops_slab_drops. lia.
Qed.

Lemma T_fire x t s l s' : fire t s = (l, s') -> tq x l + T x s' = T x s.
Proof.
  unfold fire. intros Q; inversion Q; subst. rewrite tq_map_ti, ttim_sort, T_set_timers.
  pose proof (ttim_filter x (ti_due t) (timers s)).
  destruct (ambiguous _); [rewrite T_emit; unfold emit; stsimp; simpl|]; lia.
Qed.

Global Opaque T.

(* ------------------------------------------------------------------ *)
(** * The law *)

Definition lawT (x : N * N) (w : Z) (s : st) (pre : list mop) (s' : st) : Prop := tmops x pre + T x s' = w + T x s.

Ltac tsimp :=
  cbn [tmops tmop tkind tstate tq ttim a_strong a_rc a_state a_notify with_strong with_rc with_state
       with_notify snd fst ti_ci ci_kind] in *;
  unfold tci in *; cbn [tkind ci_kind] in *.

Ltac tpose x :=
  repeat match goal with
  | E : take _ _ = (_, _) |- _ => pp (take_T x _ _ _ _ E); revert E
  | E : take_caps _ _ = (_, _) |- _ => pp (take_caps_T x _ _ _ _ E); revert E
  | E : bind _ _ _ = (_, _) |- _ => let A := fresh "BV" in let B := fresh "BI" in destruct (bind_T x _ _ _ _ _ E) as [A B]; revert E
  | E : bad _ _ = (_, _) |- _ => let A := fresh "BV" in let B := fresh "BI" in destruct (bad_T x _ _ _ _ E) as [A B]; revert E
  | E : inst _ _ _ = (_, _) |- _ => let A := fresh "IV" in let B := fresh "IK" in destruct (inst_T x _ _ _ _ _ E) as [A B]; revert E
  | E : inst_call _ _ _ = (_, _) |- _ => let A := fresh "IV" in let B := fresh "IK" in destruct (inst_call_T x _ _ _ _ _ E) as [A B]; revert E
  | E : inst_nocaps _ _ _ = (_, _) |- _ => let A := fresh "IV" in let B := fresh "IK" in destruct (inst_nocaps_T x _ _ _ _ _ E) as [A B]; revert E
  | E : mk_notifier _ _ _ = (_, _) |- _ => pp (mk_notifier_T x _ _ _ _ _ E); revert E
  | E : var_timer _ _ _ = Some _ |- _ =>
      let i := fresh "i" in let F := fresh "F" in let E2 := fresh "E" in
      destruct (var_timer_find _ _ _ _ E) as (i & F & E2); cbn [ti_tid] in E2; subst i;
      pp (ttim_remove x _ _ _ F); revert E
  end; intros.

Ltac Trw :=
  repeat (progress (
    rewrite ?T_emit, ?T_push_main, ?T_timer_add, ?T_push_frame, ?T_ref_clone, ?T_log_rec, ?T_target_ev, ?T_tok_script,
            ?T_set_shut, ?T_set_nuid, ?T_set_tvars, ?T_set_tnext, ?T_set_logseq, ?T_set_logfilter, ?T_set_haslogger,
            ?T_set_recreate, ?T_set_now, ?T_set_start, ?T_set_alive, ?T_set_frames, ?T_set_env, ?T_set_fwds, ?T_set_timers in *;
    rewrite ?T_submit in * by discriminate));
  repeat match goal with
  | |- context [ttim _ (ti_update _ _ _)] => erewrite ttim_update by (first [ eassumption | reflexivity ])
  end.

Ltac tfin :=
  repeat (progress (
    try match goal with E : ci_kind ?c = _ |- _ => rewrite E in * end;
    unfold tci in *; tsimp;
    rewrite ?tmops_app, ?tmops_drops, ?tmops_slab_drops, ?tmops_runitems, ?tmops_dropitems, ?tci_unq, ?tci_setq,
            ?tci_as_call, ?tkind_as_call, ?ck_setq, ?ck_unq, ?tq_app in *));
  unfold lawT in *; try lia.

Ltac tlaw x := intros; unfold lawT in *; tpose x; Trw; tfin.

Lemma do_act_T x act s pre s' : do_act act s = (pre, s') -> lawT x 0 s pre s'.
Proof.
  unfold do_act, lawT. destruct act.
  all: try solve [repeat dest_match; intros Q; try injp Q; tlaw x].
  - (* ANewActor *)
    destruct (has_core s); [|intros Q; try injp Q; tlaw x].
    destruct (aget (actors s) a) eqn:AA; [intros Q; try injp Q; tlaw x|].
    destruct (mk_notifier s a n) as [nt s1] eqn:MK. intros Q.
    destruct (mk_notifier_O 0 _ _ _ _ _ MK) as (_ & _ & MP).
    pose proof (mk_notifier_T x _ _ _ _ _ MK) as MV.
    pose proof (T_new_actor x s1 a nt (ctx_logid s) true (opres_none _ _ _ MP AA)) as NV.
    destruct (bind_T x _ _ _ _ _ Q) as [BV BI]. lia.
  - (* AKillAsync *)
    destruct (lookup s h) as [[p|p|p|r|f|t sc]|] eqn:LK; try solve [intros Q; try injp Q; tlaw x].
    destruct (aget (actors s) p) as [y|] eqn:AY; [|intros Q; try injp Q; tlaw x].
    intros Q; injp Q. Trw. rewrite (T_upd_some x s p _ y AY). tfin.
  - (* AOwned *)
    destruct (lookup s h) as [[p|p|p|r|f|t sc]|] eqn:LK; try solve [intros Q; try injp Q; tlaw x].
    destruct (aget (actors s) p) as [y|] eqn:AY; [|intros Q; try injp Q; tlaw x].
    intros Q. destruct (bind_T x _ _ _ _ _ Q) as [BV BI]. revert BV. Trw. rewrite (T_upd_some x s p _ y AY). tfin.
  - (* AStore *)
    destruct (cur_ctx s) as [|p pr|]; try solve [intros Q; try injp Q; tlaw x]. destruct pr; try solve [intros Q; try injp Q; tlaw x].
    destruct (aget (actors s) p) as [y|] eqn:AY; [|intros Q; try injp Q; tlaw x].
    destruct (a_state y) eqn:SA; try solve [intros Q; try injp Q; tlaw x].
    destruct (take s h) as [[v|] s1] eqn:TK; intros Q; injp Q; [|tlaw x].
    destruct (take_same _ _ _ _ TK) as (TA & _ & _).
    assert (AY1 : aget (actors s1) p = Some y) by (rewrite TA; exact AY).
    pose proof (take_T x _ _ _ _ TK) as TV.
    rewrite (T_upd_some _ _ _ _ _ AY1), SA. tsimp. lia.
  - (* ASlabAdd *)
    destruct (cur_ctx s) as [|p pr|] eqn:CC; try solve [intros Q; try injp Q; tlaw x]. destruct pr; try solve [intros Q; try injp Q; tlaw x].
    destruct (alive s); try solve [intros Q; try injp Q; tlaw x].
    destruct (aget (actors s) p) as [px|] eqn:AP; try solve [intros Q; try injp Q; tlaw x].
    destruct (aget (actors s) a) eqn:AA; try solve [intros Q; try injp Q; tlaw x].
    destruct (a_state px) eqn:SP; try solve [intros Q; try injp Q; tlaw x].
    destruct (mk_notifier s a n) as [inner s1] eqn:MK.
    destruct (slab_insert slab snext a) as [[slab' nx'] key] eqn:SI.
    intros Q.
    destruct (mk_notifier_O 0 _ _ _ _ _ MK) as (_ & _ & MP).
    pose proof (mk_notifier_T x _ _ _ _ _ MK) as MV.
    pose proof (opres_trans _ _ _ MP (opres_ref_clone s1 p)) as P2.
    pose proof (T_new_actor x (ref_clone s1 p) a (Ret a (RKSlab p key inner)) (a_logid px) false (opres_none _ _ _ P2 AA)) as NV.
    set (s3 := new_actor (ref_clone s1 p) a (Ret a (RKSlab p key inner)) (a_logid px) false) in *.
    assert (NE : a <> p) by (intros ->; congruence).
    destruct (opres_some _ _ _ _ P2 AP) as (y2 & A2 & V2).
    assert (A3 : aget (actors s3) p = Some y2) by (unfold s3; rewrite new_actor_other by auto; exact A2).
    destruct (opres_some _ _ _ _ (opres_ref_clone s3 a) A3) as (y4 & A4 & V4).
    rewrite A4 in Q.
    destruct (bind_T x _ _ _ _ _ Q) as [BV BI]. revert BV.
    rewrite T_emit, (T_upd_some _ _ _ _ _ A4), T_ref_clone, NV, T_ref_clone, MV.
    destruct V2 as (S2 & T2 & N2 & _), V4 as (S4 & T4 & N4 & _).
    assert (ST4 : a_state y4 = SReady sh slab snext) by congruence.
    rewrite ST4. tsimp. lia.
Qed.

Lemma drop_own_T x p lg s pre s' : drop_own p lg s = (pre, s') -> lawT x 0 s pre s'.
Proof.
  unfold drop_own, lawT.
  set (s0 := if lg then emit s (EOwnDrop p) else s).
  assert (A0 : actors s0 = actors s) by (unfold s0; destruct lg; reflexivity).
  assert (V0 : T x s0 = T x s) by (unfold s0; destruct lg; reflexivity).
  destruct (aget (actors s0) p) as [y|] eqn:AY0.
  - destruct (count_dec (a_strong y)) as [[v z]|] eqn:CD.
    + destruct z; intros Q; injp Q.
      * rewrite T_push_main, T_ref_clone, (T_upd_some _ _ _ _ _ AY0), V0. tsimp. lia.
      * rewrite (T_upd_some _ _ _ _ _ AY0), V0. tsimp. lia.
    + intros Q; injp Q. Trw. rewrite ?V0. tfin.
  - intros Q; injp Q. Trw. rewrite ?V0. tfin.
Qed.

Lemma drop_val_T x v s pre s' : drop_val v s = (pre, s') -> lawT x 0 s pre s'.
Proof.
  unfold drop_val, lawT. destruct v as [p|p|p|r|f|t sc]; try solve [intros Q; injp Q; tlaw x].
  repeat dest_match; intros Q; injp Q; tlaw x.
Qed.

Lemma zombie_T x s p y st' rc fr : aget (actors s) p = Some y ->
  T x (upd_actor s p (mkActor SZombie st' rc None (a_logid y) fr)) = T x s - tstate x (a_state y).
Proof. intros E. rewrite (T_upd_some _ _ _ _ _ E). tsimp. lia. Qed.

Lemma drop_ref_T x p s pre s' : drop_ref p s = (pre, s') -> lawT x 0 s pre s'.
Proof.
  unfold drop_ref, lawT. destruct (aget (actors s) p) as [y|] eqn:A.
  2:{ intros Q; injp Q. tlaw x. }
  destruct (a_freed y). { intros Q; injp Q. tlaw x. }
  destruct (minrc_drop (a_rc y)) as [[v z]|].
  2:{ intros Q; injp Q. tlaw x. }
  destruct z.
  - destruct (state_drops p (a_state y) _) as [dl s2] eqn:SD.
    intros Q; injp Q.
    destruct (state_drops_t x _ _ _ _ _ SD) as [-> CD].
    rewrite tmops_app, CD, T_emit, (zombie_T x s p y _ v true A).
    destruct (a_notify y) as [nt|]; tsimp; lia.
  - intros Q; injp Q. rewrite (T_upd_some _ _ _ _ _ A). tsimp. lia.
Qed.

Lemma terminate_T x p c s pre s' : terminate p c s = (pre, s') -> lawT x 0 s pre s'.
Proof.
  unfold terminate, lawT. destruct (aget (actors s) p) as [y|] eqn:A.
  2:{ intros Q; injp Q. tlaw x. }
  set (s0 := if a_freed y then emit s (EModel M_UAF p) else s).
  assert (A0 : aget (actors s0) p = Some y) by (unfold s0; destruct (a_freed y); exact A).
  assert (V0 : T x s0 = T x s) by (unfold s0; destruct (a_freed y); reflexivity).
  destruct (state_drops p (a_state y) _) as [dl s1] eqn:SD.
  destruct (state_drops_t x _ _ _ _ _ SD) as [-> CD].
  pose proof (zombie_T x s0 p y (oz (count_set_state (a_strong y) STATE_ZOMBIE)) (a_rc y) (a_freed y) A0) as ZV.
  destruct (a_notify y) as [nt|] eqn:NT; intros Q; injp Q; rewrite ZV, V0; rewrite ?tmops_app, CD; tsimp; lia.
Qed.

Lemma run_item_T x c s pre s' : run_item c s = (pre, s') -> tmops x pre + T x s' + tuse x c s = tci x c + T x s.
Proof.
  unfold run_item, tuse, tci. destruct c as [u i kd caps q]. cbn [ci_kind]. destruct kd; tsimp.
  - intros Q; injp Q. tlaw x.
  - destruct (aget (actors s) a) as [y|] eqn:A.
    + destruct (a_state y) eqn:SA; intros Q; injp Q.
      * rewrite (T_upd_some _ _ _ _ _ A), SA. tsimp. rewrite tq_app. unfold tci. tsimp. lia.
      * tlaw x.
      * tlaw x.
    + intros Q; injp Q. tlaw x.
  - destruct (aget (actors s) a) as [y|] eqn:A.
    + destruct (ob (count_is_prep (a_strong y))); intros Q; injp Q; tlaw x.
    + intros Q; injp Q. tlaw x.
  - destruct (aget (actors s) p) as [y|] eqn:A.
    + destruct (a_state y) eqn:SA.
      * intros Q; injp Q. rewrite (T_upd_some _ _ _ _ _ A), SA. tsimp. rewrite tq_app. unfold tci. tsimp. lia.
      * destruct (nth_error slab (N.to_nat key)) as [[child|nx]|] eqn:NE; intros Q; injp Q.
        -- rewrite (T_upd_some _ _ _ _ _ A), SA. tsimp. lia.
        -- tlaw x.
        -- tlaw x.
      * intros Q; injp Q. tlaw x.
    + intros Q; injp Q. tlaw x.
  - intros Q; injp Q. tlaw x.
  - intros Q; injp Q. tlaw x.
Qed.

Lemma drop_item_T x c s pre s' : drop_item c s = (pre, s') -> lawT x 0 s pre s'.
Proof.
  unfold drop_item, lawT. destruct c as [u i kd caps q]. destruct kd; intros Q; injp Q; tlaw x.
Qed.

Lemma ret_invoke_T x r m0 s pre s' : ret_invoke r m0 s = (pre, s') -> lawT x (gen x (MRetInvoke r m0)) s pre s'.
Proof.
  destruct r as [rid k]. unfold ret_invoke, lawT, gen.
  destruct k as [caps bd|p ci|p ci|p inner|p key inner]; repeat dest_match; intros Q; injp Q; tlaw x.
Qed.

Lemma do_top_T x o s pre s' : do_top o s = (pre, s') -> lawT x 0 s pre s'.
Proof. unfold do_top, lawT. destruct o; repeat dest_match; intros Q; try injp Q; tlaw x. Qed.

Lemma T_class_flags x s : T x (class_flags s) = T x s.
Proof.
  unfold class_flags. generalize (actors s) at 1 as all. intros all.
  generalize (actors s) at 1 as l. intros l. revert s. induction l as [|p l IH]; intros s; simpl; auto.
  rewrite IH. unfold emit_opt. destruct (class_flag all p) as [e|] eqn:CF; [|auto]. apply T_emit.
Qed.

Theorem handle_T x m s pre s' :
  (forall t, m <> MNew t) -> handle m s = (pre, s') ->
  tmops x pre + T x s' + use x m s = tmop x m + T x s + gen x m.
Proof.
  intros NN. destruct m; cbn [handle]; try (cbn [tmop use gen]).
  - intros Q. pose proof (do_top_T x _ _ _ _ Q) as L. unfold lawT in L. lia.
  - destruct l as [|act l]; [intros Q; injp Q; tlaw x|].
    destruct (do_act act s) as [p s1] eqn:E. intros Q; injp Q.
    pose proof (do_act_T x _ _ _ _ E) as A. unfold lawT in *. rewrite tmops_app. simpl. lia.
  - destruct (frames s) as [|fr rest] eqn:F; intros Q; injp Q; tlaw x.
  - destruct (frames s) as [|fr rest] eqn:F; [intros Q; injp Q; tlaw x|].
    intros Q; injp Q. rewrite tmops_app, tmops_drops.
    assert (TT : forall l, l = match f with
            | FNone => []
            | FMeth a0 => match f_die fr with Some c => [MTerminate a0 c] | None => [] end
            | FPrep a0 ready => match f_die fr with
                | Some c => if ready then [MOrphNew a0; MTerminate a0 c; MOrphDrop a0] else [MTerminate a0 c]
                | None => if ready then [MToReady a0] else [] end end -> tmops x l = 0).
    { intros l ->. destruct f; try destruct (f_die fr); try destruct ready; reflexivity. }
    rewrite (TT _ eq_refl), T_set_frames, T_emit. lia.
  - intros Q. pose proof (run_item_T x _ _ _ _ Q). lia.
  - intros Q. pose proof (drop_item_T x _ _ _ _ Q) as L. unfold lawT in L. lia.
  - intros Q; injp Q. tlaw x.
  - intros Q. pose proof (drop_val_T x _ _ _ _ Q) as L. unfold lawT in L. lia.
  - intros Q. pose proof (drop_own_T x _ _ _ _ _ Q) as L. unfold lawT in L. lia.
  - intros Q. pose proof (drop_ref_T x _ _ _ _ Q) as L. unfold lawT in L. lia.
  - intros Q. pose proof (ret_invoke_T x _ _ _ _ _ Q) as L. unfold lawT in L. cbn [gen] in *. lia.
  - intros Q; injp Q; tlaw x.
  - intros Q; injp Q; tlaw x.
  - intros Q; injp Q; tlaw x.
  - intros Q; injp Q; tlaw x.
  - intros Q. pose proof (terminate_T x _ _ _ _ _ Q) as L. unfold lawT in L. lia.
  - destruct (aget (actors s) a); intros Q; injp Q; tlaw x.
  - destruct (aget (actors s) a) as [y|] eqn:A; [|intros Q; injp Q; tlaw x].
    destruct (a_state y) eqn:SA; try solve [intros Q; injp Q; tlaw x].
    intros Q; injp Q. rewrite tmops_runitems, T_emit, (T_upd_some _ _ _ _ _ A), SA. tsimp. lia.
  - exfalso. eapply NN; reflexivity.
  - destruct idle; [destruct (idleq s) as [|c r] eqn:IQ|]; intros Q; injp Q; try solve [tlaw x].
    rewrite T_set_idleq, IQ. tsimp. lia.
  - destruct (t >? now (set_mainq s [])).
    + destruct (fire t (set_now (set_mainq s []) t)) as [fired s2] eqn:FI. intros Q; injp Q.
      pose proof (T_fire x _ _ _ _ FI) as A. rewrite T_set_now, T_set_mainq in A.
      rewrite tmops_runitems, tq_app. tsimp. lia.
    + intros Q; injp Q. rewrite tmops_runitems, T_set_mainq. tsimp. lia.
  - destruct (mainq s) as [|c l] eqn:MQ.
    + destruct (lazyq s) as [|c l] eqn:LQ.
      * intros Q; injp Q. destruct (t >? recreate s); tlaw x.
      * intros Q; injp Q. cbn [map app tmops tmop]. rewrite tmops_app, tmops_runitems, T_set_lazyq, LQ. tsimp. lia.
    + intros Q; injp Q. cbn [map app tmops tmop]. rewrite tmops_app, tmops_runitems, T_set_mainq, MQ. tsimp. lia.
  - destruct (i >=? TEARDOWN_ROUNDS).
    + intros Q; injp Q. destruct (is_nil (mainq s)); tlaw x.
    + destruct (mainq s) as [|c l] eqn:MQ; intros Q; injp Q; [tlaw x|].
      cbn [map app tmops tmop]. rewrite tmops_app, tmops_dropitems, T_set_mainq, MQ. tsimp. lia.
  - intros Q; injp Q.
    set (s0 := if ambiguous (timers s) then emit s (EModel M_AMBIG 1) else s).
    assert (V0 : T x s0 = T x s) by (unfold s0; destruct (ambiguous (timers s)); reflexivity).
    assert (Q0 : lazyq s0 = lazyq s /\ idleq s0 = idleq s /\ timers s0 = timers s) by (unfold s0; destruct (ambiguous (timers s)); auto).
    destruct Q0 as (Q1 & Q2 & Q3).
    rewrite tmops_app, tmops_dropitems, !tq_app, tq_map_ti, ttim_sort, T_emit, T_set_tvars,
      T_set_timers, T_set_idleq, T_set_lazyq, V0.
    stsimp. rewrite Q1, Q2, Q3. tsimp. lia.
  - intros Q; injp Q. destruct (is_nil (mainq s)); tlaw x.
  - destruct (amin (env s)) as [[h v]|] eqn:AM; intros Q; injp Q; tlaw x.
  - intros Q; injp Q; tlaw x.
  - intros Q; injp Q. rewrite T_set_tr, T_class_flags. tsimp. lia.
Qed.

Lemma new_T x t s pre s' : dk s = DGlobal -> handle (MNew t) s = (pre, s') -> lawT x 0 s pre s'.
Proof.
  cbn [handle]. intros D Q; injp Q. rewrite D. unfold lawT, fresh_stakker.
  Trw. rewrite tmops_dropitems, T_set_mainq, T_emit. change (mainq (emit s (ENew t))) with (mainq s). cbn [tq]. lia.
Qed.

Print Assumptions handle_T.
