(** Layer R proofs: the second monitor of C05, [C05_calls_ok] (the call behind a ret_to!-style Ret is not lost:
    if it is discarded, its target is terminated -- notified before anything else starts -- or the queues are
    being torn down).

    [C05_calls_proved]: for every program and every amount of fuel, global / thread-local deferrer.
    The monitor is C02's "owed notification" rule restricted to the uids registered by [ERetTo]; it follows from
    [C02_ok] (C02Proofs.v) by a simulation of the two monitors on the same trace ([sim]), given the trace fact
    [RTs]: when [ERetTo r u b] is emitted the target event of u says "Ready call" (not a Prep call), and no target
    event about u comes later.  [RTs] holds of every reachable trace: only [ANewRet .. (RTo | RSomeTo)] emits
    [ERetTo], right after the target event of the fresh closure it made, and target events are only about fresh
    uids ([step_sle] of Nest.v). *)
From Coq Require Import ZArith NArith List Bool Lia Permutation.
From Stk Require Import Lib.U Gen.SrcCount Gen.SrcCore Gen.SrcLog R.Syntax R.Rt R.Mon R.Shape R.Eff R.Tags R.Drops R.Mono R.Count
  R.Nest R.C15Proofs R.C20Proofs R.Calls R.CallInv R.Lin R.LinAct R.LinLaw R.LinStep R.LinEvs R.C06cProofs R.C02Proofs.
Import ListNotations.
Local Open Scope Z_scope.

(* ------------------------------------------------------------------ *)
(** * The trace fact *)

Fixpoint ret_uids (t : list ev) : list N :=
  match t with [] => [] | ERetTo _ u _ :: r => u :: ret_uids r | _ :: r => ret_uids r end.

Definition rtc (e : ev) (t2 : list ev) : Prop :=
  match e with
  | ERetTo _ u _ => exists a, last_tgt t2 u = Some (a, false)
  | ETarget u _ _ => ~ In u (ret_uids t2)
  | _ => True
  end.

(* newest first *)
Fixpoint RTs (t : list ev) : Prop := match t with [] => True | e :: r => rtc e r /\ RTs r end.

Lemma rt_stable r : RTs r -> forall u, In u (ret_uids r) -> exists a, last_tgt r u = Some (a, false).
Proof.
  induction r as [|e r IH]; simpl; [intros _ u []|]. intros [C R] u IN.
  destruct e; try (apply IH; auto; fail).
  - (* ETarget *) simpl in C. destruct (N.eqb u uid) eqn:Q; [apply N.eqb_eq in Q; subst; contradiction | apply IH; auto].
  - (* ERetTo *) simpl in IN, C. destruct IN as [<-|IN]; [exact C | apply IH; auto].
Qed.

(* ------------------------------------------------------------------ *)
(** * The two monitors on one trace *)

Definition mon5 (t : list ev) := monr step05c i05c t.

Definition notstart (e : ev) : bool := match e with ERun _ _ _ | EMeth _ _ _ | EPrep _ _ _ | ERunRet _ => false | _ => true end.

Lemma step05c_start m e : notstart e = false -> y_owed m = [] -> step05c m e = Some m.
Proof. intros N O. destruct e; try discriminate N; unfold step05c; simpl; rewrite O; reflexivity. Qed.

Lemma step02_start m e m' : notstart e = false -> step02 m e = Some m' ->
  c_owed m = [] /\ c_phase m' = c_phase m /\ c_tear m' = c_tear m /\ c_owed m' = c_owed m.
Proof.
  intros N H. unfold step02 in H. destruct e; try discriminate N; simpl in H.
  all: destruct (c_owed m) eqn:O; simpl in H; [|discriminate H].
  all: unfold guard in H; repeat match type of H with context [match ?x with _ => _ end] => destruct x end;
       try discriminate H; inversion H; subst; simpl; rewrite ?O; auto.
Qed.

Lemma yret_uids t : forall m, mon5 t = Some m -> y_ret m = ret_uids t.
Proof.
  unfold mon5. induction t as [|e t IH]; simpl; intros m H; [inversion H; reflexivity|].
  destruct (monr step05c i05c t) as [m0|]; [|discriminate]. specialize (IH m0 eq_refl).
  unfold step05c in H. destruct (_ && _) in H; [discriminate|].
  destruct e; try (inversion H; subst; simpl; auto; fail);
    repeat match type of H with context [match ?x with _ => _ end] => destruct x end;
    try discriminate H; inversion H; subst; simpl; auto; rewrite IH; reflexivity.
Qed.

Lemma ytgt_last t : forall m, mon5 t = Some m -> forall u, nget (y_tgt m) u = option_map fst (last_tgt t u).
Proof.
  unfold mon5. induction t as [|e t IH]; simpl; intros m H u; [inversion H; reflexivity|].
  destruct (monr step05c i05c t) as [m0|]; [|discriminate]. specialize (IH m0 eq_refl u).
  unfold step05c in H. destruct (_ && _) in H; [discriminate|].
  destruct e; try (inversion H; subst; simpl; auto; fail);
    repeat match type of H with context [match ?x with _ => _ end] => destruct x end;
    try discriminate H; inversion H; subst; simpl; auto.
  destruct (N.eqb u uid) eqn:Q; [apply N.eqb_eq in Q; subst; rewrite nget_nset_eq; reflexivity | rewrite nget_nset_neq; auto].
  intros ->. rewrite N.eqb_refl in Q. discriminate Q.
Qed.

Record Rel (m2 : s02) (m5 : s05c) : Prop := mkRel {
  r_ph : y_phase m5 = c_phase m2;
  r_tear : y_tear m5 = c_tear m2;
  r_nd : NoDup (y_owed m5);
  r_in : incl (y_owed m5) (c_owed m2) }.

Lemma nremove_in y x l : In y (nremove x l) -> In y l.
Proof. induction l as [|z l IH]; simpl; auto. destruct (N.eqb x z); simpl; intros H; auto. destruct H; auto. Qed.

Lemma nremove_keep y x l : y <> x -> In y l -> In y (nremove x l).
Proof.
  intros NE. induction l as [|z l IH]; simpl; auto. destruct (N.eqb x z) eqn:Q.
  - apply N.eqb_eq in Q. subst z. intros [E|H]; auto. congruence.
  - simpl. intros [E|H]; auto.
Qed.

Lemma step05c_irrel m e : krel e = false -> exists m', step05c m e = Some m' /\ y_phase m' = y_phase m /\ y_tear m' = y_tear m /\ y_owed m' = y_owed m.
Proof.
  intros H. destruct e; try discriminate H; unfold step05c; simpl.
  all: try (eexists; split; [reflexivity | repeat split]).
  all: try (destruct q; try discriminate H; eexists; (split; [reflexivity | repeat split])).
Qed.

Lemma rel_same m2 m5 m2' m5' : Rel m2 m5 ->
  c_phase m2' = c_phase m2 -> c_tear m2' = c_tear m2 -> c_owed m2' = c_owed m2 ->
  y_phase m5' = y_phase m5 -> y_tear m5' = y_tear m5 -> y_owed m5' = y_owed m5 -> Rel m2' m5'.
Proof. intros [A B C D] P T O P5 T5 O5. constructor; rewrite ?P5, ?T5, ?O5, ?P, ?T, ?O; auto. Qed.

Lemma incl_nil_eq {X} (l : list X) : incl l [] -> l = [].
Proof. destruct l; auto. intros H. destruct (H x). left; reflexivity. Qed.

Lemma sim_step t e m2 m5 m2' :
  RTs (e :: t) -> mon2 t = Some m2 -> mon5 t = Some m5 -> Rel m2 m5 -> step02 m2 e = Some m2' ->
  exists m5', step05c m5 e = Some m5' /\ Rel m2' m5'.
Proof.
  intros [CE RT] M2 M5 RR S2.
  destruct (notstart e) eqn:NS.
  2:{ destruct (step02_start _ _ _ NS S2) as (O & P & T & O').
      assert (O5 : y_owed m5 = []) by (apply incl_nil_eq; rewrite <- O; apply (r_in _ _ RR)).
      exists m5. split; [apply step05c_start; auto|]. eapply rel_same; eauto. }
  destruct (krel e) eqn:KR.
  2:{ destruct (step02_irrel m2 e KR) as (m2x & S2x & (_ & P & _ & T & O)). rewrite S2 in S2x. inversion S2x; subst m2x.
      destruct (step05c_irrel m5 e KR) as (m5' & S5 & P5 & T5 & O5). exists m5'. split; auto. eapply rel_same; eauto. }
  destruct RR as [PH TE ND IN].
  destruct e; try discriminate KR; try discriminate NS.
  - (* ENew *) unfold step02 in S2. simpl in S2. inversion S2; subst. eexists. split; [reflexivity|]. constructor; simpl; auto.
  - (* ERunBegin *) unfold step02 in S2. simpl in S2. inversion S2; subst. eexists. split; [reflexivity|]. constructor; simpl; auto.
  - (* EDropBegin *) unfold step02 in S2. simpl in S2. inversion S2; subst. eexists. split; [reflexivity|]. constructor; simpl; auto.
  - (* ESub QMain *) destruct q; try discriminate KR. unfold step02 in S2. simpl in S2.
    exists m5. split; [reflexivity|].
    destruct (nget (c_tgt m2) uid) as [[a []]|]; inversion S2; subst; constructor; simpl; auto.
  - (* EDrop *)
    unfold step02 in S2. simpl in S2. unfold step05c. simpl.
    destruct q as [q|].
    2:{ exists m5. split; [reflexivity|]. destruct (nget (c_tgt m2) uid) as [[a prep]|]; [|inversion S2; subst; constructor; auto].
        unfold guard in S2. destruct (negb _); inversion S2; subst. constructor; simpl; auto. }
    assert (SUB : incl (c_owed m2) (c_owed m2') /\ c_phase m2' = c_phase m2 /\ c_tear m2' = c_tear m2).
    { destruct (nget (c_tgt m2) uid) as [[a prep]|]; [|inversion S2; subst; repeat split; auto; apply incl_refl].
      unfold guard in S2. destruct (negb _); inversion S2; subst. simpl. repeat split; auto.
      destruct (_ || _ || _ || _); [apply incl_refl | apply incl_tl, incl_refl]. }
    destruct SUB as (SUB & P' & T').
    destruct (nmem uid (y_ret m5)) eqn:NR.
    2:{ exists m5. split; [reflexivity|]. constructor; try congruence; auto. eapply incl_tran; eauto. }
    assert (UR : In uid (ret_uids t)) by (rewrite <- (yret_uids _ _ M5); apply nmem_In; exact NR).
    destruct (rt_stable _ RT _ UR) as (a & LT).
    rewrite (ytgt_last _ _ M5 uid), LT. simpl.
    rewrite (ctgt_last _ _ M2 uid), LT in S2. simpl in S2.
    unfold guard in S2. destruct (negb _); [|discriminate S2]. inversion S2; subst m2'. clear S2. simpl in *.
    rewrite TE, PH.
    destruct (c_tear m2 || (Mon.phase_of (c_phase m2) a =? 3)%N) eqn:G1; simpl.
    { exists m5. split; [reflexivity|]. constructor; simpl; auto. }
    destruct (nmem a (y_owed m5)) eqn:G2.
    { exists m5. split; [reflexivity|]. constructor; simpl; auto. eapply incl_tran; [exact IN | exact SUB]. }
    eexists. split; [reflexivity|]. constructor; simpl; auto.
    + constructor; auto. intros X. apply nmem_In in X. congruence.
    + intros x [E|X]; [subst x|apply SUB, IN; exact X].
      destruct (nmem a (c_owed m2)) eqn:G3; [apply nmem_In; exact G3 | left; reflexivity].
  - (* EActor *) unfold step02 in S2. simpl in S2. inversion S2; subst. eexists. split; [reflexivity|]. constructor; simpl; auto. rewrite PH. reflexivity.
  - (* EReady *) unfold step02 in S2. simpl in S2. unfold guard in S2. destruct (_ =? 1)%N; inversion S2; subst.
    eexists. split; [reflexivity|]. constructor; simpl; auto. rewrite PH. reflexivity.
  - (* ENotify *) unfold step02 in S2. simpl in S2. inversion S2; subst.
    eexists. split; [reflexivity|]. destruct (nodup_nremove a _ ND) as (N1 & N2 & N3). constructor; simpl; auto.
    + rewrite PH. reflexivity.
    + intros x X. assert (x <> a) by (intros ->; contradiction). apply nremove_keep; auto. apply IN. eapply nremove_in; eauto.
Qed.

Lemma sim t : RTs t -> forall m2, mon2 t = Some m2 -> exists m5, mon5 t = Some m5 /\ Rel m2 m5.
Proof.
  induction t as [|e t IH]; intros RT m2 M2.
  - inversion M2; subst. exists i05c. split; [reflexivity|]. constructor; simpl; auto; [constructor | intros x []].
  - pose proof RT as [_ RT0]. unfold mon2 in M2. simpl in M2.
    destruct (monr step02 i02 t) as [m20|] eqn:M20; [|discriminate].
    destruct (IH RT0 m20 M20) as (m50 & M50 & R0).
    destruct (sim_step t e m20 m50 m2 RT M20 M50 R0 M2) as (m5 & S5 & R5).
    exists m5. split; auto. unfold mon5 in *. simpl. rewrite M50. exact S5.
Qed.

(* ------------------------------------------------------------------ *)
(** * [RTs] holds of every reachable trace *)

Definition noretto (e : ev) : bool := match e with ERetTo _ _ _ => false | _ => true end.

Lemma ret_uids_nr evs t : forallb noretto evs = true -> ret_uids (evs ++ t) = ret_uids t.
Proof.
  induction evs as [|e evs IH]; simpl; auto. intros H. apply andb_prop in H as [H1 H2].
  destruct e; try discriminate H1; apply IH; auto.
Qed.

Lemma RTs_ext n n' evs t :
  forallb noretto evs = true -> fresh_tgts n n' evs -> RTs t -> (forall u, In u (ret_uids t) -> (u < n)%N) -> RTs (evs ++ t).
Proof.
  intros NR FT RT LT. induction evs as [|e evs IH]; simpl; auto.
  simpl in NR. apply andb_prop in NR as [N1 N2].
  assert (FT' : fresh_tgts n n' evs) by (intros u a p IN; apply (FT u a p); right; exact IN).
  split; [|apply IH; auto].
  destruct e; simpl; auto; [|discriminate N1].
  rewrite (ret_uids_nr _ _ N2). intros IN. specialize (LT _ IN). specialize (FT uid a prep (or_introl eq_refl)). lia.
Qed.

Ltac inj_pair Q :=
  match type of Q with
  | (_, _) = (_, _) => injection Q as ? ?; subst
  | _ => idtac
  end.
Ltac nr_tac := intros Q; inj_pair Q; ei_tac.

Definition rt_new (s s' : st) : Prop :=
  exists r u b a s1, evs_in noretto s s1 /\ tr s' = ERetTo r u b :: ERetNew r :: ETarget u a false :: tr s1.

Lemma newret_to_rt s a c r b h (l : list mop) s' mk :
  (let s1 := ref_clone s a in
   let '(ci, s2) := inst_call c (fun bd => KMeth a bd None) s1 in
   bind (emit (emit s2 (ERetNew r)) (ERetTo r (ci_uid ci) b)) h (HRet (Ret r (mk a ci)))) = (l, s') -> rt_new s s'.
Proof.
  cbv zeta. unfold inst_call. destruct (inst c (fun bd => KMeth a bd None) (ref_clone s a)) as [ci0 s1'] eqn:I0.
  assert (KD : exists u i bd caps q, ci0 = CI u i (KMeth a bd None) caps q).
  { unfold inst in I0. destruct (take_caps (clo_caps c) (ref_clone s a)) as [caps sx]. inversion I0; subst. eauto 10. }
  destruct KD as (u & i & bd & caps & q & ->). simpl.
  unfold bind. destruct (aget (env _) h); intros Q; inversion Q; subst; clear Q.
  all: exists r, u, b, a, s1'; (split; [ei_tac | reflexivity]).
Qed.

Lemma do_act_rt a s pre s' : do_act a s = (pre, s') -> evs_in noretto s s' \/ rt_new s s'.
Proof.
  intros H. destruct a; try (left; revert H; unfold do_act; repeat dest_match; nr_tac; fail).
  unfold do_act in H. destruct k as [caps body|ht c|ht c].
  - left. revert H. repeat dest_match; nr_tac.
  - destruct (lookup s ht) as [v|]; [|left; revert H; nr_tac]. destruct (handle_actor v) as [a|]; [|left; revert H; nr_tac].
    right. eapply (newret_to_rt s a c r false h pre s' (fun a ci => RKTo a ci)). exact H.
  - destruct (lookup s ht) as [v|]; [|left; revert H; nr_tac]. destruct (handle_actor v) as [a|]; [|left; revert H; nr_tac].
    right. eapply (newret_to_rt s a c r true h pre s' (fun a ci => RKSomeTo a ci)). exact H.
Qed.

Lemma state_drops_same a sa s l s' : state_drops a sa s = (l, s') -> s' = s.
Proof. unfold state_drops. destruct sa; intros Q; inversion Q; reflexivity. Qed.

Lemma leaks_nr s : evs_in noretto s (set_tr (class_flags s) (rev (leaks (rev (tr (class_flags s)))) ++ tr (class_flags s))).
Proof.
  destruct (class_flags_tr s) as (evs & TE & FE & _).
  exists (rev (leaks (rev (tr (class_flags s)))) ++ evs). split; [simpl; rewrite TE at 2; rewrite app_assoc; reflexivity|].
  rewrite forallb_app. apply andb_true_intro. split.
  - apply forallb_forall. intros e IN. apply in_rev in IN. unfold leaks in IN. apply in_map_iff in IN as (p & <- & _). reflexivity.
  - apply forallb_forall. intros e IN. eapply Forall_forall in FE; eauto. destruct FE as (c & a & -> & _). reflexivity.
Qed.

Lemma handle_rt m s pre s' : handle m s = (pre, s') -> evs_in noretto s s' \/ rt_new s s'.
Proof.
  intros H. destruct m; cbn [handle] in H.
  - left. revert H. unfold do_top. destruct o; repeat dest_match; nr_tac.
  - destruct l as [|a l]; [left; revert H; nr_tac|]. destruct (do_act a s) as [p s1] eqn:E. inversion H; subst. eapply do_act_rt; eauto.
  - left. revert H. destruct (frames s); nr_tac.
  - left. revert H. destruct (frames s) as [|fr rest]; nr_tac.
  - left. revert H. unfold run_item. destruct c as [u i kd caps q]. destruct kd; repeat dest_match; nr_tac.
  - left. revert H. unfold drop_item. destruct c as [u i kd caps q]. destruct kd; nr_tac.
  - left. revert H. nr_tac.
  - left. revert H. unfold drop_val. destruct v; repeat dest_match; nr_tac.
  - left. revert H. unfold drop_own. destruct logged; repeat dest_match; nr_tac.
  - left. revert H. unfold drop_ref. destruct (aget (actors s) a) as [y|]; [|nr_tac].
    destruct (a_freed y); [nr_tac|]. destruct (minrc_drop (a_rc y)) as [[v z]|]; [|nr_tac].
    destruct z; [|nr_tac].
    destruct (state_drops a (a_state y) _) as [dl s2] eqn:SD. rewrite (state_drops_same _ _ _ _ _ SD). nr_tac.
  - left. revert H. unfold ret_invoke. destruct r as [rid k]. destruct k; repeat dest_match; nr_tac.
  - left. revert H. nr_tac.
  - left. revert H. nr_tac.
  - left. revert H. nr_tac.
  - left. revert H. nr_tac.
  - left. revert H. unfold terminate. destruct (aget (actors s) a) as [y|]; [|nr_tac].
    destruct (state_drops a (a_state y) _) as [dl s2] eqn:SD. rewrite (state_drops_same _ _ _ _ _ SD).
    destruct (a_notify y); nr_tac.
  - left. revert H. destruct (aget (actors s) a); nr_tac.
  - left. revert H. destruct (aget (actors s) a) as [y|]; [destruct (a_state y)|]; nr_tac.
  - left. revert H. unfold fresh_stakker. nr_tac.
  - left. revert H. destruct idle; [destruct (idleq s)|]; nr_tac.
  - left. revert H. destruct (t >? now (set_mainq s [])).
    + destruct (fire t _) as [fired s2] eqn:FI. unfold fire in FI. injection FI as ? ?; subst. nr_tac.
    + nr_tac.
  - left. revert H. repeat dest_match; nr_tac.
  - left. revert H. repeat dest_match; nr_tac.
  - left. revert H. nr_tac.
  - left. revert H. repeat dest_match; nr_tac.
  - left. revert H. repeat dest_match; nr_tac.
  - left. revert H. nr_tac.
  - left. inversion H; subst. apply leaks_nr.
Qed.

Definition RI (s : st) : Prop := RTs (tr s) /\ forall u, In u (ret_uids (tr s)) -> (u < nuid s)%N.

Lemma step_RI k s k' s' : WF k s -> RI s -> step k s = Some (k', s') -> RI s'.
Proof.
  intros W [RT LT] H. destruct (step_sle _ _ _ _ W H) as [LN (evs & TE & FT)].
  destruct k as [|m k0]; [discriminate|]. simpl in H. destruct (handle m s) as [pre s1] eqn:E. inversion H; subst; clear H.
  destruct (handle_rt _ _ _ _ E) as [(ev1 & T1 & N1)|(r & u & b & a & sm & (ev1 & T1 & N1) & T2)].
  - assert (ev1 = evs) by (rewrite TE in T1; apply app_inv_tail in T1; auto). subst ev1.
    split.
    + rewrite TE. eapply RTs_ext; eauto.
    + rewrite TE, (ret_uids_nr _ _ N1). intros x X. specialize (LT _ X). lia.
  - assert (EV : evs = ERetTo r u b :: ERetNew r :: ETarget u a false :: ev1).
    { rewrite T2, T1 in TE. change (ERetTo r u b :: ERetNew r :: ETarget u a false :: ev1 ++ tr s) with ((ERetTo r u b :: ERetNew r :: ETarget u a false :: ev1) ++ tr s) in TE.
      apply app_inv_tail in TE. auto. }
    assert (FU : (nuid s <= u < nuid s')%N) by (apply (FT u a false); rewrite EV; right; right; left; reflexivity).
    assert (F1 : fresh_tgts (nuid s) (nuid s') ev1) by (intros x y z IN; apply (FT x y z); rewrite EV; right; right; right; exact IN).
    assert (R1 : RTs (tr sm)) by (rewrite T1; eapply RTs_ext; eauto).
    assert (U1 : ret_uids (tr sm) = ret_uids (tr s)) by (rewrite T1; apply ret_uids_nr; auto).
    split.
    + rewrite T2. simpl. rewrite N.eqb_refl. split; [eauto|]. split; [exact I|]. split; [|exact R1].
      rewrite U1. intros X. specialize (LT _ X). lia.
    + rewrite T2. simpl. rewrite U1. intros x [<-|X]; [lia|]. specialize (LT _ X). lia.
Qed.

Lemma run_RI fuel : forall k s t, WF k s -> RI s -> run fuel k s = Done t -> exists s', t = rev (tr s') /\ RTs (tr s').
Proof.
  induction fuel as [|f IH]; intros k s t W R H; simpl in H.
  - destruct k; [|discriminate]. inversion H; subst. exists s. split; auto. apply R.
  - destruct (step k s) as [[k' s']|] eqn:ST.
    + eapply IH; [eapply step_WF; eauto | eapply step_RI; eauto | exact H].
    + inversion H; subst. exists s. split; auto. apply R.
Qed.

(** The second monitor of C05, for every program and every amount of fuel (global / thread-local deferrer). *)
Theorem C05_calls_proved : forall (p : list top) (fuel : nat) (t : list ev),
  exec DGlobal fuel p = Done t -> C05_calls_ok t = true.
Proof.
  intros p fuel t H. unfold exec in H.
  destruct (run_inv2 fuel _ _ _ (shape_init p) (tags_init DGlobal p) (WF_init DGlobal p) (KI_init DGlobal p) (Lin_init DGlobal p) (I2_init p) H)
    as (s1 & T1 & m2 & M2 & OW).
  assert (R0 : RI (init DGlobal)) by (split; [exact I | intros u []]).
  destruct (run_RI fuel _ _ _ (WF_init DGlobal p) R0 H) as (s2 & T2 & RT).
  assert (TR : tr s2 = tr s1) by (rewrite T1 in T2; apply (f_equal (@rev ev)) in T2; rewrite !rev_involutive in T2; auto).
  rewrite TR in RT. destruct (sim _ RT m2 M2) as (m5 & M5 & RR).
  subst t. unfold C05_calls_ok. rewrite fold_mon_rev. unfold mon5 in M5. rewrite M5.
  assert (O5 : y_owed m5 = []) by (apply incl_nil_eq; rewrite <- OW; apply (r_in _ _ RR)).
  rewrite O5. reflexivity.
Qed.

(* not vacuous: the monitor rejects a ret_to call discarded while its target is Ready and never notified *)
Example C05_calls_rejects :
  C05_calls_ok [EActor 1; EReady 1; ETarget 5 1 false; ERetTo 9 5 false; ESub QMain 5 true; EDrop 5 (Some QMain) true; ERunRet false] = false /\
  C05_calls_ok [EActor 1; EReady 1; ETarget 5 1 false; ERetTo 9 5 false; ESub QMain 5 true; EDrop 5 (Some QMain) true; ENotify 1 None; ERunRet false] = true /\
  C05_calls_ok [EActor 1; EReady 1; ETarget 5 1 false; ESub QMain 5 true; EDrop 5 (Some QMain) true; ERunRet false] = true.
Proof. vm_compute. repeat split. Qed.
