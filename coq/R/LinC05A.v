(** Layer R proofs: C05, monitor A (core): facts about the monitor alone. *)
From Coq Require Import ZArith NArith List Bool Lia.
From Stk Require Import Lib.U R.Syntax R.Rt R.Mon R.C15Proofs R.Lin R.LinLive R.LinC05Mon.
Import ListNotations.
Local Open Scope Z_scope.

Lemma nget_nset {X} (l : list (N * X)) i j x : nget (nset l i x) j = if N.eqb j i then Some x else nget l j.
Proof.
  induction l as [|[k y] r IH]; simpl.
  - reflexivity.
  - destruct (N.eqb i k) eqn:E; simpl.
    + apply N.eqb_eq in E. subst k. destruct (N.eqb j i); reflexivity.
    + rewrite IH. destruct (N.eqb j k) eqn:F; auto. destruct (N.eqb j i) eqn:G; auto.
      apply N.eqb_eq in F, G. subst. rewrite N.eqb_refl in E. discriminate.
Qed.

Lemma ind_ret r r0 : ind (RRet r) (RRet r0) = if N.eqb r r0 then 1 else 0.
Proof. apply (ind_eqb_N RRet). intros a b H; inversion H; auto. Qed.

Lemma cre1_ret r e : cre1 (RRet r) e = match e with ERetNew r0 => if N.eqb r r0 then 1 else 0 | _ => 0 end.
Proof. destruct e; simpl; try reflexivity; try (rewrite ?ind_neq by discriminate; reflexivity); try apply ind_ret. Qed.

Lemma con1_ret r e : con1 (RRet r) e = match e with ERet r0 _ => if N.eqb r r0 then 1 else 0 | _ => 0 end.
Proof. destruct e; simpl; try reflexivity; try (rewrite ?ind_neq by discriminate; reflexivity); try apply ind_ret. Qed.

Definition specA (e : ev) : bool :=
  match e with ERetNew _ | ERetSent _ _ | ERet _ _ | ELeak _ _ => true | _ => false end.
Definition pbA (e : ev) : bool := negb (specA e).

Definition sent_prev (m : sA) : bool := match a_prev m with Some (ERetSent _ _) => true | _ => false end.

Lemma stepA_neutral m e : pbA e = true -> sent_prev m = false ->
  stepA m e = Some (mkA (a_new m) (a_sent m) (a_inv m) (Some e)).
Proof.
  unfold pbA, sent_prev, stepA, adjA. intros P S.
  destruct (a_prev m) as [[]|]; try discriminate S; destruct e; try discriminate P; reflexivity.
Qed.

(* a block of neutral events *)
Lemma monA_neutral evs : forall t m, forallb pbA evs = true -> monr stepA iA t = Some m -> sent_prev m = false ->
  exists m', monr stepA iA (evs ++ t) = Some m' /\ a_new m' = a_new m /\ a_sent m' = a_sent m /\ a_inv m' = a_inv m /\
             sent_prev m' = false.
Proof.
  induction evs as [|e l IH]; simpl; intros t m F M S.
  - exists m. auto.
  - apply andb_prop in F as [F1 F2]. destruct (IH t m F2 M S) as (m1 & M1 & A & B & C & D).
    rewrite M1, (stepA_neutral _ _ F1 D). eexists. split; [reflexivity|]. simpl. repeat split; auto.
    unfold sent_prev. simpl. destruct e; try reflexivity; discriminate F1.
Qed.

Lemma monA_facts t : forall m, monr stepA iA t = Some m ->
  (forall r, creT (RRet r) t = if nmem r (a_new m) then 1 else 0) /\
  (forall r, conT (RRet r) t = match nget (a_inv m) r with Some _ => 1 | None => 0 end) /\
  a_prev m = hd_error t.
Proof.
  induction t as [|e t IH]; simpl; intros m M.
  - inversion M; subst. simpl. repeat split; auto.
  - destruct (monr stepA iA t) as [m0|]; [|discriminate]. destruct (IH m0 eq_refl) as (A & B & C).
    unfold stepA in M. destruct (negb (adjA m0 e)); [discriminate|]. cbn [a_new a_sent a_inv a_prev] in M.
    assert (G : forall b (x : sA), guard b x = Some m -> b = true /\ m = x).
    { intros b x. unfold guard. destruct b; intros Q; inversion Q; auto. }
    destruct e; try (inversion M; subst; cbn [a_new a_sent a_inv a_prev]; repeat split; auto; intros r;
                     rewrite ?cre1_ret, ?con1_ret; rewrite ?A, ?B; lia).
    + (* ERetNew *)
      apply G in M as [GB ->]. cbn [a_new a_sent a_inv a_prev nmem]. split; [|split; [|reflexivity]].
      * intros r0. rewrite cre1_ret, A. destruct (N.eqb r0 r) eqn:E; cbn [orb]; [|lia].
        apply N.eqb_eq in E. subst. apply negb_true_iff in GB. rewrite GB. lia.
      * intros r0. rewrite con1_ret, B. lia.
    + (* ERetSent *)
      apply G in M as [GB ->]. cbn [a_new a_sent a_inv a_prev]. repeat split; auto; intros r0; rewrite ?cre1_ret, ?con1_ret, ?A, ?B; lia.
    + (* ERet *)
      apply G in M as [GB ->]. cbn [a_new a_sent a_inv a_prev]. split; [|split; [|reflexivity]].
      * intros r0. rewrite cre1_ret, A. lia.
      * intros r0. rewrite con1_ret, B, nget_nset. destruct (N.eqb r0 r) eqn:E; [|lia].
        apply N.eqb_eq in E. subst. apply andb_prop in GB as [GB _]. apply andb_prop in GB as [_ GB].
        destruct (nget (a_inv m0) r); [discriminate | lia].
    + (* ELeak *)
      destruct (N.eqb kind LK_RET); [discriminate|]. inversion M; subst; cbn [a_new a_sent a_inv a_prev]. repeat split; auto; intros r0; rewrite ?cre1_ret, ?con1_ret, ?A, ?B; lia.
Qed.

(** under the monitor the leak report counts the Rets exactly *)
Lemma live_ret_exact t : forall m r, monr stepA iA t = Some m ->
  cntp (LK_RET, r) (liveR t) = creT (RRet r) t - conT (RRet r) t.
Proof.
  induction t as [|e t IH]; intros m r M; [reflexivity|].
  simpl in M. destruct (monr stepA iA t) as [m0|] eqn:M0; [|discriminate].
  specialize (IH m0 r eq_refl). destruct (monA_facts _ _ M0) as (A & B & _).
  rewrite liveR_cons, cntp_upd_exact.
  - simpl. rewrite <- (tok_cre (RRet r) (LK_RET, r) e eq_refl), <- (tok_con (RRet r) (LK_RET, r) e eq_refl). lia.
  - intros CO. rewrite <- (tok_con (RRet r) (LK_RET, r) e eq_refl) in CO. rewrite con1_ret in CO.
    destruct e; try lia. destruct (N.eqb r r0) eqn:E; [|lia]. apply N.eqb_eq in E. subst r0.
    unfold stepA in M. destruct (negb (adjA m0 (ERet r m1))); [discriminate|]. cbn [a_new a_sent a_inv a_prev] in M.
    unfold guard in M. destruct (nmem r (a_new m0) && _ && _) eqn:GB; [|discriminate].
    apply andb_prop in GB as [GB _]. apply andb_prop in GB as [G1 G2].
    rewrite IH, A, B, G1. destruct (nget (a_inv m0) r); [discriminate|]. pose proof (crp_nn (LK_RET, r) (ERet r m1)). lia.
Qed.
