(** Layer R proofs: C04, the pending-call lists of the C04 monitor are those of the C02 monitor.

    Every micro-op emits at most one [ETarget] event, about a uid handed out in that very step; hence every uid has
    at most one target event in the whole trace ([tfresh]).  On such traces the C04 monitor's call table [o_tgt] is the
    Ready-call part of the C02 monitor's [c_tgt], and their pending lists coincide ([pend_rel]). *)
From Coq Require Import ZArith NArith List Bool Lia.
From Stk Require Import R.LinEvs R.LinC03K R.Lin R.LinAct R.LinLaw R.LinStep R.C06cProofs R.C02Proofs.
From Stk Require Import Lib.U Gen.SrcCount Gen.SrcCore Gen.SrcLog R.Syntax R.Rt R.Mon R.Shape R.Eff R.Tags R.Mono R.Count
  R.Nest R.C15Proofs R.C20Proofs R.Calls R.CallInv R.Own R.OwnLaw R.OwnVis R.C04Mon R.C04Base R.C04A R.C04B.
Import ListNotations.
Local Open Scope Z_scope.

Arguments submit : simpl never.
Arguments push_main : simpl never.
Arguments timer_add : simpl never.
Arguments emit : simpl never.
Arguments upd_actor : simpl never.
Arguments ref_clone : simpl never.
Arguments new_actor : simpl never.
Arguments log_rec : simpl never.
Arguments tok_script : simpl never.
Arguments target_ev : simpl never.
Arguments push_frame : simpl never.

Definition pbT (e : ev) : bool := negb (is_tgt e).

Ltac eiT := repeat ei_step.

Definition one_tgt (s s' : st) : Prop :=
  exists s1 u a p, evs_in pbT s s1 /\ evs_in pbT (emit s1 (ETarget u a p)) s'.

Definition evT (s s' : st) : Prop := evs_in pbT s s' \/ one_tgt s s'.

Lemma leaks_pbT t : forallb pbT (rev (leaks t)) = true.
Proof. unfold leaks. rewrite <- map_rev. induction (rev (live_after t [])); simpl; auto. Qed.

(* a call closure: one target event, right after the closure is made *)
Lemma inst_call_evT c mk s0 s ci s' : evs_in pbT s0 s -> inst_call c mk s = (ci, s') -> evT s0 s'.
Proof.
  intros H. unfold inst_call. destruct (inst c mk s) as [ci1 s1] eqn:I. intros Q; inversion Q; subst.
  assert (E1 : evs_in pbT s0 s1) by (eapply ei_inst; [intros; reflexivity | exact H | exact I]).
  unfold target_ev. destruct ci as [u i kd caps q]. destruct kd; try (left; exact E1).
  - right. exists s1, u, a, false. split; [exact E1 | apply ei_refl].
  - right. exists s1, u, a, true. split; [exact E1 | apply ei_refl].
Qed.

Lemma evT_then s0 s1 s2 : evT s0 s1 -> evs_in pbT s1 s2 -> evT s0 s2.
Proof.
  intros [A|(x & u & a & p & A & B)] C; [left; eapply ei_trans; eauto|].
  right. exists x, u, a, p. split; auto. eapply ei_trans; eauto.
Qed.

Lemma mk_notifier_evT s a n r s' : mk_notifier s a n = (r, s') -> evT s s'.
Proof.
  unfold mk_notifier. destruct n as [[hp c]|].
  - destruct (lookup s hp) as [v|]; [destruct (handle_actor v) as [p|]|].
    + destruct (inst_call c (fun b => KMeth p b None) (ref_clone s p)) as [ci s2] eqn:I.
      intros Q; inversion Q; subst. eapply inst_call_evT; [|exact I]. eiT.
    + intros Q; inversion Q; subst. left. eiT.
    + intros Q; inversion Q; subst. left. eiT.
  - intros Q; inversion Q; subst. left. apply ei_refl.
Qed.

Lemma do_act_evT act s pre s' : do_act act s = (pre, s') -> evT s s'.
Proof.
  unfold do_act. destruct act.
  all: try solve [left; revert H; repeat dest_match; intros Q; try injp Q; eiT].
  all: intros Q.
  - (* ANewActor *)
    revert Q. destruct (has_core s); [|intros Q; injp Q; left; eiT].
    destruct (aget (actors s) a) eqn:AA; [intros Q; injp Q; left; eiT|].
    destruct (mk_notifier s a n) as [nt s1] eqn:MK. intros Q.
    eapply evT_then; [eapply mk_notifier_evT; eauto|]. eapply ei_bind; [|exact Q]. eiT.
  - (* ACall *)
    revert Q. destruct (lookup s h) as [v|]; [|intros Q; injp Q; left; eiT]. destruct (handle_actor v) as [a|]; [|intros Q; injp Q; left; eiT].
    destruct (inst_call c _ (ref_clone s a)) as [ci s2] eqn:I. intros Q; injp Q.
    eapply evT_then; [eapply inst_call_evT; [|exact I]; eiT|]. eiT.
  - (* ACallPrep *)
    revert Q. destruct (lookup s h) as [v|]; [|intros Q; injp Q; left; eiT]. destruct (handle_actor v) as [a|]; [|intros Q; injp Q; left; eiT].
    destruct (inst_call c _ (ref_clone s a)) as [ci s2] eqn:I. intros Q; injp Q.
    eapply evT_then; [eapply inst_call_evT; [|exact I]; eiT|]. eiT.
  - (* ASlabAdd *)
    revert Q. destruct (cur_ctx s) as [|p pr|] eqn:CC; try solve [intros Q; injp Q; left; eiT]. destruct pr; try solve [intros Q; injp Q; left; eiT].
    destruct (alive s); try solve [intros Q; injp Q; left; eiT].
    destruct (aget (actors s) p) as [px|] eqn:AP; try solve [intros Q; injp Q; left; eiT].
    destruct (aget (actors s) a) eqn:AA; try solve [intros Q; injp Q; left; eiT].
    destruct (a_state px) eqn:SP; try solve [intros Q; injp Q; left; eiT].
    destruct (mk_notifier s a n) as [inner s1] eqn:MK.
    destruct (slab_insert slab snext a) as [[slab' nx'] key] eqn:SI.
    intros Q. eapply evT_then; [eapply mk_notifier_evT; eauto|]. eapply ei_bind; [|exact Q].
    match goal with |- evs_in _ _ (emit (match ?x with _ => _ end) _) => destruct x end; eiT.
  - (* ANewRet *)
    revert Q. destruct k.
    + repeat dest_match; intros Q; try injp Q; left; eiT.
    + destruct (lookup s h0) as [v|]; [|intros Q; injp Q; left; eiT]. destruct (handle_actor v) as [a|]; [|intros Q; injp Q; left; eiT].
      destruct (inst_call c _ (ref_clone s a)) as [ci s2] eqn:I. intros Q.
      eapply evT_then; [eapply inst_call_evT; [|exact I]; eiT|]. eapply ei_bind; [|exact Q]. eiT.
    + destruct (lookup s h0) as [v|]; [|intros Q; injp Q; left; eiT]. destruct (handle_actor v) as [a|]; [|intros Q; injp Q; left; eiT].
      destruct (inst_call c _ (ref_clone s a)) as [ci s2] eqn:I. intros Q.
      eapply evT_then; [eapply inst_call_evT; [|exact I]; eiT|]. eapply ei_bind; [|exact Q]. eiT.
  - (* AFwdSend *)
    revert Q. destruct (lookup s h) as [[a|a|a|r|f|t sc]|]; try solve [intros Q; injp Q; left; eiT].
    destruct (aget (fwds s) f) as [[rc [body|ht c] tg]|]; try solve [intros Q; injp Q; left; eiT].
    destruct tg as [a|]; [|intros Q; injp Q; left; eiT].
    destruct (inst_nocaps c _ (ref_clone s a)) as [ci s2] eqn:I. intros Q; injp Q.
    assert (E2 : evs_in pbT s s2) by (eapply ei_inst_nocaps; [intros; reflexivity | | exact I]; eiT).
    unfold inst_nocaps in I. inversion I; subst. unfold target_ev.
    right. exists (emit (set_nuid (ref_clone s a) (nuid (ref_clone s a) + 1)) (EClo (nuid (ref_clone s a)) (clo_id c))),
                 (nuid (ref_clone s a)), a, false.
    split; [exact E2|]. eiT.
Qed.

Lemma handle_evT m s pre s' : handle m s = (pre, s') -> evT s s'.
Proof.
  intros H. destruct m; cbn [handle] in H.
  - left. revert H. unfold do_top. destruct o; repeat dest_match; unfold bad; intros Q; injp Q; eiT.
  - destruct l as [|act l]; [left; injp H; eiT|].
    destruct (do_act act s) as [p s1] eqn:E. injp H. eapply do_act_evT; eauto.
  - left. revert H. destruct (frames s); intros Q; injp Q; eiT.
  - left. revert H. destruct (frames s); intros Q; injp Q; eiT.
  - left. revert H. unfold run_item. destruct c as [u i kd caps q]. destruct kd; repeat dest_match; intros Q; injp Q; eiT.
  - left. revert H. unfold drop_item. destruct c as [u i kd caps q]. destruct kd; intros Q; injp Q; eiT.
  - left. injp H; eiT.
  - left. revert H. unfold drop_val. destruct v; repeat dest_match; intros Q; injp Q; eiT.
  - left. revert H. unfold drop_own. repeat dest_match; intros Q; injp Q; eiT.
  - left. revert H. unfold drop_ref. destruct (aget (actors s) a) as [y|]; [|intros Q; injp Q; eiT].
    destruct (a_freed y); [intros Q; injp Q; eiT|]. destruct (minrc_drop (a_rc y)) as [[v z]|]; [|intros Q; injp Q; eiT].
    destruct z; [|intros Q; injp Q; eiT].
    destruct (state_drops a (a_state y) _) as [dl s2] eqn:SD. intros Q; injp Q.
    destruct (state_drops_h (HO 0) _ _ _ _ _ SD) as [-> _]. eiT.
  - left. revert H. unfold ret_invoke. destruct r as [rid k]. destruct k; repeat dest_match; intros Q; injp Q; eiT.
  - left. injp H; eiT.
  - left. injp H; eiT.
  - left. injp H; eiT.
  - left. injp H; eiT.
  - left. revert H. unfold terminate. destruct (aget (actors s) a) as [y|]; [|intros Q; injp Q; eiT].
    destruct (state_drops a (a_state y) _) as [dl s1] eqn:SD.
    destruct (state_drops_h (HO 0) _ _ _ _ _ SD) as [-> _].
    destruct (a_notify y); intros Q; injp Q; eiT.
  - left. revert H. destruct (aget (actors s) a); intros Q; injp Q; eiT.
  - left. revert H. destruct (aget (actors s) a) as [y|]; [destruct (a_state y)|]; intros Q; injp Q; eiT.
  - left. injp H. unfold fresh_stakker. eiT.
  - left. revert H. destruct idle; [destruct (idleq s)|]; intros Q; injp Q; eiT.
  - left. revert H. destruct (t >? now (set_mainq s [])).
    + destruct (fire t (set_now (set_mainq s []) t)) as [fired s2] eqn:FI. unfold fire in FI. injection FI as ? ?; subst.
      intros Q; injp Q; eiT.
    + intros Q; injp Q; eiT.
  - left. revert H. repeat dest_match; intros Q; injp Q; eiT.
  - left. revert H. repeat dest_match; intros Q; injp Q; eiT.
  - left. revert H. cbv zeta. intros Q; injp Q; eiT.
  - left. revert H. repeat dest_match; intros Q; injp Q; eiT.
  - left. revert H. repeat dest_match; intros Q; injp Q; eiT.
  - left. injp H; eiT.
  - left. injp H.
    destruct (class_flags_tr s) as (evs & TE & FE & _).
    exists (rev (leaks (rev (tr (class_flags s)))) ++ evs). cbn [tr set_tr]. rewrite TE, app_assoc. split; [reflexivity|].
    rewrite forallb_app, leaks_pbT. simpl. clear TE. induction FE as [|e l (c & a & -> & _) FE IH]; simpl; auto.
Qed.

(* ------------------------------------------------------------------ *)
(** * Every uid has at most one target event *)

Fixpoint tfresh (t : list ev) : Prop :=
  match t with
  | [] => True
  | ETarget u _ _ :: r => last_tgt r u = None /\ tfresh r
  | _ :: r => tfresh r
  end.

Lemma tfresh_notgt evs t : forallb pbT evs = true -> tfresh t -> tfresh (evs ++ t).
Proof.
  induction evs as [|e evs IH]; intros F T; [exact T|]. simpl in F. apply andb_prop in F as [F1 F2].
  simpl. destruct e; try (apply IH; auto). discriminate F1.
Qed.

Lemma last_tgt_notgt evs t u : forallb pbT evs = true -> last_tgt (evs ++ t) u = last_tgt t u.
Proof.
  induction evs as [|e evs IH]; intros F; [reflexivity|]. simpl in F. apply andb_prop in F as [F1 F2].
  simpl. destruct e; try (apply IH; auto). discriminate F1.
Qed.

Theorem step_tfresh k s k' s' : WF k s -> tfresh (tr s) -> step k s = Some (k', s') -> tfresh (tr s').
Proof.
  intros W T ST. pose proof (step_sle _ _ _ _ W ST) as [_ (evs0 & E0 & FR)].
  destruct W as [_ QW].
  destruct k as [|m k0]; [discriminate|]. simpl in ST. destruct (handle m s) as [pre s1] eqn:E. inversion ST; subst.
  destruct (handle_evT _ _ _ _ E) as [(evs & TE & FE)|(x & u & a & p & (evs1 & T1 & F1) & (evs2 & T2 & F2))].
  - rewrite TE. apply tfresh_notgt; auto.
  - rewrite T2. apply tfresh_notgt; auto. unfold emit. cbn [tr set_tr tfresh]. rewrite T1. split; [|apply tfresh_notgt; auto].
    rewrite last_tgt_notgt by auto. apply (w_tgts _ QW).
    apply (FR u a p). rewrite E0 in T2. unfold emit in T2. cbn [tr set_tr] in T2. rewrite T1 in T2.
    assert (Q : evs0 ++ tr s = (evs2 ++ ETarget u a p :: evs1) ++ tr s) by (rewrite <- app_assoc; exact T2).
    apply app_inv_tail in Q. rewrite Q. apply in_or_app. right. left. reflexivity.
Qed.

(* ------------------------------------------------------------------ *)
(** * The call tables and pending lists of the two monitors *)

Lemma upd04_tgt s e : o_tgt (upd04 s e) = match e with ETarget u a false => nset (o_tgt s) u a | _ => o_tgt s end.
Proof. destruct e; try reflexivity; cbn [upd04]; dmatch. Qed.

Lemma st04_tgt t : tfresh t -> forall u a, nget (o_tgt (st04 t)) u = Some a <-> last_tgt t u = Some (a, false).
Proof.
  induction t as [|e r IH]; intros T u a.
  - simpl. split; discriminate.
  - cbn [st04]. rewrite upd04_tgt. destruct e; try (simpl in T; simpl last_tgt; apply IH; exact T).
    simpl in T. destruct T as [FR T]. simpl last_tgt. destruct (N.eqb u uid) eqn:Q.
    + apply N.eqb_eq in Q. subst uid. destruct prep.
      * rewrite (IH T). rewrite FR. split; [discriminate | intros X; inversion X].
      * rewrite nget_nset_eq. split; intros X; inversion X; reflexivity.
    + assert (NE : uid <> u) by (intros ->; rewrite N.eqb_refl in Q; discriminate).
      destruct prep; [apply IH; exact T|]. rewrite nget_nset_neq by exact NE. apply IH; exact T.
Qed.

Lemma lst_nset l a x b : lst_of (nset l a x) b = if N.eqb a b then x else lst_of l b.
Proof.
  unfold lst_of. destruct (N.eqb a b) eqn:E.
  - apply N.eqb_eq in E. subst. rewrite nget_nset_eq. reflexivity.
  - rewrite nget_nset_neq; [reflexivity|]. intros ->. rewrite N.eqb_refl in E. discriminate.
Qed.

Lemma pend_nset m a x b : match nget (nset (c_pend m) a x) b with Some l => l | None => [] end = if N.eqb a b then x else pend_of m b.
Proof. apply pend_of_nset. Qed.

Lemma nremove_in u v l : In v (nremove u l) -> In v l.
Proof. induction l as [|y l IH]; simpl; auto. destruct (N.eqb u y); [auto | intros [H|H]; auto]. Qed.
Lemma nremove_notin u l : ~ In u l -> nremove u l = l.
Proof.
  induction l as [|y l IH]; simpl; auto. intros H. destruct (N.eqb u y) eqn:E.
  - apply N.eqb_eq in E. subst. exfalso. apply H. left. reflexivity.
  - rewrite IH; auto.
Qed.

Lemma upd04_pend s e : o_pend (upd04 s e) =
  match e with
  | ESub QMain u _ => match nget (o_tgt s) u with Some a => nset (o_pend s) a (lst_of (o_pend s) a ++ [u]) | None => o_pend s end
  | EMeth _ u _ | EDrop u _ _ => match nget (o_tgt s) u with Some a => nset (o_pend s) a (nremove u (lst_of (o_pend s) a)) | None => o_pend s end
  | _ => o_pend s
  end.
Proof. destruct e; try reflexivity; cbn [upd04]; dmatch. Qed.

Lemma step02_pend m e m' : step02 m e = Some m' ->
  c_pend m' =
  match e with
  | ESub QMain u _ => match nget (c_tgt m) u with Some (a, false) => nset (c_pend m) a (pend_of m a ++ [u]) | _ => c_pend m end
  | EMeth a u _ => nset (c_pend m) a (nremove u (pend_of m a))
  | EDrop u _ _ => match nget (c_tgt m) u with Some (a, _) => nset (c_pend m) a (nremove u (pend_of m a)) | None => c_pend m end
  | _ => c_pend m
  end.
Proof. unfold step02, guard. destruct e; simpl; case_all; intros H; inversion H; reflexivity. Qed.

Lemma step02_meth_tgt m a u n m' : step02 m (EMeth a u n) = Some m' -> nget (c_tgt m) u = Some (a, false).
Proof.
  unfold step02, guard. simpl. destruct (negb (nil_b (c_owed m))); [discriminate|].
  destruct (nget (c_tgt m) u) as [[a' p]|]; [|rewrite !andb_false_r; discriminate].
  destruct p; [rewrite !andb_false_r; discriminate|].
  destruct (N.eqb a a') eqn:E; [apply N.eqb_eq in E; subst; reflexivity | rewrite !andb_false_r; discriminate].
Qed.

Theorem pend_rel t : tfresh t -> forall m2, mon2 t = Some m2 ->
  (forall a, lst_of (o_pend (st04 t)) a = pend_of m2 a) /\
  (forall a u, In u (pend_of m2 a) -> last_tgt t u = Some (a, false)).
Proof.
  unfold mon2. induction t as [|e r IH]; intros T m2 H.
  - inversion H; subst. split; [reflexivity | intros a u []].
  - simpl in H. destruct (monr step02 i02 r) as [m0|] eqn:M0; [|discriminate].
    assert (T0 : tfresh r) by (destruct e; simpl in T; try exact T; apply T).
    destruct (IH T0 m0 eq_refl) as [RP RQ].
    pose proof (st04_tgt r T0) as RT. pose proof (ctgt_last r m0 M0) as CT.
    pose proof (step02_pend _ _ _ H) as SP. pose proof (step02_tgt _ _ _ H) as ST.
    cbn [st04]. rewrite upd04_pend.
    assert (SAME : c_pend m2 = c_pend m0 -> o_pend (upd04 (st04 r) e) = o_pend (st04 r) ->
                   (forall u, last_tgt (e :: r) u = last_tgt r u) ->
                   (forall a, lst_of (o_pend (st04 r)) a = pend_of m2 a) /\ (forall a u, In u (pend_of m2 a) -> last_tgt (e :: r) u = Some (a, false))).
    { intros A _ C. split; [intros a; rewrite RP; unfold pend_of; rewrite A; reflexivity|].
      intros a u IN. rewrite C. apply RQ. unfold pend_of in *. rewrite A in IN. exact IN. }
    destruct e; try (apply SAME; [exact SP | rewrite upd04_pend; reflexivity | intros; reflexivity]).
    + (* ETarget *)
      simpl in T. destruct T as [FR _]. split; [intros a0; rewrite RP; unfold pend_of; rewrite SP; reflexivity|].
      intros a0 u IN. unfold pend_of in IN. rewrite SP in IN. pose proof (RQ a0 u IN) as L. simpl.
      destruct (N.eqb u uid) eqn:Q; [apply N.eqb_eq in Q; subst; congruence | exact L].
    + (* ESub *)
      destruct q; try (apply SAME; [exact SP | rewrite upd04_pend; reflexivity | intros; reflexivity]).
      rewrite CT in SP. destruct (last_tgt r uid) as [[a p]|] eqn:LT.
      * destruct p.
        -- assert (O : nget (o_tgt (st04 r)) uid = None).
           { destruct (nget (o_tgt (st04 r)) uid) as [b|] eqn:O; auto. apply RT in O. congruence. }
           rewrite O. apply SAME; [exact SP | rewrite upd04_pend, O; reflexivity | intros; reflexivity].
        -- assert (O : nget (o_tgt (st04 r)) uid = Some a) by (apply RT; exact LT). rewrite O. split.
           ++ intros b. rewrite lst_nset. unfold pend_of at 1. rewrite SP, pend_nset, !RP. reflexivity.
           ++ intros b u IN. unfold pend_of in IN. rewrite SP, pend_nset in IN. simpl last_tgt. destruct (N.eqb a b) eqn:Q.
              ** apply N.eqb_eq in Q. subst b. apply in_app_or in IN as [IN|[<-|[]]]; [apply RQ; exact IN | exact LT].
              ** apply RQ. exact IN.
      * assert (O : nget (o_tgt (st04 r)) uid = None).
        { destruct (nget (o_tgt (st04 r)) uid) as [b|] eqn:O; auto. apply RT in O. congruence. }
        rewrite O. apply SAME; [exact SP | rewrite upd04_pend, O; reflexivity | intros; reflexivity].
    + (* EMeth *)
      pose proof (step02_meth_tgt _ _ _ _ _ H) as TG. rewrite CT in TG.
      assert (O : nget (o_tgt (st04 r)) uid = Some a) by (apply RT; exact TG). rewrite O. split.
      * intros b. rewrite lst_nset. unfold pend_of at 1. rewrite SP, pend_nset, !RP. reflexivity.
      * intros b u IN. unfold pend_of in IN. rewrite SP, pend_nset in IN. simpl last_tgt. apply RQ.
        destruct (N.eqb a b) eqn:Q; [apply N.eqb_eq in Q; subst b; eapply nremove_in; eauto | exact IN].
    + (* EDrop *)
      rewrite CT in SP. destruct (last_tgt r uid) as [[a p]|] eqn:LT.
      * destruct p.
        -- assert (O : nget (o_tgt (st04 r)) uid = None).
           { destruct (nget (o_tgt (st04 r)) uid) as [b|] eqn:O; auto. apply RT in O. congruence. }
           rewrite O.
           assert (NI : ~ In uid (pend_of m0 a)) by (intros IN; apply RQ in IN; congruence).
           rewrite (nremove_notin _ _ NI) in SP. split.
           ++ intros b. rewrite RP. unfold pend_of at 2. rewrite SP, pend_nset. destruct (N.eqb a b) eqn:Q; [apply N.eqb_eq in Q; subst; reflexivity | reflexivity].
           ++ intros b u IN. unfold pend_of in IN. rewrite SP, pend_nset in IN. simpl last_tgt. apply RQ.
              destruct (N.eqb a b) eqn:Q; [apply N.eqb_eq in Q; subst; exact IN | exact IN].
        -- assert (O : nget (o_tgt (st04 r)) uid = Some a) by (apply RT; exact LT). rewrite O. split.
           ++ intros b. rewrite lst_nset. unfold pend_of at 1. rewrite SP, pend_nset, !RP. reflexivity.
           ++ intros b u IN. unfold pend_of in IN. rewrite SP, pend_nset in IN. simpl last_tgt. apply RQ.
              destruct (N.eqb a b) eqn:Q; [apply N.eqb_eq in Q; subst b; eapply nremove_in; eauto | exact IN].
      * assert (O : nget (o_tgt (st04 r)) uid = None).
        { destruct (nget (o_tgt (st04 r)) uid) as [b|] eqn:O; auto. apply RT in O. congruence. }
        rewrite O. apply SAME; [exact SP | rewrite upd04_pend, O; reflexivity | intros; reflexivity].
Qed.

Print Assumptions pend_rel.
