(** Layer R proofs: no use of a cell that is not there, part 2: the structural invariant for pending terminations,
    the step theorem and [no_uaf]. *)
From Coq Require Import ZArith NArith List Bool Lia.
From Stk Require Import Lib.U Gen.SrcCount Gen.SrcCore Gen.SrcLog R.Syntax R.Rt R.Mon R.Shape R.Eff R.Tags R.Mono R.C15Proofs R.Count.
From Stk Require Import R.Nest R.C20Proofs R.Calls R.CallInv.
From Stk Require Import R.Lin R.LinEvs R.LinTail R.LinNin R.LinDel R.LinBody R.LinC03K R.LinC03S R.LinC03F.
From Stk Require Import R.Own R.LinRef R.LinRefLaw R.LinRefStep R.LinRefInv R.LinUaf.
Import ListNotations.
Local Open Scope Z_scope.

(* ------------------------------------------------------------------ *)
(** * Micro-ops that need the cell of their actor without holding a reference themselves *)

Definition isT (m : mop) : bool := match m with MTerminate _ _ | MToReady _ => true | _ => false end.
Definition tgtT (m : mop) : option N := match m with MTerminate a _ | MToReady a => Some a | _ => None end.

Lemma isT_app a b : existsb isT (a ++ b) = existsb isT a || existsb isT b.
Proof. apply existsb_app. Qed.
Lemma isT_drops l : existsb isT (drops l) = false.
Proof. unfold drops. induction l; simpl; auto. Qed.
Lemma isT_slab_drops l : existsb isT (slab_drops l) = false.
Proof. induction l as [|[c|n] l IH]; simpl; auto. Qed.
Lemma isT_dropitems l : existsb isT (map MDropItem l) = false.
Proof. induction l; simpl; auto. Qed.
Lemma isT_runitems l : existsb isT (map MRunItem l) = false.
Proof. induction l; simpl; auto. Qed.
Lemma bind_isT s h v l s' : bind s h v = (l, s') -> existsb isT l = false.
Proof. unfold bind. destruct (aget (env s) h); intros Q; inversion Q; reflexivity. Qed.
Lemma bad_isT s c l s' : bad s c = (l, s') -> existsb isT l = false.
Proof. unfold bad. intros Q; inversion Q; reflexivity. Qed.
Lemma state_drops_isT a sa s l s' : state_drops a sa s = (l, s') -> existsb isT l = false.
Proof.
  unfold state_drops. destruct sa; intros Q; inversion Q; subst; simpl; auto.
  - apply isT_dropitems.
  - rewrite isT_app, isT_drops, isT_slab_drops. reflexivity.
Qed.

Ltac isT_tac :=
  first [ reflexivity
        | (eapply bind_isT; eassumption)
        | (eapply bad_isT; eassumption)
        | (cbn [map app existsb isT orb]; rewrite ?isT_app, ?isT_drops, ?isT_slab_drops, ?isT_dropitems, ?isT_runitems; reflexivity) ].

Lemma do_act_T a s pre s' : do_act a s = (pre, s') -> match a with AKill _ _ => False | _ => True end -> existsb isT pre = false.
Proof.
  intros H SP. destruct a; try contradiction; revert H; unfold do_act; repeat dest_match; intros Q; inj_R Q; isT_tac.
Qed.

Lemma handle_T m s pre s' : handle m s = (pre, s') ->
  match m with MActs (AKill _ _ :: _) | MRunItem _ | MEndBody _ _ => False | _ => True end -> existsb isT pre = false.
Proof.
  intros H SP. destruct m; try contradiction; cbn [handle] in H.
  - revert H. unfold do_top. destruct o; repeat dest_match; intros Q; inj_R Q; isT_tac.
  - destruct l as [|a l]; [inversion H; reflexivity|]. destruct (do_act a s) as [p s1] eqn:E. inversion H; subst.
    rewrite isT_app, (do_act_T _ _ _ _ E); [reflexivity|]. destruct a; auto.
  - revert H. destruct (frames s); intros Q; inj_R Q; isT_tac.
  - revert H. unfold drop_item. destruct c as [u i kd caps q]. destruct kd; intros Q; inj_R Q; isT_tac.
  - inversion H; subst. apply isT_drops.
  - revert H. unfold drop_val. destruct v; repeat dest_match; intros Q; inj_R Q; isT_tac.
  - revert H. unfold drop_own. destruct logged; repeat dest_match; intros Q; inj_R Q; isT_tac.
  - revert H. unfold drop_ref. destruct (aget (actors s) a) as [y|]; [|intros Q; inj_R Q; isT_tac].
    destruct (a_freed y); [intros Q; inj_R Q; isT_tac|]. destruct (minrc_drop (a_rc y)) as [[v z]|]; [|intros Q; inj_R Q; isT_tac].
    destruct z; [|intros Q; inj_R Q; isT_tac]. destruct (state_drops a (a_state y) _) as [dl s2] eqn:SD.
    intros Q; inj_R Q. rewrite isT_app, (state_drops_isT _ _ _ _ _ SD). destruct (a_notify y); reflexivity.
  - revert H. unfold ret_invoke. destruct r as [rid k]. destruct k; repeat dest_match; intros Q; inj_R Q; isT_tac.
  - inversion H; reflexivity.
  - inversion H; reflexivity.
  - inversion H; reflexivity.
  - inversion H; reflexivity.
  - revert H. unfold terminate. destruct (aget (actors s) a) as [y|]; [|intros Q; inj_R Q; isT_tac].
    destruct (state_drops a (a_state y) _) as [dl s2] eqn:SD. pose proof (state_drops_isT _ _ _ _ _ SD) as IS.
    destruct (a_notify y); intros Q; inj_R Q; rewrite ?isT_app, IS; reflexivity.
  - revert H. destruct (aget (actors s) a); intros Q; inj_R Q; isT_tac.
  - revert H. destruct (aget (actors s) a) as [y|]; [destruct (a_state y)|]; intros Q; inj_R Q; isT_tac.
  - inversion H; subst. apply isT_dropitems.
  - revert H. destruct idle; [destruct (idleq s)|]; intros Q; inj_R Q; isT_tac.
  - revert H. destruct (t >? now (set_mainq s [])).
    + destruct (fire t _) as [fired s2] eqn:FI. intros Q; inj_R Q. apply isT_runitems.
    + intros Q; inj_R Q. apply isT_runitems.
  - revert H. repeat dest_match; intros Q; inj_R Q; isT_tac.
  - revert H. repeat dest_match; intros Q; inj_R Q; isT_tac.
  - inversion H; subst. rewrite isT_app, isT_dropitems. reflexivity.
  - inversion H; reflexivity.
  - revert H. repeat dest_match; intros Q; inj_R Q; isT_tac.
  - inversion H; reflexivity.
  - inversion H; reflexivity.
Qed.

(* ------------------------------------------------------------------ *)
(** * A pending termination / to-Ready has a holder of its actor behind it (or, freshly pushed by kill!, in the state) *)

Definition TM (k : list mop) (s : st) : Prop :=
  forall w x rest a, k = w ++ x :: rest -> tgtT x = Some a -> 1 <= hmops (HR a) rest \/ (w = [] /\ 1 <= hst (HR a) s).

Lemma isT_none pre : existsb isT pre = false -> forall w x r1 a, pre = w ++ x :: r1 -> tgtT x = Some a -> False.
Proof.
  intros NE w x r1 a E T. assert (IN : In x pre) by (rewrite E; apply in_or_app; right; left; reflexivity).
  assert (existsb isT pre = true) by (apply existsb_exists; exists x; split; auto; destruct x; try discriminate T; reflexivity). congruence.
Qed.

Definition holder_after (pre : list mop) : Prop :=
  forall w x r1 a, pre = w ++ x :: r1 -> tgtT x = Some a -> 1 <= hmops (HR a) r1.

Lemma run_item_T c s pre s' : run_item c s = (pre, s') -> holder_after pre.
Proof.
  unfold run_item. destruct c as [u i kd caps q].
  assert (NO : forall l, existsb isT l = false -> holder_after l) by (intros l NE w x r1 a E T; exfalso; eapply isT_none; eauto).
  destruct kd as [body|a body arg|a body ready|p key|a|a e]; repeat dest_match; intros Q; inj_R Q; try (apply NO; reflexivity).
  - intros w x r1 b E T. destruct w as [|y w]; simpl in E; inversion E; subst.
    + simpl in T. inversion T; subst b. cbn [hmops hmop]. rewrite hind_refl. lia.
    + destruct w as [|y2 w]; simpl in H1; inversion H1; subst; [discriminate T | destruct w; discriminate].
  - intros w x r1 b E T. destruct w as [|y w]; simpl in E; inversion E; subst.
    + simpl in T. inversion T; subst b. cbn [hmops hmop]. rewrite hind_refl. pose proof (hind_range (HR a) (HO a)). lia.
    + destruct w as [|y2 w]; simpl in H1; inversion H1; subst; [discriminate T | destruct w; discriminate].
Qed.

Lemma end_tail_T f die w x r1 a : end_tail f die = w ++ x :: r1 -> tgtT x = Some a -> fin_actor f = Some a.
Proof.
  destruct f as [|b|b ready]; simpl.
  - intros E. destruct w; discriminate.
  - destruct die as [c|]; intros E T; [|destruct w; discriminate].
    destruct w as [|y w]; simpl in E; inversion E; subst; [simpl in T; exact T | destruct w; discriminate].
  - destruct die as [c|]; destruct ready; intros E T; try (destruct w; discriminate; fail).
    + destruct w as [|y w]; simpl in E; inversion E; subst; [discriminate T|].
      destruct w as [|y2 w]; simpl in H1; inversion H1; subst; [simpl in T; exact T|].
      destruct w as [|y3 w]; simpl in H2; inversion H2; subst; [discriminate T | destruct w; discriminate].
    + destruct w as [|y w]; simpl in E; inversion E; subst; [simpl in T; exact T | destruct w; discriminate].
    + destruct w as [|y w]; simpl in E; inversion E; subst; [simpl in T; exact T | destruct w; discriminate].
Qed.

Theorem step_TM k s k' s' : EB k -> TM k s -> step k s = Some (k', s') -> TM k' s'.
Proof.
  intros E T ST. destruct k as [|m k0]; [discriminate|]. simpl in ST. destruct (handle m s) as [pre s1] eqn:HD. inversion ST; subst k' s1; clear ST.
  intros w x rest a K TX. apply app_split in K as [(w0 & K0 & ->)|(p2 & KP & ->)].
  - left. destruct (T (m :: w0) x rest a) as [G|[G _]]; [rewrite K0; reflexivity | exact TX | exact G | discriminate G].
  - rewrite hmops_app.
    assert (SPEC : match m with MActs (AKill _ _ :: _) | MRunItem _ | MEndBody _ _ => False | _ => True end \/
                   match m with MActs (AKill _ _ :: _) | MRunItem _ | MEndBody _ _ => True | _ => False end).
    { destruct m; auto. destruct l as [|a0 l]; auto. destruct a0; auto. }
    destruct SPEC as [SP|SP]; [exfalso; eapply (isT_none pre); eauto; eapply handle_T; eauto|].
    destruct m; try contradiction.
    + (* AKill *)
      destruct l as [|a0 l]; [contradiction|]. destruct a0; try contradiction. cbn [handle] in HD. unfold do_act in HD.
      assert (BADC : forall c, (let '(p, s2) := bad s c in (p ++ [MActs l], s2)) = (pre, s') -> False).
      { intros c Q. unfold bad in Q. inversion Q; subst pre. eapply (isT_none ([] ++ [MActs l])); eauto. }
      destruct (cur_ctx s); try (exfalso; eapply (BADC 15%N); eauto; fail).
      destruct (alive s); [|exfalso; eapply (BADC 15%N); eauto].
      destruct (lookup s h) as [[b| | | | |]|] eqn:L; try (exfalso; eapply (BADC 15%N); eauto; fail).
      rewrite KP in HD. injection HD as KQ ES. subst s'. symmetry in KQ. destruct w as [|y w]; simpl in KQ; inversion KQ; subst.
      * right. split; [reflexivity|]. simpl in TX. inversion TX; subst a.
        pose proof (lookup_le (HR b) s h _ L) as LE. rewrite hv_own, hind_refl in LE. pose proof (hind_range (HR b) (HO b)).
        change (hst (HR b) (emit s (EReq b (CKill e)))) with (hst (HR b) s). lia.
      * destruct w as [|y2 w]; simpl in H1; inversion H1; subst; [discriminate TX | destruct w; discriminate].
    + (* MEndBody *)
      cbn [handle] in HD. destruct (frames s) as [|fr rest0]; [inversion HD; subst pre; destruct w; discriminate|].
      fold (end_tail f (f_die fr)) in HD. rewrite KP in HD. injection HD as KQ0 ES. subst s'.
      assert (FA : fin_actor f = Some a).
      { apply app_split in KQ0 as [(w0 & K0 & _)|(q2 & KQ & _)].
        - eapply end_tail_T; eauto.
        - exfalso. eapply (isT_none (drops (f_loc fr))); [apply isT_drops | exact KQ | exact TX]. }
      destruct (E [] uid f k0 a eq_refl FA) as (r' & ->). left. cbn [hmops hmop]. rewrite hind_refl.
      pose proof (hmops_nn (HR a) p2). pose proof (hmops_nn (HR a) r'). lia.
    + (* MRunItem *)
      cbn [handle] in HD. left. pose proof (run_item_T _ _ _ _ HD w x p2 a KP TX). pose proof (hmops_nn (HR a) k0). lia.
Qed.

Lemma TM_init d p : TM (map MTop p ++ [MEpilogue]) (init d).
Proof.
  intros w x rest a K T. exfalso.
  assert (IN : In x (map MTop p ++ [MEpilogue])) by (rewrite K; apply in_or_app; right; left; reflexivity).
  apply in_app_or in IN as [IN|[<-|[]]]; [|discriminate T]. apply in_map_iff in IN as (o & <- & _). discriminate T.
Qed.

(* ------------------------------------------------------------------ *)
(** * Every step; the trace theorem *)

Record UI (k : list mop) (s : st) : Prop := mkUI {
  ui_j : J k s; ui_z : Fz s; ui_t : TM k s; ui_e : EB k; ui_f : FK k (ctxs s) }.

(* the actor whose method / init step is running is live: its own reference is pending behind the body end *)
Lemma UI_ctx k s : UI k s -> CTXL s.
Proof.
  intros [JJ Z _ E F] p b CX. unfold cur_ctx in CX. destruct (frames s) as [|[cx loc die] rest] eqn:FR; [discriminate|]. simpl in CX. subst cx.
  destruct (FK_cx _ _ _ _ _ _ _ F FR) as (_ & u & f & EN & FA).
  assert (FB : fbody k = Some p) by (unfold fbody; rewrite EN; exact FA).
  destruct (EB_fbody _ _ E FB) as (w & u0 & f0 & r & ->). eapply live_census; eauto.
  rewrite hmops_app. cbn [hmops hmop]. rewrite hind_refl. pose proof (hmops_nn (HR p) w). pose proof (hmops_nn (HR p) r). pose proof (hst_nn (HR p) s). lia.
Qed.

Lemma UI_head_live m k0 s a : UI (m :: k0) s -> tgtT m = Some a -> live s a.
Proof.
  intros [JJ Z T _ _] TX. eapply live_census; eauto. cbn [hmops].
  destruct (T [] m k0 a eq_refl TX) as [G|[_ G]]; pose proof (hmop_nn (HR a) m); pose proof (hmops_nn (HR a) k0); pose proof (hst_nn (HR a) s); lia.
Qed.

Theorem step_nouaf k s k' s' : UI k s -> step k s = Some (k', s') -> nouaf s s'.
Proof.
  intros U ST. pose proof U as [JJ Z T E F]. destruct k as [|m k0]; [discriminate|]. simpl in ST.
  destruct (handle m s) as [pre s1] eqn:HD. inversion ST; subst k' s1; clear ST.
  destruct m; try (apply uok_nouaf; [exact Z|]; eapply plain_U; eauto; exact I).
  - (* MActs *) cbn [handle] in HD. destruct l as [|a l]; [inversion HD; subst; split; [apply ei_refl | exact Z]|].
    destruct (do_act a s) as [p s1] eqn:DA. inversion HD; subst pre s'. apply uok_nouaf; [exact Z|].
    eapply do_act_U; eauto; [eapply J_LIVE; eauto | eapply UI_ctx; eauto | exact (J_PJ _ _ _ JJ)].
  - apply uok_nouaf; [exact Z|]. eapply runitem_U; eauto.
  - apply uok_nouaf; [exact Z|]. eapply dropown_U; eauto.
  - eapply dropref_U; eauto.
  - apply uok_nouaf; [exact Z|]. eapply retinvoke_U; eauto.
  - apply uok_nouaf; [exact Z|]. cbn [handle] in HD. eapply terminate_U; [|exact HD]. eapply UI_head_live; [exact U | reflexivity].
  - apply uok_nouaf; [exact Z|]. eapply toready_U; [|exact HD]. eapply UI_head_live; [exact U | reflexivity].
Qed.

Theorem step_UI k s k' s' : UI k s -> step k s = Some (k', s') -> UI k' s'.
Proof.
  intros U ST. pose proof (step_nouaf _ _ _ _ U ST) as [_ Z']. destruct U as [JJ Z T E F]. constructor.
  - eapply step_J; eauto.
  - exact Z'.
  - eapply step_TM; eauto.
  - eapply step_EB; eauto.
  - eapply step_FK; eauto.
Qed.

Lemma UI_init d p : UI (map MTop p ++ [MEpilogue]) (init d).
Proof.
  constructor; [apply J_init | | apply TM_init | apply EB_init | apply FK_init].
  intros a y H. destruct d; discriminate H.
Qed.

Definition noU (t : list ev) : Prop := forallb pbU t = true.

Lemma forallb_rev' {X} (f : X -> bool) l : forallb f (rev l) = forallb f l.
Proof. induction l as [|x l IH]; simpl; auto. rewrite forallb_app, IH. simpl. rewrite andb_true_r. apply andb_comm. Qed.

Lemma run_noU fuel : forall k s t, UI k s -> noU (tr s) -> run fuel k s = Done t -> noU t.
Proof.
  induction fuel as [|f IH]; intros k s t U N H; simpl in H.
  - destruct k; [|discriminate]. inversion H; subst. unfold noU. rewrite forallb_rev'. exact N.
  - destruct (step k s) as [[k' s']|] eqn:ST.
    + destruct (step_nouaf _ _ _ _ U ST) as [(evs & TR & PB) _].
      eapply IH; [eapply step_UI; eauto | | exact H]. unfold noU. rewrite TR, forallb_app, PB. exact N.
    + inversion H; subst. unfold noU. rewrite forallb_rev'. exact N.
Qed.

(** the model never uses a cell that is not in the table or already freed *)
Theorem no_uaf : forall (d : dkind) (p : list top) (fuel : nat) (t : list ev),
  exec d fuel p = Done t ->
  forallb (fun e => match e with EModel c _ => negb (N.eqb c M_UAF) | _ => true end) t = true.
Proof.
  intros d p fuel t H. unfold exec in H. apply (run_noU fuel _ _ _ (UI_init d p)); [|exact H]. destruct d; reflexivity.
Qed.

Print Assumptions no_uaf.
