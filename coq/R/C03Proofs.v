(** Layer R proofs: C03 (an actor terminates once: one notification, state dropped once).

    The C03 monitor is the product of two monitors (LinC03Mon.v): L (lifecycle) and K (cause).
    [C03_lifecycle_proved]: for every program, fuel and deferrer kind, if the machine terminates with trace [t]
    and [t] reports no leaked closure, actor value or notifier ([no_container_leak t]), then the lifecycle monitor
    accepts [t]: every actor moves Prep -> Ready -> Zombie or Prep -> Zombie and never leaves Zombie (no method or
    init step starts after its notification), [is_zombie()] is true from the notification on, the notifier is
    invoked exactly once, the actor's own value is dropped exactly once, only after Ready and not after a
    notification with a cause, and neither a notifier nor a value is owed at the end. *)
From Coq Require Import ZArith NArith List Bool Lia.
From Stk Require Import Lib.U Gen.SrcCount Gen.SrcCore Gen.SrcLog R.Syntax R.Rt R.Mon R.Shape R.Eff R.Tags R.Mono R.C15Proofs R.Count.
From Stk Require Import R.Nest R.C20Proofs R.Calls R.CallInv.
From Stk Require Import R.Lin R.LinAct R.LinLaw R.LinStep R.LinEvs R.LinTail R.LinLive R.LinNin R.LinDel R.LinC05A R.LinC05Core R.LinC05B.
From Stk Require Import R.C05Proofs R.LinBody R.LinC03Mon R.LinC03L R.LinC03K R.LinC03S R.LinC03F.
Import ListNotations.
Local Open Scope Z_scope.

Definition IL03 (k : list mop) (s : st) : Prop :=
  BadL (tr s) \/ exists m, monr stepL iL (tr s) = Some m /\ RL m k s.

Theorem step_IL03 k s k' s' :
  Lin k s -> KI k s -> IL03 k s -> step k s = Some (k', s') -> IL03 k' s'.
Proof.
  intros L K [B|(m & M & R)] H.
  - left. eapply BadL_ext; eauto. eapply step_ext; eauto.
  - destruct (step_RL _ _ _ _ _ L K H M R) as [B|X]; [left; exact B | right; exact X].
Qed.

Lemma run_invL fuel : forall k s t,
  shape k -> Tags k s -> WF k s -> KI k s -> Lin k s -> IL03 k s -> run fuel k s = Done t ->
  exists s', t = rev (tr s') /\ (BadL (tr s') \/ exists m, monr stepL iL (tr s') = Some m).
Proof.
  induction fuel as [|f IH]; intros k s t SH TG W K L I H; simpl in H.
  - destruct k; [|discriminate]. inversion H; subst. exists s. split; auto. destruct I as [B|(m & M & _)]; eauto.
  - destruct (step k s) as [[k' s']|] eqn:ST.
    + assert (QT : QTags s) by (apply Tags_split in TG; tauto).
      destruct (step_KI _ _ _ _ W QT K ST) as [K' _].
      eapply IH; [ eapply step_shape; eauto | eapply step_tags; eauto | eapply step_WF; eauto | exact K'
                 | eapply step_Lin; eauto | eapply step_IL03; eauto | exact H ].
    + inversion H; subst. exists s. split; auto. destruct I as [B|(m & M & _)]; eauto.
Qed.

(** the lifecycle conjunct of C03, for every program whose run leaks no closure, actor value or notifier *)
Theorem C03_lifecycle_proved : forall (d : dkind) (p : list top) (fuel : nat) (t : list ev),
  exec d fuel p = Done t -> no_container_leak t -> okL t = true.
Proof.
  intros d p fuel t H NL. unfold exec in H.
  assert (I0 : IL03 (map MTop p ++ [MEpilogue]) (init d)) by (right; exists iL; split; [reflexivity | apply RL_init]).
  destruct (run_invL fuel _ _ _ (shape_init p) (tags_init d p) (WF_init d p) (KI_init d p) (Lin_init d p) I0 H)
    as (s' & -> & [(kd & id & IN & LK)|(m & M)]).
  - exfalso. rewrite (NL kd id) in LK; [discriminate|]. apply -> in_rev. exact IN.
  - unfold okL. rewrite fold_mon_rev, M. reflexivity.
Qed.

Print Assumptions C03_lifecycle_proved.

(* non-vacuity: several termination requests on one actor, a killed Prep actor with a held call, an owner drop *)
Definition c03_prog : list top :=
  [TNew 0;
   TDo [ANewActor 1 1 None; ACallPrep 1 (Clo 1 0 0 [] []) true; ACall 1 (Clo 2 0 0 [] [AStop; AFail 5]);
        ANewActor 2 2 None; ACall 2 (Clo 3 0 0 [] []);
        ANewActor 3 3 None; ACallPrep 3 (Clo 4 0 0 [] []) true; AIsZombie 3];
   TRun 2 false;
   TDo [AKill 2 9; AKill 1 7; AIsZombie 1; ADropH 3];
   TRun 4 false;
   TDo [AIsZombie 3]].

Example C03_lifecycle_nontrivial :
  exists t, exec DGlobal 3000 c03_prog = Done t /\ ncl_b t = true /\ okL t = true /\ C03_ok t = true /\
            In (ENotify 1 (Some CStop)) t /\ In (ENotify 2 (Some (CKill 9))) t /\ In (ENotify 3 (Some CDrop)) t /\
            In (EValDrop 1) t /\ In (EValDrop 3) t /\ In (EIsZombie 1 true) t.
Proof.
  eexists. split; [vm_compute; reflexivity|]. split; [vm_compute; reflexivity|]. split; [vm_compute; reflexivity|].
  split; [vm_compute; reflexivity|]. repeat split; vm_compute; tauto.
Qed.

(* ------------------------------------------------------------------ *)
(** * The cause conjunct and the full C03 theorem

    [okF t]: no cell is freed (model event [EModel M_FREE_ACTOR a]) while one of the methods / init steps of that
    same actor runs (between [EMeth a] / [EPrep a] and the matching [EEnd]).  This is a refcount fact (the running
    method holds a reference to its actor); it is a hypothesis here. *)

Lemma run_invK fuel : forall k s t,
  shape k -> Tags k s -> WF k s -> KI k s -> FK k (ctxs s) -> DT k s -> FL k s -> Tail k s -> IK k s ->
  run fuel k s = Done t ->
  exists s', t = rev (tr s') /\ (BadF (tr s') \/ exists m, monr stepK iK (tr s') = Some m).
Proof.
  induction fuel as [|f IH]; intros k s t SH TG W K F D FL_ TL I H; simpl in H.
  - destruct k; [|discriminate]. inversion H; subst. exists s. split; auto. destruct I as [B|(m & b & M & _)]; eauto.
  - destruct (step k s) as [[k' s']|] eqn:ST.
    + assert (QT : QTags s) by (apply Tags_split in TG; tauto).
      destruct (step_KI _ _ _ _ W QT K ST) as [K' _].
      eapply IH; [ eapply step_shape; eauto | eapply step_tags; eauto | eapply step_WF; eauto | exact K'
                 | eapply step_FK; eauto | eapply step_DT; eauto | eapply step_FL; eauto | eapply step_Tail; eauto
                 | eapply step_IK; eauto; apply K | exact H ].
    + inversion H; subst. exists s. split; auto. destruct I as [B|(m & b & M & _)]; eauto.
Qed.

(** the cause conjunct of C03 *)
Theorem C03_cause_proved : forall (d : dkind) (p : list top) (fuel : nat) (t : list ev),
  exec d fuel p = Done t -> okF t = true -> okK t = true.
Proof.
  intros d p fuel t H OF. unfold exec in H.
  destruct (run_invK fuel _ _ _ (shape_init p) (tags_init d p) (WF_init d p) (KI_init d p) (FK_init d p) (DT_init d p)
              (FL_init d p) (Tail_init d p) (IK_init d p) H) as (s' & -> & [B|(m & M)]).
  - exfalso. unfold okF in OF. rewrite fold_mon_rev in OF. unfold BadF in B. rewrite B in OF. discriminate.
  - unfold okK. rewrite fold_mon_rev, M. reflexivity.
Qed.

Print Assumptions C03_cause_proved.

(** C03, full: for every program, fuel and deferrer kind, if the machine terminates with trace [t], [t] reports no
    leaked closure / actor value / notifier and no cell is freed while one of its own methods runs, then the C03
    monitor accepts [t]. *)
Theorem C03_proved : forall (d : dkind) (p : list top) (fuel : nat) (t : list ev),
  exec d fuel p = Done t -> no_container_leak t -> okF t = true -> C03_ok t = true.
Proof.
  intros d p fuel t H NL OF. apply C03_split; [eapply C03_lifecycle_proved; eauto | eapply C03_cause_proved; eauto].
Qed.

Print Assumptions C03_proved.

Definition hyp03 (t : list ev) : bool := ncl_b t && okF t.

Corollary C03_checked d p fuel t : exec d fuel p = Done t -> hyp03 t = true -> C03_ok t = true.
Proof.
  intros H HY. unfold hyp03 in HY. apply andb_prop in HY as [A B]. eapply C03_proved; eauto. apply ncl_of_b. exact A.
Qed.

Example C03_nontrivial :
  exists t, exec DGlobal 3000 c03_prog = Done t /\ hyp03 t = true /\ C03_ok t = true /\
            In (ENotify 1 (Some CStop)) t /\ In (ENotify 2 (Some (CKill 9))) t /\ In (ENotify 3 (Some CDrop)) t /\
            In (EReq 1 (CFail 5)) t /\ In (EReq 1 (CKill 7)) t.
Proof.
  eexists. split; [vm_compute; reflexivity|]. split; [vm_compute; reflexivity|]. split; [vm_compute; reflexivity|].
  repeat split; vm_compute; tauto.
Qed.

(* the leak hypothesis is necessary: the known findings F5 and F7 and the self-referencing actor leave a notifier and /
   or a value owed at the end (the cause conjunct and [okF] hold in all three) *)
Example C03_F5_refuted :
  exists t, exec DGlobal 3000 f5_prog = Done t /\ ncl_b t = false /\ okF t = true /\ okK t = true /\ C03_ok t = false.
Proof. eexists. split; [vm_compute; reflexivity|]. repeat split; vm_compute; reflexivity. Qed.

Example C03_F7_refuted :
  exists t, exec DGlobal 3000 f7_prog = Done t /\ ncl_b t = false /\ okF t = true /\ okK t = true /\ C03_ok t = false.
Proof. eexists. split; [vm_compute; reflexivity|]. repeat split; vm_compute; reflexivity. Qed.

Example C03_selfcycle_refuted :
  exists t, exec DGlobal 3000 selfcycle_prog = Done t /\ ncl_b t = false /\ okF t = true /\ okK t = true /\ C03_ok t = false.
Proof. eexists. split; [vm_compute; reflexivity|]. repeat split; vm_compute; reflexivity. Qed.

(** The hypothesis [okF] reduced to a refcount fact (LinC03F.v): given ANY step-invariant [I] of the machine under
    which a reference drop that frees the cell of a never has another [MDropRef a] pending behind it
    ([no_self_free I]), C03 holds for every run without leaked container. *)
Theorem C03_proved_of_inv (I : list mop -> st -> Prop) :
  no_self_free I ->
  (forall d p, I (map MTop p ++ [MEpilogue]) (init d)) ->
  (forall k s k' s', I k s -> step k s = Some (k', s') -> I k' s') ->
  forall (d : dkind) (p : list top) (fuel : nat) (t : list ev),
  exec d fuel p = Done t -> no_container_leak t -> C03_ok t = true.
Proof.
  intros NSF I0 IS d p fuel t H NL. eapply C03_proved; eauto. eapply okF_of_inv; eauto.
Qed.

Print Assumptions C03_proved_of_inv.
