(** Layer R proofs: C04, slab clauses, part 6: slab.len() counts exactly the children not yet terminated.

    [VS]: a slab child never has a visible owner.  [TR]: a slab child is terminated only inside run.  [RQ]: a
    slab-removal item for an occupied entry is queued only inside run.  [NDI]: such an item is never dropped un-run.
    [WS]: the notifier field of a child in a slab is the wrapper of its entry.  [NDS]: a child occupies one entry.
    [LOC]: for an occupied entry, the child is not a Zombie, or its wrapper is being invoked with a cause, or the
    slab-removal item exists.  [KD1], [KD3]: the occupants are children listed by the monitor, not notified at the last
    runret.  Hence the check made at `slablen`. *)
From Coq Require Import ZArith NArith List Bool Lia.
From Stk Require Import R.LinEvs R.LinC03K R.Lin R.LinAct R.LinLaw R.LinStep R.LinNin R.LinC03L R.LinC05C R.C06cProofs R.C02Proofs R.Dkind R.DkindSim.
From Stk Require Import R.LinRef R.LinRefLaw R.LinRefStep R.LinRefInv R.LinUaf R.LinUafInv.
From Stk Require Import Lib.U Gen.SrcCount Gen.SrcCore Gen.SrcLog R.Syntax R.Rt R.Mon R.Shape R.Eff R.Tags R.Mono R.Count
  R.Nest R.C15Proofs R.C20Proofs R.Calls R.CallInv R.Own R.OwnLaw R.OwnVis R.C04Mon R.C04Base R.C04A R.C04Ceq R.C04SK R.C04A2 R.C04A3
  R.C04B R.C04B2 R.C04T R.C04N R.C04W R.C04W2 R.C04K R.C04K2 R.C04S1.
Import ListNotations.
Local Open Scope Z_scope.

Arguments submit : simpl never.
Arguments push_main : simpl never.
Arguments timer_add : simpl never.
Arguments emit : simpl never.
Arguments upd_actor : simpl never.
Arguments ref_clone : simpl never.
Arguments new_actor : simpl never.
Arguments log_rec : simpl never.
Arguments tok_script : simpl never.
Arguments target_ev : simpl never.
Arguments push_frame : simpl never.

(* ------------------------------------------------------------------ *)
(** * A slab child never has a visible owner *)

Definition VS (s : st) : Prop :=
  forall c, In c (o_slabkid (st04 (tr s))) -> vis c (tr s) = 0 /\ exists y, aget (actors s) c = Some y.

Lemma VS_init d : VS (init d). Proof. intros c H. destruct H. Qed.

Lemma step_VS m k0 s pre s' : OI (m :: k0) s -> SU s' -> handle m s = (pre, s') -> VS s -> VS s'.
Proof.
  intros OO U' E V.
  destruct (handle_evB _ _ _ _ E) as [(evs & TE & FE)|(e & PE & (s1 & (evs1 & T1 & F1) & (evs2 & T2 & F2)) & EV)].
  - destruct (st04_neutral evs (tr s) FE) as (_ & _ & SKD & VI). rewrite <- TE in SKD, VI.
    intros c IN. rewrite SKD in IN. destruct (V c IN) as (V0 & y & AY). rewrite VI. split; [exact V0 | eapply handle_tab; eauto].
  - assert (TE : tr s' = evs2 ++ e :: evs1 ++ tr s) by (rewrite T2; unfold emit; cbn [tr set_tr]; rewrite T1; reflexivity).
    destruct (st04_one evs2 e evs1 (tr s) F1 F2) as (_ & _ & S1 & _ & _ & _ & SKD & VI). rewrite <- TE in SKD, VI.
    rewrite upd04_slabkid, S1 in SKD.
    assert (OLD : forall c, In c (o_slabkid (st04 (tr s))) -> vis1 c e = 0 -> vis c (tr s') = 0 /\ exists y, aget (actors s') c = Some y).
    { intros c IN Z. destruct (V c IN) as (V0 & y & AY). rewrite VI, V0, Z. split; [reflexivity | eapply handle_tab; eauto]. }
    intros c IN. rewrite SKD in IN.
    destruct e; try discriminate PE; cbn [evok] in EV; try (apply OLD; [exact IN | reflexivity]).
    + (* EOwnNew *)
      apply OLD; [exact IN|]. cbn [vis1]. unfold vb. destruct (N.eqb c a) eqn:CA; [|reflexivity]. apply N.eqb_eq in CA. subst a.
      exfalso. destruct (V c IN) as (V0 & y & AY).
      destruct EV as (l & [(h & n & _ & AN)|(h & h2 & _ & L)]); [congruence | exact (novis_lookup _ _ _ _ OO V0 L)].
    + (* EOwnDrop *)
      apply OLD; [exact IN|]. cbn [vis1]. unfold vb. destruct (N.eqb c a) eqn:CA; [|reflexivity]. apply N.eqb_eq in CA. subst a.
      exfalso. destruct (V c IN) as (V0 & _). subst m. eapply novis_dropown; eauto.
    + (* ESlabAdd *)
      destruct IN as [<-|IN]; [|apply OLD; [exact IN | reflexivity]].
      destruct EV as (h & n & l & -> & AN). rewrite VI. cbn [vis1]. rewrite (fresh_vis _ _ _ OO AN). split; [reflexivity|].
      apply (proj1 U' p a). rewrite TE. apply in_or_app. right. left. reflexivity.
Qed.

(* ------------------------------------------------------------------ *)
(** * A slab child is terminated only inside run *)

Definition tgtK (x : mop) (c : N) : Prop :=
  (exists cc, x = MTerminate c cc) \/ (exists r cc, x = MRetInvoke r (Some (MCause cc)) /\ nshape c r).

Definition TR (k : list mop) (s : st) : Prop :=
  forall x c, In x k -> tgtK x c -> In c (o_slabkid (st04 (tr s))) -> runphase k.

Lemma TR_init d p : TR (map MTop p ++ [MEpilogue]) (init d).
Proof. intros x c _ _ H. destruct H. Qed.

Lemma nonwork_tail m k0 : shape (m :: k0) -> is_work m = false -> forall x, In x k0 -> is_work x = false.
Proof.
  intros [p [PH _]] W. unfold phase_of in PH. simpl in PH. rewrite W in PH.
  assert (TT : forall r, tops r = true -> forall x, In x r -> is_work x = false).
  { intros r T x IN. unfold tops in T. rewrite forallb_forall in T. specialize (T x IN). destruct x; try discriminate T; reflexivity. }
  destruct m; try discriminate W; simpl in PH.
  all: try (destruct (tops k0) eqn:TP; [apply TT; exact TP | discriminate PH]).
  - destruct k0 as [|m1 k1]; [discriminate|]. destruct m1; try discriminate PH.
    destruct k1 as [|m2 k2]; [discriminate|]. destruct m2; try discriminate PH.
    destruct ((t =? t0) && tops k2) eqn:TP; [|discriminate]. apply andb_prop in TP as [_ TP].
    intros x [<-|[<-|IN]]; [reflexivity | reflexivity | eapply TT; eauto].
  - destruct k0 as [|m1 k1]; [discriminate|]. destruct m1; try discriminate PH.
    destruct ((t =? t0) && tops k1) eqn:TP; [|discriminate]. apply andb_prop in TP as [_ TP].
    intros x [<-|IN]; [reflexivity | eapply TT; eauto].
Qed.

Lemma runish_run m k0 : shape (m :: k0) -> runish m = true -> runphase (m :: k0).
Proof.
  intros [p [PH R]] RU. unfold runphase. rewrite PH. apply R. simpl.
  assert (W : is_work m = true) by (destruct m; try discriminate RU; reflexivity). rewrite W. simpl. rewrite RU. reflexivity.
Qed.

Lemma work_run m k0 s pre s' : is_work m = true -> handle m s = (pre, s') -> runphase (m :: k0) -> runphase (pre ++ k0).
Proof.
  intros W E R. destruct (handle_work _ _ _ _ W E) as [A _]. destruct (work_step_phase m k0 pre W A) as [X _].
  unfold runphase in *. rewrite X. exact R.
Qed.

(* an actor with a pending termination is in the table *)
Lemma term_in_table k s x c : UI k s -> KI k s -> In x k -> tgtK x c -> exists y, aget (actors s) c = Some y.
Proof.
  intros [JJ Z T _ _] [_ MOK] IN [(cc & ->)|(r & cc & -> & NS)].
  - apply in_split in IN as (w & rest & ->).
    assert (L : live s c).
    { eapply live_census; eauto. rewrite hmops_app. cbn [hmops].
      pose proof (hmops_nn (HR c) w). pose proof (hmop_nn (HR c) (MTerminate c cc)). pose proof (hmops_nn (HR c) rest). pose proof (hst_nn (HR c) s).
      destruct (T w (MTerminate c cc) rest c eq_refl eq_refl) as [G|[_ G]]; lia. }
    destruct L as (y & AY & _). eauto.
  - rewrite Forall_forall in MOK. destruct (MOK _ IN c NS) as (y & AY & _). eauto.
Qed.

Lemma slabkid_step m s pre s' c : handle m s = (pre, s') -> In c (o_slabkid (st04 (tr s'))) ->
  In c (o_slabkid (st04 (tr s))) \/ (exists h n l, m = MActs (ASlabAdd h c n :: l) /\ aget (actors s) c = None).
Proof.
  intros E IN.
  destruct (handle_evB _ _ _ _ E) as [(evs & TE & FE)|(e & PE & (s1 & (evs1 & T1 & F1) & (evs2 & T2 & F2)) & EV)].
  - destruct (st04_neutral evs (tr s) FE) as (_ & _ & SKD & _). rewrite <- TE in SKD. rewrite SKD in IN. auto.
  - assert (TE : tr s' = evs2 ++ e :: evs1 ++ tr s) by (rewrite T2; unfold emit; cbn [tr set_tr]; rewrite T1; reflexivity).
    destruct (st04_one evs2 e evs1 (tr s) F1 F2) as (_ & _ & S1 & _ & _ & _ & SKD & _). rewrite <- TE in SKD.
    rewrite upd04_slabkid, S1 in SKD. rewrite SKD in IN.
    destruct e; auto. destruct IN as [<-|IN]; [|auto]. right. cbn [evok] in EV. destruct EV as (h & n & l & -> & AN). eauto.
Qed.

Lemma step_TR m k0 s pre s' :
  shape (m :: k0) -> KI (m :: k0) s -> Lin (m :: k0) s -> OI (m :: k0) s -> UI (m :: k0) s -> VS s ->
  handle m s = (pre, s') -> TR (m :: k0) s -> TR (pre ++ k0) s'.
Proof.
  intros SH KI0 L OO U V E TR0 x c IN TG SK'.
  pose proof KI0 as [KK _].
  assert (SKO : (exists y, aget (actors s) c = Some y) -> In c (o_slabkid (st04 (tr s)))).
  { intros (y & AY). destruct (slabkid_step _ _ _ _ _ E SK') as [H|(h & n & l & _ & AN)]; [exact H | congruence]. }
  apply in_app_or in IN as [IN|IN].
  - (* pushed by this step *)
    assert (W : is_work m = true -> runphase (m :: k0) -> runphase (pre ++ k0)) by (intros W; eapply work_run; eauto).
    destruct TG as [(cc & ->)|(r & cc & -> & NS)].
    + pose proof (handle_src2 _ _ _ _ E _ IN) as SRC. cbn [src2] in SRC.
      destruct SRC as [(ci & -> & _)|[(u & f & ->)|(h & e & l & -> & LK)]].
      * apply W; [reflexivity | apply runish_run; [exact SH | reflexivity]].
      * apply W; [reflexivity | apply runish_run; [exact SH | reflexivity]].
      * exfalso. assert (TB : exists y, aget (actors s) c = Some y).
        { destruct (aget (actors s) c) as [y|] eqn:AY; [eauto|]. exfalso.
          pose proof (OI_census _ _ c OO) as C. pose proof (ist_le_lookup c _ _ _ LK) as D. rewrite hv_own, hindO_R, hindO_O, N.eqb_refl in D.
          unfold ctr in C. rewrite AY in C. pose proof (hmops_nn (HO c) (MActs (AKill h e :: l) :: k0)). pose proof (ist_nn c s). lia. }
        destruct (V c (SKO TB)) as (V0 & _). exact (novis_lookup _ _ _ _ OO V0 LK).
    + destruct (handle_ninv _ _ _ _ (Lin_NB _ _ _ L) E _ _ IN) as [UK|[(a & c0 & y & -> & AY & AN & MM)|[(a & y & v & -> & _ & _ & MM & _)|(rid & p & key & ->)]]].
      * exfalso. eapply ukind_not_nshape; eauto.
      * assert (EQ : c = a).
        { destruct (ks_act _ KK _ _ AY) as (_ & _ & SHN & _). exact (nshape_fun _ _ _ NS (SHN _ AN)). }
        subst a. apply W; [reflexivity|]. apply (TR0 (MTerminate c c0) c); [left; reflexivity | left; eauto | apply SKO; eauto].
      * discriminate MM.
      * apply W; [reflexivity|]. apply (TR0 (MRetInvoke (Ret rid (RKSlab p key r)) (Some (MCause cc))) c); [left; reflexivity | right; eauto |].
        apply SKO. destruct KI0 as [_ MOK]. inversion MOK as [|? ? MK _]; subst. destruct (MK c NS) as (y & AY & _). eauto.
  - (* already pending *)
    assert (TBL : exists y, aget (actors s) c = Some y) by (eapply (term_in_table (m :: k0)); eauto; right; exact IN).
    assert (R0 : runphase (m :: k0)) by (apply (TR0 x c); [right; exact IN | exact TG | apply SKO; exact TBL]).
    destruct (is_work m) eqn:W; [eapply work_run; eauto|].
    exfalso. pose proof (nonwork_tail _ _ SH W x IN) as NW. destruct TG as [(cc & ->)|(r & cc & -> & _)]; discriminate NW.
Qed.

(* ------------------------------------------------------------------ *)
(** * Slab-removal items of occupied entries: queued only inside run, never dropped *)

Definition RQ (k : list mop) (s : st) : Prop :=
  forall p key, ~ zombie s p -> 1 <= tq (p, key) (mainq s) -> runphase k.

Lemma RQ_init d p : RQ (map MTop p ++ [MEpilogue]) (init d).
Proof. intros q key _ H. simpl in H. lia. Qed.

Lemma tq_pos_in x l : 1 <= tq x l -> exists c, In c l /\ 1 <= tci x c.
Proof.
  induction l as [|c l IH]; simpl; [lia|]. intros H. destruct (Z_le_gt_dec 1 (tci x c)) as [G|G]; [exists c; auto|].
  pose proof (tci_nn x c). destruct IH as (c0 & IN & P); [lia | exists c0; auto].
Qed.
Lemma tq_in x l c : In c l -> tci x c <= tq x l.
Proof.
  induction l as [|c0 l IH]; [intros []|]. intros [->|H]; simpl.
  - pose proof (tq_nn x l). lia.
  - specialize (IH H). pose proof (tci_nn x c0). lia.
Qed.
Lemma tci_pos_rm x c : 1 <= tci x c -> ci_kind c = KSlabRm (fst x) (snd x).
Proof.
  unfold tci, tkind. destruct (ci_kind c); try lia. unfold kb.
  destruct (N.eqb (fst x) p) eqn:E1; [|simpl; lia]. destruct (N.eqb (snd x) key) eqn:E2; [|simpl; lia].
  apply N.eqb_eq in E1, E2. subst. reflexivity.
Qed.

Lemma zombie_mono m s pre s' q : handle m s = (pre, s') -> zombie s q -> zombie s' q.
Proof.
  intros E Z. destruct (handle_afr _ _ _ _ E) as [F|[(h & a & n & l & -> & SA)|(ci & -> & SR)]].
  - exact (proj1 (afr_omono _ _ F) q Z).
  - exact (proj1 (slabadd_omono _ _ _ SA) q Z).
  - destruct (slabrm_mono _ _ _ _ SR) as (p1 & key1 & _ & _ & _ & ZM & _). auto.
Qed.

Lemma runphase_dec k : runphase k \/ ~ runphase k.
Proof. unfold runphase. destruct (phase_of k) as [ph|]; [destruct (is_run ph); [left; reflexivity | right; discriminate] | right; intros []]. Qed.

Lemma wrapper_child m k0 s rid q k2 inner mg :
  m = MRetInvoke (Ret rid (RKSlab q k2 inner)) (Some mg) -> Lin (m :: k0) s ->
  (exists cc, mg = MCause cc) /\ exists c, nshape c inner.
Proof.
  intros -> L. pose proof (NB_mop _ _ (Lin_NB _ _ _ L)) as NBM. cbn [cmop cmsg] in NBM.
  pose proof (cret_nn RBad (Ret rid (RKSlab q k2 inner))).
  destruct mg as [v|c0].
  - exfalso. unfold badif in NBM. simpl ukind in NBM. cbv iota in NBM. rewrite ind_refl in NBM. lia.
  - split; [eauto|]. assert (NK : nkind (Ret rid (RKSlab q k2 inner)) = true).
    { apply nb_real. pose proof (badif_nn RBad (nkind (Ret rid (RKSlab q k2 inner)))). lia. }
    destruct (nkind_nshape _ NK) as (c & NS). exists c. exact NS.
Qed.

Lemma step_RQ m k0 s pre s' :
  shape (m :: k0) -> Lin (m :: k0) s -> SK s -> WA (m :: k0) s -> TR (m :: k0) s ->
  handle m s = (pre, s') -> RQ (m :: k0) s -> RQ (pre ++ k0) s'.
Proof.
  intros SH L K [_ WM] TR0 E RQ0 p key NZ' POS.
  assert (NZ : ~ zombie s p) by (intros Z; apply NZ'; eapply zombie_mono; eauto).
  assert (DW : (exists rid q k2 inner mg, m = MRetInvoke (Ret rid (RKSlab q k2 inner)) (Some mg)) \/
               (forall rid q k2 inner mg, m <> MRetInvoke (Ret rid (RKSlab q k2 inner)) (Some mg))).
  { destruct m; try (right; intros; discriminate). destruct r as [rid [| | | |q k2 inner]]; try (right; intros; discriminate).
    destruct m as [mg|]; [left; eauto 8 | right; intros; discriminate]. }
  destruct (tq_pos_in _ _ POS) as (ci & IN & PC).
  destruct DW as [(rid & q & k2 & inner & mg & EM)|ND].
  - (* a wrapper is invoked with a cause *)
    assert (W : runphase (m :: k0) -> runphase (pre ++ k0)) by (eapply work_run; [rewrite EM; reflexivity | exact E]).
    destruct (wrapper_child _ _ _ _ _ _ _ _ EM L) as ((cc & ->) & c & NS). subst m.
    cbn [handle] in E. unfold ret_invoke in E. injp E.
    unfold push_main in IN. cbn [mainq set_mainq] in IN. rewrite mainq_ref_clone in IN.
    apply in_app_or in IN as [IN|[<-|[]]].
    + (* an older item *)
      apply W. apply (RQ0 p key NZ). pose proof (tq_in (p, key) _ _ IN). lia.
    + (* the new one: its child is a slab child whose termination is under way, hence inside run *)
      apply tci_pos_rm in PC. cbn [ci_kind fst snd] in PC. inversion PC; subst q k2.
      apply W.
      assert (WO : wrap_ok s c (Ret rid (RKSlab p key inner))) by (eapply WM; [left; reflexivity | exact NS]).
      simpl in WO. destruct WO as [_ [Z|O]]; [contradiction|].
      apply (TR0 (MRetInvoke (Ret rid (RKSlab p key inner)) (Some (MCause cc))) c); [left; reflexivity | right; eauto |].
      eapply SK_slabkid; [exact K | eapply occ_inslab; exact O].
  - (* no slab-removal item enters the queue *)
    destruct (handle_mqr _ _ _ _ ND E ci IN) as [IN0|NR]; [|exfalso; apply tci_pos_rm in PC; exact (NR _ _ PC)].
    assert (R0 : runphase (m :: k0)) by (apply (RQ0 p key NZ); pose proof (tq_in (p, key) _ _ IN0); lia).
    destruct (runphase_dec (pre ++ k0)) as [R'|NR']; [exact R'|].
    exfalso. destruct (run_leave _ _ _ _ _ SH E R0 NR') as (t & _ & MQ & _). rewrite MQ in IN0. destruct IN0.
Qed.

(* item drops *)
Definition NDI (k : list mop) (s : st) : Prop :=
  forall ci p key, In (MDropItem ci) k -> ~ zombie s p -> tci (p, key) ci = 0.

Lemma NDI_init d p : NDI (map MTop p ++ [MEpilogue]) (init d).
Proof.
  intros ci q key IN. exfalso. apply in_app_or in IN as [IN|[IN|[]]]; [|discriminate IN]. apply in_map_iff in IN as (o & Q & _). discriminate Q.
Qed.

Lemma T_def x s : T x s = tq x (mainq s) + tq x (lazyq s) + tq x (idleq s) + ttim x (timers s) + tacts x (actors s).
Proof. Transparent T. reflexivity. Opaque T. Qed.

Lemma plain_tci x c : ci_call c = false -> tci x c = 0.
Proof. unfold ci_call, tci. destruct (ci_kind c); try discriminate; reflexivity. Qed.

Lemma tacts_held x l a y : aget l a = Some y -> tq x (held_of y) <= tacts x l.
Proof. intros A. pose proof (tacts_aget_le x _ _ _ A) as LE. unfold held_of. destruct (a_state y); simpl in *; lia. Qed.

Lemma step_NDI m k0 s pre s' :
  shape (m :: k0) -> KS s -> QTags s -> TI (m :: k0) s -> RQ (m :: k0) s ->
  handle m s = (pre, s') -> NDI (m :: k0) s -> NDI (pre ++ k0) s'.
Proof.
  intros SH KK QT TT RQ0 E N0 ci p key IN NZ'.
  assert (NZ : ~ zombie s p) by (intros Z; apply NZ'; eapply zombie_mono; eauto).
  apply in_app_or in IN as [IN|IN]; [|apply (N0 ci p key); [right; exact IN | exact NZ]].
  pose proof (tci_nn (p, key) ci) as NN. destruct (Z.eq_dec (tci (p, key) ci) 0) as [Z0|NZ0]; [exact Z0 | exfalso].
  assert (PC : 1 <= tci (p, key) ci) by lia.
  pose proof (handle_src2 _ _ _ _ E _ IN) as SRC. cbn [src2] in SRC.
  destruct SRC as [(IM & DM)|[IL|[II|[(ci0 & IT & EQ)|[(a & y & AY & IH)|(b & KP0)]]]]].
  - (* discarded from the main queue: only outside run *)
    assert (R0 : runphase (m :: k0)) by (apply (RQ0 p key NZ); pose proof (tq_in (p, key) _ _ IM); lia).
    destruct DM as [(i & ->)|(t & ->)].
    + exact (norun_tear _ (shape_drain _ _ SH) R0).
    + destruct SH as [ph [PH _]]. unfold runphase, phase_of in R0. simpl in R0. destruct (tops k0); simpl in R0; [discriminate R0 | destruct R0].
  - pose proof (qt_lazy _ QT) as F. rewrite Forall_forall in F. destruct (F _ IL) as [C _]. rewrite (plain_tci _ _ C) in PC. lia.
  - pose proof (qt_idle _ QT) as F. rewrite Forall_forall in F. destruct (F _ II) as [C _]. rewrite (plain_tci _ _ C) in PC. lia.
  - pose proof (qt_timers _ QT) as F. rewrite Forall_forall in F. destruct (F _ IT) as [C _].
    destruct EQ as [->| ->]; [|rewrite tci_unq in PC]; rewrite (plain_tci _ _ C) in PC; lia.
  - (* held by a Prep actor: it would be the parent itself, with an occupied slab *)
    destruct (ks_act _ KK _ _ AY) as (_ & _ & _ & _ & HK). rewrite Forall_forall in HK. specialize (HK _ IH).
    apply tci_pos_rm in PC. cbn [fst snd] in PC.
    destruct HK as [(bd & arg & KM & _)|(key2 & KR & _)]; [congruence|]. rewrite KR in PC. inversion PC; subst a key2.
    assert (SPR : exists hl, a_state y = SPrep hl) by (unfold held_of in IH; destruct (a_state y); [eauto | destruct IH | destruct IH]).
    destruct SPR as (hl & SPR).
    destruct (TT p key) as [Z|[Z|(_ & c & O & _)]]; [contradiction | |].
    + unfold tK in Z. pose proof (tmops_nn (p, key) (m :: k0)). pose proof (tacts_held (p, key) _ _ _ AY) as LE.
      pose proof (tq_in (p, key) _ _ IH) as LI. rewrite (tci_rm _ _ _ KR) in LI.
      rewrite T_def in Z. pose proof (tq_nn (p, key) (mainq s)). pose proof (tq_nn (p, key) (lazyq s)). pose proof (tq_nn (p, key) (idleq s)).
      pose proof (ttim_nn (p, key) (timers s)). lia.
    + destruct (occ_cell _ _ _ _ O) as (y2 & AY2 & NTH). rewrite AY in AY2. inversion AY2; subst y2. rewrite SPR in NTH. simpl in NTH.
      destruct (N.to_nat key); discriminate NTH.
  - apply tci_pos_rm in PC. congruence.
Qed.

(* ------------------------------------------------------------------ *)
(** * The three kinds of steps, backwards *)

Lemma afr_occ_back s s' p key c : afr s s' -> occ s' p key c -> occ s p key c.
Proof.
  intros F O. destruct (occ_cell _ _ _ _ O) as (y' & AY' & NTH). specialize (F p). destruct (aget (actors s) p) as [y|] eqn:AY.
  - destruct F as (y2 & AY2 & (_ & [Z|[SS _]])); rewrite AY' in AY2; inversion AY2; subst y2.
    + rewrite Z in NTH. simpl in NTH. destruct (N.to_nat key); discriminate NTH.
    + unfold occ, slab_of. rewrite AY, <- SS. exact NTH.
  - destruct (F y' AY') as [SE _]. rewrite SE in NTH. destruct (N.to_nat key); discriminate NTH.
Qed.

Lemma afr_cell_back s s' c y' r : afr s s' -> aget (actors s') c = Some y' -> a_notify y' = Some r ->
  (exists y, aget (actors s) c = Some y /\ a_notify y = Some r) \/ (aget (actors s) c = None /\ exists rid inn, r = Ret rid (RKNotify c inn)).
Proof.
  intros F AY' AN'. specialize (F c). destruct (aget (actors s) c) as [y|] eqn:AY.
  - left. destruct F as (y2 & AY2 & ([NN|NN] & _)); rewrite AY' in AY2; inversion AY2; subst y2; [|congruence]. exists y. split; [reflexivity | congruence].
  - right. split; [reflexivity|]. destruct (F y' AY') as (_ & NK). exact (NK r AN').
Qed.

Lemma zombie_back_afr s s' c : afr s s' -> ~ zombie s' c -> ~ zombie s c.
Proof. intros F NZ Z. apply NZ. exact (proj1 (afr_omono _ _ F) c Z). Qed.

Lemma occ_table s p key c : SK s -> SU s -> occ s p key c -> exists y, aget (actors s) c = Some y.
Proof. intros K [U1' _] O. apply (U1' p c). apply K. eapply occ_inslab; eauto. Qed.

(* ------------------------------------------------------------------ *)
(** * The notifier field of a child in a slab; one entry per child *)

Definition WS (s : st) : Prop :=
  forall p key c y r, occ s p key c -> aget (actors s) c = Some y -> a_notify y = Some r ->
    exists rid inner, r = Ret rid (RKSlab p key inner).

Definition NDS (s : st) : Prop :=
  forall p i j c, nth_error (slab_of s p) i = Some (SOcc c) -> nth_error (slab_of s p) j = Some (SOcc c) -> i = j.

Lemma WS_init d : WS (init d). Proof. intros p key c y r O. unfold occ, slab_of in O. simpl in O. destruct (N.to_nat key); discriminate O. Qed.
Lemma NDS_init d : NDS (init d). Proof. intros p i j c H. unfold slab_of in H. simpl in H. destruct i; discriminate H. Qed.

Lemma nth_occ s p i c : nth_error (slab_of s p) i = Some (SOcc c) -> occ s p (N.of_nat i) c.
Proof. unfold occ. rewrite Nat2N.id. auto. Qed.

Lemma step_WS_NDS m s pre s' : SK s -> SU s -> handle m s = (pre, s') -> WS s -> NDS s -> WS s' /\ NDS s'.
Proof.
  intros K U E W N.
  assert (FRESH : forall a p i, aget (actors s) a = None -> nth_error (slab_of s p) i = Some (SOcc a) -> False).
  { intros a p i AN H. destruct (occ_table _ _ _ _ K U (nth_occ _ _ _ _ H)) as (y & AY). congruence. }
  destruct (handle_afr _ _ _ _ E) as [F|[(h & a & n & l & -> & SA)|(ci & -> & SR)]].
  - (* frame *)
    split.
    + intros p key c y' r O AY' AN'. pose proof (afr_occ_back _ _ _ _ _ F O) as O0.
      destruct (afr_cell_back _ _ _ _ _ F AY' AN') as [(y & AY & AN)|(AN & _)]; [eapply W; eauto|].
      exfalso. destruct (occ_table _ _ _ _ K U O0) as (y & AY). congruence.
    + intros p i j c H1 H2. apply nth_occ in H1, H2. apply (afr_occ_back _ _ _ _ _ F) in H1, H2. unfold occ in H1, H2. rewrite !Nat2N.id in H1, H2.
      eapply N; eauto.
  - (* slabadd *)
    destruct SA as (p1 & px & sh & slab & nx & inner & slab' & nx' & key1 & rid & inn & _ & AP & SP & AB & NE & SI & _ & (ya & AYA & NYA & SYA) & (yp & AYP & SYP & NYP) & OTH).
    assert (SL1 : slab_of s p1 = slab) by (unfold slab_of; rewrite AP, SP; reflexivity).
    assert (SL1' : slab_of s' p1 = slab') by (unfold slab_of; rewrite AYP, SYP; reflexivity).
    assert (SLA : slab_of s' a = []) by (unfold slab_of; rewrite AYA, SYA; reflexivity).
    assert (SLO : forall q, q <> a -> q <> p1 -> slab_of s' q = slab_of s q).
    { intros q NA NP. specialize (OTH q NA NP). unfold slab_of. destruct (aget (actors s) q) as [y|].
      - destruct OTH as (y2 & AY2 & _ & SS). rewrite AY2, SS. reflexivity.
      - rewrite OTH. reflexivity. }
    assert (BACK : forall q i c, nth_error (slab_of s' q) i = Some (SOcc c) ->
                   nth_error (slab_of s q) i = Some (SOcc c) \/ (c = a /\ q = p1 /\ i = N.to_nat key1)).
    { intros q i c H. destruct (N.eq_dec q a) as [->|NA]; [rewrite SLA in H; destruct i; discriminate H|].
      destruct (N.eq_dec q p1) as [->|NP]; [|rewrite SLO in H by auto; auto].
      rewrite SL1' in H. rewrite SL1. destruct (slab_insert_back _ _ _ _ _ _ _ _ SI H) as [OLD|[-> ->]]; auto. }
    split.
    + intros p key c y' r O AY' AN'. unfold occ in O. destruct (BACK _ _ _ O) as [O0|(-> & -> & EQ)].
      * assert (CA : c <> a) by (intros ->; eapply FRESH; eauto).
        assert (OLDC : exists y, aget (actors s) c = Some y /\ a_notify y = Some r).
        { destruct (N.eq_dec c p1) as [->|NP].
          - rewrite AYP in AY'. inversion AY'; subst y'. exists px. split; [exact AP | congruence].
          - specialize (OTH c CA NP). destruct (aget (actors s) c) as [y|]; [|congruence].
            destruct OTH as (y2 & AY2 & NN & _). rewrite AY' in AY2. inversion AY2; subst y2. exists y. split; [reflexivity | congruence]. }
        destruct OLDC as (y & AY & AN). eapply (W p key c); eauto.
      * apply N2Nat.inj in EQ. subst key. rewrite AYA in AY'. inversion AY'; subst y'. rewrite NYA in AN'. inversion AN'; subst r. eauto.
    + intros p i j c H1 H2. destruct (BACK _ _ _ H1) as [A|(-> & -> & ->)], (BACK _ _ _ H2) as [B|(Q1 & Q2 & ->)].
      * eapply N; eauto.
      * exfalso. subst c. eapply FRESH; eauto.
      * exfalso. eapply FRESH; eauto.
      * reflexivity.
  - (* slab removal *)
    destruct SR as (p1 & key1 & y1 & sh & slab & nx & child & _ & AP & SP & NTH1 & _ & ->).
    assert (BACK : forall q i c, nth_error (slab_of (upd_actor s p1 (with_state y1 (SReady sh (list_set slab (N.to_nat key1) (SVac nx)) key1))) q) i = Some (SOcc c) ->
                   nth_error (slab_of s q) i = Some (SOcc c)).
    { intros q i c H. unfold slab_of, upd_actor in *. cbn [actors set_actors] in H. destruct (N.eq_dec p1 q) as [<-|NE].
      - rewrite aget_aset_eq in H. cbn [a_state with_state slab_st] in H. rewrite AP, SP. simpl.
        destruct (Nat.eq_dec (N.to_nat key1) i) as [<-|NK]; [rewrite (list_set_nth_same _ _ _ _ NTH1) in H; discriminate H|].
        rewrite list_set_nth_other in H by exact NK. exact H.
      - rewrite aget_aset_neq in H by auto. exact H. }
    split.
    + intros p key c y' r O AY' AN'. unfold occ in O. apply BACK in O.
      assert (OLDC : exists y, aget (actors s) c = Some y /\ a_notify y = Some r).
      { unfold upd_actor in AY'. cbn [actors set_actors] in AY'. destruct (N.eq_dec p1 c) as [<-|NE].
        - rewrite aget_aset_eq in AY'. inversion AY'; subst y'. exists y1. split; [exact AP | exact AN'].
        - rewrite aget_aset_neq in AY' by auto. eauto. }
      destruct OLDC as (y & AY & AN). eapply (W p key c); eauto.
    + intros p i j c H1 H2. apply BACK in H1, H2. eapply N; eauto.
Qed.

(* ------------------------------------------------------------------ *)
(** * Where the wrapper of an occupied entry is *)

Definition LOC (k : list mop) (s : st) : Prop :=
  forall p key c, occ s p key c ->
    ~ zombie s c \/
    (exists rid inner cc, In (MRetInvoke (Ret rid (RKSlab p key inner)) (Some (MCause cc))) k /\ nshape c inner) \/
    1 <= tK (p, key) k s.

Lemma LOC_init d p : LOC (map MTop p ++ [MEpilogue]) (init d).
Proof. intros q key c O. unfold occ, slab_of in O. simpl in O. destruct (N.to_nat key); discriminate O. Qed.

Lemma hslab_in c l : In (SOcc c) l -> 1 <= hslab (HR c) l.
Proof.
  induction l as [|[x|n] l IH]; simpl; [intros [] | |].
  - intros [Q|H].
    + inversion Q; subst. rewrite hind_refl. pose proof (hslab_nn (HR c) l). pose proof (hind_range (HR c) (HO c)). lia.
    + specialize (IH H). pose proof (hind_range (HR c) (HO x)). pose proof (hind_range (HR c) (HR x)). lia.
  - intros [Q|H]; [discriminate Q | auto].
Qed.

Lemma hst_inslab s p c : In (SOcc c) (slab_of s p) -> 1 <= hst (HR c) s.
Proof.
  unfold slab_of. destruct (aget (actors s) p) as [y|] eqn:AY; [|intros []]. intros IN.
  pose proof (hacts_aget_le (HR c) _ _ _ AY) as LE. unfold hactor in LE. unfold slab_st in IN. destruct (a_state y) eqn:SA; try (destruct IN; fail).
  cbn [hstate] in LE. pose proof (hslab_in _ _ IN). pose proof (henv_nn (HR c) sh). pose proof (hnotopt_nn (HR c) (a_notify y)).
  unfold hst. pose proof (hq_nn (HR c) (mainq s)). pose proof (hq_nn (HR c) (lazyq s)). pose proof (hq_nn (HR c) (idleq s)). pose proof (htim_nn (HR c) (timers s)).
  pose proof (henv_nn (HR c) (env s)). pose proof (hfrs_nn (HR c) (frames s)). pose proof (hfwds_nn (HR c) (fwds s)). lia.
Qed.

(* a child that sits in a slab is not freed by a reference drop *)
Lemma inslab_no_free c k0 s p y v : LinRef.J (MDropRef c :: k0) s -> In (SOcc c) (slab_of s p) ->
  aget (actors s) c = Some y -> minrc_drop (a_rc y) = Some (v, true) -> False.
Proof.
  intros JJ IS AY MD. destruct (JJ (HR c) I) as [R0 J0]. unfold ctr in R0, J0. rewrite AY in R0, J0.
  destruct (drop_cases _ _ _ R0 MD) as [(RC & _)|(D & _)]; [|discriminate D]. rewrite RC in J0.
  destruct J0 as [J0|J0]; [unfold MX in J0; discriminate J0|]. cbn [hmops hmop] in J0. rewrite hind_refl in J0.
  pose proof (hst_inslab _ _ _ IS). pose proof (hmops_nn (HR c) k0). lia.
Qed.

Lemma LOC_old m k0 s pre s' p key c :
  KI (m :: k0) s -> Lin (m :: k0) s -> EAI s -> dk s = DGlobal -> WS s -> NDI (m :: k0) s -> UI (m :: k0) s -> NZ s ->
  I2 (pre ++ k0) s' -> handle m s = (pre, s') -> LOC (m :: k0) s ->
  occ s p key c -> occ s' p key c ->
  ~ zombie s' c \/
  (exists rid inner cc, In (MRetInvoke (Ret rid (RKSlab p key inner)) (Some (MCause cc))) (pre ++ k0) /\ nshape c inner) \/
  1 <= tK (p, key) (pre ++ k0) s'.
Proof.
  intros KI0 L EA D W N0 U NZ0 II' E LC O O'.
  pose proof KI0 as [KK MOK].
  assert (LAW : tK (p, key) (pre ++ k0) s' + use (p, key) m s = tK (p, key) (m :: k0) s + gen (p, key) m).
  { unfold tK. rewrite tmops_app. cbn [tmops].
    assert (DM : (exists t, m = MNew t) \/ forall t, m <> MNew t).
    { destruct m; try (right; intros t0 Q; discriminate Q). left; eauto. }
    destruct DM as [[t ->]|NN].
    - pose proof (new_T (p, key) _ _ _ _ D E) as LW. unfold lawT in LW. cbn [use gen tmop]. lia.
    - pose proof (handle_T (p, key) _ _ _ _ NN E). lia. }
  pose proof (use_nn (p, key) m s) as UN. pose proof (gen_nn (p, key) m) as GN.
  destruct (LC p key c O) as [NZC|[(rid & inner & cc & IN & NS)|TK1]].
  - (* the child was not a Zombie *)
    destruct (zombie_dec s' c) as [Z'|NZ']; [|left; exact NZ'].
    right. left.
    assert (CELL : exists y r0, aget (actors s) c = Some y /\ a_notify y = Some r0).
    { destruct (occ_cell _ _ _ _ O) as (yp & AYP & _).
      destruct (aget (actors s) c) as [y|] eqn:AY.
      - destruct (a_notify y) as [r0|] eqn:AN; [eauto|]. exfalso. apply NZC. exists y. split; [exact AY|].
        destruct (ks_act _ KK _ _ AY) as (_ & _ & _ & ZB & _). auto.
      - exfalso. destruct U as [JJ _ _ _ _]. pose proof (hst_inslab _ _ _ (occ_inslab _ _ _ _ O)) as H1.
        destruct (J_ref_live _ _ c JJ) as (x & A & _); [pose proof (hmops_nn (HR c) (m :: k0)); lia | congruence]. }
    destruct CELL as (y & r0 & AY & AN).
    assert (NS0 : nshape c r0) by (destruct (ks_act _ KK _ _ AY) as (_ & _ & SH & _); auto).
    destruct (W _ _ _ _ _ O AY AN) as (rid & inner & ->). simpl in NS0.
    assert (NSW : nshape c (Ret rid (RKSlab p key inner))) by exact NS0.
    destruct (zombie_PN _ _ _ II' Z') as [NT|(r & mm & INC & NS)].
    + (* notified now: impossible, its notifier is still in its cell *)
      exfalso. apply st04_notified in NT as (cc & NT).
      destruct (handle_evX _ _ _ _ E) as [(evs & TE & FE)|(b & rid2 & inn2 & mm & -> & (evs & TE & FE))].
      * rewrite TE in NT. apply in_app_or in NT as [NT|NT]; [eapply notif_pbX; eauto|].
        apply NZC. apply NZ0. apply st04_notified. eauto.
      * rewrite TE in NT. apply in_app_or in NT as [NT|NT]; [eapply notif_pbX; eauto|].
        unfold emit in NT. cbn [tr set_tr] in NT. destruct NT as [NT|NT].
        -- inversion NT; subst b. eapply (U3 _ _ c _ _ L EA AY AN NSW); [left; reflexivity | reflexivity].
        -- apply NZC. apply NZ0. apply st04_notified. eauto.
    + apply calmpre_incl in INC. apply in_app_or in INC as [INC|INC].
      * destruct (handle_ninv _ _ _ _ (Lin_NB _ _ _ L) E _ _ INC) as [UK|[(a & c0 & y2 & -> & AY2 & AN2 & ->)|[(a & y2 & v & -> & AY2 & AN2 & _ & _ & MD)|(rid2 & q & k2 & ->)]]].
        -- exfalso. eapply ukind_not_nshape; eauto.
        -- assert (EQ : c = a) by (destruct (ks_act _ KK _ _ AY2) as (_ & _ & SHN & _); exact (nshape_fun _ _ _ NS (SHN _ AN2))).
           subst a. rewrite AY in AY2. inversion AY2; subst y2. rewrite AN in AN2. inversion AN2; subst r.
           exists rid, inner, c0. split; [apply in_or_app; left; exact INC | exact NS0].
        -- exfalso. assert (EQ : c = a) by (destruct (ks_act _ KK _ _ AY2) as (_ & _ & SHN & _); exact (nshape_fun _ _ _ NS (SHN _ AN2))).
           subst a. rewrite AY in AY2. inversion AY2; subst y2. destruct U as [JJ _ _ _ _].
           eapply inslab_no_free; eauto. eapply occ_inslab; eauto.
        -- exfalso. eapply (U3 _ _ c _ _ L EA AY AN NSW); [left; reflexivity | exact NS].
      * exfalso. eapply (U3 _ _ c _ _ L EA AY AN NSW); [right; exact INC | exact NS].
  - (* the wrapper is being invoked *)
    destruct IN as [->|IN].
    + right. right. cbn [gen use] in LAW. unfold kb in LAW. cbn [fst snd] in LAW. rewrite !N.eqb_refl in LAW. cbn [andb] in LAW.
      pose proof (tK_nn (p, key) (MRetInvoke (Ret rid (RKSlab p key inner)) (Some (MCause cc)) :: k0) s). lia.
    + right. left. exists rid, inner, cc. split; [apply in_or_app; right; exact IN | exact NS].
  - (* the slab-removal item exists *)
    destruct (Z.eq_dec (use (p, key) m s) 0) as [U0|U1]; [right; right; lia|]. exfalso.
    destruct m; cbn [use] in U1; try congruence.
    + (* run: the entry is vacated *)
      unfold tuse in U1. destruct (ci_kind c0) eqn:CK; try congruence.
      assert (EQK : p0 = p /\ key0 = key).
      { unfold kb in U1. cbn [fst snd] in U1.
        assert (ZZ : forall b, b = false -> match aget (actors s) p0 with
             | Some y0 => match a_state y0 with SPrep _ => 0 | _ => if b then 1 else 0 end | None => if b then 1 else 0 end = 0).
        { intros b ->. destruct (aget (actors s) p0) as [y0|]; [destruct (a_state y0)|]; reflexivity. }
        destruct (N.eqb p p0) eqn:E1.
        - destruct (N.eqb key key0) eqn:E2; [apply N.eqb_eq in E1, E2; auto | exfalso; apply U1; apply ZZ; reflexivity].
        - exfalso. apply U1. apply ZZ. reflexivity. }
      destruct EQK as [-> ->].
      destruct (occ_cell _ _ _ _ O) as (yp & AYP & NTH).
      cbn [handle] in E. unfold run_item in E. destruct c0 as [u i kd caps q]. cbn [ci_kind] in CK. subst kd. rewrite AYP in E.
      destruct (a_state yp) eqn:SP; simpl in NTH; try (destruct (N.to_nat key); discriminate NTH).
      rewrite NTH in E. injp E.
      unfold occ, slab_of, upd_actor in O'. cbn [actors set_actors] in O'. rewrite aget_aset_eq in O'. cbn [a_state with_state slab_st] in O'.
      rewrite (list_set_nth_same _ _ _ _ NTH) in O'. discriminate O'.
    + (* dropped: never *)
      rewrite (N0 c0 p key (or_introl eq_refl) (occ_not_zombie _ _ _ _ O)) in U1. congruence.
Qed.

Lemma step_LOC m k0 s pre s' :
  KI (m :: k0) s -> Lin (m :: k0) s -> EAI s -> dk s = DGlobal -> SK s -> SU s -> WS s -> NDI (m :: k0) s -> UI (m :: k0) s -> NZ s ->
  I2 (pre ++ k0) s' -> handle m s = (pre, s') -> LOC (m :: k0) s -> LOC (pre ++ k0) s'.
Proof.
  intros KI0 L EA D K U W N0 UU NZ0 II' E LC p key c O'.
  assert (OLD : occ s p key c -> ~ zombie s' c \/
    (exists rid inner cc, In (MRetInvoke (Ret rid (RKSlab p key inner)) (Some (MCause cc))) (pre ++ k0) /\ nshape c inner) \/
    1 <= tK (p, key) (pre ++ k0) s') by (intros O; eapply LOC_old; eauto).
  destruct (handle_afr _ _ _ _ E) as [F|[(h & a & n & l & -> & SA)|(ci & -> & SR)]].
  - apply OLD. eapply afr_occ_back; eauto.
  - destruct SA as (p1 & px & sh & slab & nx & inner & slab' & nx' & key1 & rid & inn & _ & AP & SP & AB & NE & SI & _ & (ya & AYA & NYA & SYA) & (yp & AYP & SYP & NYP) & OTH).
    destruct (N.eq_dec c a) as [->|CA].
    + left. intros (x & AX & SX). rewrite AYA in AX. inversion AX; subst x. congruence.
    + apply OLD. unfold occ in *. destruct (N.eq_dec p a) as [->|NA].
      { unfold slab_of in O'. rewrite AYA, SYA in O'. simpl in O'. destruct (N.to_nat key); discriminate O'. }
      destruct (N.eq_dec p p1) as [->|NP].
      * unfold slab_of in O'. rewrite AYP, SYP in O'. simpl in O'. unfold slab_of. rewrite AP, SP. simpl.
        destruct (slab_insert_back _ _ _ _ _ _ _ _ SI O') as [H|[H _]]; [exact H | congruence].
      * specialize (OTH p NA NP). unfold slab_of in *. destruct (aget (actors s) p) as [y|].
        -- destruct OTH as (y2 & AY2 & _ & SS). rewrite AY2, SS in O'. exact O'.
        -- rewrite OTH in O'. exact O'.
  - apply OLD. destruct SR as (p1 & key1 & y1 & sh & slab & nx & child & _ & AP & SP & NTH1 & _ & ->).
    unfold occ, slab_of, upd_actor in *. cbn [actors set_actors] in O'. destruct (N.eq_dec p1 p) as [<-|NE].
    + rewrite aget_aset_eq in O'. cbn [a_state with_state slab_st] in O'. rewrite AP, SP. simpl.
      destruct (Nat.eq_dec (N.to_nat key1) (N.to_nat key)) as [EQ|NK]; [rewrite <- EQ, (list_set_nth_same _ _ _ _ NTH1) in O'; discriminate O'|].
      rewrite list_set_nth_other in O' by exact NK. exact O'.
    + rewrite aget_aset_neq in O' by auto. exact O'.
Qed.

Lemma tq_tagged x q l : Forall (tagged q) l -> tq x l = 0.
Proof. intros F. induction F as [|c l [C _] F IH]; simpl; auto. rewrite (plain_tci _ _ C), IH. reflexivity. Qed.

(* at a point where nothing is queued no slab-removal item exists *)
Lemma tK_quiescent k0 s t p key : KS s -> QTags s -> TI (MLoop t :: k0) s -> tops k0 = true -> mainq s = [] -> lazyq s = [] ->
  ~ zombie s p -> tK (p, key) (MLoop t :: k0) s = 0.
Proof.
  intros KK QT TT TP MQ LQ NZ. destruct (TT p key) as [Z|[Z|(Z1 & c & O & _)]]; [contradiction | exact Z | exfalso].
  (* the item would sit in a held queue of the parent itself *)
  unfold tK in Z1. cbn [tmops tmop] in Z1.
  assert (TM0 : tmops (p, key) k0 = 0).
  { clear - TP. induction k0 as [|x k IH]; simpl; auto. simpl in TP. apply andb_prop in TP as [T1 T2]. rewrite IH by auto. destruct x; try discriminate T1; reflexivity. }
  rewrite TM0, T_def, MQ, LQ in Z1. cbn [tq] in Z1.
  assert (I1 : tq (p, key) (idleq s) = 0).
  { apply (tq_tagged _ QIdle). apply (qt_idle _ QT). }
  assert (I2' : ttim (p, key) (timers s) = 0).
  { rewrite <- tq_map_ti. apply (tq_tagged _ QTimer). apply (qt_timers _ QT). }
  assert (I3 : forall l, (forall a y, In (a, y) l -> aget (actors s) a = Some y) -> tacts (p, key) l = 0).
  { induction l as [|[a y] l IH]; intros H; simpl; auto. rewrite IH by (intros; apply H; right; auto).
    pose proof (H a y (or_introl eq_refl)) as AY. destruct (ks_act _ KK _ _ AY) as (_ & _ & _ & _ & HK).
    destruct (a_state y) eqn:SA; simpl; auto. unfold held_of in HK. rewrite SA in HK.
    assert (ZQ : tq (p, key) held = 0); [|lia].
    pose proof (tq_nn (p, key) held) as TN. destruct (Z.eq_dec (tq (p, key) held) 0) as [Z0|NZ0]; [exact Z0 | exfalso].
    destruct (tq_pos_in (p, key) held ltac:(lia)) as (ci & IN & PC). rewrite Forall_forall in HK. specialize (HK _ IN).
    apply tci_pos_rm in PC. cbn [fst snd] in PC.
    destruct HK as [(bd & arg & KM & _)|(key2 & KR & _)]; [congruence|]. rewrite KR in PC. inversion PC; subst a key2.
    destruct (occ_cell _ _ _ _ O) as (y2 & AY2 & NTH). rewrite AY in AY2. inversion AY2; subst y2. rewrite SA in NTH. simpl in NTH.
    destruct (N.to_nat key); discriminate NTH. }
  rewrite I1, I2', (I3 (actors s)) in Z1; [lia|]. intros a y IN. apply aget_in; auto. apply (ks_keys _ KK).
Qed.

(* when run returns no child that sits in a slab is notified *)
Lemma runret_slab_live k0 s t p key c :
  KI (MLoop t :: k0) s -> QTags s -> TI (MLoop t :: k0) s -> LOC (MLoop t :: k0) s -> NZ s -> tops k0 = true -> mainq s = [] -> lazyq s = [] ->
  occ s p key c -> ~ In c (o_notified (st04 (tr s))).
Proof.
  intros [KK MOK] QT TT LC NZ0 TP MQ LQ O NT.
  destruct (LC p key c O) as [NZC|[(rid & inner & cc & IN & _)|TK1]].
  - exact (NZC (NZ0 _ NT)).
  - destruct IN as [Q|IN]; [discriminate Q|]. unfold tops in TP. rewrite forallb_forall in TP. specialize (TP _ IN). discriminate TP.
  - rewrite (tK_quiescent _ _ _ _ _ KK QT TT TP MQ LQ (occ_not_zombie _ _ _ _ O)) in TK1. lia.
Qed.

(* ------------------------------------------------------------------ *)
(** * The kids lists of the monitor *)

Lemma nget_filter_key {X} (g : N -> bool) (L : list (N * X)) q :
  nget (filter (fun pk => g (fst pk)) L) q = if g q then nget L q else None.
Proof.
  induction L as [|[j y] r IH]; simpl; [destruct (g q); reflexivity|].
  destruct (g j) eqn:GJ; simpl.
  - destruct (N.eqb q j) eqn:E; [apply N.eqb_eq in E; subst; rewrite GJ; reflexivity | exact IH].
  - rewrite IH. destruct (N.eqb q j) eqn:E; [apply N.eqb_eq in E; subst; rewrite GJ; reflexivity | reflexivity].
Qed.

Lemma lst_upd s0 e p : lst_of (o_kids (upd04 s0 e)) p =
  match e with
  | ENew _ | EDropBegin => if nmem p (o_notified s0) then [] else lst_of (o_kids s0) p
  | ESlabAdd q a => if N.eqb p q then a :: lst_of (o_kids s0) p else lst_of (o_kids s0) p
  | _ => lst_of (o_kids s0) p
  end.
Proof.
  rewrite upd04_kids. unfold lst_of.
  assert (LV : match nget (live_kids s0) p with Some x => x | None => [] end =
               if nmem p (o_notified s0) then [] else match nget (o_kids s0) p with Some x => x | None => [] end).
  { unfold live_kids. rewrite (nget_filter_key (fun q => negb (nmem q (o_notified s0)))). destruct (nmem p (o_notified s0)); reflexivity. }
  destruct e; try reflexivity; try exact LV.
  destruct (N.eqb p p0) eqn:E.
  - apply N.eqb_eq in E. subst. rewrite nget_nset_eq. reflexivity.
  - rewrite nget_nset_neq; [reflexivity|]. intros ->. rewrite N.eqb_refl in E. discriminate.
Qed.

Lemma lst_neutral evs t p : forallb pbB evs = true -> lst_of (o_kids (st04 (evs ++ t))) p = lst_of (o_kids (st04 t)) p.
Proof. intros F. rewrite (st04_kids_neutral _ _ F). reflexivity. Qed.

Lemma lst_kidof t p c : In c (lst_of (o_kids (st04 t)) p) -> kidof t p c.
Proof. unfold lst_of. destruct (nget (o_kids (st04 t)) p) as [l|] eqn:G; [|intros []]. intros IN. exists l. split; [apply nget_in; exact G | exact IN]. Qed.

Lemma upd04_atret s0 e : o_atret (upd04 s0 e) = match e with ERunRet _ => o_notified s0 | _ => o_atret s0 end.
Proof. destruct e; cbn [upd04]; dmatch. Qed.

Lemma atret_neutral evs t : forallb pbB evs = true -> o_atret (st04 (evs ++ t)) = o_atret (st04 t).
Proof.
  induction evs as [|e evs IH]; intros F; [reflexivity|]. simpl in F. apply andb_prop in F as [F1 F2].
  cbn [app st04]. rewrite upd04_atret, (IH F2). destruct e; try reflexivity. discriminate F1.
Qed.

Lemma atret_notified t c : In c (o_atret (st04 t)) -> In c (o_notified (st04 t)).
Proof.
  induction t as [|e t IH]; [intros []|]. cbn [st04]. rewrite upd04_atret, upd04_notified. intros H.
  apply in_or_app. right. destruct e; auto.
Qed.

(* the occupants of a slab *)
Definition occs (l : list sentry) : list N := flat_map (fun e => match e with SOcc c => [c] | SVac _ => [] end) l.

Lemma occs_in l c : In c (occs l) <-> In (SOcc c) l.
Proof.
  unfold occs. rewrite in_flat_map. split.
  - intros (e & IN & H). destruct e; [destruct H as [<-|[]]; exact IN | destruct H].
  - intros IN. exists (SOcc c). split; [exact IN | left; reflexivity].
Qed.

Lemma slab_len_occs l : slab_len l = Z.of_nat (length (occs l)).
Proof.
  induction l as [|[c|n] l IH]; [reflexivity | | exact IH].
  change (occs (SOcc c :: l)) with (c :: occs l). cbn [slab_len length]. rewrite Nat2Z.inj_succ, IH. lia.
Qed.

Lemma posuniq_nodup l : (forall i j c, nth_error l i = Some (SOcc c) -> nth_error l j = Some (SOcc c) -> i = j) -> NoDup (occs l).
Proof.
  induction l as [|e l IH]; intros U; [constructor|].
  assert (UL : forall i j c, nth_error l i = Some (SOcc c) -> nth_error l j = Some (SOcc c) -> i = j).
  { intros i j c A B. specialize (U (S i) (S j) c A B). lia. }
  destruct e as [c|n]; simpl; [|apply IH; exact UL].
  constructor; [|apply IH; exact UL]. intros IN. apply occs_in in IN. apply In_nth_error in IN as (j & IN).
  specialize (U 0%nat (S j) c eq_refl IN). discriminate U.
Qed.

Definition KD (s : st) : Prop :=
  (forall p c, In (SOcc c) (slab_of s p) -> In c (lst_of (o_kids (st04 (tr s))) p)) /\
  (forall p, NoDup (lst_of (o_kids (st04 (tr s))) p)) /\
  (forall p c, In (SOcc c) (slab_of s p) -> ~ In c (o_atret (st04 (tr s)))).

Lemma KD_init d : KD (init d).
Proof. split; [|split]; [intros p c H; destruct H | intros p; constructor | intros p c H; destruct H]. Qed.

Lemma inslab_back m s pre s' p c : handle m s = (pre, s') -> In (SOcc c) (slab_of s' p) ->
  In (SOcc c) (slab_of s p) \/ (exists h n l, m = MActs (ASlabAdd h c n :: l) /\ aget (actors s) c = None).
Proof.
  intros E IN. destruct (inslab_occ _ _ _ IN) as (key & O). destruct (occ_back _ _ _ _ _ _ _ E O) as [O0|NEW]; [left; eapply occ_inslab; eauto | right; exact NEW].
Qed.

Lemma step_KD m k0 s pre s' :
  shape (m :: k0) -> KI (m :: k0) s -> QTags s -> TI (m :: k0) s -> LOC (m :: k0) s -> NZ s -> SU s -> SK s' -> SU s' ->
  handle m s = (pre, s') -> KD s -> KD s'.
Proof.
  intros SH KI0 QT TT LC NZ0 U0 K' U' E (D1 & D2 & D3).
  assert (ZS : forall p c, In p (o_notified (st04 (tr s))) -> In (SOcc c) (slab_of s p) -> False).
  { intros p c NT IN. destruct (inslab_occ _ _ _ IN) as (key & O). exact (occ_not_zombie _ _ _ _ O (NZ0 _ NT)). }
  assert (NEWF : forall c, aget (actors s) c = None -> ~ In c (o_notified (st04 (tr s)))).
  { intros c AN NT. destruct (NZ0 _ NT) as (x & AX & _). congruence. }
  destruct (handle_evB _ _ _ _ E) as [(evs & TE & FE)|(e & PE & (s1 & (evs1 & T1 & F1) & (evs2 & T2 & F2)) & EV)].
  - (* no event that moves the lists *)
    assert (NONEW : forall p c, In (SOcc c) (slab_of s' p) -> In (SOcc c) (slab_of s p)).
    { intros p c IN. destruct (inslab_back _ _ _ _ _ _ E IN) as [H|(h & n & l & _ & AN)]; [exact H | exfalso].
      pose proof (K' _ _ IN) as EA. rewrite TE in EA. apply in_app_or in EA as [EA|EA]; [eapply slabadd_pbB; [|exact EA]; assumption|].
      destruct (proj1 U0 _ _ EA) as (y & AY). congruence. }
    unfold KD. rewrite TE. split; [|split].
    + intros p c IN. rewrite (lst_neutral _ _ _ FE). apply D1. apply NONEW. exact IN.
    + intros p. rewrite (lst_neutral _ _ _ FE). apply D2.
    + intros p c IN. rewrite (atret_neutral _ _ FE). apply (D3 p). apply NONEW. exact IN.
  - assert (TE : tr s' = evs2 ++ e :: evs1 ++ tr s) by (rewrite T2; unfold emit; cbn [tr set_tr]; rewrite T1; reflexivity).
    assert (LST : forall p, lst_of (o_kids (st04 (tr s'))) p = lst_of (o_kids (upd04 (st04 (evs1 ++ tr s)) e)) p).
    { intros p. rewrite TE. rewrite (lst_neutral evs2 (e :: evs1 ++ tr s) p F2). reflexivity. }
    assert (ATR : o_atret (st04 (tr s')) = o_atret (upd04 (st04 (evs1 ++ tr s)) e)).
    { rewrite TE. rewrite (atret_neutral evs2 (e :: evs1 ++ tr s) F2). reflexivity. }
    assert (L1 : forall p, lst_of (o_kids (st04 (evs1 ++ tr s))) p = lst_of (o_kids (st04 (tr s))) p) by (intros p; apply lst_neutral; exact F1).
    assert (A1 : o_atret (st04 (evs1 ++ tr s)) = o_atret (st04 (tr s))) by (apply atret_neutral; exact F1).
    assert (NSA : (forall q a, e <> ESlabAdd q a) -> forall p c, In (SOcc c) (slab_of s' p) -> In (SOcc c) (slab_of s p)).
    { intros NE p c IN. destruct (inslab_back _ _ _ _ _ _ E IN) as [H|(h & n & l & -> & AN)]; [exact H | exfalso].
      destruct e; try discriminate PE; cbn [evok] in EV; try discriminate EV.
      - destruct EV as (t & Q & _). discriminate Q.
      - destruct EV as (l0 & [(h0 & n0 & Q & _)|(h0 & h2 & Q & _)]); discriminate Q.
      - eapply NE; reflexivity. }
    destruct e; try discriminate PE; cbn [evok] in EV.
    + (* ENew *)
      assert (NS := NSA ltac:(intros q a Q; discriminate Q)).
      split; [|split].
      * intros p c IN. rewrite LST, lst_upd, L1. apply NS in IN.
        destruct (nmem p (o_notified (st04 (evs1 ++ tr s)))) eqn:NM; [|apply D1; exact IN].
        exfalso. apply nmem_In in NM.
        (* the step emitted nothing before its event *)
        subst m. cbn [handle] in E. injp E.
        assert (Q : (evs2 ++ ENew t :: evs1) ++ tr s = [ENew t] ++ tr s) by (rewrite <- app_assoc; simpl; rewrite <- TE; reflexivity).
        apply app_inv_tail in Q. destruct evs2 as [|e2 evs2]; simpl in Q; [|inversion Q as [[Q1 Q2]]; destruct evs2; discriminate Q2].
        inversion Q; subst evs1. simpl in NM. eapply ZS; eauto.
      * intros p. rewrite LST, lst_upd, L1. destruct (nmem p _); [constructor | apply D2].
      * intros p c IN. rewrite ATR, upd04_atret, A1. apply (D3 p). apply NS. exact IN.
    + (* ERunRet *)
      assert (NS := NSA ltac:(intros q a Q; discriminate Q)).
      destruct EV as (t & -> & MQ & LQ). destruct (shape_loop _ _ SH) as [TP _].
      split; [|split].
      * intros p c IN. rewrite LST, lst_upd, L1. apply D1. apply NS. exact IN.
      * intros p. rewrite LST, lst_upd, L1. apply D2.
      * intros p c IN. rewrite ATR, upd04_atret. apply NS in IN. destruct (inslab_occ _ _ _ IN) as (key & O).
        cbn [handle] in E. rewrite MQ, LQ in E. injp E.
        assert (TS : exists b', evs2 ++ ERunRet b :: evs1 ++ tr s = ERunRet b' :: tr s).
        { rewrite <- TE. destruct (t >? recreate s); eexists; reflexivity. }
        destruct TS as (b' & TS).
        assert (Q : (evs2 ++ ERunRet b :: evs1) ++ tr s = [ERunRet b'] ++ tr s) by (rewrite <- app_assoc; exact TS).
        apply app_inv_tail in Q. destruct evs2 as [|e2 evs2]; simpl in Q; [|inversion Q as [[Q1 Q2]]; destruct evs2; discriminate Q2].
        inversion Q; subst evs1. simpl. eapply runret_slab_live; eauto.
    + (* EDropBegin *)
      assert (NS := NSA ltac:(intros q a Q; discriminate Q)).
      split; [|split].
      * intros p c IN. rewrite LST, lst_upd, L1. apply NS in IN.
        destruct (nmem p (o_notified (st04 (evs1 ++ tr s)))) eqn:NM; [|apply D1; exact IN].
        exfalso. apply nmem_In in NM. subst m. cbn [handle] in E. unfold do_top in E. destruct (alive s); injp E.
        -- assert (Q : (evs2 ++ EDropBegin :: evs1) ++ tr s = [EDropBegin] ++ tr s) by (rewrite <- app_assoc; simpl; rewrite <- TE; reflexivity).
           apply app_inv_tail in Q. destruct evs2 as [|e2 evs2]; simpl in Q; [|inversion Q as [[Q1 Q2]]; destruct evs2; discriminate Q2].
           inversion Q; subst evs1. simpl in NM. eapply ZS; eauto.
        -- apply (f_equal (@length ev)) in TE. rewrite app_length in TE. cbn [length] in TE. rewrite app_length in TE. lia.
      * intros p. rewrite LST, lst_upd, L1. destruct (nmem p _); [constructor | apply D2].
      * intros p c IN. rewrite ATR, upd04_atret, A1. apply (D3 p). apply NS. exact IN.
    + (* EOwnNew *)
      assert (NS := NSA ltac:(intros q a0 Q; discriminate Q)).
      split; [|split].
      * intros p c IN. rewrite LST, lst_upd, L1. apply D1. apply NS. exact IN.
      * intros p. rewrite LST, lst_upd, L1. apply D2.
      * intros p c IN. rewrite ATR, upd04_atret, A1. apply (D3 p). apply NS. exact IN.
    + (* EOwnDrop *)
      assert (NS := NSA ltac:(intros q a0 Q; discriminate Q)).
      split; [|split].
      * intros p c IN. rewrite LST, lst_upd, L1. apply D1. apply NS. exact IN.
      * intros p. rewrite LST, lst_upd, L1. apply D2.
      * intros p c IN. rewrite ATR, upd04_atret, A1. apply (D3 p). apply NS. exact IN.
    + (* ESlabAdd: the new child is listed for its parent *)
      destruct EV as (h & n & l & -> & AN).
      assert (INE : In (ESlabAdd p a) (tr s')) by (rewrite TE; apply in_or_app; right; left; reflexivity).
      assert (PAR : forall q, In (SOcc a) (slab_of s' q) -> q = p).
      { intros q IN. apply (proj2 U' q p a); [apply K'; exact IN | exact INE]. }
      assert (BACK : forall q c, In (SOcc c) (slab_of s' q) -> In (SOcc c) (slab_of s q) \/ (c = a /\ q = p)).
      { intros q c IN. destruct (inslab_back _ _ _ _ _ _ E IN) as [H|(h0 & n0 & l0 & Q & _)]; [left; exact H|].
        inversion Q; subst. right. split; [reflexivity | apply PAR; exact IN]. }
      split; [|split].
      * intros q c IN. rewrite LST, lst_upd, L1. destruct (BACK _ _ IN) as [H|[-> ->]].
        -- destruct (N.eqb q p); [right|]; apply D1; exact H.
        -- rewrite N.eqb_refl. left. reflexivity.
      * intros q. rewrite LST, lst_upd, L1. destruct (N.eqb q p) eqn:QP; [|apply D2]. apply N.eqb_eq in QP. subst q.
        constructor; [|apply D2]. intros IN. apply lst_kidof in IN. apply kidof_slabadd in IN. destruct (proj1 U0 _ _ IN) as (y & AY). congruence.
      * intros q c IN. rewrite ATR, upd04_atret, A1. destruct (BACK _ _ IN) as [H|[-> ->]]; [apply (D3 q); exact H|].
        intros AT. apply atret_notified in AT. exact (NEWF _ AN AT).
Qed.

(* ------------------------------------------------------------------ *)
(** * The check made at slablen *)

Lemma chkS_pb s e : pbS e = true -> chkS s e = true.
Proof. destruct e; try reflexivity. discriminate. Qed.

Lemma step_chkS m k0 s pre s' :
  KP (m :: k0) s -> KD s -> NDS s -> handle m s = (pre, s') -> okx chkS (tr s) = true -> okx chkS (tr s') = true.
Proof.
  intros KP0 (D1 & D2 & D3) N E OK.
  destruct (handle_evS _ _ _ _ E) as [EV|(l & p & x & sh & slab & nx & -> & CC & AX & SX & -> & _)].
  - rewrite (okx_evs_in chkS pbS s s' chkS_pb EV). exact OK.
  - unfold emit. cbn [tr set_tr okx]. rewrite OK, andb_true_r. cbn [chkS].
    assert (SL : slab_of s p = slab) by (unfold slab_of; rewrite AX, SX; reflexivity).
    assert (NZP : ~ zombie s p) by (intros (x2 & AX2 & SX2); congruence).
    rewrite slab_len_occs.
    apply andb_true_intro. split; apply Z.leb_le; apply inj_le.
    + (* every listed child that is not notified sits in the slab *)
      apply NoDup_incl_length; [apply NoDup_filter; apply D2|].
      intros c IN. apply filter_In in IN as [IN NM]. apply occs_in. rewrite <- SL.
      destruct (KP0 p c (lst_kidof _ _ _ IN)) as [NT|[IS|Z]]; [|exact IS | contradiction].
      apply nmem_In in NT. rewrite NT in NM. discriminate NM.
    + (* every occupant is a listed child that was not notified at the last runret *)
      apply NoDup_incl_length; [apply posuniq_nodup; intros i j c H1 H2; rewrite <- SL in H1, H2; eapply N; eauto|].
      intros c IN. apply occs_in in IN. rewrite <- SL in IN. apply filter_In. split; [apply D1; exact IN|].
      destruct (nmem c (o_atret (st04 (tr s)))) eqn:NM; [|reflexivity]. exfalso. apply nmem_In in NM. exact (D3 p c IN NM).
Qed.

(* ------------------------------------------------------------------ *)
(** * The theorem *)

Definition INV3 (k : list mop) (s : st) : Prop :=
  INV2 k s /\ UI k s /\ VS s /\ TR k s /\ RQ k s /\ NDI k s /\ WS s /\ NDS s /\ LOC k s /\ KD s /\ okx chkS (tr s) = true.

Lemma INV3_init p : INV3 (map MTop p ++ [MEpilogue]) (init DGlobal).
Proof.
  split; [apply INV2_init|]. split; [apply UI_init|]. split; [apply VS_init|]. split; [apply TR_init|]. split; [apply RQ_init|].
  split; [apply NDI_init|]. split; [apply WS_init|]. split; [apply NDS_init|]. split; [apply LOC_init|]. split; [apply KD_init | reflexivity].
Qed.

Theorem step_INV3 k s k' s' :
  Z.of_nat (length (tr s)) < CMAX - 1 -> INV3 k s -> step k s = Some (k', s') -> INV3 k' s'.
Proof.
  intros LEN (I2V & UU & V & TR0 & RQ0 & N0 & W & NS & LC & KD0 & OK) ST.
  pose proof (step_INV2 _ _ _ _ LEN I2V ST) as I2V'.
  pose proof (step_UI _ _ _ _ UU ST) as UU'.
  pose proof I2V as (IV & EA & WW & TT & RA & NZ0 & U0 & KP0 & KK2 & OKR2).
  pose proof I2V' as (IV' & _ & _ & _ & _ & _ & U' & _).
  pose proof IV as (((SH & T & WFF & KK & LN & II & OO & F & MM & OKN) & K & BB & OKR) & _).
  pose proof IV' as (((_ & _ & _ & _ & _ & II' & _) & K' & _) & _).
  pose proof T as T0. apply Tags_split in T0 as [QT _].
  assert (D : dk s = DGlobal) by (destruct II; auto).
  destruct k as [|m k0]; [discriminate|]. simpl in ST. destruct (handle m s) as [pre s1] eqn:E. inversion ST; subst.
  pose proof (step_VS _ _ _ _ _ OO U' E V) as V'.
  pose proof (step_TR _ _ _ _ _ SH KK LN OO UU V E TR0) as TR'.
  pose proof (step_RQ _ _ _ _ _ SH LN K WW TR0 E RQ0) as RQ'.
  pose proof (step_NDI _ _ _ _ _ SH (proj1 KK) QT TT RQ0 E N0) as N'.
  destruct (step_WS_NDS _ _ _ _ K U0 E W NS) as [W' NS'].
  pose proof (step_LOC _ _ _ _ _ KK LN EA D K U0 W N0 UU NZ0 II' E LC) as LC'.
  pose proof (step_KD _ _ _ _ _ SH KK QT TT LC NZ0 U0 K' U' E KD0) as KD'.
  pose proof (step_chkS _ _ _ _ _ KP0 KD0 NS E OK) as OK'.
  repeat (split; [assumption|]). exact OK'.
Qed.

Lemma run_INV3 fuel : forall k s t,
  INV3 k s -> run fuel k s = Done t -> Z.of_nat (length t) < CMAX - 1 -> okx chkS (rev t) = true.
Proof.
  induction fuel as [|f IH]; intros k s t I H LEN; simpl in H.
  - destruct k; [|discriminate]. inversion H; subst. rewrite rev_involutive. apply I.
  - destruct (step k s) as [[k' s']|] eqn:ST.
    + eapply IH; [|exact H | exact LEN]. eapply step_INV3; [|exact I | exact ST].
      pose proof (run_len _ _ _ _ H) as L1. pose proof (ext_len _ _ (step_ext _ _ _ _ ST)). lia.
    + inversion H; subst. rewrite rev_involutive. apply I.
Qed.

(** slab.len() reports at least the children not yet notified and at most those not notified at the last runret:
    for every program and fuel, global / thread-local deferrer, below saturation. *)
Theorem C04_slab_len_proved : forall (p : list top) (fuel : nat) (t : list ev),
  exec DGlobal fuel p = Done t -> Z.of_nat (length t) < CMAX - 1 -> okx chkS (rev t) = true.
Proof. intros p fuel t H LEN. unfold exec in H. eapply run_INV3; [apply INV3_init | exact H | exact LEN]. Qed.

(** C04, the whole monitor *)
Theorem C04_proved : forall (p : list top) (fuel : nat) (t : list ev),
  exec DGlobal fuel p = Done t -> Z.of_nat (length t) < CMAX - 1 -> C04_ok t = true.
Proof.
  intros p fuel t H LEN. rewrite <- (rev_involutive t), C04_ok_rev.
  rewrite (C04_notify_check_proved p fuel t H LEN), (C04_runret_check_proved p fuel t H LEN), (C04_slab_len_proved p fuel t H LEN). reflexivity.
Qed.

Print Assumptions C04_proved.
