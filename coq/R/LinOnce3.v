(** Layer R proofs: C16 at-most-once for tokens; assembly: [C16_once_rest_proved]. *)
From Coq Require Import ZArith NArith List Bool Lia.
From Stk Require Import Lib.U Gen.SrcCount Gen.SrcCore Gen.SrcLog R.Syntax R.Rt R.Mon R.Shape R.Eff R.C15Proofs.
From Stk Require Import R.LinTok R.LinTokLaw R.LinTokStep.
From Stk Require Import R.Lin R.LinEvs R.LinNin R.LinDel R.C16Proofs R.Own R.LinRef R.LinRefLaw R.LinRefStep R.LinRefInv R.LinUaf R.LinOnce R.LinC03S R.LinOnce2.
Import ListNotations.
Local Open Scope Z_scope.

Definition tokp (t : N) : N * N := (LK_TOK, t).
Definition TT (t : N) := LinTok.HT t.

Definition QT (k : list mop) (s : st) : Prop :=
  forall t, LinTok.hmops (TT t) k + LinTok.hst (TT t) s + pkT (tokp t) (tr s) <= pcT (tokp t) (tr s).

Definition pbTk (e : ev) : bool := match e with ETokNew _ | ETokDrop _ => false | _ => true end.

Lemma pbTk_block t evs : forallb pbTk evs = true -> pcT (tokp t) evs = 0 /\ pkT (tokp t) evs = 0.
Proof.
  induction evs as [|e l IH]; simpl; [auto|]. intros H. apply andb_prop in H as [H1 H2]. destruct (IH H2) as [C D].
  assert (Z1 : pc1 (tokp t) e = 0 /\ pk1 (tokp t) e = 0) by (destruct e; try discriminate H1; split; reflexivity). lia.
Qed.

Lemma evs_O3_Tk s s' : evs_in pbO3 s s' -> evs_in pbTk s s'.
Proof.
  intros (evs & TR & PB). exists evs. split; auto. apply forallb_forall. intros e IN. rewrite forallb_forall in PB. specialize (PB e IN).
  destruct e; try reflexivity; discriminate PB.
Qed.

Ltac passTk := intros Q; inj_R Q; ei_tac.

Lemma do_act_Tk a s pre s' : do_act a s = (pre, s') -> match a with ANewTok _ _ _ => False | _ => True end -> evs_in pbTk s s'.
Proof.
  intros H NT.
  assert (SPEC : match a with ANewTok _ _ _ | ANewFwd _ _ _ | AClone _ _ | AFwdSend _ _ => False | _ => True end \/
                 match a with ANewFwd _ _ _ | AClone _ _ | AFwdSend _ _ => True | _ => False end) by (destruct a; auto; contradiction).
  destruct SPEC as [SP|SP].
  - destruct (do_act_N3 _ _ _ _ H SP) as (A & _). apply evs_O3_Tk. exact A.
  - revert H. unfold do_act. destruct a; try contradiction; repeat dest_match; passTk.
Qed.

Lemma handle_Tk m s pre s' : handle m s = (pre, s') ->
  match m with MActs (ANewTok _ _ _ :: _) | MDropVal (HTok _ _) => False | _ => True end -> evs_in pbTk s s'.
Proof.
  intros H NT.
  assert (SPEC : match m with MActs _ | MDropVal _ | MOrphNew _ | MOrphDrop _ | MEndBody _ _ => False | _ => True end \/
                 match m with MActs _ | MDropVal _ | MOrphNew _ | MOrphDrop _ | MEndBody _ _ => True | _ => False end) by (destruct m; auto).
  destruct SPEC as [SP|SP].
  - destruct (handle_N3 _ _ _ _ H SP) as (A & _). apply evs_O3_Tk. exact A.
  - revert H. destruct m; try contradiction; cbn [handle].
    + destruct l as [|a l]; [passTk|]. destruct (do_act a s) as [p s1] eqn:E. intros Q; inj_R Q. eapply do_act_Tk; eauto.
    + destruct (frames s); passTk.
    + unfold drop_val. destruct v; try contradiction; repeat dest_match; passTk.
    + passTk.
    + passTk.
Qed.

Lemma tok_script_Tk s sc : evs_in pbTk s (tok_script s sc).
Proof. ei_tac. Qed.

Lemma hstT_H t s : LinTok.H (TT t) s = LinTok.hst (TT t) s.
Proof. apply H_T. Qed.

Theorem step_QT k s k' s' : QT k s -> step k s = Some (k', s') -> QT k' s'.
Proof.
  intros Q ST. destruct k as [|m k0]; [discriminate|]. simpl in ST. destruct (handle m s) as [pre s1] eqn:HD. inversion ST; subst k' s1; clear ST.
  intros t. specialize (Q t). pose proof (LinTokStep.handle_T _ _ _ _ t HD) as LW. fold (TT t) in LW. rewrite !hstT_H in LW.
  rewrite LinTok.hmops_app. cbn [LinTok.hmops] in Q.
  assert (SPEC : match m with MActs (ANewTok _ _ _ :: _) | MDropVal (HTok _ _) => False | _ => True end \/
                 match m with MActs (ANewTok _ _ _ :: _) | MDropVal (HTok _ _) => True | _ => False end).
  { destruct m; auto. - destruct l as [|a l]; auto. destruct a; auto. - destruct v; auto. }
  destruct SPEC as [SP|SP].
  - destruct (handle_Tk _ _ _ _ HD SP) as (evs & TR & PB). destruct (pbTk_block t evs PB) as [C D]. rewrite TR, pkT_app, pcT_app, C, D.
    assert (NW : newtokm t m = 0).
    { destruct m; try reflexivity. destruct l as [|a l]; [reflexivity|]. destruct a; try reflexivity. contradiction. }
    rewrite NW in LW. lia.
  - destruct m; try contradiction.
    + (* ANewTok *)
      destruct l as [|a l]; [contradiction|]. destruct a; try contradiction. cbn [handle do_act] in HD.
      destruct (bind (emit s (ETokNew t0)) h (HTok t0 script)) as [p s1] eqn:B. inversion HD; subst pre s'.
      assert (TR : tr s1 = ETokNew t0 :: tr s) by (revert B; unfold bind; destruct (aget (env _) h); intros Q0; inversion Q0; reflexivity).
      rewrite TR. cbn [pkT pcT newtokm newtok LinTok.hmop] in *. unfold pk1, pc1, tokp, p_eqb in *. simpl.
      unfold TT in *. unfold LinTok.hind, LinTok.hres_eqb in LW. destruct (N.eqb t t0); lia.
    + (* drop of a token *)
      destruct v as [a|a|a|r|f|t0 sc]; try contradiction. cbn [handle drop_val] in HD. inversion HD; subst pre s'.
      assert (HS : LinTok.hst (TT t) (tok_script (emit s (ETokDrop t0)) sc) = LinTok.hst (TT t) s).
      { rewrite <- !hstT_H. unfold TT. rewrite LinTok.H_tok_script, LinTok.H_emit. reflexivity. }
      destruct (tok_script_Tk (emit s (ETokDrop t0)) sc) as (evs & TR & PB). destruct (pbTk_block t evs PB) as [C D].
      rewrite TR. change (tr (emit s (ETokDrop t0))) with (ETokDrop t0 :: tr s). rewrite pkT_app, pcT_app, C, D, HS.
      cbn [pkT pcT LinTok.hmops LinTok.hmop app] in *. rewrite LinTok.hv_tok in Q. unfold pk1, pc1, tokp, p_eqb in *. simpl.
      unfold TT in *. unfold LinTok.hind, LinTok.hres_eqb in Q. destruct (N.eqb t t0); lia.
Qed.

Lemma QT_init d p : QT (map MTop p ++ [MEpilogue]) (init d).
Proof.
  intros t. assert (Z0 : LinTok.hmops (TT t) (map MTop p ++ [MEpilogue]) = 0).
  { rewrite LinTok.hmops_app. cbn [LinTok.hmops LinTok.hmop]. induction p; simpl; lia. }
  rewrite Z0. destruct d; vm_compute; discriminate.
Qed.

Lemma QT_bal k s t : QT k s -> pkT (tokp t) (tr s) <= pcT (tokp t) (tr s).
Proof. intros Q. specialize (Q t). pose proof (LinTok.hmops_nn (TT t) k). pose proof (LinTok.hst_nn (TT t) s). lia. Qed.

(* ------------------------------------------------------------------ *)
(** * Assembly *)

Lemma pk1_other p e : fst p <> LK_CLO -> fst p <> LK_VAL -> fst p <> LK_RET -> fst p <> LK_NOTIFY ->
  fst p <> LK_TOK -> fst p <> LK_FWD -> fst p <> LK_ORPH -> pk1 p e = 0.
Proof.
  intros A B C D E F G. destruct p as [kd i]. simpl in *. unfold pk1, p_eqb. destruct e; simpl; try reflexivity;
    match goal with |- context [N.eqb kd ?c] => destruct (N.eqb kd c) eqn:Q; [apply N.eqb_eq in Q; congruence | reflexivity] end.
Qed.

Lemma pkT_other p t : fst p <> LK_CLO -> fst p <> LK_VAL -> fst p <> LK_RET -> fst p <> LK_NOTIFY ->
  fst p <> LK_TOK -> fst p <> LK_FWD -> fst p <> LK_ORPH -> pkT p t = 0.
Proof. intros. induction t as [|e t IH]; simpl; [reflexivity|]. rewrite pk1_other by auto. lia. Qed.

Record Q3 (k : list mop) (s : st) : Prop := mkQ3 {
  q_j : J k s; q_f : QF s; q_o : QO k s; q_t : QT k s; q_s : suf16 K3 (tr s) }.

Lemma Q3_bal k s p : J k s -> QF s -> QO k s -> QT k s -> K3 (fst p) = true -> pkT p (tr s) <= pcT p (tr s).
Proof.
  intros JJ F O T KP. destruct (K3_kind _ KP) as (A & B & C & D). destruct p as [kd i]. simpl in *.
  destruct (N.eq_dec kd LK_TOK) as [->|NT]; [apply (QT_bal k s i T)|].
  destruct (N.eq_dec kd LK_FWD) as [->|NF]; [apply (QF_bal s i F)|].
  destruct (N.eq_dec kd LK_ORPH) as [->|NO]; [apply (QO_bal k s i O)|].
  rewrite (pkT_other (kd, i) (tr s) A B C D NT NF NO). apply pcT_nn.
Qed.

Theorem step_Q3 k s k' s' : Q3 k s -> step k s = Some (k', s') -> Q3 k' s'.
Proof.
  intros [JJ F O T S] ST.
  assert (J' : J k' s') by exact (step_J _ _ _ _ JJ ST).
  assert (F' : QF s') by exact (step_QF _ _ _ _ JJ F ST).
  assert (O' : QO k' s') by exact (step_QO _ _ _ _ O ST).
  assert (T' : QT k' s') by exact (step_QT _ _ _ _ T ST).
  constructor; auto.
  destruct k as [|m k0]; [discriminate|]. simpl in ST. destruct (handle m s) as [pre s1] eqn:HD. inversion ST; subst k' s1; clear ST.
  destruct (handle_class3 _ _ _ _ HD) as [(evs & TR & PB)|(evs & TR & PB)]; rewrite TR; apply suf16_ext; auto;
    intros p KP; rewrite <- TR; eapply Q3_bal; eauto.
Qed.

Lemma Q3_init d p : Q3 (map MTop p ++ [MEpilogue]) (init d).
Proof.
  constructor; [apply J_init | apply QF_init | apply QO_init | apply QT_init|].
  intros t1 t2 EQ q KQ. assert (E : tr (init d) = []) by (destruct d; reflexivity). rewrite E in EQ.
  destruct t1; [|discriminate]. simpl in EQ. subst t2. simpl. lia.
Qed.

Lemma run_Q3 fuel : forall k s t, Q3 k s -> run fuel k s = Done t -> exists s', t = rev (tr s') /\ suf16 K3 (tr s').
Proof.
  induction fuel as [|f IH]; intros k s t Q H; simpl in H.
  - destruct k; [|discriminate]. inversion H; subst. exists s. split; [reflexivity | apply Q].
  - destruct (step k s) as [[k' s']|] eqn:ST.
    + eapply IH; [eapply step_Q3; eauto | exact H].
    + inversion H; subst. exists s. split; [reflexivity | apply Q].
Qed.

(** C16, at-most-once part for the kinds outside linearity (drop tokens, Fwd closures, orphaned values): for every
    program, deferrer kind and amount of fuel. *)
Theorem C16_once_rest_proved : forall (d : dkind) (p : list top) (fuel : nat) (t : list ev),
  exec d fuel p = Done t -> C16_once_ok (fun k => negb (K16_lin k)) t = true.
Proof.
  intros d p fuel t H. unfold exec in H. destruct (run_Q3 fuel _ _ _ (Q3_init d p) H) as (s' & -> & S).
  destruct (no_fail16 K3 _ S) as (live & M). unfold C16_once_ok. rewrite fold_mon_rev. fold K3. rewrite M. reflexivity.
Qed.

Print Assumptions C16_once_rest_proved.
