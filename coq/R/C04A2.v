(** Layer R proofs: C04, first clause, part 2: the markers of a pending terminate(Dropped) and the invariant [M0]. *)
From Coq Require Import ZArith NArith List Bool Lia.
From Stk Require Import R.LinC03K.
From Stk Require Import Lib.U Gen.SrcCount Gen.SrcCore Gen.SrcLog R.Syntax R.Rt R.Mon R.Shape R.Eff R.Tags R.Mono R.Count
  R.Nest R.C15Proofs R.C20Proofs R.Calls R.CallInv R.Own R.OwnLaw R.OwnVis R.C04Mon R.C04Base R.C04A.
Import ListNotations.
Local Open Scope Z_scope.

Arguments submit : simpl never.
Arguments push_main : simpl never.
Arguments timer_add : simpl never.
Arguments emit : simpl never.
Arguments upd_actor : simpl never.
Arguments ref_clone : simpl never.
Arguments new_actor : simpl never.
Arguments log_rec : simpl never.
Arguments tok_script : simpl never.
Arguments target_ev : simpl never.
Arguments push_frame : simpl never.

(* ------------------------------------------------------------------ *)
(** * No frame asks to die with cause Dropped *)

Definition okdie (d : ctx * option cause) : Prop := snd d <> Some CDrop.
Definition FD (s : st) : Prop := Forall okdie (dies s).

Lemma FD_dstep s s' : dstep s s' -> FD s -> FD s'.
Proof.
  unfold FD. intros [E|[(c & _ & E)|(d & E)]] F.
  - rewrite E. exact F.
  - rewrite E. constructor; [unfold okdie; simpl; discriminate | exact F].
  - rewrite E in F. inversion F; auto.
Qed.

Lemma FD_same s s' : dies s' = dies s -> FD s -> FD s'.
Proof. unfold FD. intros ->. auto. Qed.

Lemma FD_head s fr rest : FD s -> frames s = fr :: rest -> f_die fr <> Some CDrop.
Proof. unfold FD, dies. intros F E. rewrite E in F. inversion F; subst. exact H1. Qed.

Lemma FD_init d : FD (init d). Proof. constructor. Qed.

Lemma FD_push s c loc : FD s -> FD (push_frame s c loc).
Proof. unfold FD. rewrite dies_push_frame. intros F. constructor; [unfold okdie; simpl; discriminate | exact F]. Qed.

Ltac fd_same := (eapply FD_same; [ | eassumption ]); dies_rw; try reflexivity.

Lemma handle_FD m s pre s' : FD s -> handle m s = (pre, s') -> FD s'.
Proof.
  intros F HH. destruct (specialK m) eqn:SP.
  2:{ destruct (handle_K _ _ _ _ HH SP) as (_ & _ & _ & _ & D). eapply FD_dstep; eauto. }
  destruct m; try discriminate SP; cbn [handle] in HH.
  - (* MActs: stop / fail / kill / kill! *)
    destruct l as [|a l]; [discriminate SP|]. cbn [specialK] in SP.
    destruct (do_act a s) as [p s1] eqn:E. injp HH.
    destruct a; try discriminate SP; unfold do_act in E.
    + (* AStop *)
      revert E. destruct (frames s) as [|[[|b pr|] loc die] rest] eqn:FR; intros E; try solve [unfold bad in E; injp E; fd_same].
      injp E. unfold FD, dies in *. rewrite FR in F. unfold emit. cbn [frames set_frames set_tr map fd f_ctx f_die].
      inversion F as [|? ? F1 F2]; subst. constructor; [|exact F2]. unfold okdie in *. cbn [snd fd f_die] in *.
      destruct die; [exact F1 | discriminate].
    + (* AFail *)
      revert E. destruct (frames s) as [|[[|b pr|] loc die] rest] eqn:FR; intros E; try solve [unfold bad in E; injp E; fd_same].
      injp E. unfold FD, dies in *. rewrite FR in F. unfold emit. cbn [frames set_frames set_tr map fd f_ctx f_die].
      inversion F as [|? ? F1 F2]; subst. constructor; [|exact F2]. unfold okdie in *. cbn [snd fd f_die] in *.
      destruct die; [exact F1 | discriminate].
    + (* AKill *) revert E. repeat dest_match; unfold bad; intros E; injp E; fd_same.
    + (* AKillAsync *) revert E. repeat dest_match; unfold bad; intros E; injp E; fd_same.
  - (* MEndBody *)
    destruct (frames s) as [|fr rest] eqn:FR; injp HH; [fd_same|].
    unfold FD, dies in *. unfold emit. cbn [frames set_frames set_tr]. rewrite FR in F. inversion F; auto.
  - (* MRunItem *)
    revert HH. unfold run_item. destruct c as [u i kd caps q]. destruct kd; repeat dest_match; intros HH; injp HH;
      try (apply FD_push); fd_same.
  - (* MDropRef *)
    revert HH. unfold drop_ref. destruct (aget (actors s) a) as [y|]; [|intros HH; injp HH; fd_same].
    destruct (a_freed y); [intros HH; injp HH; fd_same|]. destruct (minrc_drop (a_rc y)) as [[v z]|]; [|intros HH; injp HH; fd_same].
    destruct z; [|intros HH; injp HH; fd_same].
    destruct (state_drops a (a_state y) _) as [dl s2] eqn:SD. intros HH; injp HH.
    destruct (state_drops_h (HO 0) _ _ _ _ _ SD) as [-> _]. fd_same.
  - (* MRetInvoke *)
    revert HH. unfold ret_invoke. destruct r as [rid k]. destruct k; repeat dest_match; intros HH; injp HH;
      try (apply FD_push); fd_same.
  - injp HH. fd_same.
  - (* MTerminate *)
    revert HH. unfold terminate. destruct (aget (actors s) a) as [y|]; [|intros HH; injp HH; fd_same].
    destruct (state_drops a (a_state y) _) as [dl s1] eqn:SD.
    destruct (state_drops_h (HO 0) _ _ _ _ _ SD) as [-> _].
    destruct (a_notify y); intros HH; injp HH; destruct (a_freed y); fd_same.
  - (* MLeaks *)
    injp HH. eapply FD_same; [|exact F]. unfold dies. cbn [frames set_tr]. f_equal.
    unfold class_flags. generalize (actors s) at 1 as all. intros all.
    generalize (actors s) as l. intros l. revert s F. induction l as [|p l IH]; intros s F; simpl; auto.
    rewrite IH; [|unfold emit_opt; destruct (class_flag all p); exact F]. unfold emit_opt. destruct (class_flag all p); reflexivity.
Qed.

(* ------------------------------------------------------------------ *)
(** * Markers of a pending terminate(Dropped) *)

Definition markm (a : N) (m : mop) : Prop :=
  match m with
  | MRunItem c => ci_kind c = KTerm a
  | MTerminate b CDrop => b = a
  | MRetInvoke r (Some (MCause CDrop)) => nshape a r
  | _ => False
  end.

Lemma bind_pre s h v l s' : bind s h v = (l, s') -> forall m', In m' l -> exists old, m' = MDropVal old.
Proof. unfold bind. destruct (aget (env s) h) as [old|]; intros Q; inversion Q; subst; intros m' IN; [destruct IN as [<-|[]]; eauto | destruct IN]. Qed.

Lemma nomark_drops a l m' : In m' (drops l) -> ~ markm a m'.
Proof. unfold drops. intros IN. apply in_map_iff in IN as (x & <- & _). simpl. auto. Qed.
Lemma nomark_slab_drops a l m' : In m' (slab_drops l) -> ~ markm a m'.
Proof. induction l as [|[c|n] l IH]; simpl; auto. intros [<-|IN]; simpl; auto. Qed.
Lemma nomark_dropitems a l m' : In m' (map MDropItem l) -> ~ markm a m'.
Proof. intros IN. apply in_map_iff in IN as (x & <- & _). simpl. auto. Qed.

Ltac nm_tac :=
  let m' := fresh "m'" in let IN := fresh "IN" in
  intros m' IN; cbn [In app] in IN;
  repeat (destruct IN as [<-|IN]; [cbn [markm]; try tauto; try (intros KK; exact KK) | ]);
  try contradiction.

Lemma do_act_nomark a act s pre s' : do_act act s = (pre, s') -> forall m', In m' pre -> ~ markm a m'.
Proof.
  unfold do_act. destruct act.
  all: repeat dest_match; intros Q;
    first [ injp Q; nm_tac
          | (intros m' IN; destruct (bind_pre _ _ _ _ _ Q m' IN) as (old & ->); simpl; tauto)
          | (unfold bad in Q; injp Q; nm_tac) ].
Qed.

Lemma plain_notterm c a : ci_call c = false -> ci_kind c <> KTerm a.
Proof. unfold ci_call. destruct (ci_kind c); try discriminate; intros _ Q; discriminate Q. Qed.

Lemma hok_notterm p c a : hok p c -> ci_kind c <> KTerm a.
Proof. intros [(b & arg & E & _)|(key & E & _)]; rewrite E; discriminate. Qed.

Lemma nomark_runitems_plain a l m' : Forall (fun c => ci_call c = false) l -> In m' (map MRunItem l) -> ~ markm a m'.
Proof.
  intros F IN. apply in_map_iff in IN as (c & <- & IC). simpl. rewrite Forall_forall in F. apply plain_notterm. auto.
Qed.

Lemma state_drops_nomark a p sa s l s' m' : state_drops p sa s = (l, s') -> In m' l -> ~ markm a m'.
Proof.
  unfold state_drops. destruct sa; intros Q; inversion Q; subst; intros IN.
  - eapply nomark_dropitems; eauto.
  - destruct IN as [<-|IN]; [simpl; auto|]. apply in_app_or in IN as [IN|IN]; [eapply nomark_drops | eapply nomark_slab_drops]; eauto.
  - destruct IN.
Qed.

(* where the markers among the pushed micro-ops come from *)
Lemma handle_marks a m s pre s' :
  KS s -> QTags s -> FD s -> handle m s = (pre, s') ->
  forall m', In m' pre -> markm a m' ->
  markm a m \/ ((exists t, m = MRunMain t \/ m = MLoop t) /\ exists c, m' = MRunItem c /\ In c (mainq s)).
Proof.
  intros KK QT F. destruct m; cbn [handle].
  - (* MTop *) unfold do_top. destruct o; repeat dest_match; unfold bad; intros Q; injp Q; nm_tac.
  - (* MActs *)
    destruct l as [|act l]; [intros Q; injp Q; nm_tac|].
    destruct (do_act act s) as [p s1] eqn:E. intros Q; injp Q. intros m' IN MK.
    apply in_app_or in IN as [IN|[<-|[]]]; [exfalso; eapply do_act_nomark; eauto | destruct MK].
  - destruct (frames s) as [|fr rest]; intros Q; injp Q; [nm_tac|]. intros m' IN MK. exfalso. eapply nomark_drops; eauto.
  - (* MEndBody *)
    destruct (frames s) as [|fr rest] eqn:FR; intros Q; injp Q; [nm_tac|].
    pose proof (FD_head _ _ _ F FR) as ND.
    intros m' IN MK. exfalso. apply in_app_or in IN as [IN|IN]; [eapply nomark_drops; eauto|].
    destruct f; [destruct IN| |]; destruct (f_die fr) as [[]|]; try destruct ready; cbn [In] in IN;
      repeat (destruct IN as [<-|IN]; [cbn [markm] in MK; try contradiction; try (apply ND; reflexivity) | ]); try contradiction.
  - (* MRunItem *)
    unfold run_item. destruct c as [u i kd caps q]. destruct kd; repeat dest_match; intros Q; injp Q;
      try solve [nm_tac].
    intros m' IN MK. cbn [In] in IN. destruct IN as [<-|[<-|[]]]; cbn [markm] in *; [left; subst; reflexivity | contradiction].
  - unfold drop_item. destruct c as [u i kd caps q]. destruct kd; intros Q; injp Q; try solve [nm_tac].
    intros m' IN MK. exfalso. eapply nomark_drops; eauto.
  - intros Q; injp Q. intros m' IN MK. exfalso. eapply nomark_drops; eauto.
  - unfold drop_val. destruct v; repeat dest_match; intros Q; injp Q; nm_tac.
  - unfold drop_own. repeat dest_match; intros Q; injp Q; nm_tac.
  - (* MDropRef *)
    unfold drop_ref. destruct (aget (actors s) a0) as [y|] eqn:A; [|intros Q; injp Q; nm_tac].
    destruct (a_freed y); [intros Q; injp Q; nm_tac|]. destruct (minrc_drop (a_rc y)) as [[v z]|]; [|intros Q; injp Q; nm_tac].
    destruct z; [|intros Q; injp Q; nm_tac].
    destruct (state_drops a0 (a_state y) _) as [dl s2] eqn:SD. intros Q; injp Q.
    intros m' IN MK. exfalso. apply in_app_or in IN as [IN|IN].
    + destruct (a_notify y); [destruct IN as [<-|[]]; exact MK | destruct IN].
    + eapply state_drops_nomark; eauto.
  - (* MRetInvoke *)
    unfold ret_invoke. destruct r as [rid k]. destruct k as [caps bd|p ci|p ci|p inner|p key inner].
    + intros Q; injp Q. nm_tac.
    + intros Q; injp Q. nm_tac.
    + destruct m; intros Q; injp Q; nm_tac.
    + destruct inner as [[p0 ci]|]; intros Q; injp Q; nm_tac.
    + destruct m as [mm|]; intros Q; injp Q.
      * intros m' IN MK. cbn [In] in IN. destruct IN as [<-|[<-|[]]]; [|destruct MK]. left. exact MK.
      * nm_tac.
  - intros Q; injp Q; nm_tac.
  - intros Q; injp Q; nm_tac.
  - intros Q; injp Q; nm_tac.
  - intros Q; injp Q; nm_tac.
  - (* MTerminate *)
    unfold terminate. destruct (aget (actors s) a0) as [y|] eqn:A; [|intros Q; injp Q; nm_tac].
    destruct (state_drops a0 (a_state y) _) as [dl s1] eqn:SD.
    destruct (a_notify y) as [nt|] eqn:NT; intros Q; injp Q; intros m' IN MK.
    + apply in_app_or in IN as [IN|IN]; [exfalso; eapply state_drops_nomark; eauto|].
      cbn [In] in IN. destruct IN as [<-|[<-|[]]]; [destruct MK|].
      left. destruct c; cbn [markm] in *; try contradiction.
      destruct (ks_act _ KK _ _ A) as (_ & _ & SH & _). eapply nshape_fun; [apply SH; exact NT | exact MK].
    + exfalso. eapply state_drops_nomark; eauto.
  - destruct (aget (actors s) a0); intros Q; injp Q; nm_tac.
  - (* MToReady *)
    destruct (aget (actors s) a0) as [y|] eqn:A; [|intros Q; injp Q; nm_tac].
    destruct (a_state y) eqn:SA; try solve [intros Q; injp Q; nm_tac].
    intros Q; injp Q. intros m' IN MK. exfalso. apply in_map_iff in IN as (c & <- & IC). simpl in MK.
    destruct (ks_act _ KK _ _ A) as (_ & _ & _ & _ & HK). unfold held_of in HK. rewrite SA in HK.
    rewrite Forall_forall in HK. eapply hok_notterm; eauto.
  - (* MNew *) intros Q; injp Q. intros m' IN MK. exfalso. eapply nomark_dropitems; eauto.
  - (* MRunIdle *)
    destruct idle; [destruct (idleq s) as [|c r] eqn:IQ|]; intros Q; injp Q; try solve [nm_tac].
    intros m' IN MK. exfalso. destruct IN as [<-|[]]. simpl in MK.
    pose proof (qt_idle _ QT) as TI. rewrite IQ in TI. inversion TI as [|? ? [C _] _]; subst. eapply plain_notterm; eauto.
  - (* MRunMain *)
    assert (FT : forall t0, Forall (fun c => ci_call c = false) (map ti_ci (ti_sort (filter (ti_due t0) (timers s))))).
    { intros t0. apply Forall_forall. intros c Hc. apply in_map_iff in Hc as (y & <- & Hy).
      apply ti_sort_in in Hy. apply filter_In in Hy as [Hy _].
      pose proof (qt_timers _ QT) as TT. eapply Forall_forall in TT; [destruct TT as [C _]; exact C | apply in_map; exact Hy]. }
    destruct (t >? now (set_mainq s [])).
    + destruct (fire t (set_now (set_mainq s []) t)) as [fired s2] eqn:FI. unfold fire in FI. injection FI as ? ?; subst.
      intros Q; injp Q. intros m' IN MK. rewrite map_app in IN. apply in_app_or in IN as [IN|IN].
      * right. split; [eauto|]. apply in_map_iff in IN as (c & <- & IC). eauto.
      * exfalso. eapply nomark_runitems_plain; [apply (FT t) | exact IN | exact MK].
    + intros Q; injp Q. intros m' IN MK. right. split; [eauto|]. apply in_map_iff in IN as (c & <- & IC). eauto.
  - (* MLoop *)
    destruct (mainq s) as [|c l] eqn:MQ.
    + destruct (lazyq s) as [|c l] eqn:LQ; intros Q; injp Q; [nm_tac|].
      intros m' IN MK. exfalso. apply in_app_or in IN as [IN|[<-|[]]]; [|destruct MK].
      eapply nomark_runitems_plain; [|exact IN | exact MK].
      pose proof (qt_lazy _ QT) as TL. rewrite LQ in TL. eapply Forall_impl; [|exact TL]. intros x [C _]; exact C.
    + intros Q; injp Q. intros m' IN MK. apply in_app_or in IN as [IN|[<-|[]]]; [|destruct MK].
      right. split; [eauto|]. apply in_map_iff in IN as (x & <- & IC). eauto.
  - (* MDrain *)
    destruct (i >=? TEARDOWN_ROUNDS); [intros Q; injp Q; nm_tac|].
    destruct (mainq s) as [|c l]; intros Q; injp Q; [nm_tac|].
    intros m' IN MK. exfalso. apply in_app_or in IN as [IN|[<-|[]]]; [eapply nomark_dropitems; eauto | destruct MK].
  - (* MDropFields *)
    intros Q; injp Q. intros m' IN MK. exfalso. apply in_app_or in IN as [IN|[<-|[]]]; [eapply nomark_dropitems; eauto | destruct MK].
  - intros Q; injp Q; nm_tac.
  - destruct (amin (env s)) as [[h v]|]; intros Q; injp Q; nm_tac.
  - intros Q; injp Q; nm_tac.
  - intros Q; injp Q; nm_tac.
Qed.
