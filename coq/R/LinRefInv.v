(** Layer R proofs: the REFERENCE census, part 4: the invariant [J] holds in every reachable configuration;
    consequences: a reference drop that frees a cell is the last reference ([J_no_self_free]), hence [okF] and the
    full C03 theorem. *)
From Coq Require Import ZArith NArith List Bool Lia.
From Stk Require Import Lib.U Gen.SrcCount Gen.SrcCore Gen.SrcLog R.Syntax R.Rt R.Shape R.Count R.Own R.Lin R.LinRef R.LinRefLaw R.LinRefStep.
Import ListNotations.
Local Open Scope Z_scope.

Lemma dropitem_R c s pre s' x : rf x -> PJ (fun x => hci x c) s -> drop_item c s = (pre, s') -> LW x (hci x c) s pre s'.
Proof.
  intros RF P. destruct (P x RF) as [R0 J0]. unfold LW, drop_item. destruct c as [u i kd caps q]. rewrite hci_eq.
  destruct kd; intros Q; inj_R Q; law_R x RF; nn_R; try lia.
Qed.

Theorem handle_R m s pre s' x : rf x -> PJ (fun x => hmop x m) s -> handle m s = (pre, s') -> LW x (hmop x m) s pre s'.
Proof.
  intros RF P H. destruct m; cbn [hmop] in *;
    try (eapply phases_R; eauto; exact I).
  - eapply acts_R; eauto.
  - eapply endbody_R; eauto.
  - eapply runitem_R; eauto.
  - eapply dropitem_R; eauto.
  - (* MDropInner *) destruct (P x RF) as [R0 J0]. cbn [handle] in H. inversion H; subst. unfold LW.
    rewrite H_emit, ctr_emit, hmops_drops, hcc_caps. lia.
  - eapply dropval_R; eauto.
  - eapply dropown_R; eauto.
  - eapply dropref_R; eauto.
  - eapply retinvoke_R; eauto.
  - eapply terminate_R; eauto.
  - eapply toready_R; eauto.
Qed.

Lemma hmops_in x m k : In m k -> hmop x m <= hmops x k.
Proof.
  induction k as [|y k IH]; simpl; [contradiction|]. intros [->|IN].
  - pose proof (hmops_nn x k). lia.
  - specialize (IH IN). pose proof (hmop_nn x y). lia.
Qed.

Theorem step_J k s k' s' : J k s -> step k s = Some (k', s') -> J k' s'.
Proof.
  intros JJ ST. destruct k as [|m k0]; [discriminate|]. simpl in ST. destruct (handle m s) as [pre s1] eqn:HD. inversion ST; subst k' s1; clear ST.
  assert (P : PJ (fun x => hmop x m) s).
  { intros y RY. destruct (JJ y RY) as [R0 J0]. split; [exact R0|]. cbn [hmops] in J0. pose proof (hmops_nn y k0). lia. }
  intros x RF. destruct (JJ x RF) as [R0 J0]. destruct (handle_R _ _ _ _ x RF P HD) as (A & B & C).
  split; [exact A|]. rewrite hmops_app. cbn [hmops] in J0. unfold Own.H in C.
  destruct J0 as [J0|J0]; [left; auto|]. destruct C as [C|C]; [left; exact C | right; lia].
Qed.

Lemma J_init d p : J (map MTop p ++ [MEpilogue]) (init d).
Proof.
  intros x RF. assert (Z0 : hmops x (map MTop p ++ [MEpilogue]) = 0).
  { rewrite hmops_app. cbn [hmops hmop]. induction p; simpl; lia. }
  unfold Jx. rewrite Z0. destruct d; destruct x; try contradiction; vm_compute; (split; [split; discriminate | right; discriminate]).
Qed.

(** the cell of a is freed only by its last reference *)
Theorem J_no_self_free : forall a k0 s x v, J (MDropRef a :: k0) s -> aget (actors s) a = Some x -> a_freed x = false ->
  minrc_drop (a_rc x) = Some (v, true) -> ~ In (MDropRef a) k0.
Proof.
  intros a k0 s x v JJ A FR MD IN. destruct (JJ (HR a) I) as [R0 J0]. unfold ctr in R0, J0. rewrite A in R0, J0.
  destruct (drop_cases _ _ _ R0 MD) as [(RC & _)|(D & _)]; [|discriminate D]. rewrite RC in J0.
  destruct J0 as [J0|J0]; [unfold MX in J0; discriminate J0|]. cbn [hmops hmop] in J0. rewrite hind_refl in J0.
  pose proof (hmops_in (HR a) _ _ IN) as LE. cbn [hmop] in LE. rewrite hind_refl in LE. pose proof (hst_nn (HR a) s). lia.
Qed.

(** references to a cell exist only while it is in the table with a positive (or saturated) count *)
Theorem J_ref_live k s a : J k s -> 1 <= hmops (HR a) k + hst (HR a) s ->
  exists x, aget (actors s) a = Some x /\ 1 <= a_rc x /\ (a_rc x = MX \/ hmops (HR a) k + hst (HR a) s <= a_rc x).
Proof.
  intros JJ L. destruct (JJ (HR a) I) as [R0 J0]. unfold ctr in R0, J0. destruct (aget (actors s) a) as [x|].
  - exists x. split; [reflexivity|]. split; [destruct J0 as [J0|J0]; unfold MX in *; lia | exact J0].
  - exfalso. destruct J0 as [J0|J0]; [unfold MX in J0; discriminate J0 | lia].
Qed.
