(** Layer R proofs: C16, the leak conjunct -- examples: non-vacuity of [no_leak_settled], necessity of its hypotheses,
    and the witness that "no actor at all" is NOT sufficient for "no leak report" (finding EpilogueDepth). *)
From Coq Require Import ZArith NArith List Bool.
From Stk Require Import Lib.U R.Syntax R.Rt R.Mon R.C16Proofs R.LinFlags R.LinOnce3 R.LinC05Core R.C05Proofs R.F8Witness R.C16Leak R.C16Leak2 R.C16Leak3.
Import ListNotations.
Local Open Scope Z_scope.

(** C16 for the runs covered by [no_leak_settled] *)
Theorem C16_ok_settled : forall (p : list top) (fuel : nat) (t : list ev),
  exec DGlobal fuel p = Done t -> settled t = true -> no_actor t = true -> simple16 t = true -> C16_ok t = true.
Proof.
  intros p fuel t E ST NA SM. pose proof (no_leak_settled p fuel t E ST NA SM) as NL. rewrite (C16_split K16_lin).
  rewrite (C16_flags_of_noleak _ p fuel t E NL), (C16_lin_proved _ p fuel t E), (C16_once_rest_proved _ p fuel t E).
  reflexivity.
Qed.
Print Assumptions C16_ok_settled.

(** the trace hypothesis of C05 / C03 ([no_container_leak]) for these runs *)
Theorem no_container_leak_settled : forall (p : list top) (fuel : nat) (t : list ev),
  exec DGlobal fuel p = Done t -> settled t = true -> no_actor t = true -> no_container_leak t.
Proof.
  intros p fuel t E ST NA kd id IN. pose proof (no_lin_leak p fuel t E ST NA kd id IN) as K.
  unfold leak_kind. unfold K16_lin in K.
  destruct (N.eqb kd LK_CLO), (N.eqb kd LK_VAL), (N.eqb kd LK_RET), (N.eqb kd LK_NOTIFY); try discriminate K; reflexivity.
Qed.

Theorem C05_settled : forall (p : list top) (fuel : nat) (t : list ev),
  exec DGlobal fuel p = Done t -> NoDup (ret_ids t) -> settled t = true -> no_actor t = true -> C05_ok t = true.
Proof. intros p fuel t E ND ST NA. eapply C05_proved; eauto. eapply no_container_leak_settled; eauto. Qed.
Print Assumptions C05_settled.

(* a program without actors: deferred / lazy / idle closures, fixed and variable timers (one fires, one is deleted, one is
   dropped with the Stakker), nested closures, Rets with closure handlers (sent, dropped inside a queued closure, dropped
   in a timer closure, captured by another Ret), a closure deferred by a Drop handler during teardown, handles left
   to the epilogue, a second Stakker *)
Definition plain_prog : list top :=
  [ TNew 0;
    TDo [ ANewRet 1 1 (RClos [] [ADeferD (Clo 20 0 0 [] [])]);
          ANewRet 2 2 (RClos [] []);
          ANewRet 3 3 (RClos [2%N] [ARetSend 2 7]);
          ADefer (Clo 1 1 2 [1%N] [ALazy (Clo 2 0 0 [] [AIdle (Clo 3 0 0 [] [])]); ARetSend 1 5]);
          ATimerAdd TFixed 1 10 (Clo 4 0 0 [3%N] []);
          ATimerAdd TMax 2 5000 (Clo 5 0 0 [] []);
          ANewRet 4 4 (RClos [] [ADeferD (Clo 21 0 0 [] [])]);
          AAfter 3 7000 (Clo 6 3 1 [4%N] []);
          ANewRet 5 5 (RClos [] []);
          ALazy (Clo 7 0 0 [5%N] []);
          ANewRet 6 6 (RClos [] []) ];
    TRun 20 true;
    TDo [ ATimerDel TMax 2; ANewRet 7 7 (RClos [] []); AIdle (Clo 8 0 0 [7%N] []) ];
    TRun 30 false;
    TNew 100;
    TDo [ ADefer (Clo 9 0 0 [] [ADefer (Clo 10 0 0 [] [])]); ANewRet 8 8 (RClos [] [ADeferD (Clo 22 0 0 [] [])]) ];
    TRun 110 false ].

Definition has (f : ev -> bool) (t : list ev) : bool := existsb f t.

Example no_leak_nontrivial :
  exists t, exec DGlobal 3000 plain_prog = Done t /\
            settled t = true /\ no_actor t = true /\ simple16 t = true /\
            (forall k i, ~ In (ELeak k i) t) /\ C16_ok t = true /\
            has (fun e => match e with ESub QMain _ false => true | _ => false end) t = true /\
            has (fun e => match e with ESub QLazy _ false => true | _ => false end) t = true /\
            has (fun e => match e with ESub QIdle _ false => true | _ => false end) t = true /\
            has (fun e => match e with ESub QTimer _ false => true | _ => false end) t = true /\
            has (fun e => match e with ETimerDel TMax _ true => true | _ => false end) t = true /\
            has (fun e => match e with ERet _ (Some _) => true | _ => false end) t = true /\
            has (fun e => match e with ERet _ None => true | _ => false end) t = true /\
            has (fun e => match e with ERun _ _ QTimer => true | _ => false end) t = true /\
            has (fun e => match e with EDrop _ (Some QTimer) _ => true | _ => false end) t = true /\
            has (fun e => match e with EDrop _ (Some QIdle) _ => true | _ => false end) t = true /\
            has (fun e => match e with EDrop _ (Some QMain) _ => true | _ => false end) t = true /\
            (10 <=? Z.of_nat (length (filter (fun e => match e with EClo _ _ => true | _ => false end) t))) = true.
Proof.
  eexists. split; [vm_compute; reflexivity|].
  split; [vm_compute; reflexivity|]. split; [vm_compute; reflexivity|]. split; [vm_compute; reflexivity|].
  split.
  { apply (no_leak_settled plain_prog 3000); vm_compute; reflexivity. }
  repeat split; vm_compute; reflexivity.
Qed.

(** FINDING (model = harness epilogue, no class flag): a program WITHOUT ANY ACTOR leaks a closure.  Ret handlers that
    run as Drop code re-park work alternately in the environment and in the deferrer queue; the epilogue has two flush
    rounds, the chain below needs three.  Hence "no actor / no reference cycle" alone does not give "no leak report":
    the hypothesis [settled] of [no_leak_settled] is necessary. *)
Definition H5 : list act := [ADeferD (Clo 3 0 0 [] [])].
Definition H4 : list act := [ANewRet 5 5 (RClos [] H5)].
Definition H3 : list act := [ANewRet 4 4 (RClos [] H4); ADeferD (Clo 2 0 0 [4%N] [])].
Definition H2 : list act := [ANewRet 3 3 (RClos [] H3)].
Definition H1 : list act := [ANewRet 2 2 (RClos [] H2); ADeferD (Clo 1 0 0 [2%N] [])].
Definition deep_prog : list top := [TDo [ANewRet 1 1 (RClos [] H1)]].

Example EpilogueDepth_refuted :
  exists t, exec DGlobal 3000 deep_prog = Done t /\ no_actor t = true /\ simple16 t = true /\ no_class_flag t = true /\
            settled t = false /\ has (fun e => match e with ELeak 0 3 => true | _ => false end) t = true /\ C16_ok t = false.
Proof. eexists. split; [vm_compute; reflexivity|]. repeat split; vm_compute; reflexivity. Qed.

(* the other hypothesis: F5 / F7 / F8 create actors (and their traces are settled) *)
Example no_actor_needed :
  (exists t, exec DGlobal 2000 f5_prog = Done t /\ settled t = true /\ no_actor t = false /\ has (fun e => match e with ELeak 0 1 => true | _ => false end) t = true) /\
  (exists t, exec DGlobal 2000 f7_prog = Done t /\ settled t = true /\ no_actor t = false /\ has (fun e => match e with ELeak 1 1 => true | _ => false end) t = true) /\
  (exists t, exec DGlobal 3000 f8_prog = Done t /\ settled t = true /\ no_actor t = false /\ has (fun e => match e with ELeak 1 2 => true | _ => false end) t = true).
Proof.
  split; [|split]; (eexists; split; [vm_compute; reflexivity|]; repeat split; vm_compute; reflexivity).
Qed.
