(** Layer R: the properties as executable predicates over traces (oldest event first).

    Each monitor is a left fold [step : state -> ev -> option state] ([None] = violated) followed by a
    final check.  The same functions are (1) the statements of the theorems in coq/R/*Proofs.v,
    (2) extracted and evaluated on the REAL traces printed by harness/r, (3) the oracle of the
    failing-input search in tools/checks/layer_r.py.  They only look at events that the real
    interpreter can observe (never at [EModel] or [EDropFields]), and never demand more than the
    property text states (see docs/layer_r.md for the reading of each clause). *)
From Coq Require Import ZArith NArith List Bool.
From Stk Require Import Lib.U Gen.SrcLog R.Syntax.
Import ListNotations.
Local Open Scope Z_scope.

(* ------------------------------------------------------------------ *)
(** * Helpers *)

Fixpoint nmem (x : N) (l : list N) : bool :=
  match l with [] => false | y :: r => N.eqb x y || nmem x r end.

Fixpoint nremove (x : N) (l : list N) : list N :=
  match l with [] => [] | y :: r => if N.eqb x y then r else y :: nremove x r end.

Fixpoint nget {X} (l : list (N * X)) (i : N) : option X :=
  match l with [] => None | (j, x) :: r => if N.eqb i j then Some x else nget r i end.

Fixpoint nset {X} (l : list (N * X)) (i : N) (x : X) : list (N * X) :=
  match l with
  | [] => [(i, x)]
  | (j, y) :: r => if N.eqb i j then (i, x) :: r else (j, y) :: nset r i x
  end.

Definition hd_is (x : N) (l : list N) : bool :=
  match l with y :: _ => N.eqb x y | [] => false end.

Definition nil_b {X} (l : list X) : bool := match l with [] => true | _ => false end.

Definition subset (a b : list N) : bool := forallb (fun x => nmem x b) a.

Definition disjoint (a b : list N) : bool := forallb (fun x => negb (nmem x b)) a.

Definition cause_eqb (a b : cause) : bool :=
  match a, b with
  | CStop, CStop | CDrop, CDrop => true
  | CFail x, CFail y | CKill x, CKill y => N.eqb x y
  | _, _ => false
  end.

Definition qk_eqb (a b : qk) : bool :=
  match a, b with
  | QMain, QMain | QLazy, QLazy | QIdle, QIdle | QTimer, QTimer => true
  | _, _ => false
  end.

Definition guard (b : bool) {X} (x : X) : option X := if b then Some x else None.

Definition fold_mon {S} (step : S -> ev -> option S) (fin : S -> bool) (init : S) (t : list ev) : bool :=
  match fold_left (fun acc e => match acc with Some s => step s e | None => None end) t (Some init) with
  | Some s => fin s
  | None => false
  end.

(* the uid an event starts executing, if any *)
Definition started (e : ev) : option N :=
  match e with ERun u _ _ | EMeth _ u _ | EPrep _ u _ => Some u | _ => None end.

(* ------------------------------------------------------------------ *)
(** * C15: virtual time is monotone and uniform within a run

    [Core::now()] equals the greatest instant passed so far to [Stakker::new] or [run]; every item executed
    by one run observes that value, except the single idle item (which runs first) that still observes the
    previous one; timers are evaluated only when time advances; [start_instant()] never changes. *)

Record s15 := mk15 {
  t_cur : Z;                 (* what Core::now() must answer *)
  t_start : Z;
  t_next : option Z;         (* a run has begun and its time update has not been observed yet: the new value *)
  t_idleok : bool;           (* the idle item of this run may still come *)
  t_inidle : option N;       (* uid of the running idle item *)
  t_adv : bool }.            (* this run advances time *)

Definition i15 : s15 := mk15 0 0 None false None false.

Definition upd15 (s : s15) : s15 :=
  match t_next s with
  | Some t => mk15 t (t_start s) None false None (t_adv s)
  | None => s
  end.

Definition step15 (s : s15) (e : ev) : option s15 :=
  match e with
  | ENew t => Some (mk15 t t None false None false)
  | ERunBegin t idle => Some (mk15 (t_cur s) (t_start s) (Some (Z.max (t_cur s) t)) idle None (t >? t_cur s))
  | ERunRet _ => Some (upd15 s)
  | ERun u n QIdle =>
      (* the single idle item: first thing of the run, still the previous value *)
      guard (t_idleok s && (n =? t_cur s))
            (mk15 (t_cur s) (t_start s) (t_next s) false (Some u) (t_adv s))
  | ERun u n q =>
      let s1 := upd15 s in
      (* a timer closure runs only in a run that advances time *)
      guard ((n =? t_cur s1) && (match q with QTimer => t_adv s1 | _ => true end)) s1
  | EMeth _ u n | EPrep _ u n => let s1 := upd15 s in guard (n =? t_cur s1) s1
  | EEnd u =>
      match t_inidle s with
      | Some v => if N.eqb u v then Some (mk15 (t_cur s) (t_start s) (t_next s) false None (t_adv s)) else Some s
      | None => Some s
      end
  | ENum tag n =>
      if N.eqb tag TAG_NOW then
        match t_inidle s, t_next s with
        | None, Some tn => guard ((n =? t_cur s) || (n =? tn)) s   (* not reachable: nothing observes now() here *)
        | _, _ => guard (n =? t_cur s) s
        end
      else if N.eqb tag TAG_START then guard (n =? t_start s) s
      else Some s
  | _ => Some s
  end.

Definition C15_ok (t : list ev) : bool := fold_mon step15 (fun _ => true) i15 t.

(* ------------------------------------------------------------------ *)
(** * Shared: which actors are (observably) in Prep *)

Definition prep_upd (prep : list N) (e : ev) : list N :=
  match e with
  | EActor a => a :: prep
  | EReady a | ENotify a _ => nremove a prep
  | _ => prep
  end.

(* ------------------------------------------------------------------ *)
(** * C06: quiescence; lazy after main; idle on request

    Two conjuncts.  [C06_plain_ok] speaks about plain closures (FIFO lists with head discipline; this is the
    part proved of the model in R/C06Proofs.v).  [C06_calls_ok] adds the actor calls travelling through the
    main queue: a call addressed to an actor that is still in Prep may legitimately be held, so it only counts
    as pending main-queue work while its target is not in Prep. *)

Record s06 := mk06 {
  q_main : list N;           (* plain closures in the main queue of the current Stakker, in order *)
  q_limbo : list N;          (* ... left queued by previous Stakker instances *)
  q_lazy : list N;
  q_idle : list N;
  q_run : option bool;       (* inside run(_, idle) *)
  q_first : bool;            (* nothing has started yet in this run *)
  q_lazyon : bool;           (* a lazy batch is in progress: main work submitted by it may be pending *)
  q_tear : bool }.           (* inside Stakker::drop *)

Definition i06 : s06 := mk06 [] [] [] [] None false false false.

Definition pop_if (u : N) (l : list N) : option (list N) :=
  match l with v :: r => if N.eqb u v then Some r else None | [] => None end.

Definition step06 (s : s06) (e : ev) : option s06 :=
  match e with
  | ENew _ => Some (mk06 [] (q_limbo s ++ q_main s) (q_lazy s) (q_idle s) None false false false)
  | EDropBegin => Some (mk06 (q_main s) (q_limbo s) (q_lazy s) (q_idle s) (q_run s) (q_first s) (q_lazyon s) true)
  | EDropEnd => Some (mk06 (q_main s) (q_limbo s) (q_lazy s) (q_idle s) (q_run s) (q_first s) (q_lazyon s) false)
  | ESub QMain u false => Some (mk06 (q_main s ++ [u]) (q_limbo s) (q_lazy s) (q_idle s) (q_run s) (q_first s) (q_lazyon s) (q_tear s))
  | ESub QLazy u false => Some (mk06 (q_main s) (q_limbo s) (q_lazy s ++ [u]) (q_idle s) (q_run s) (q_first s) (q_lazyon s) (q_tear s))
  | ESub QIdle u false => Some (mk06 (q_main s) (q_limbo s) (q_lazy s) (q_idle s ++ [u]) (q_run s) (q_first s) (q_lazyon s) (q_tear s))
  | ERunBegin _ idle => Some (mk06 (q_main s) (q_limbo s) (q_lazy s) (q_idle s) (Some idle) true false (q_tear s))
  | ERunRet b =>
      guard (nil_b (q_main s) && nil_b (q_lazy s) && Bool.eqb b (negb (nil_b (q_idle s))))
            (mk06 (q_main s) (q_limbo s) (q_lazy s) (q_idle s) None false false (q_tear s))
  | ERun u _ QIdle =>
      (* only on request, at most one, before anything else, in submission order *)
      match pop_if u (q_idle s) with
      | Some r => guard (match q_run s with Some true => true | _ => false end && q_first s)
                        (mk06 (q_main s) (q_limbo s) (q_lazy s) r (q_run s) false (q_lazyon s) (q_tear s))
      | None => None
      end
  | ERun u _ QLazy =>
      (* in submission order; never while main-queue work is pending, unless a lazy item of this batch made it *)
      match pop_if u (q_lazy s) with
      | Some r => guard (q_lazyon s || nil_b (q_main s))
                        (mk06 (q_main s) (q_limbo s) r (q_idle s) (q_run s) false true (q_tear s))
      | None => None
      end
  | ERun u _ QMain =>
      match pop_if u (q_main s) with
      | Some r => Some (mk06 r (q_limbo s) (q_lazy s) (q_idle s) (q_run s) false false (q_tear s))
      | None => None
      end
  | ERun _ _ QTimer | EMeth _ _ _ | EPrep _ _ _ =>
      Some (mk06 (q_main s) (q_limbo s) (q_lazy s) (q_idle s) (q_run s) false false (q_tear s))
  | EDrop u (Some QMain) false =>
      (* Stakker::drop drops what its own queue holds; a new Stakker drops what earlier instances left *)
      if q_tear s then
        match pop_if u (q_main s) with Some r => Some (mk06 r (q_limbo s) (q_lazy s) (q_idle s) (q_run s) (q_first s) (q_lazyon s) (q_tear s)) | None => None end
      else
        match pop_if u (q_limbo s) with Some r => Some (mk06 (q_main s) r (q_lazy s) (q_idle s) (q_run s) (q_first s) (q_lazyon s) (q_tear s)) | None => None end
  | EDrop u (Some QLazy) false =>
      match pop_if u (q_lazy s) with Some r => Some (mk06 (q_main s) (q_limbo s) r (q_idle s) (q_run s) (q_first s) (q_lazyon s) (q_tear s)) | None => None end
  | EDrop u (Some QIdle) false =>
      match pop_if u (q_idle s) with Some r => Some (mk06 (q_main s) (q_limbo s) (q_lazy s) r (q_run s) (q_first s) (q_lazyon s) (q_tear s)) | None => None end
  | _ => Some s
  end.

Definition C06_plain_ok (t : list ev) : bool := fold_mon step06 (fun _ => true) i06 t.

(* the calls *)
Record s06c := mk06c {
  k_calls : list N;          (* calls in the main queue or held, not yet started/dropped *)
  k_tgt : list (N * N);
  k_prep : list N;
  k_lazyon : bool;
  k_since : list N }.

Definition i06c : s06c := mk06c [] [] [] false [].

Definition pending_calls (s : s06c) : list N :=
  filter (fun u => match nget (k_tgt s) u with Some a => negb (nmem a (k_prep s)) | None => true end) (k_calls s).

Definition step06c (s : s06c) (e : ev) : option s06c :=
  let s := mk06c (k_calls s) (k_tgt s) (prep_upd (k_prep s) e) (k_lazyon s) (k_since s) in
  match e with
  | ETarget u a _ => Some (mk06c (k_calls s) (nset (k_tgt s) u a) (k_prep s) (k_lazyon s) (k_since s))
  | ESub QMain u true => Some (mk06c (k_calls s ++ [u]) (k_tgt s) (k_prep s) (k_lazyon s)
                                     (if k_lazyon s then u :: k_since s else k_since s))
  | ERunBegin _ _ => Some (mk06c (k_calls s) (k_tgt s) (k_prep s) false [])
  | ERunRet _ => guard (nil_b (pending_calls s)) (mk06c (k_calls s) (k_tgt s) (k_prep s) false [])
  | ERun _ _ QLazy =>
      guard (if k_lazyon s then subset (pending_calls s) (k_since s) else nil_b (pending_calls s))
            (mk06c (k_calls s) (k_tgt s) (k_prep s) true (if k_lazyon s then k_since s else []))
  | ERun _ _ QIdle => Some s
  | ERun _ _ _ => Some (mk06c (k_calls s) (k_tgt s) (k_prep s) false (k_since s))
  | EMeth _ u _ | EPrep _ u _ => Some (mk06c (nremove u (k_calls s)) (k_tgt s) (k_prep s) false (k_since s))
  | EDrop u _ true => Some (mk06c (nremove u (k_calls s)) (k_tgt s) (k_prep s) (k_lazyon s) (k_since s))
  | _ => Some s
  end.

Definition C06_calls_ok (t : list ev) : bool := fold_mon step06c (fun _ => true) i06c t.

Definition C06_ok (t : list ev) : bool := C06_plain_ok t && C06_calls_ok t.

(* ------------------------------------------------------------------ *)
(** * C01: deferred closures run exactly once, in submission order

    The plain closures of the main queue form one FIFO list: a submission appends, a start or an un-run drop
    must concern the head and removes it (conservation: one outcome per submission, never two; FIFO: the
    consumption sequence IS the submission sequence), the list is empty whenever [run] returns (by next run),
    nothing starts during [Stakker::drop], and the drain loop of [Stakker::drop] leaves nothing queued: when
    the first lazy/idle/timer closure is dropped (or, failing that, when the drop returns) the list is empty.
    What is submitted after that point (by Drop handlers of lazy/idle/timer closures) stays queued (limbo):
    with the global / thread-local deferrer the next [Stakker::new] drops it, in order; with the inline
    deferrer it is never touched again. *)

Record s01 := mk01 {
  m_pend : list N;           (* plain main-queue closures of the current Stakker, submitted, neither started nor dropped, in order *)
  m_limbo : list N;          (* ... left queued by previous Stakker instances (dropped by the next Stakker::new) *)
  m_tear : bool;             (* between dropbegin and dropend *)
  m_fields : bool }.         (* the drain loop is over: lazy/idle/timer closures are being dropped *)

Definition i01 : s01 := mk01 [] [] false false.

Definition step01 (s : s01) (e : ev) : option s01 :=
  match e with
  | ENew _ => Some (mk01 [] (m_limbo s ++ m_pend s) false false)
  | ESub QMain u false => Some (mk01 (m_pend s ++ [u]) (m_limbo s) (m_tear s) (m_fields s))
  | ERun u _ QMain =>
      if m_tear s then None else
      match pop_if u (m_pend s) with Some r => Some (mk01 r (m_limbo s) (m_tear s) (m_fields s)) | None => None end
  | ERun _ _ _ | EMeth _ _ _ | EPrep _ _ _ => if m_tear s then None else Some s
  | EDrop u (Some QMain) false =>
      if m_tear s then
        match pop_if u (m_pend s) with Some r => Some (mk01 r (m_limbo s) (m_tear s) (m_fields s)) | None => None end
      else
        match pop_if u (m_limbo s) with Some r => Some (mk01 (m_pend s) r (m_tear s) (m_fields s)) | None => None end
  | EDrop _ (Some _) false =>
      (* a lazy / idle / timer closure dropped by Stakker::drop: the drain loop has finished *)
      if m_tear s && negb (m_fields s) then guard (nil_b (m_pend s)) (mk01 (m_pend s) (m_limbo s) true true) else Some s
  | ERunRet _ => guard (nil_b (m_pend s)) s
  | EDropBegin => Some (mk01 (m_pend s) (m_limbo s) true false)
  | EDropEnd => guard (m_fields s || nil_b (m_pend s)) (mk01 (m_pend s) (m_limbo s) false false)
  | _ => Some s
  end.

Definition C01_ok (t : list ev) : bool := fold_mon step01 (fun _ => true) i01 t.

(* ------------------------------------------------------------------ *)
(** * C02: calls to one actor run in the order made, gated by its lifecycle *)

Record s02 := mk02 {
  c_tgt : list (N * (N * bool));      (* call uid -> (actor, prep-style) *)
  c_pend : list (N * list N);         (* actor -> submitted Ready-calls not yet run/dropped, in order *)
  c_phase : list (N * N);             (* actor -> 1 Prep, 2 Ready, 3 Zombie *)
  c_done : list N;
  c_tear : bool;                      (* queues are being dropped wholesale: inside Stakker::drop, or by Stakker::new *)
  c_owed : list N }.                  (* actors whose Ready-calls were just discarded: they must be terminating *)

Definition i02 : s02 := mk02 [] [] [] [] false [].

Definition pend_of (s : s02) (a : N) : list N := match nget (c_pend s) a with Some l => l | None => [] end.
Definition phase_of (l : list (N * N)) (a : N) : N := match nget l a with Some p => p | None => 0%N end.

Definition step02 (s : s02) (e : ev) : option s02 :=
  (* a discarded Ready-call means its target is a Zombie, or terminates right now: the notification must come
     before anything else starts *)
  let starts := match e with ERun _ _ _ | EMeth _ _ _ | EPrep _ _ _ | ERunRet _ => true | _ => false end in
  if starts && negb (nil_b (c_owed s)) then None else
  match e with
  | ENew _ => Some (mk02 (c_tgt s) (c_pend s) (c_phase s) (c_done s) true (c_owed s))
  | ERunBegin _ _ => Some (mk02 (c_tgt s) (c_pend s) (c_phase s) (c_done s) false (c_owed s))
  | EDropBegin => Some (mk02 (c_tgt s) (c_pend s) (c_phase s) (c_done s) true (c_owed s))
  | ETarget u a p => Some (mk02 (nset (c_tgt s) u (a, p)) (c_pend s) (c_phase s) (c_done s) (c_tear s) (c_owed s))
  | ESub QMain u _ =>
      match nget (c_tgt s) u with
      | Some (a, false) => Some (mk02 (c_tgt s) (nset (c_pend s) a (pend_of s a ++ [u])) (c_phase s) (c_done s) (c_tear s) (c_owed s))
      | _ => Some s
      end
  | EActor a => Some (mk02 (c_tgt s) (c_pend s) (nset (c_phase s) a 1%N) (c_done s) (c_tear s) (c_owed s))
  | EReady a => guard (N.eqb (phase_of (c_phase s) a) 1) (mk02 (c_tgt s) (c_pend s) (nset (c_phase s) a 2%N) (c_done s) (c_tear s) (c_owed s))
  | ENotify a _ => Some (mk02 (c_tgt s) (c_pend s) (nset (c_phase s) a 3%N) (c_done s) (c_tear s) (nremove a (c_owed s)))
  | EMeth a u _ =>
      guard (N.eqb (phase_of (c_phase s) a) 2 && hd_is u (pend_of s a) && negb (nmem u (c_done s))
             && match nget (c_tgt s) u with Some (a', false) => N.eqb a a' | _ => false end)
            (mk02 (c_tgt s) (nset (c_pend s) a (nremove u (pend_of s a))) (c_phase s) (u :: c_done s) (c_tear s) (c_owed s))
  | EPrep a u _ =>
      guard (N.eqb (phase_of (c_phase s) a) 1 && negb (nmem u (c_done s))
             && match nget (c_tgt s) u with Some (a', true) => N.eqb a a' | _ => false end)
            (mk02 (c_tgt s) (c_pend s) (c_phase s) (u :: c_done s) (c_tear s) (c_owed s))
  | EDrop u q _ =>
      match nget (c_tgt s) u with
      | Some (a, prep) =>
          (* only a call that was actually queued can be "discarded"; an unsent ret_some_to closure is just dropped *)
          let owed := match q with
                      | Some _ => if prep || c_tear s || N.eqb (phase_of (c_phase s) a) 3 || nmem a (c_owed s)
                                  then c_owed s else a :: c_owed s
                      | None => c_owed s
                      end in
          guard (negb (nmem u (c_done s)))
                (mk02 (c_tgt s) (nset (c_pend s) a (nremove u (pend_of s a))) (c_phase s) (u :: c_done s) (c_tear s) owed)
      | None => Some s
      end
  | _ => Some s
  end.

Definition C02_ok (t : list ev) : bool := fold_mon step02 (fun s => nil_b (c_owed s)) i02 t.

(* ------------------------------------------------------------------ *)
(** * C03: an actor terminates once *)

Record s03 := mk03 {
  z_phase : list (N * N);             (* 1 Prep 2 Ready 3 Zombie *)
  z_notified : list (N * bool);       (* actor -> notified (true: with a cause) *)
  z_valdrop : list N;
  z_reqs : list (N * cause);
  z_body : option (N * N * option cause);   (* running method/prep body: actor, uid, first stop/fail in it *)
  z_expect : list (N * cause);
  z_live : list N }.                  (* actors whose notifier / value is still owed (for the final check) *)

Definition i03 : s03 := mk03 [] [] [] [] None [] [].

Fixpoint has_req (l : list (N * cause)) (a : N) (c : cause) : bool :=
  match l with [] => false | (b, d) :: r => (N.eqb a b && cause_eqb c d) || has_req r a c end.

Definition step03 (s : s03) (e : ev) : option s03 :=
  match e with
  | EActor a => guard (N.eqb (phase_of (z_phase s) a) 0)
                      (mk03 (nset (z_phase s) a 1%N) (z_notified s) (z_valdrop s) (z_reqs s) (z_body s) (z_expect s) (z_live s))
  | EReady a => guard (N.eqb (phase_of (z_phase s) a) 1)
                      (mk03 (nset (z_phase s) a 2%N) (z_notified s) (z_valdrop s) (z_reqs s) (z_body s) (z_expect s) (z_live s))
  | EReq a c =>
      let body := match z_body s with
                  | Some (b, u, None) => if N.eqb a b then (match c with CStop | CFail _ => Some (b, u, Some c) | _ => z_body s end) else z_body s
                  | x => x
                  end in
      Some (mk03 (z_phase s) (z_notified s) (z_valdrop s) ((a, c) :: z_reqs s) body (z_expect s) (z_live s))
  | EMeth a u _ | EPrep a u _ =>
      guard (negb (N.eqb (phase_of (z_phase s) a) 3))
            (mk03 (z_phase s) (z_notified s) (z_valdrop s) (z_reqs s) (Some (a, u, None)) (z_expect s) (z_live s))
  | ERun _ _ _ => Some (mk03 (z_phase s) (z_notified s) (z_valdrop s) (z_reqs s) None (z_expect s) (z_live s))
  | EEnd u =>
      match z_body s with
      | Some (a, v, fr) =>
          if N.eqb u v then
            let ex := match fr with Some c => nset (z_expect s) a c | None => z_expect s end in
            Some (mk03 (z_phase s) (z_notified s) (z_valdrop s) (z_reqs s) None ex (z_live s))
          else Some s
      | None => Some s
      end
  | ENotify a c =>
      let ok := match nget (z_notified s) a with Some _ => false | None => true end &&
                negb (N.eqb (phase_of (z_phase s) a) 0) &&
                match c with
                | Some CDrop => match nget (z_expect s) a with Some _ => false | None => true end
                | Some cc => has_req (z_reqs s) a cc &&
                             match nget (z_expect s) a with Some c0 => cause_eqb cc c0 | None => true end
                | None => true
                end in
      guard ok (mk03 (nset (z_phase s) a 3%N) (nset (z_notified s) a (match c with Some _ => true | None => false end))
                     (z_valdrop s) (z_reqs s) (z_body s) (z_expect s) (z_live s))
  | EValDrop a =>
      let running := match z_body s with Some (b, _, _) => N.eqb a b | None => false end in
      guard (negb (nmem a (z_valdrop s)) && negb running &&
             negb (N.eqb (phase_of (z_phase s) a) 0) && negb (N.eqb (phase_of (z_phase s) a) 1) &&
             match nget (z_notified s) a with Some true => false | _ => true end)
            (mk03 (z_phase s) (z_notified s) (a :: z_valdrop s) (z_reqs s) (z_body s) (z_expect s) (z_live s))
  | EIsZombie a b =>
      guard (match nget (z_notified s) a with Some _ => b | None => true end) s
  | ELeak k a =>
      (* a notifier never invoked / a value never dropped *)
      if N.eqb k LK_NOTIFY || N.eqb k LK_VAL then None else Some s
  | _ => Some s
  end.

Definition C03_ok (t : list ev) : bool := fold_mon step03 (fun _ => true) i03 t.

(* ------------------------------------------------------------------ *)
(** * C04: last owner gone => Dropped; never while owned; slabs *)

Record s04 := mk04 {
  o_cnt : list (N * Z);               (* visible owning handles *)
  o_alive : bool;                     (* a Stakker exists and is not being torn down *)
  o_must : list N;                    (* lost their last owner: must be terminated when the run returns *)
  o_notified : list N;
  o_atret : list N;                   (* notified before the last run returned *)
  o_tgt : list (N * N);               (* Ready-call uid -> actor *)
  o_pend : list (N * list N);         (* actor -> pending Ready-calls *)
  o_snap : list (N * list N);         (* actor -> calls pending when the last visible owner went *)
  o_kids : list (N * list N);         (* parent -> slab children *)
  o_slabkid : list N }.

Definition i04 : s04 := mk04 [] false [] [] [] [] [] [] [] [].

Definition cnt_of (s : s04) (a : N) : Z := match nget (o_cnt s) a with Some z => z | None => 0 end.
Definition lst_of (l : list (N * list N)) (a : N) : list N := match nget l a with Some x => x | None => [] end.

(* the slab-children obligations of a parent that was already notified end with the Stakker instance, like [o_must]:
   "the whole ownership tree terminates in the same run" is about the runs of the runtime in which the parent was
   terminated; a parent notified before a Stakker is dropped / replaced is a Zombie (never asked for its slab length
   again), so its entry is simply forgotten at ENew / EDropBegin *)
Definition live_kids (s : s04) : list (N * list N) :=
  filter (fun pk => negb (nmem (fst pk) (o_notified s))) (o_kids s).

Definition step04 (s : s04) (e : ev) : option s04 :=
  match e with
  | ENew _ => Some (mk04 (o_cnt s) true [] (o_notified s) (o_atret s) (o_tgt s) (o_pend s) (o_snap s) (live_kids s) (o_slabkid s))
  | EDropBegin => Some (mk04 (o_cnt s) false [] (o_notified s) (o_atret s) (o_tgt s) (o_pend s) (o_snap s) (live_kids s) (o_slabkid s))
  | EOwnNew a => Some (mk04 (nset (o_cnt s) a (cnt_of s a + 1)) (o_alive s) (o_must s) (o_notified s) (o_atret s) (o_tgt s) (o_pend s) (o_snap s) (o_kids s) (o_slabkid s))
  | EOwnDrop a =>
      let c := cnt_of s a - 1 in
      let zero := (c =? 0) && negb (nmem a (o_slabkid s)) in
      Some (mk04 (nset (o_cnt s) a c) (o_alive s)
                 (if zero && o_alive s then a :: o_must s else o_must s)
                 (o_notified s) (o_atret s) (o_tgt s) (o_pend s)
                 (if zero then nset (o_snap s) a (lst_of (o_pend s) a) else o_snap s) (o_kids s) (o_slabkid s))
  | ESlabAdd p a => Some (mk04 (o_cnt s) (o_alive s) (o_must s) (o_notified s) (o_atret s) (o_tgt s) (o_pend s) (o_snap s)
                               (nset (o_kids s) p (a :: lst_of (o_kids s) p)) (a :: o_slabkid s))
  | ETarget u a false => Some (mk04 (o_cnt s) (o_alive s) (o_must s) (o_notified s) (o_atret s) (nset (o_tgt s) u a) (o_pend s) (o_snap s) (o_kids s) (o_slabkid s))
  | ESub QMain u _ =>
      match nget (o_tgt s) u with
      | Some a => Some (mk04 (o_cnt s) (o_alive s) (o_must s) (o_notified s) (o_atret s) (o_tgt s) (nset (o_pend s) a (lst_of (o_pend s) a ++ [u])) (o_snap s) (o_kids s) (o_slabkid s))
      | None => Some s
      end
  | EMeth _ u _ | EDrop u _ _ =>
      match nget (o_tgt s) u with
      | Some a => Some (mk04 (o_cnt s) (o_alive s) (o_must s) (o_notified s) (o_atret s) (o_tgt s) (nset (o_pend s) a (nremove u (lst_of (o_pend s) a))) (o_snap s) (o_kids s) (o_slabkid s))
      | None => Some s
      end
  | ENotify a c =>
      let ok := match c with
                | Some CDrop => (cnt_of s a <=? 0) && disjoint (lst_of (o_snap s) a) (lst_of (o_pend s) a)
                | _ => true
                end in
      guard ok (mk04 (o_cnt s) (o_alive s) (o_must s) (a :: o_notified s) (o_atret s) (o_tgt s) (o_pend s) (o_snap s) (o_kids s) (o_slabkid s))
  | ERunRet _ =>
      (* everything that lost its last owner is terminated; a terminated parent's slab children too *)
      let ok := subset (o_must s) (o_notified s) &&
                forallb (fun pk => negb (nmem (fst pk) (o_notified s)) || subset (snd pk) (o_notified s)) (o_kids s) in
      guard ok (mk04 (o_cnt s) (o_alive s) [] (o_notified s) (o_notified s) (o_tgt s) (o_pend s) (o_snap s) (o_kids s) (o_slabkid s))
  | ESlabLen p n =>
      let kids := lst_of (o_kids s) p in
      let lo := Z.of_nat (length (filter (fun k => negb (nmem k (o_notified s))) kids)) in
      let hi := Z.of_nat (length (filter (fun k => negb (nmem k (o_atret s))) kids)) in
      guard ((lo <=? n) && (n <=? hi)) s
  | _ => Some s
  end.

Definition C04_ok (t : list ev) : bool := fold_mon step04 (fun _ => true) i04 t.

(* ------------------------------------------------------------------ *)
(** * C05: a Ret handler is invoked exactly once *)

Record s05 := mk05 {
  r_new : list N;
  r_sent : list (N * N);
  r_inv : list (N * option N);
  r_to : list (N * (N * bool));       (* ret -> (call uid, some-only) *)
  r_callsub : list N;                 (* call uids already queued *)
  r_prev : option ev;
  r_tvar : list ((tk * N) * N);       (* timer variable -> closure held by that timer *)
  r_tlive : list N }.                 (* timer closures neither run nor dropped *)

Definition i05 : s05 := mk05 [] [] [] [] [] None [] [].

Definition tk_eqb5 (a b : tk) : bool :=
  match a, b with TFixed, TFixed | TMax, TMax | TMin, TMin => true | _, _ => false end.

Fixpoint tv_get (l : list ((tk * N) * N)) (k : tk) (v : N) : option N :=
  match l with
  | [] => None
  | ((k', v'), u) :: r => if tk_eqb5 k k' && N.eqb v v' then Some u else tv_get r k v
  end.

Fixpoint ret_of_call (l : list (N * (N * bool))) (u : N) : option (N * bool) :=
  match l with
  | [] => None
  | (r, (v, b)) :: rest => if N.eqb u v then Some (r, b) else ret_of_call rest u
  end.

Definition opt_n_eqb (a b : option N) : bool :=
  match a, b with Some x, Some y => N.eqb x y | None, None => true | _, _ => false end.

Definition step05 (s : s05) (e : ev) : option s05 :=
  (* a ret!() call is immediately followed by the handler invocation with that value *)
  let adj := match r_prev s with
             | Some (ERetSent r v) => match e with ERet r' (Some v') => N.eqb r r' && N.eqb v v' | _ => false end
             | _ => true
             end in
  if negb adj then None else
  let s := mk05 (r_new s) (r_sent s) (r_inv s) (r_to s) (r_callsub s) (Some e) (r_tvar s) (r_tlive s) in
  match e with
  | ERetNew r => guard (negb (nmem r (r_new s))) (mk05 (r :: r_new s) (r_sent s) (r_inv s) (r_to s) (r_callsub s) (r_prev s) (r_tvar s) (r_tlive s))
  | ERetTo r u b => Some (mk05 (r_new s) (r_sent s) (r_inv s) (nset (r_to s) r (u, b)) (r_callsub s) (r_prev s) (r_tvar s) (r_tlive s))
  | ERetSent r v =>
      guard (nmem r (r_new s) && match nget (r_sent s) r with None => true | _ => false end
             && match nget (r_inv s) r with None => true | _ => false end)
            (mk05 (r_new s) (nset (r_sent s) r v) (r_inv s) (r_to s) (r_callsub s) (r_prev s) (r_tvar s) (r_tlive s))
  | ERet r m =>
      guard (nmem r (r_new s) && match nget (r_inv s) r with None => true | _ => false end
             && opt_n_eqb m (nget (r_sent s) r))
            (mk05 (r_new s) (r_sent s) (nset (r_inv s) r m) (r_to s) (r_callsub s) (r_prev s) (r_tvar s) (r_tlive s))
  | ESub QMain u _ =>
      match ret_of_call (r_to s) u with
      | Some (r, some) =>
          guard (negb (nmem u (r_callsub s)) &&
                 match nget (r_inv s) r with
                 | Some (Some _) => true
                 | Some None => negb some
                 | None => false
                 end)
                (mk05 (r_new s) (r_sent s) (r_inv s) (r_to s) (u :: r_callsub s) (r_prev s) (r_tvar s) (r_tlive s))
      | None => Some s
      end
  | EMeth _ u _ =>
      match ret_of_call (r_to s) u with
      | Some _ => guard (nmem u (r_callsub s)) s
      | None => Some s
      end
  | ESub QTimer u _ => Some (mk05 (r_new s) (r_sent s) (r_inv s) (r_to s) (r_callsub s) (r_prev s) (r_tvar s) (u :: r_tlive s))
  | ETimerVar k v u => Some (mk05 (r_new s) (r_sent s) (r_inv s) (r_to s) (r_callsub s) (r_prev s) (((k, v), u) :: r_tvar s) (r_tlive s))
  | ERun u _ _ | EDrop u _ _ => Some (mk05 (r_new s) (r_sent s) (r_inv s) (r_to s) (r_callsub s) (r_prev s) (r_tvar s) (nremove u (r_tlive s)))
  | ETimerDel k v true =>
      (* a deleted timer's closure -- and every Ret it captured -- is released at the deletion *)
      guard (match tv_get (r_tvar s) k v with Some u => negb (nmem u (r_tlive s)) | None => true end) s
  | ELeak k _ => if N.eqb k LK_RET then None else Some s
  | _ => Some s
  end.

(* at the end every Ret created has been invoked (a leaked one was reported by ELeak above) *)
Definition fin05 (s : s05) : bool :=
  forallb (fun r => match nget (r_inv s) r with Some _ => true | None => false end) (r_new s)
  && match r_prev s with Some (ERetSent _ _) => false | _ => true end.

Definition C05_ok (t : list ev) : bool := fold_mon step05 fin05 i05 t.

(* ------------------------------------------------------------------ *)
(** * C16 (logic part): everything is released at most once, not before it exists, and nothing leaks *)

Definition created16 (e : ev) : option (N * N) :=
  match e with
  | EClo u _ => Some (LK_CLO, u)
  | EReady a => Some (LK_VAL, a)
  | ERetNew r => Some (LK_RET, r)
  | EActor a => Some (LK_NOTIFY, a)
  | ETokNew t => Some (LK_TOK, t)
  | EFwdNew f => Some (LK_FWD, f)
  | EOrphNew a => Some (LK_ORPH, a)
  | _ => None
  end.

Definition consumed16 (e : ev) : option (N * N) :=
  match e with
  | ERun u _ _ | EMeth _ u _ | EPrep _ u _ | EDrop u _ _ => Some (LK_CLO, u)
  | EValDrop a => Some (LK_VAL, a)
  | ERet r _ => Some (LK_RET, r)
  | ENotify a _ => Some (LK_NOTIFY, a)
  | ETokDrop t => Some (LK_TOK, t)
  | EFwdFree f => Some (LK_FWD, f)
  | EOrphDrop a => Some (LK_ORPH, a)
  | _ => None
  end.

Definition p_eqb (x y : N * N) : bool := N.eqb (fst x) (fst y) && N.eqb (snd x) (snd y).

Fixpoint p_mem (x : N * N) (l : list (N * N)) : bool :=
  match l with [] => false | y :: r => p_eqb x y || p_mem x r end.

Fixpoint p_remove (x : N * N) (l : list (N * N)) : list (N * N) :=
  match l with [] => [] | y :: r => if p_eqb x y then r else y :: p_remove x r end.

(* state: the multiset of live objects *)
Definition step16 (live : list (N * N)) (e : ev) : option (list (N * N)) :=
  match e with
  | ELeak _ _ => None
  | EBad c => if N.leb 900 c then None else Some live
  | EModel c _ => if N.eqb c M_UAF then None else Some live
  | _ =>
      let live1 := match created16 e with Some p => p :: live | None => live end in
      match consumed16 e with
      | Some p => if p_mem p live1 then Some (p_remove p live1) else None
      | None => Some live1
      end
  end.

Definition C16_ok (t : list ev) : bool := fold_mon step16 (fun _ => true) [] t.

(* ------------------------------------------------------------------ *)
(** * C20: one Open and one Close record per actor; filter *)

Record s20 := mk20 {
  l_has : bool;
  l_filt : Z;
  l_ids : list (N * Z);               (* actor -> LogID, when its Open record was seen *)
  l_last : Z;                         (* last id handed out in this Stakker *)
  l_body : option N;                  (* actor whose method/prep body is running *)
  l_prev : option ev;
  l_span : bool }.                    (* the previous event is an Open/Close record of the runtime *)

Definition i20 : s20 := mk20 false 0 [] 0 None None false.

Definition allows20 (s : s20) (lvl : Z) : bool :=
  match logfilter_allows (l_filt s) lvl with Some b => b | None => false end.

Definition filter20 (lvls : list Z) : Z :=
  fold_left (fun acc l => Z.lor acc (match logfilter_from l with Some v => v | None => 0 end)) lvls 0.

Definition marker20 (c : cause) : N :=
  match c with CStop => 0%N | CFail _ => 1%N | CKill _ => 2%N | CDrop => 3%N end.

Definition is_user_level (l : Z) : bool := negb (l =? LOGLEVEL_OPEN) && negb (l =? LOGLEVEL_CLOSE).

Definition step20 (s : s20) (e : ev) : option s20 :=
  let deliver lvl := l_has s && allows20 s lvl in
  (* a record answering the previous event's Core::log call *)
  let user_rec := match l_prev s, e with
                  | Some (ELogReq id lvl), ELog id' lvl' 0 0%N => (id =? id') && (lvl =? lvl')
                  | _, _ => false
                  end in
  (* a span record (Open / Close) produced by the runtime itself *)
  let span_prev := match l_prev s with
                   | Some (ELog _ lvl _ mk) => if l_span s then Some (lvl, mk) else None
                   | _ => None
                   end in
  (* obligations created by the previous event *)
  let ok_prev :=
    match l_prev s with
    | Some (ELogReq id lvl) => Bool.eqb user_rec (deliver lvl)
    | _ => match span_prev with
           | Some (lvl, _) => if lvl =? LOGLEVEL_OPEN then match e with EActor _ => true | _ => false end
                              else match e with ENotify _ (Some _) => true | _ => false end
           | None => true
           end
    end in
  if negb ok_prev then None else
  let s1 := mk20 (l_has s) (l_filt s) (l_ids s) (l_last s) (l_body s) (Some e) false in
  match e with
  | ENew _ => Some (mk20 false 0 (l_ids s) 0 None (Some e) false)
  | ESetLogger lvls => Some (mk20 true (filter20 lvls) (l_ids s) (l_last s) (l_body s) (Some e) false)
  | ESetFilter lvls => Some (mk20 (l_has s) (filter20 lvls) (l_ids s) (l_last s) (l_body s) (Some e) false)
  | EMeth a _ _ | EPrep a _ _ => Some (mk20 (l_has s) (l_filt s) (l_ids s) (l_last s) (Some a) (Some e) false)
  | ERun _ _ _ => Some (mk20 (l_has s) (l_filt s) (l_ids s) (l_last s) None (Some e) false)
  | EEnd _ => Some (mk20 (l_has s) (l_filt s) (l_ids s) (l_last s) None (Some e) false)
  | ELog id lvl parent mk =>
      if user_rec then guard (deliver lvl) s1
      else if N.eqb mk 9 then guard (l_has s && (id =? 0) && (lvl =? LOGLEVEL_INFO)) s1
      else if lvl =? LOGLEVEL_OPEN then
        let par_ok := match l_body s with
                      | Some p => match nget (l_ids s) p with Some pid => parent =? pid | None => true end
                      | None => parent =? 0
                      end in
        guard (deliver lvl && negb (id =? 0) && (l_last s <? id) && par_ok)
              (mk20 (l_has s) (l_filt s) (l_ids s) id (l_body s) (Some e) true)
      else if lvl =? LOGLEVEL_CLOSE then
        guard (deliver lvl) (mk20 (l_has s) (l_filt s) (l_ids s) (l_last s) (l_body s) (Some e) true)
      else None
  | EActor a =>
      match l_prev s, span_prev with
      | Some (ELog id _ _ _), Some (lvl, _) =>
          guard (lvl =? LOGLEVEL_OPEN) (mk20 (l_has s) (l_filt s) (nset (l_ids s) a id) (l_last s) (l_body s) (Some e) false)
      | _, _ => guard (negb (deliver LOGLEVEL_OPEN)) s1
      end
  | ENotify a (Some c) =>
      match l_prev s, span_prev with
      | Some (ELog id _ _ _), Some (lvl, mk) =>
          guard ((lvl =? LOGLEVEL_CLOSE) && N.eqb mk (marker20 c)
                 && match nget (l_ids s) a with Some i => id =? i | None => true end) s1
      | _, _ => guard (negb (deliver LOGLEVEL_CLOSE)) s1
      end
  | ELogCheck lvl b => guard (Bool.eqb b (allows20 s lvl)) s1
  | _ => Some s1
  end.

Definition fin20 (s : s20) : bool :=
  match l_prev s with
  | Some (ELogReq _ lvl) => negb (l_has s && allows20 s lvl)
  | Some (ELog _ _ _ _) => negb (l_span s)
  | _ => true
  end.

Definition C20_ok (t : list ev) : bool := fold_mon step20 fin20 i20 t.

(* ------------------------------------------------------------------ *)
(** * C05, second conjunct: the call behind a ret_to! / ret_some_to! Ret is not lost

    Once the Ret is resolved its target method call travels through the main queue like any other call; it may
    wait in the Prep queue of the target; it may be discarded only because the target is terminated (or the whole
    queue is torn down): after such a discard the termination notification of the target must come before
    anything else starts.  (The first conjunct, [C05_ok], speaks about the Ret's own handler.) *)

Record s05c := mk05c {
  y_tgt : list (N * N);          (* call uid -> target actor *)
  y_ret : list N;                (* uids of the calls kept inside ret_to! / ret_some_to! Rets *)
  y_phase : list (N * N);        (* actor -> 1 Prep, 2 Ready, 3 Zombie *)
  y_tear : bool;
  y_owed : list N }.

Definition i05c : s05c := mk05c [] [] [] false [].

Definition step05c (s : s05c) (e : ev) : option s05c :=
  let starts := match e with ERun _ _ _ | EMeth _ _ _ | EPrep _ _ _ | ERunRet _ => true | _ => false end in
  if starts && negb (nil_b (y_owed s)) then None else
  match e with
  | ENew _ | EDropBegin => Some (mk05c (y_tgt s) (y_ret s) (y_phase s) true (y_owed s))
  | ERunBegin _ _ => Some (mk05c (y_tgt s) (y_ret s) (y_phase s) false (y_owed s))
  | ETarget u a _ => Some (mk05c (nset (y_tgt s) u a) (y_ret s) (y_phase s) (y_tear s) (y_owed s))
  | ERetTo _ u _ => Some (mk05c (y_tgt s) (u :: y_ret s) (y_phase s) (y_tear s) (y_owed s))
  | EActor a => Some (mk05c (y_tgt s) (y_ret s) (nset (y_phase s) a 1%N) (y_tear s) (y_owed s))
  | EReady a => Some (mk05c (y_tgt s) (y_ret s) (nset (y_phase s) a 2%N) (y_tear s) (y_owed s))
  | ENotify a _ => Some (mk05c (y_tgt s) (y_ret s) (nset (y_phase s) a 3%N) (y_tear s) (nremove a (y_owed s)))
  | EDrop u (Some _) _ =>
      if nmem u (y_ret s) then
        match nget (y_tgt s) u with
        | Some a =>
            if y_tear s || N.eqb (phase_of (y_phase s) a) 3 || nmem a (y_owed s) then Some s
            else Some (mk05c (y_tgt s) (y_ret s) (y_phase s) (y_tear s) (a :: y_owed s))
        | None => Some s
        end
      else Some s
  | _ => Some s
  end.

Definition C05_calls_ok (t : list ev) : bool := fold_mon step05c (fun s => nil_b (y_owed s)) i05c t.

(* ------------------------------------------------------------------ *)
(** * C16 split by object kind (C16_ok = C16_flags_ok && the at-most-once monitor of every kind: C16Proofs.v) *)

(* the release monitor of C16 restricted to the object kinds selected by [K]: events about other kinds are ignored *)
Definition step16k (K : N -> bool) (live : list (N * N)) (e : ev) : option (list (N * N)) :=
  let live1 := match created16 e with Some p => if K (fst p) then p :: live else live | None => live end in
  match consumed16 e with
  | Some p => if K (fst p) then (if p_mem p live1 then Some (p_remove p live1) else None) else Some live1
  | None => Some live1
  end.

Definition C16_once_ok (K : N -> bool) (t : list ev) : bool := fold_mon (step16k K) (fun _ => true) [] t.

(* no leak report, no "impossible" code, no use of a freed actor cell *)
Definition flag16 (e : ev) : bool :=
  match e with
  | ELeak _ _ => false
  | EBad c => negb (N.leb 900 c)
  | EModel c _ => negb (N.eqb c M_UAF)
  | _ => true
  end.
Definition C16_flags_ok (t : list ev) : bool := forallb flag16 t.

(* closures, actor values, user Rets, termination notifiers *)
Definition K16_lin (k : N) : bool := N.eqb k LK_CLO || N.eqb k LK_VAL || N.eqb k LK_RET || N.eqb k LK_NOTIFY.
