(** Layer R proofs: C04, first clause: an actor is never notified Dropped while an owner exists.

    [cle]: strong counts of existing cells never increase in a step, except through owned() / kill! on a handle that
    is in scope.  [M0]: whenever a deferred terminate(Dropped) of actor a is pending anywhere (the internal item in
    the main queue or about to run, the termination itself, the notifier invocation with cause Dropped) the count
    field of a's cell is 0, hence (owner invariant) no owner handle of a exists and no visible owner is left. *)
From Coq Require Import ZArith NArith List Bool Lia.
From Stk Require Import Lib.U Gen.SrcCount Gen.SrcCore Gen.SrcLog R.Syntax R.Rt R.Mon R.Shape R.Eff R.Tags R.Mono R.Count
  R.Nest R.C15Proofs R.C20Proofs R.Calls R.CallInv R.Own R.OwnLaw R.OwnVis R.C04Mon R.C04Base.
Import ListNotations.
Local Open Scope Z_scope.

Arguments submit : simpl never.
Arguments push_main : simpl never.
Arguments timer_add : simpl never.
Arguments emit : simpl never.
Arguments upd_actor : simpl never.
Arguments ref_clone : simpl never.
Arguments new_actor : simpl never.
Arguments log_rec : simpl never.
Arguments tok_script : simpl never.
Arguments target_ev : simpl never.
Arguments push_frame : simpl never.

(* ------------------------------------------------------------------ *)
(** * Strong counts do not grow by themselves *)

Definition cle1 (a : N) (s s' : st) : Prop :=
  forall y, aget (actors s) a = Some y -> exists y', aget (actors s') a = Some y' /\ cnt (a_strong y') <= cnt (a_strong y).

Definition cle (s s' : st) : Prop := forall a, cle1 a s s'.

Lemma cle_refl s : cle s s. Proof. intros a y A. exists y. split; auto; lia. Qed.
Lemma cle_trans s1 s2 s3 : cle s1 s2 -> cle s2 s3 -> cle s1 s3.
Proof. intros A B a y E. destruct (A a y E) as (y2 & E2 & L2). destruct (B a y2 E2) as (y3 & E3 & L3). exists y3. split; auto; lia. Qed.
Lemma cle1_trans a s1 s2 s3 : cle1 a s1 s2 -> cle1 a s2 s3 -> cle1 a s1 s3.
Proof. intros A B y E. destruct (A y E) as (y2 & E2 & L2). destruct (B y2 E2) as (y3 & E3 & L3). exists y3. split; auto; lia. Qed.
Lemma cle_same s s' : actors s' = actors s -> cle s s'.
Proof. intros E a y A. rewrite E. exists y. split; auto; lia. Qed.
Lemma cle_opres s s' : opres s s' -> cle s s'.
Proof. intros P a y A. destruct (opres_some _ _ _ _ P A) as (y' & A' & (S & _)). exists y'. split; auto. rewrite S. lia. Qed.

Lemma cle_upd s p y z : aget (actors s) p = Some z -> cnt (a_strong y) <= cnt (a_strong z) -> cle s (upd_actor s p y).
Proof.
  intros E L a w A. unfold upd_actor. cbn [actors set_actors]. destruct (N.eq_dec p a) as [<-|NE].
  - rewrite aget_aset_eq. rewrite E in A. inversion A; subst. exists y. split; auto.
  - rewrite aget_aset_neq by auto. exists w. split; auto; lia.
Qed.

Lemma cle_fresh s p y : aget (actors s) p = None -> cle s (upd_actor s p y).
Proof.
  intros E a w A. unfold upd_actor. cbn [actors set_actors]. assert (p <> a) by (intros ->; congruence).
  rewrite aget_aset_neq by auto. exists w. split; auto; lia.
Qed.

(* an update of another cell *)
Lemma cle1_other a s p y : p <> a -> cle1 a s (upd_actor s p y).
Proof. intros NE w A. unfold upd_actor. cbn [actors set_actors]. rewrite aget_aset_neq by auto. exists w. split; auto; lia. Qed.

Lemma cle_new_actor s p nt parent vis : aget (actors s) p = None -> cle s (new_actor s p nt parent vis).
Proof.
  intros E a w A. assert (p <> a) by (intros ->; congruence).
  rewrite new_actor_other by auto. exists w. split; auto; lia.
Qed.

Lemma take_cle s h o s' : take s h = (o, s') -> cle s s'.
Proof. intros T. apply cle_same. apply (take_same _ _ _ _ T). Qed.

Lemma cnt_dec_le v r z : srange v -> count_dec v = Some (r, z) -> cnt r <= cnt v.
Proof.
  intros S. unfold srange, cnt in *. unfold count_dec. destruct count_consts as (_ & I & M). rewrite M, I.
  destruct ((v <? 4) || (v >=? 18446744073709551612)); [intros Q; inversion Q; subst; lia|].
  unfold csub. destruct (4 <=? v) eqn:G0; zb; [|discriminate]. simpl. intros Q; inversion Q; subst. lia.
Qed.



Lemma actors_set_alive s v : actors (set_alive s v) = actors s. Proof. reflexivity. Qed.
Lemma actors_set_now s v : actors (set_now s v) = actors s. Proof. reflexivity. Qed.
Lemma actors_set_start s v : actors (set_start s v) = actors s. Proof. reflexivity. Qed.
Lemma actors_set_mainq s v : actors (set_mainq s v) = actors s. Proof. reflexivity. Qed.
Lemma actors_set_lazyq s v : actors (set_lazyq s v) = actors s. Proof. reflexivity. Qed.
Lemma actors_set_idleq s v : actors (set_idleq s v) = actors s. Proof. reflexivity. Qed.
Lemma actors_set_timers s v : actors (set_timers s v) = actors s. Proof. reflexivity. Qed.
Lemma actors_set_tnext s v : actors (set_tnext s v) = actors s. Proof. reflexivity. Qed.
Lemma actors_set_tvars s v : actors (set_tvars s v) = actors s. Proof. reflexivity. Qed.
Lemma actors_set_recreate s v : actors (set_recreate s v) = actors s. Proof. reflexivity. Qed.
Lemma actors_set_fwds s v : actors (set_fwds s v) = actors s. Proof. reflexivity. Qed.
Lemma actors_set_env s v : actors (set_env s v) = actors s. Proof. reflexivity. Qed.
Lemma actors_set_frames s v : actors (set_frames s v) = actors s. Proof. reflexivity. Qed.
Lemma actors_set_nuid s v : actors (set_nuid s v) = actors s. Proof. reflexivity. Qed.
Lemma actors_set_logseq s v : actors (set_logseq s v) = actors s. Proof. reflexivity. Qed.
Lemma actors_set_logfilter s v : actors (set_logfilter s v) = actors s. Proof. reflexivity. Qed.
Lemma actors_set_haslogger s v : actors (set_haslogger s v) = actors s. Proof. reflexivity. Qed.
Lemma actors_set_shut s v : actors (set_shut s v) = actors s. Proof. reflexivity. Qed.
Lemma actors_set_tr s v : actors (set_tr s v) = actors s. Proof. reflexivity. Qed.
Lemma actors_emit s e : actors (emit s e) = actors s. Proof. reflexivity. Qed.
Lemma actors_push_main s c : actors (push_main s c) = actors s. Proof. reflexivity. Qed.
Lemma actors_push_frame s c l : actors (push_frame s c l) = actors s. Proof. reflexivity. Qed.
Lemma actors_timer_add s k v t c : actors (timer_add s k v t c) = actors s. Proof. reflexivity. Qed.
Lemma actors_submit s q c : actors (submit s q c) = actors s. Proof. unfold submit. destruct q; reflexivity. Qed.

(* generic composition: [cle s0 E] for a state expression E built from the helpers of Rt.v *)
Ltac cle_tac :=
  repeat first
    [ match goal with |- cle ?x ?y => constr_eq x y; apply cle_refl end
    | match goal with C : cle ?x ?y |- cle ?x2 ?y2 => constr_eq x x2; constr_eq y y2; exact C end
    | match goal with
      | |- cle _ (emit ?s _) => apply (cle_trans _ s); [ | apply cle_same; apply actors_emit ]
      | |- cle _ (push_main ?s _) => apply (cle_trans _ s); [ | apply cle_same; apply actors_push_main ]
      | |- cle _ (push_frame ?s _ _) => apply (cle_trans _ s); [ | apply cle_same; apply actors_push_frame ]
      | |- cle _ (submit ?s ?q _) => apply (cle_trans _ s); [ | apply cle_same; apply actors_submit ]
      | |- cle _ (timer_add ?s _ _ _ _) => apply (cle_trans _ s); [ | apply cle_same; apply actors_timer_add ]
      | |- cle _ (target_ev ?s _) => apply (cle_trans _ s); [ | apply cle_same; apply target_ev_same ]
      | |- cle _ (log_rec ?s _ _ _ _) => apply (cle_trans _ s); [ | apply cle_same; apply log_rec_actors ]
      | |- cle _ (ref_clone ?s _) => apply (cle_trans _ s); [ | apply cle_opres; apply opres_ref_clone ]
      | |- cle _ (set_alive ?s _) => apply (cle_trans _ s); [ | apply cle_same; apply actors_set_alive ]
      | |- cle _ (set_now ?s _) => apply (cle_trans _ s); [ | apply cle_same; apply actors_set_now ]
      | |- cle _ (set_start ?s _) => apply (cle_trans _ s); [ | apply cle_same; apply actors_set_start ]
      | |- cle _ (set_mainq ?s _) => apply (cle_trans _ s); [ | apply cle_same; apply actors_set_mainq ]
      | |- cle _ (set_lazyq ?s _) => apply (cle_trans _ s); [ | apply cle_same; apply actors_set_lazyq ]
      | |- cle _ (set_idleq ?s _) => apply (cle_trans _ s); [ | apply cle_same; apply actors_set_idleq ]
      | |- cle _ (set_timers ?s _) => apply (cle_trans _ s); [ | apply cle_same; apply actors_set_timers ]
      | |- cle _ (set_tnext ?s _) => apply (cle_trans _ s); [ | apply cle_same; apply actors_set_tnext ]
      | |- cle _ (set_tvars ?s _) => apply (cle_trans _ s); [ | apply cle_same; apply actors_set_tvars ]
      | |- cle _ (set_recreate ?s _) => apply (cle_trans _ s); [ | apply cle_same; apply actors_set_recreate ]
      | |- cle _ (set_fwds ?s _) => apply (cle_trans _ s); [ | apply cle_same; apply actors_set_fwds ]
      | |- cle _ (set_env ?s _) => apply (cle_trans _ s); [ | apply cle_same; apply actors_set_env ]
      | |- cle _ (set_frames ?s _) => apply (cle_trans _ s); [ | apply cle_same; apply actors_set_frames ]
      | |- cle _ (set_nuid ?s _) => apply (cle_trans _ s); [ | apply cle_same; apply actors_set_nuid ]
      | |- cle _ (set_logseq ?s _) => apply (cle_trans _ s); [ | apply cle_same; apply actors_set_logseq ]
      | |- cle _ (set_logfilter ?s _) => apply (cle_trans _ s); [ | apply cle_same; apply actors_set_logfilter ]
      | |- cle _ (set_haslogger ?s _) => apply (cle_trans _ s); [ | apply cle_same; apply actors_set_haslogger ]
      | |- cle _ (set_shut ?s _) => apply (cle_trans _ s); [ | apply cle_same; apply actors_set_shut ]
      | |- cle _ (set_tr ?s _) => apply (cle_trans _ s); [ | apply cle_same; apply actors_set_tr ]
      | |- cle _ (if ?b then _ else _) => destruct b
      | |- cle _ ?s' =>
          match goal with
          | E : take ?s _ = (_, s') |- _ => apply (cle_trans _ s); [ | apply (take_cle _ _ _ _ E) ]
          | E : take_caps _ ?s = (_, s') |- _ => apply (cle_trans _ s); [ | apply cle_same; apply (take_caps_same _ _ _ _ E) ]
          | E : bind ?s _ _ = (_, s') |- _ => apply (cle_trans _ s); [ | apply cle_same; revert E; unfold bind; repeat dest_match; intros Q; inversion Q; reflexivity ]
          | E : bad ?s _ = (_, s') |- _ => apply (cle_trans _ s); [ | apply cle_same; unfold bad in E; inversion E; reflexivity ]
          | E : inst _ _ ?s = (_, s') |- _ => apply (cle_trans _ s); [ | apply cle_same; apply (inst_same _ _ _ _ _ E) ]
          | E : inst_call _ _ ?s = (_, s') |- _ => apply (cle_trans _ s); [ | apply cle_same; apply (inst_call_same _ _ _ _ _ E) ]
          | E : inst_nocaps _ _ ?s = (_, s') |- _ => apply (cle_trans _ s); [ | apply cle_same; apply (inst_nocaps_same _ _ _ _ _ E) ]
          | E : mk_notifier ?s _ _ = (_, s') |- _ => apply (cle_trans _ s); [ | apply cle_opres; apply (mk_notifier_O 0 _ _ _ _ _ E) ]
          end
      end ].

Lemma tok_script_actors script : forall s, actors (tok_script s script) = actors s.
Proof.
  unfold tok_script. induction script as [|c r IH]; intros s; [reflexivity|]. cbn [fold_left].
  destruct (inst_env c KPlain s) as [ci s1] eqn:I. rewrite IH. unfold submit. cbn [actors set_mainq push_main].
  unfold inst_env in I. destruct (take_env_caps (clo_caps c) s) as [caps s2] eqn:T. inversion I; subst.
  unfold emit. cbn [actors set_tr set_nuid set_mainq]. apply (take_env_caps_same _ _ _ _ T).
Qed.

(* which acts raise a strong count *)
Definition raises (act : act) (s : st) (a : N) : Prop :=
  match act with
  | AOwned h _ | AKillAsync h _ => lookup s h = Some (HOwn a)
  | _ => False
  end.

Lemma do_act_cle act s pre s' :
  (forall c y, aget (actors s) c = Some y -> srange (a_strong y)) ->
  do_act act s = (pre, s') -> forall a, cle1 a s s' \/ raises act s a.
Proof.
  intros SR. unfold do_act. destruct act.
  all: try solve [repeat dest_match; intros Q; try injp Q; intros a0; left; revert a0;
                  match goal with |- forall a1, cle1 a1 ?x ?y => change (cle x y) end; cle_tac].
  - (* ANewActor *)
    destruct (has_core s); [|intros Q; injp Q; intros aa; left; revert aa; change (cle s (emit s (EBad 10))); cle_tac].
    destruct (aget (actors s) a) eqn:AA; [intros Q; injp Q; intros aa; left; revert aa; change (cle s (emit s (EBad 10))); cle_tac|].
    destruct (mk_notifier s a n) as [nt s1] eqn:MK. intros Q aa. left. revert aa. change (cle s s').
    destruct (mk_notifier_O 0 _ _ _ _ _ MK) as (_ & _ & MP).
    apply (cle_trans _ s1); [apply cle_opres; exact MP|].
    apply (cle_trans _ (new_actor s1 a nt (ctx_logid s) true)); [apply cle_new_actor; apply (opres_none _ _ _ MP AA)|].
    apply cle_same. revert Q. unfold bind. repeat dest_match; intros Q; inversion Q; reflexivity.
  - (* AKillAsync *)
    destruct (lookup s h) as [[p|p|p|r|f|t sc]|] eqn:LK;
      try solve [intros Q; injp Q; intros aa; left; revert aa; change (cle s (emit s (EBad 16))); cle_tac].
    destruct (aget (actors s) p) as [y|] eqn:AY; [|intros Q; injp Q; intros aa; left; revert aa; change (cle s (emit s (EBad 16))); cle_tac].
    intros Q; injp Q. intros aa. destruct (N.eq_dec p aa) as [<-|NE]; [right; exact LK|]. left.
    set (s1 := upd_actor s p (with_strong y (oz (count_inc (a_strong y))))).
    apply (cle1_trans aa s s1); [apply cle1_other; exact NE|].
    clear NE. revert aa. match goal with |- forall a1, cle1 a1 ?x ?y => change (cle x y) end. cle_tac; try apply cle_refl.
  - (* AOwned *)
    destruct (lookup s h) as [[p|p|p|r|f|t sc]|] eqn:LK;
      try solve [intros Q; injp Q; intros aa; left; revert aa; change (cle s (emit s (EBad 17))); cle_tac].
    destruct (aget (actors s) p) as [y|] eqn:AY; [|intros Q; injp Q; intros aa; left; revert aa; change (cle s (emit s (EBad 17))); cle_tac].
    intros Q aa. destruct (N.eq_dec p aa) as [<-|NE]; [right; exact LK|]. left.
    set (s1 := upd_actor s p (with_strong y (oz (count_inc (a_strong y))))).
    apply (cle1_trans aa s s1); [apply cle1_other; exact NE|].
    clear NE. revert aa. match goal with |- forall a1, cle1 a1 ?x ?y => change (cle x y) end. cle_tac; try apply cle_refl.
  - (* AStore *)
    destruct (cur_ctx s) as [|p pr|]; try solve [intros Q; injp Q; intros aa; left; revert aa; change (cle s (emit s (EBad 21))); cle_tac].
    destruct pr; try solve [intros Q; injp Q; intros aa; left; revert aa; change (cle s (emit s (EBad 21))); cle_tac].
    destruct (aget (actors s) p) as [y|] eqn:AY; [|intros Q; injp Q; intros aa; left; revert aa; change (cle s (emit s (EBad 21))); cle_tac].
    destruct (a_state y) eqn:SA; try solve [intros Q; injp Q; intros aa; left; revert aa; change (cle s (emit s (EBad 21))); cle_tac].
    destruct (take s h) as [[v|] s1] eqn:T; intros Q; injp Q; intros aa; left; revert aa.
    + match goal with |- forall a1, cle1 a1 ?x ?y => change (cle x y) end.
      apply (cle_trans _ s1); [apply (take_cle _ _ _ _ T)|].
      apply (cle_upd s1 p _ y); [rewrite (proj1 (take_same _ _ _ _ T)); exact AY | simpl; lia].
    + match goal with |- forall a1, cle1 a1 ?x ?y => change (cle x y) end. apply (take_cle _ _ _ _ T).
  - (* ASlabAdd *)
    destruct (cur_ctx s) as [|p pr|] eqn:CC; try solve [intros Q; injp Q; intros aa; left; revert aa; change (cle s (emit s (EBad 22))); cle_tac].
    destruct pr; try solve [intros Q; injp Q; intros aa; left; revert aa; change (cle s (emit s (EBad 22))); cle_tac].
    destruct (alive s); try solve [intros Q; injp Q; intros aa; left; revert aa; change (cle s (emit s (EBad 22))); cle_tac].
    destruct (aget (actors s) p) as [px|] eqn:AP; try solve [intros Q; injp Q; intros aa; left; revert aa; change (cle s (emit s (EBad 22))); cle_tac].
    destruct (aget (actors s) a) eqn:AA; try solve [intros Q; injp Q; intros aa; left; revert aa; change (cle s (emit s (EBad 22))); cle_tac].
    destruct (a_state px) eqn:SP; try solve [intros Q; injp Q; intros aa; left; revert aa; change (cle s (emit s (EBad 22))); cle_tac].
    destruct (mk_notifier s a n) as [inner s1] eqn:MK.
    destruct (slab_insert slab snext a) as [[slab' nx'] key] eqn:SI.
    intros Q aa. left. revert aa. change (cle s s').
    destruct (mk_notifier_O 0 _ _ _ _ _ MK) as (_ & _ & MP).
    pose proof (opres_trans _ _ _ MP (opres_ref_clone s1 p)) as P2.
    set (s3 := new_actor (ref_clone s1 p) a (Ret a (RKSlab p key inner)) (a_logid px) false) in *.
    assert (C3 : cle s s3).
    { apply (cle_trans _ (ref_clone s1 p)); [apply cle_opres; exact P2 | apply cle_new_actor; apply (opres_none _ _ _ P2 AA)]. }
    assert (C4 : cle s (ref_clone s3 a)) by (apply (cle_trans _ s3); [exact C3 | apply cle_opres; apply opres_ref_clone]).
    assert (C5 : cle s (match aget (actors (ref_clone s3 a)) p with
                        | Some px' => upd_actor (ref_clone s3 a) p (with_state px' (SReady sh slab' nx'))
                        | None => ref_clone s3 a end)).
    { destruct (aget (actors (ref_clone s3 a)) p) as [px'|] eqn:A4; [|exact C4].
      apply (cle_trans _ (ref_clone s3 a)); [exact C4|]. apply (cle_upd _ p _ px' A4). simpl. lia. }
    eapply cle_trans; [exact C5|]. apply cle_same.
    revert Q. unfold bind. repeat dest_match; intros Q; inversion Q; reflexivity.
  - (* ASlabLen *)
    repeat dest_match; intros Q; injp Q; intros a1; left; revert a1;
      match goal with |- forall a2, cle1 a2 ?x ?y => change (cle x y) end; cle_tac.
Qed.

Ltac cle_goal := match goal with |- forall a1, cle1 a1 ?x ?y => change (cle x y) end.
Ltac cle_all := solve [intros Q; try injp Q; intros aa; left; revert aa; cle_goal; cle_tac].

Lemma cle_tok_script s0 s script : cle s0 s -> cle s0 (tok_script s script).
Proof. intros C. apply (cle_trans _ s); [exact C | apply cle_same; apply tok_script_actors]. Qed.

Lemma class_flags_actors s : actors (class_flags s) = actors s.
Proof.
  unfold class_flags. generalize (actors s) at 1 as all. intros all.
  generalize (actors s) at 1 as l. intros l. revert s. induction l as [|p l IH]; intros s; simpl; auto.
  rewrite IH. unfold emit_opt. destruct (class_flag all p); reflexivity.
Qed.

Lemma handle_cle m s pre s' :
  (forall c y, aget (actors s) c = Some y -> srange (a_strong y)) ->
  handle m s = (pre, s') ->
  forall a, cle1 a s s' \/ exists act l, m = MActs (act :: l) /\ raises act s a.
Proof.
  intros SR. destruct m; cbn [handle].
  - (* MTop *) unfold do_top. destruct o; repeat dest_match; cle_all.
  - (* MActs *)
    destruct l as [|act l]; [cle_all|].
    destruct (do_act act s) as [p s1] eqn:E. intros Q; injp Q. intros aa.
    destruct (do_act_cle _ _ _ _ SR E aa) as [C|R]; [left; exact C | right; eauto].
  - destruct (frames s) as [|fr rest]; cle_all.
  - destruct (frames s) as [|fr rest]; cle_all.
  - (* MRunItem *)
    unfold run_item. destruct c as [u i kd caps q]. destruct kd.
    + cle_all.
    + destruct (aget (actors s) a) as [y|] eqn:A; [destruct (a_state y) eqn:SA|]; try cle_all.
      intros Q; injp Q. intros aa; left; revert aa; cle_goal. apply (cle_upd _ _ _ y A). cbn [a_strong with_state with_rc]. lia.
    + destruct (aget (actors s) a) as [y|] eqn:A; [destruct (ob (count_is_prep (a_strong y)))|]; cle_all.
    + destruct (aget (actors s) p) as [y|] eqn:A; [destruct (a_state y) eqn:SA|]; try cle_all.
      * intros Q; injp Q. intros aa; left; revert aa; cle_goal. apply (cle_upd _ _ _ y A). cbn [a_strong with_state with_rc]. lia.
      * destruct (nth_error slab (N.to_nat key)) as [[child|nx]|]; try cle_all.
        intros Q; injp Q. intros aa; left; revert aa; cle_goal. apply (cle_upd _ _ _ y A). cbn [a_strong with_state with_rc]. lia.
    + cle_all.
    + cle_all.
  - unfold drop_item. destruct c as [u i kd caps q]. destruct kd; cle_all.
  - cle_all.
  - (* MDropVal *)
    unfold drop_val. destruct v; try cle_all.
    + repeat dest_match; cle_all.
    + intros Q; injp Q. intros aa; left; revert aa; cle_goal. apply cle_tok_script. cle_tac.
  - (* MDropOwn *)
    unfold drop_own. set (s0 := if logged then emit s (EOwnDrop a) else s).
    assert (C0 : cle s s0) by (unfold s0; destruct logged; cle_tac).
    assert (A0 : actors s0 = actors s) by (unfold s0; destruct logged; reflexivity).
    destruct (aget (actors s0) a) as [y|] eqn:AY.
    + destruct (count_dec (a_strong y)) as [[v z]|] eqn:CD.
      * assert (C1 : cle s (upd_actor s0 a (with_strong y v))).
        { apply (cle_trans _ s0); [exact C0|]. apply (cle_upd _ _ _ y AY). cbn [a_strong with_strong]. apply (cnt_dec_le _ _ _ (SR a y ltac:(rewrite <- A0; exact AY)) CD). }
        destruct z; intros Q; injp Q; intros aa; left; revert aa; cle_goal; cle_tac.
      * intros Q; injp Q; intros aa; left; revert aa; cle_goal; cle_tac.
    + intros Q; injp Q; intros aa; left; revert aa; cle_goal; cle_tac.
  - (* MDropRef *)
    unfold drop_ref. destruct (aget (actors s) a) as [y|] eqn:A; [|cle_all].
    destruct (a_freed y); [cle_all|]. destruct (minrc_drop (a_rc y)) as [[v z]|]; [|cle_all].
    destruct z.
    + destruct (state_drops a (a_state y) _) as [dl s2] eqn:SD. intros Q; injp Q.
      destruct (state_drops_h (HO 0) _ _ _ _ _ SD) as [-> _].
      intros aa; left; revert aa; cle_goal.
      eapply cle_trans; [|apply cle_same; reflexivity]. apply (cle_upd _ _ _ y A). cbn [a_strong].
      destruct (cnt_set _ STATE_ZOMBIE (SR _ _ A) (proj1 state_range)) as [_ CS]. rewrite CS. lia.
    + intros Q; injp Q. intros aa; left; revert aa; cle_goal. apply (cle_upd _ _ _ y A). cbn [a_strong with_state with_rc]. lia.
  - (* MRetInvoke *)
    unfold ret_invoke. destruct r as [rid k]. destruct k; repeat dest_match; cle_all.
  - cle_all.
  - cle_all.
  - cle_all.
  - cle_all.
  - (* MTerminate *)
    unfold terminate. destruct (aget (actors s) a) as [y|] eqn:A; [|cle_all].
    set (s0 := if a_freed y then emit s (EModel M_UAF a) else s).
    assert (C0 : cle s s0) by (unfold s0; destruct (a_freed y); cle_tac).
    assert (A0 : aget (actors s0) a = Some y) by (unfold s0; destruct (a_freed y); exact A).
    destruct (state_drops a (a_state y) _) as [dl s1] eqn:SD.
    assert (C1 : cle s s1).
    { destruct (state_drops_h (HO 0) _ _ _ _ _ SD) as [-> _].
      apply (cle_trans _ s0); [exact C0|]. apply (cle_upd _ _ _ y A0). cbn [a_strong].
      destruct (cnt_set _ STATE_ZOMBIE (SR _ _ A) (proj1 state_range)) as [_ CS]. rewrite CS. lia. }
    destruct (a_notify y); intros Q; injp Q; intros aa; left; revert aa; cle_goal; exact C1.
  - destruct (aget (actors s) a); cle_all.
  - (* MToReady *)
    destruct (aget (actors s) a) as [y|] eqn:A; [|cle_all].
    destruct (a_state y) eqn:SA; try cle_all.
    intros Q; injp Q. intros aa; left; revert aa; cle_goal.
    eapply cle_trans; [|apply cle_same; reflexivity]. apply (cle_upd _ _ _ y A). cbn [a_strong].
    destruct (cnt_set _ STATE_READY (SR _ _ A) (proj2 state_range)) as [_ CS]. rewrite CS. lia.
  - (* MNew *) unfold fresh_stakker. cle_all.
  - destruct idle; [destruct (idleq s)|]; cle_all.
  - destruct (t >? now (set_mainq s [])).
    + destruct (fire t (set_now (set_mainq s []) t)) as [fired s2] eqn:FI. unfold fire in FI. injection FI as ? ?; subst.
      cle_all.
    + cle_all.
  - repeat dest_match; cle_all.
  - repeat dest_match; cle_all.
  - cbv zeta. cle_all.
  - repeat dest_match; cle_all.
  - repeat dest_match; cle_all.
  - cle_all.
  - intros Q; injp Q. intros aa; left; revert aa; cle_goal.
    apply cle_same. cbn [actors set_tr]. apply class_flags_actors.
Qed.

(* ------------------------------------------------------------------ *)
(** * Deferred terminate(Dropped) items enter the main queue only through the last owner drop *)

Definition notterm (c : citem) : Prop := forall a, ci_kind c <> KTerm a.

Definition mqk (s s' : st) : Prop := forall c, In c (mainq s') -> In c (mainq s) \/ notterm c.

Lemma mqk_refl s : mqk s s. Proof. intros c H; auto. Qed.
Lemma mqk_trans s1 s2 s3 : mqk s1 s2 -> mqk s2 s3 -> mqk s1 s3.
Proof. intros A B c H. destruct (B c H) as [H2|N]; auto. Qed.
Lemma mqk_same s s' : mainq s' = mainq s -> mqk s s'.
Proof. intros E c H. rewrite E in H. auto. Qed.
Lemma mqk_push s c : notterm c -> mqk s (push_main s c).
Proof. intros N d H. unfold push_main in H. cbn [mainq set_mainq] in H. apply in_app_or in H as [H|[<-|[]]]; auto. Qed.
Lemma notterm_setq c q : notterm c -> notterm (ci_setq c q).
Proof. intros N a. destruct c; simpl in *. apply N. Qed.
Lemma mqk_submit s q c : notterm c -> mqk s (submit s q c).
Proof.
  intros N. unfold submit. destruct q; try (apply mqk_same; reflexivity).
  intros d H. unfold push_main in H. cbn [mainq set_mainq] in H. apply in_app_or in H as [H|[<-|[]]]; [left; exact H | right; apply notterm_setq; exact N].
Qed.
Lemma mqk_nil s s' : mainq s' = [] -> mqk s s'.
Proof. intros E c H. rewrite E in H. destruct H. Qed.

Lemma notterm_kind c k : ci_kind c = k -> (forall a, k <> KTerm a) -> notterm c.
Proof. intros E N a. rewrite E. apply N. Qed.

Lemma mainq_set_alive s v : mainq (set_alive s v) = mainq s. Proof. reflexivity. Qed.
Lemma mainq_set_now s v : mainq (set_now s v) = mainq s. Proof. reflexivity. Qed.
Lemma mainq_set_start s v : mainq (set_start s v) = mainq s. Proof. reflexivity. Qed.
Lemma mainq_set_lazyq s v : mainq (set_lazyq s v) = mainq s. Proof. reflexivity. Qed.
Lemma mainq_set_idleq s v : mainq (set_idleq s v) = mainq s. Proof. reflexivity. Qed.
Lemma mainq_set_timers s v : mainq (set_timers s v) = mainq s. Proof. reflexivity. Qed.
Lemma mainq_set_tnext s v : mainq (set_tnext s v) = mainq s. Proof. reflexivity. Qed.
Lemma mainq_set_tvars s v : mainq (set_tvars s v) = mainq s. Proof. reflexivity. Qed.
Lemma mainq_set_recreate s v : mainq (set_recreate s v) = mainq s. Proof. reflexivity. Qed.
Lemma mainq_set_actors s v : mainq (set_actors s v) = mainq s. Proof. reflexivity. Qed.
Lemma mainq_set_fwds s v : mainq (set_fwds s v) = mainq s. Proof. reflexivity. Qed.
Lemma mainq_set_env s v : mainq (set_env s v) = mainq s. Proof. reflexivity. Qed.
Lemma mainq_set_frames s v : mainq (set_frames s v) = mainq s. Proof. reflexivity. Qed.
Lemma mainq_set_nuid s v : mainq (set_nuid s v) = mainq s. Proof. reflexivity. Qed.
Lemma mainq_set_logseq s v : mainq (set_logseq s v) = mainq s. Proof. reflexivity. Qed.
Lemma mainq_set_logfilter s v : mainq (set_logfilter s v) = mainq s. Proof. reflexivity. Qed.
Lemma mainq_set_haslogger s v : mainq (set_haslogger s v) = mainq s. Proof. reflexivity. Qed.
Lemma mainq_set_shut s v : mainq (set_shut s v) = mainq s. Proof. reflexivity. Qed.
Lemma mainq_set_tr s v : mainq (set_tr s v) = mainq s. Proof. reflexivity. Qed.
Lemma mainq_emit s e : mainq (emit s e) = mainq s. Proof. reflexivity. Qed.
Lemma mainq_upd_actor s a y : mainq (upd_actor s a y) = mainq s. Proof. reflexivity. Qed.
Lemma mainq_push_frame s c l : mainq (push_frame s c l) = mainq s. Proof. reflexivity. Qed.
Lemma mainq_timer_add s k v t c : mainq (timer_add s k v t c) = mainq s. Proof. reflexivity. Qed.
Lemma mainq_ref_clone s a : mainq (ref_clone s a) = mainq s.
Proof. unfold ref_clone. destruct (aget (actors s) a) as [y|]; [destruct (a_freed y)|]; reflexivity. Qed.
Lemma mainq_log_rec s a b c d : mainq (log_rec s a b c d) = mainq s.
Proof. unfold log_rec. destruct (allows s b && haslogger s); reflexivity. Qed.
Lemma mainq_target_ev s ci : mainq (target_ev s ci) = mainq s.
Proof. unfold target_ev. destruct ci as [u i kd caps q]. destruct kd; reflexivity. Qed.
Lemma mainq_new_actor s a nt p v : mainq (new_actor s a nt p v) = mainq s.
Proof. unfold new_actor, log_rec. destruct (allows _ _ && haslogger _); destruct v; reflexivity. Qed.
Lemma mainq_take s h o s' : take s h = (o, s') -> mainq s' = mainq s.
Proof. unfold take. repeat dest_match; intros Q; inversion Q; reflexivity. Qed.
Lemma mainq_take_caps ids : forall s l s', take_caps ids s = (l, s') -> mainq s' = mainq s.
Proof.
  induction ids as [|h r IH]; simpl; intros s l s' E.
  - inversion E; reflexivity.
  - destruct (take s h) as [[v|] s1] eqn:T.
    + destruct (take_caps r s1) as [l2 s2] eqn:T2. inversion E; subst. rewrite (IH _ _ _ T2). eapply mainq_take; eauto.
    + rewrite (IH _ _ _ E). eapply mainq_take; eauto.
Qed.
Lemma mainq_take_env_caps ids : forall s l s', take_env_caps ids s = (l, s') -> mainq s' = mainq s.
Proof.
  induction ids as [|h r IH]; simpl; intros s l s' E.
  - inversion E; reflexivity.
  - destruct (aget (env s) h).
    + destruct (take_env_caps r (set_env s (adel (env s) h))) as [l2 s2] eqn:T2. inversion E; subst. rewrite (IH _ _ _ T2). reflexivity.
    + eapply IH; eauto.
Qed.
Lemma mainq_bind s h v l s' : bind s h v = (l, s') -> mainq s' = mainq s.
Proof. unfold bind. destruct (aget (env s) h); intros Q; inversion Q; reflexivity. Qed.
Lemma mainq_bad s c l s' : bad s c = (l, s') -> mainq s' = mainq s.
Proof. unfold bad. intros Q; inversion Q; reflexivity. Qed.
Lemma mainq_inst c mk s ci s' : inst c mk s = (ci, s') -> mainq s' = mainq s /\ ci_kind ci = mk (clo_body c).
Proof.
  unfold inst. destruct (take_caps (clo_caps c) s) as [caps s1] eqn:T. intros Q; inversion Q; subst.
  split; [|reflexivity]. rewrite mainq_emit, mainq_set_nuid. eapply mainq_take_caps; eauto.
Qed.
Lemma mainq_inst_call c mk s ci s' : inst_call c mk s = (ci, s') -> mainq s' = mainq s /\ ci_kind ci = mk (clo_body c).
Proof.
  unfold inst_call. destruct (inst c mk s) as [ci1 s1] eqn:I. intros Q; inversion Q; subst. rewrite mainq_target_ev. eapply mainq_inst; eauto.
Qed.
Lemma mainq_inst_nocaps c mk s ci s' : inst_nocaps c mk s = (ci, s') -> mainq s' = mainq s /\ ci_kind ci = mk (clo_body c).
Proof. unfold inst_nocaps. intros Q; inversion Q; split; reflexivity. Qed.
Lemma mainq_mk_notifier s a n r s' : mk_notifier s a n = (r, s') -> mainq s' = mainq s.
Proof.
  unfold mk_notifier. destruct n as [[hp c]|].
  - destruct (lookup s hp) as [v|]; [destruct (handle_actor v) as [p|]|].
    + destruct (inst_call c (fun b => KMeth p b None) (ref_clone s p)) as [ci s2] eqn:I.
      intros Q; inversion Q; subst. rewrite (proj1 (mainq_inst_call _ _ _ _ _ I)). apply mainq_ref_clone.
    + intros Q; inversion Q; subst. reflexivity.
    + intros Q; inversion Q; subst. reflexivity.
  - intros Q; inversion Q; subst. reflexivity.
Qed.

Lemma mqk_tok_script script : forall s0 s, mqk s0 s -> mqk s0 (tok_script s script).
Proof.
  unfold tok_script. induction script as [|c r IH]; intros s0 s H; [exact H|]. cbn [fold_left].
  destruct (inst_env c KPlain s) as [ci s1] eqn:I. apply IH.
  apply (mqk_trans _ s1).
  - apply (mqk_trans _ s); [exact H|]. apply mqk_same.
    unfold inst_env in I. destruct (take_env_caps (clo_caps c) s) as [caps s2] eqn:T. inversion I; subst.
    rewrite mainq_emit, mainq_set_nuid. eapply mainq_take_env_caps; eauto.
  - apply mqk_submit. unfold inst_env in I. destruct (take_env_caps (clo_caps c) s) as [caps s2]. inversion I; subst.
    intros a. simpl. discriminate.
Qed.

Ltac nt_tac :=
  first [ (intros ?; simpl; discriminate)
        | (eapply notterm_kind; [ first [ eapply mainq_inst; eassumption | eapply mainq_inst_call; eassumption
                                         | eapply mainq_inst_nocaps; eassumption ] | intros ?; discriminate ])
        | (match goal with |- notterm (as_call _ ?c _) => intros ?; destruct c; simpl; discriminate end) ].

Ltac mqk_tac :=
  repeat first
    [ match goal with |- mqk ?x ?y => constr_eq x y; apply mqk_refl end
    | match goal with C : mqk ?x ?y |- mqk ?x2 ?y2 => constr_eq x x2; constr_eq y y2; exact C end
    | match goal with
      | |- mqk _ (emit ?s _) => apply (mqk_trans _ s); [ | apply mqk_same; apply mainq_emit ]
      | |- mqk _ (push_main ?s _) => apply (mqk_trans _ s); [ | apply mqk_push; nt_tac ]
      | |- mqk _ (submit ?s _ _) => apply (mqk_trans _ s); [ | apply mqk_submit; nt_tac ]
      | |- mqk _ (push_frame ?s _ _) => apply (mqk_trans _ s); [ | apply mqk_same; apply mainq_push_frame ]
      | |- mqk _ (timer_add ?s _ _ _ _) => apply (mqk_trans _ s); [ | apply mqk_same; apply mainq_timer_add ]
      | |- mqk _ (target_ev ?s _) => apply (mqk_trans _ s); [ | apply mqk_same; apply mainq_target_ev ]
      | |- mqk _ (log_rec ?s _ _ _ _) => apply (mqk_trans _ s); [ | apply mqk_same; apply mainq_log_rec ]
      | |- mqk _ (ref_clone ?s _) => apply (mqk_trans _ s); [ | apply mqk_same; apply mainq_ref_clone ]
      | |- mqk _ (new_actor ?s _ _ _ _) => apply (mqk_trans _ s); [ | apply mqk_same; apply mainq_new_actor ]
      | |- mqk _ (upd_actor ?s _ _) => apply (mqk_trans _ s); [ | apply mqk_same; apply mainq_upd_actor ]
      | |- mqk _ (tok_script ?s _) => apply mqk_tok_script
      | |- mqk _ (set_mainq _ []) => apply mqk_nil; reflexivity
      | |- mqk _ (set_alive ?s _) => apply (mqk_trans _ s); [ | apply mqk_same; apply mainq_set_alive ]
      | |- mqk _ (set_now ?s _) => apply (mqk_trans _ s); [ | apply mqk_same; apply mainq_set_now ]
      | |- mqk _ (set_start ?s _) => apply (mqk_trans _ s); [ | apply mqk_same; apply mainq_set_start ]
      | |- mqk _ (set_lazyq ?s _) => apply (mqk_trans _ s); [ | apply mqk_same; apply mainq_set_lazyq ]
      | |- mqk _ (set_idleq ?s _) => apply (mqk_trans _ s); [ | apply mqk_same; apply mainq_set_idleq ]
      | |- mqk _ (set_timers ?s _) => apply (mqk_trans _ s); [ | apply mqk_same; apply mainq_set_timers ]
      | |- mqk _ (set_tnext ?s _) => apply (mqk_trans _ s); [ | apply mqk_same; apply mainq_set_tnext ]
      | |- mqk _ (set_tvars ?s _) => apply (mqk_trans _ s); [ | apply mqk_same; apply mainq_set_tvars ]
      | |- mqk _ (set_recreate ?s _) => apply (mqk_trans _ s); [ | apply mqk_same; apply mainq_set_recreate ]
      | |- mqk _ (set_fwds ?s _) => apply (mqk_trans _ s); [ | apply mqk_same; apply mainq_set_fwds ]
      | |- mqk _ (set_env ?s _) => apply (mqk_trans _ s); [ | apply mqk_same; apply mainq_set_env ]
      | |- mqk _ (set_frames ?s _) => apply (mqk_trans _ s); [ | apply mqk_same; apply mainq_set_frames ]
      | |- mqk _ (set_nuid ?s _) => apply (mqk_trans _ s); [ | apply mqk_same; apply mainq_set_nuid ]
      | |- mqk _ (set_logseq ?s _) => apply (mqk_trans _ s); [ | apply mqk_same; apply mainq_set_logseq ]
      | |- mqk _ (set_logfilter ?s _) => apply (mqk_trans _ s); [ | apply mqk_same; apply mainq_set_logfilter ]
      | |- mqk _ (set_haslogger ?s _) => apply (mqk_trans _ s); [ | apply mqk_same; apply mainq_set_haslogger ]
      | |- mqk _ (set_shut ?s _) => apply (mqk_trans _ s); [ | apply mqk_same; apply mainq_set_shut ]
      | |- mqk _ (set_tr ?s _) => apply (mqk_trans _ s); [ | apply mqk_same; apply mainq_set_tr ]
      | |- mqk _ (if ?b then _ else _) => destruct b
      | |- mqk _ (match ?b with Some _ => _ | None => _ end) => destruct b
      | |- mqk _ ?s' =>
          match goal with
          | E : take ?s _ = (_, s') |- _ => apply (mqk_trans _ s); [ | apply mqk_same; apply (mainq_take _ _ _ _ E) ]
          | E : take_caps _ ?s = (_, s') |- _ => apply (mqk_trans _ s); [ | apply mqk_same; apply (mainq_take_caps _ _ _ _ E) ]
          | E : bind ?s _ _ = (_, s') |- _ => apply (mqk_trans _ s); [ | apply mqk_same; apply (mainq_bind _ _ _ _ _ E) ]
          | E : bad ?s _ = (_, s') |- _ => apply (mqk_trans _ s); [ | apply mqk_same; apply (mainq_bad _ _ _ _ E) ]
          | E : inst _ _ ?s = (_, s') |- _ => apply (mqk_trans _ s); [ | apply mqk_same; apply (mainq_inst _ _ _ _ _ E) ]
          | E : inst_call _ _ ?s = (_, s') |- _ => apply (mqk_trans _ s); [ | apply mqk_same; apply (mainq_inst_call _ _ _ _ _ E) ]
          | E : inst_nocaps _ _ ?s = (_, s') |- _ => apply (mqk_trans _ s); [ | apply mqk_same; apply (mainq_inst_nocaps _ _ _ _ _ E) ]
          | E : mk_notifier ?s _ _ = (_, s') |- _ => apply (mqk_trans _ s); [ | apply mqk_same; apply (mainq_mk_notifier _ _ _ _ _ E) ]
          end
      end ].

Ltac mqk_all := solve [intros Q; try injp Q; mqk_tac].

Lemma do_act_mqk act s pre s' : do_act act s = (pre, s') -> mqk s s'.
Proof.
  unfold do_act. destruct act; try solve [repeat dest_match; mqk_all].
Qed.

Lemma mainq_class_flags s : mainq (class_flags s) = mainq s.
Proof.
  unfold class_flags. generalize (actors s) at 1 as all. intros all.
  generalize (actors s) as l. intros l. revert s. induction l as [|p l IH]; intros s; simpl; auto.
  rewrite IH. unfold emit_opt. destruct (class_flag all p); reflexivity.
Qed.

Lemma handle_mqk m s pre s' :
  (forall a lg, m <> MDropOwn a lg) -> handle m s = (pre, s') -> mqk s s'.
Proof.
  intros ND. destruct m; cbn [handle].
  - unfold do_top. destruct o; repeat dest_match; mqk_all.
  - destruct l as [|act l]; [mqk_all|].
    destruct (do_act act s) as [p s1] eqn:E. intros Q; injp Q. eapply do_act_mqk; eauto.
  - destruct (frames s) as [|fr rest]; mqk_all.
  - destruct (frames s) as [|fr rest]; mqk_all.
  - unfold run_item. destruct c as [u i kd caps q]. destruct kd; repeat dest_match; mqk_all.
  - unfold drop_item. destruct c as [u i kd caps q]. destruct kd; mqk_all.
  - mqk_all.
  - unfold drop_val. destruct v; repeat dest_match; mqk_all.
  - exfalso. eapply ND; reflexivity.
  - unfold drop_ref. destruct (aget (actors s) a) as [y|] eqn:A; [|mqk_all].
    destruct (a_freed y); [mqk_all|]. destruct (minrc_drop (a_rc y)) as [[v z]|]; [|mqk_all].
    destruct z; [|mqk_all].
    destruct (state_drops a (a_state y) _) as [dl s2] eqn:SD. intros Q; injp Q.
    destruct (state_drops_h (HO 0) _ _ _ _ _ SD) as [-> _]. mqk_tac.
  - unfold ret_invoke. destruct r as [rid k]. destruct k; repeat dest_match; mqk_all.
  - mqk_all.
  - mqk_all.
  - mqk_all.
  - mqk_all.
  - unfold terminate. destruct (aget (actors s) a) as [y|] eqn:A; [|mqk_all].
    destruct (state_drops a (a_state y) _) as [dl s1] eqn:SD.
    destruct (state_drops_h (HO 0) _ _ _ _ _ SD) as [-> _].
    destruct (a_notify y); intros Q; injp Q; mqk_tac.
  - destruct (aget (actors s) a); mqk_all.
  - destruct (aget (actors s) a) as [y|] eqn:A; [|mqk_all]. destruct (a_state y); mqk_all.
  - unfold fresh_stakker. mqk_all.
  - destruct idle; [destruct (idleq s)|]; mqk_all.
  - destruct (t >? now (set_mainq s [])).
    + destruct (fire t (set_now (set_mainq s []) t)) as [fired s2] eqn:FI. unfold fire in FI. injection FI as ? ?; subst.
      mqk_all.
    + mqk_all.
  - repeat dest_match; mqk_all.
  - repeat dest_match; mqk_all.
  - cbv zeta. mqk_all.
  - repeat dest_match; mqk_all.
  - repeat dest_match; mqk_all.
  - mqk_all.
  - intros Q; injp Q. apply mqk_same. cbn [mainq set_tr]. apply mainq_class_flags.
Qed.

(* the last owner drop: the deferred terminate(Dropped) is queued exactly when the count reaches 0 *)
Lemma drop_own_mq a lg s pre s' :
  (forall c y, aget (actors s) c = Some y -> srange (a_strong y)) -> 0 < ctr (HO a) s < CMAX ->
  drop_own a lg s = (pre, s') ->
  ctr (HO a) s' = ctr (HO a) s - 1 /\ (exists y, aget (actors s') a = Some y) /\
  forall c, In c (mainq s') -> In c (mainq s) \/ (ci_kind c = KTerm a /\ ctr (HO a) s' = 0).
Proof.
  intros SR C. unfold drop_own.
  set (s0 := if lg then emit s (EOwnDrop a) else s).
  assert (A0 : actors s0 = actors s) by (unfold s0; destruct lg; reflexivity).
  assert (M0 : mainq s0 = mainq s) by (unfold s0; destruct lg; reflexivity).
  destruct (ctr_pos_in s a ltac:(lia)) as (y & AY & CY). rewrite A0, AY.
  assert (AY0 : aget (actors s0) a = Some y) by (rewrite A0; exact AY).
  destruct (count_dec (a_strong y)) as [[v z]|] eqn:CD.
  - destruct (cnt_dec _ _ _ (SR _ _ AY) ltac:(lia) CD) as (SV & CV & ZZ).
    assert (C1 : ctr (HO a) (upd_actor s0 a (with_strong y v)) = ctr (HO a) s - 1).
    { rewrite (ctr_upd_some _ _ _ _ _ AY0). unfold ctr at 1. rewrite A0, AY. cbn [cact a_strong with_strong]. rewrite N.eqb_refl. lia. }
    assert (G1 : exists y1, aget (actors (upd_actor s0 a (with_strong y v))) a = Some y1).
    { unfold upd_actor. cbn [actors set_actors]. rewrite aget_aset_eq. eauto. }
    destruct z; intros Q; injp Q.
    + assert (C2 : ctr (HO a) (push_main (ref_clone (upd_actor s0 a (with_strong y v)) a) (CI 0 0 (KTerm a) [] None)) = ctr (HO a) s - 1).
      { rewrite <- C1. unfold ctr. change (actors (push_main ?x _)) with (actors x).
        destruct G1 as (y1 & G1). destruct (opres_some _ _ _ _ (opres_ref_clone _ a) G1) as (y2 & G2 & (S2 & _)).
        rewrite G2, G1, S2. reflexivity. }
      split; [exact C2|]. split.
      * destruct G1 as (y1 & G1). destruct (opres_some _ _ _ _ (opres_ref_clone _ a) G1) as (y2 & G2 & _).
        exists y2. exact G2.
      * intros c H. unfold push_main in H. cbn [mainq set_mainq] in H. rewrite mainq_ref_clone, mainq_upd_actor, M0 in H.
        apply in_app_or in H as [H|[<-|[]]]; [left; exact H | right]. split; [reflexivity|].
        rewrite C2. symmetry in ZZ. apply Z.eqb_eq in ZZ. lia.
    + split; [exact C1|]. split; [exact G1|]. intros c H. rewrite mainq_upd_actor, M0 in H. left; exact H.
  - exfalso. unfold count_dec in CD. destruct (a_strong y <? COUNT_INC) eqn:L; [discriminate|].
    destruct (a_strong y >=? COUNT_MASK); [discriminate|]. cbn [orb] in CD.
    unfold csub in CD. destruct (COUNT_INC <=? a_strong y) eqn:L2; [discriminate|]. zb. lia.
Qed.
